(* Idl/Lex.v — token layer of the parser model (property C03).

   /repo/parser/thrift.peg is a scannerless PEG; every terminal has the shape
   [Skip X Indent*], so the text between two terminals is always a free run of blanks
   and comments ("trivia").  This file splits a byte string into tokens, each with the
   trivia in front of it, the way the grammar's terminals do:

     word     Letter (Letter | Digit | '.')*      Identifier and every keyword; which
              of the two a word is gets decided by position, in Idl/Parse.v
     int      '0x' alnum+ | '0o' Digit+ | [+-]? Digit+              (IntConstant)
     double   [+-]? (Digit* '.' Digit+ Exp? | Digit+ Exp), Exp = [eE][+-]?Digit+
                                                                    (DoubleConstant)
     literal  QUOTE (backslash-quote pairs | any byte but QUOTE)* QUOTE, QUOTE being the
              double or the single quote character                  (Literal)
     punct    { } ( ) [ ] < > , ; : = *

   and gives the values the tree walk of parser.go computes from token texts:
   [unescape] (pegText's loop), [int_value] (strconv.ParseInt base 0, 64 bits),
   [field_id_value] (parseFieldID, 32 bits), [double_value] (strconv.ParseFloat).

   Not mirrored (inputs on which model and implementation may differ; none is produced
   by the printer): an exponent written with blanks, comments or a 0x/0o prefix inside
   ([1e 5], [1e0x10]); bytes that are not valid UTF-8 (the implementation converts the
   source to runes first, so such bytes come back as U+FFFD).

   Definitions only; the facts are in Idl/LexFacts.v. *)
From Coq Require Import List Bool NArith ZArith.
From Coq.Strings Require Import Byte.
From Verif Require Import Base.Bytes.
Import ListNotations.

(* ---------------------------------------------------------------- character classes *)

Definition bn (c : byte) : N := Byte.to_N c.
Definition in_range (lo hi : N) (c : byte) : bool := (N.leb lo (bn c) && N.leb (bn c) hi)%bool.

Definition c_dot : byte := x2e.        (* . *)
Definition c_bs : byte := x5c.         (* \ *)
Definition c_dq : byte := x22.         (* double quote *)
Definition c_sq : byte := x27.         (* single quote *)
Definition c_slash : byte := x2f.      (* / *)
Definition c_star : byte := x2a.       (* * *)
Definition c_hash : byte := x23.       (* # *)
Definition c_plus : byte := x2b.
Definition c_minus : byte := x2d.
Definition c_lf : byte := x0a.
Definition c_cr : byte := x0d.
Definition c_0 : byte := x30.
Definition c_x : byte := x78.
Definition c_o : byte := x6f.
Definition c_e : byte := x65.
Definition c_E : byte := x45.

Definition is_upper (c : byte) : bool := in_range 65 90 c.
Definition is_lower (c : byte) : bool := in_range 97 122 c.
Definition is_digit (c : byte) : bool := in_range 48 57 c.
Definition is_letter (c : byte) : bool := is_upper c || is_lower c || Byte.eqb c x5f.   (* Letter *)
Definition is_alnum (c : byte) : bool := is_digit c || is_upper c || is_lower c.
Definition is_wordc (c : byte) : bool := is_letter c || is_digit c || Byte.eqb c c_dot.
Definition is_nl (c : byte) : bool := Byte.eqb c c_lf || Byte.eqb c c_cr.
Definition is_indent (c : byte) : bool := Byte.eqb c x20 || Byte.eqb c x09 || Byte.eqb c x0b.
Definition is_space (c : byte) : bool := is_indent c || is_nl c.
Definition is_quote (c : byte) : bool := Byte.eqb c c_dq || Byte.eqb c c_sq.
Definition is_sign (c : byte) : bool := Byte.eqb c c_plus || Byte.eqb c c_minus.
Definition is_exp (c : byte) : bool := Byte.eqb c c_e || Byte.eqb c c_E.
Definition is_punct (c : byte) : bool :=
  existsb (Byte.eqb c) [x7b; x7d; x28; x29; x5b; x5d; x3c; x3e; x2c; x3b; x3a; x3d; x2a].
  (*                     {    }    (    )    [    ]    <    >    ,    ;    :    =    *   *)

(* ---------------------------------------------------------------- tokens and trivia *)

Inductive tritem :=
| TrSp (c : byte)            (* one blank: space, tab, vertical tab, CR or LF *)
| TrLine (body : bytes)      (* // body      body has no CR / LF *)
| TrHash (body : bytes)      (* # body       body has no CR / LF *)
| TrBlock (body : bytes).    (* /* body */   body does not contain the closing pair *)
Definition trivia := list tritem.

Inductive token :=
| TWord (w : bytes)
| TInt (s : bytes)           (* the text as written *)
| TDouble (s : bytes)        (* the text as written *)
| TLit (q : byte) (raw : bytes)   (* quote character, text between the quotes as written *)
| TPunct (c : byte).

(* a word of the grammar: Letter (Letter | Digit | '.')* *)
Definition word_ok (w : bytes) : bool :=
  match w with
  | c :: r => is_letter c && forallb is_wordc r
  | [] => false
  end.

(* a token together with the trivia in front of it *)
Notation ltok := (trivia * token)%type (only parsing).

(* ---------------------------------------------------------------- scanning helpers *)

Fixpoint span (p : byte -> bool) (s : bytes) : bytes * bytes :=
  match s with
  | c :: r => if p c then let (a, b) := span p r in (c :: a, b) else ([], s)
  | [] => ([], [])
  end.

(* the body of a block comment: everything up to the first closing pair *)
Fixpoint block_end (s : bytes) : option (bytes * bytes) :=
  match s with
  | [] => None
  | c :: r =>
    match r with
    | d :: r' =>
      if Byte.eqb c c_star && Byte.eqb d c_slash then Some ([], r')
      else match block_end r with Some (b, rest) => Some (c :: b, rest) | None => None end
    | [] => None
    end
  end.

(* Skip = (Space | Comment)*, keeping what was skipped *)
Fixpoint lex_trivia (fuel : nat) (s : bytes) : option (trivia * bytes) :=
  match fuel with
  | O => None
  | S f =>
    match s with
    | [] => Some ([], [])
    | c :: r =>
      if is_space c then
        match lex_trivia f r with Some (tr, rest) => Some (TrSp c :: tr, rest) | None => None end
      else if Byte.eqb c c_hash then
        let (body, rest) := span (fun x => negb (is_nl x)) r in
        match lex_trivia f rest with Some (tr, rest') => Some (TrHash body :: tr, rest') | None => None end
      else if Byte.eqb c c_slash then
        match r with
        | d :: r' =>
          if Byte.eqb d c_slash then
            let (body, rest) := span (fun x => negb (is_nl x)) r' in
            match lex_trivia f rest with Some (tr, rest') => Some (TrLine body :: tr, rest') | None => None end
          else if Byte.eqb d c_star then
            match block_end r' with
            | Some (body, rest) =>
              match lex_trivia f rest with Some (tr, rest') => Some (TrBlock body :: tr, rest') | None => None end
            | None => None                         (* unterminated comment *)
            end
          else Some ([], s)
        | [] => Some ([], s)
        end
      else Some ([], s)
    end
  end.

(* text of a literal: (EscapeLiteralChar / !q .)* up to the closing quote q;
   EscapeLiteralChar is a backslash followed by EITHER quote character *)
Fixpoint lex_lit (q : byte) (s : bytes) : option (bytes * bytes) :=
  match s with
  | [] => None
  | c :: r =>
    if Byte.eqb c c_bs then
      match r with
      | d :: r' =>
        if is_quote d then
          match lex_lit q r' with Some (raw, rest) => Some (c :: d :: raw, rest) | None => None end
        else
          match lex_lit q r with Some (raw, rest) => Some (c :: raw, rest) | None => None end
      | [] => None
      end
    else if Byte.eqb c q then Some ([], r)
    else match lex_lit q r with Some (raw, rest) => Some (c :: raw, rest) | None => None end
  end.

(* Exponent = [eE] [+-]? Digit+ ; returns ([], s) when there is none *)
Definition lex_exponent (s : bytes) : bytes * bytes :=
  match s with
  | e :: r =>
    if is_exp e then
      let (sg, r1) := match r with
                      | c :: r' => if is_sign c then ([c], r') else ([], r)
                      | [] => ([], r)
                      end in
      let (ds, r2) := span is_digit r1 in
      match ds with
      | [] => ([], s)
      | _ => (e :: sg ++ ds, r2)
      end
    else ([], s)
  | [] => ([], s)
  end.

(* [+-]? *)
Definition split_sign (s : bytes) : bytes * bytes :=
  match s with
  | c :: r => if is_sign c then ([c], r) else ([], s)
  | [] => ([], s)
  end.

(* IntConstant at s (no double was found) *)
Definition lex_int (s : bytes) : option (token * bytes) :=
  let dec :=
    let (sg, s1) := split_sign s in
    let (ds, s2) := span is_digit s1 in
    match ds with [] => None | _ => Some (TInt (sg ++ ds), s2) end in
  match s with
  | z :: p :: r =>
    if Byte.eqb z c_0 && Byte.eqb p c_x then
      let (hs, r2) := span is_alnum r in
      match hs with [] => dec | _ => Some (TInt (z :: p :: hs), r2) end
    else if Byte.eqb z c_0 && Byte.eqb p c_o then
      let (os, r2) := span is_digit r in
      match os with [] => dec | _ => Some (TInt (z :: p :: os), r2) end
    else dec
  | _ => dec
  end.

(* ConstValue tries DoubleConstant before IntConstant *)
Definition lex_number (s : bytes) : option (token * bytes) :=
  let (sg, s1) := split_sign s in
  let (d1, s2) := span is_digit s1 in
  let with_exp :=
    match d1 with
    | [] => lex_int s
    | _ => match lex_exponent s2 with
           | ([], _) => lex_int s
           | (ex, s3) => Some (TDouble (sg ++ d1 ++ ex), s3)
           end
    end in
  match s2 with
  | c :: s3 =>
    if Byte.eqb c c_dot then
      let (d2, s4) := span is_digit s3 in
      match d2 with
      | [] => with_exp
      | _ => let (ex, s5) := lex_exponent s4 in Some (TDouble (sg ++ d1 ++ c :: d2 ++ ex), s5)
      end
    else with_exp
  | [] => with_exp
  end.

(* one token at s (s starts with no trivia) *)
Definition lex_token (s : bytes) : option (token * bytes) :=
  match s with
  | [] => None
  | c :: r =>
    if is_letter c then let (w, rest) := span is_wordc r in Some (TWord (c :: w), rest)
    else if is_digit c || is_sign c || Byte.eqb c c_dot then lex_number s
    else if is_quote c then
      match lex_lit c r with Some (raw, rest) => Some (TLit c raw, rest) | None => None end
    else if is_punct c then Some (TPunct c, r)
    else None
  end.

(* the whole input: tokens with their leading trivia, and the trivia before the end *)
Fixpoint lex_all (fuel : nat) (s : bytes) : option (list ltok * trivia) :=
  match fuel with
  | O => None
  | S f =>
    match lex_trivia (S (List.length s)) s with
    | None => None
    | Some (tr, []) => Some ([], tr)
    | Some (tr, rest) =>
      match lex_token rest with
      | None => None
      | Some (t, rest') =>
        match lex_all f rest' with
        | Some (ts, fin) => Some ((tr, t) :: ts, fin)
        | None => None
        end
      end
    end
  end.

Definition lex (s : bytes) : option (list ltok * trivia) := lex_all (S (List.length s)) s.

(* ---------------------------------------------------------------- printing tokens back *)

Definition tritem_bytes (i : tritem) : bytes :=
  match i with
  | TrSp c => [c]
  | TrLine b => c_slash :: c_slash :: b
  | TrHash b => c_hash :: b
  | TrBlock b => c_slash :: c_star :: b ++ [c_star; c_slash]
  end.
Definition trivia_bytes (tr : trivia) : bytes := List.concat (map tritem_bytes tr).

Definition token_bytes (t : token) : bytes :=
  match t with
  | TWord w => w
  | TInt s => s
  | TDouble s => s
  | TLit q raw => q :: raw ++ [q]
  | TPunct c => [c]
  end.

Definition ltok_bytes (lt : ltok) : bytes := trivia_bytes (fst lt) ++ token_bytes (snd lt).
Definition ltoks_bytes (lts : list ltok) (fin : trivia) : bytes :=
  List.concat (map ltok_bytes lts) ++ trivia_bytes fin.

(* ---------------------------------------------------------------- comments recorded by the parser *)

(* the text parseReservedComments keeps for one comment: a leading hash is replaced by two slashes *)
Definition comment_text (i : tritem) : option bytes :=
  match i with
  | TrSp _ => None
  | TrLine b => Some (c_slash :: c_slash :: b)
  | TrHash b => Some (c_slash :: c_slash :: b)
  | TrBlock b => Some (c_slash :: c_star :: b ++ [c_star; c_slash])
  end.

Fixpoint join_lines (l : list bytes) : bytes :=
  match l with
  | [] => []
  | [x] => x
  | x :: r => x ++ c_lf :: join_lines r
  end.

(* strings.Join(comments, LF) over the comments of a trivia run *)
Definition comments_of (tr : trivia) : bytes :=
  join_lines (flat_map (fun i => match comment_text i with Some c => [c] | None => [] end) tr).

Definition tr_is_nl (i : tritem) : bool := match i with TrSp c => is_nl c | _ => false end.

(* SkipLine = (Indent | Comment)*: the part of a trivia run up to the first line break
   that is not inside a comment, and what is left *)
Fixpoint same_line (tr : trivia) : trivia :=
  match tr with
  | [] => []
  | i :: r => if tr_is_nl i then [] else i :: same_line r
  end.
Fixpoint after_line (tr : trivia) : trivia :=
  match tr with
  | [] => []
  | i :: r => if tr_is_nl i then tr else after_line r
  end.

(* ---------------------------------------------------------------- pegText: unescaping *)

(* parser.go pegText, the loop over the captured text [t] with enclosing quote [q]:
     for i := begin; i < end-1; i++ {
        r := buffer[i]
        if r == BACKSLASH { switch buffer[i+1] { case BACKSLASH: i++; append r   case quote: continue } }
        append r }
     append buffer[end-1]                                                          *)
Fixpoint unescape (q : byte) (t : bytes) : bytes :=
  match t with
  | [] => []
  | c :: r =>
    match r with
    | [] => [c]
    | d :: r' =>
      if Byte.eqb c c_bs then
        if Byte.eqb d c_bs then
          match r' with
          | [] => [c; c; d]
          | _ => c :: c :: unescape q r'
          end
        else if Byte.eqb d q then unescape q r
        else c :: unescape q r
      else c :: unescape q r
    end
  end.

(* the text a printer has to put between quotes q so that [unescape q] gives s back *)
Fixpoint escape (q : byte) (s : bytes) : bytes :=
  match s with
  | [] => []
  | c :: r => if Byte.eqb c q then c_bs :: c :: escape q r else c :: escape q r
  end.

(* ---------------------------------------------------------------- integers *)

Definition digit_val (c : byte) : Z := (Z.of_N (bn c) - 48)%Z.
Definition hex_val (c : byte) : option Z :=
  if is_digit c then Some (Z.of_N (bn c) - 48)%Z
  else if in_range 97 102 c then Some (Z.of_N (bn c) - 87)%Z
  else if in_range 65 70 c then Some (Z.of_N (bn c) - 55)%Z
  else None.

(* magnitude of a digit string in the given base; None on a digit that does not belong *)
Fixpoint magnitude (base : Z) (acc : Z) (s : bytes) : option Z :=
  match s with
  | [] => Some acc
  | c :: r =>
    match hex_val c with
    | Some d => if (d <? base)%Z then magnitude base (acc * base + d)%Z r else None
    | None => None
    end
  end.

Inductive radix_rule := Base0 | Base10Prefixed.

(* strconv.ParseInt(text, base, bits) on the texts the grammar lets through.
   Result: (value, ok); on a syntax error the value is 0, on a range error it is the
   nearest representable value (Go returns both the clamped value and an error). *)
Definition go_parse_int (rule : radix_rule) (bits : Z) (text : bytes) : Z * bool :=
  let '(neg, body) :=
    match text with
    | c :: r => if Byte.eqb c c_minus then (true, r) else if Byte.eqb c c_plus then (false, r) else (false, text)
    | [] => (false, text)
    end in
  let '(base, ds) :=
    match body with
    | z :: p :: r =>
      if Byte.eqb z c_0 && Byte.eqb p c_x then (16, r)
      else if Byte.eqb z c_0 && Byte.eqb p c_o then (8, r)
      else match rule with
           | Base0 => if Byte.eqb z c_0 then (8, p :: r) else (10, body)
           | Base10Prefixed => (10, body)
           end
    | _ => (10, body)
    end%Z in
  match ds with
  | [] => (0, false)%Z
  | _ =>
    match magnitude base 0 ds with
    | None => (0, false)%Z
    | Some m =>
      let hi := (2 ^ (bits - 1) - 1)%Z in
      let lo := (- 2 ^ (bits - 1))%Z in
      let v := if neg then (- m)%Z else m in
      if (v >? hi)%Z then (hi, false) else if (v <? lo)%Z then (lo, false) else (v, true)
    end
  end.

(* constants: an error makes the parse fail *)
Definition int_value (text : bytes) : option Z :=
  let (v, ok) := go_parse_int Base0 64 text in if ok then Some v else None.
(* enum values: the error is dropped *)
Definition enum_int_value (text : bytes) : Z := fst (go_parse_int Base0 64 text).
(* field ids (parseFieldID after the repair): base 10 unless 0x / 0o prefixed, 32 bits,
   error dropped *)
Definition field_id_value (text : bytes) : Z := fst (go_parse_int Base10Prefixed 32 text).
(* the unrepaired code: always base 10 *)
Definition field_id_value_unrepaired (text : bytes) : Z :=
  let '(neg, body) :=
    match text with
    | c :: r => if Byte.eqb c c_minus then (true, r) else if Byte.eqb c c_plus then (false, r) else (false, text)
    | [] => (false, text)
    end in
  match body with
  | [] => 0%Z
  | _ => match magnitude 10 0 body with
         | None => 0%Z
         | Some m => let v := if neg then (- m)%Z else m in
                     if (v >? 2147483647)%Z then 2147483647%Z
                     else if (v <? -2147483648)%Z then (-2147483648)%Z else v
         end
  end.

(* ---------------------------------------------------------------- doubles *)

(* round-half-even of the positive rational a / b *)
Definition div_rne (a b : Z) : Z :=
  let q := (a / b)%Z in
  let r := (a mod b)%Z in
  match (2 * r ?= b)%Z with
  | Lt => q
  | Gt => (q + 1)%Z
  | Eq => if Z.even q then q else (q + 1)%Z
  end.

(* nearest binary64 (ties to even) of num / den, num, den > 0, as a bit pattern without sign *)
Definition round_binary64 (num den : Z) : Z :=
  (* e2 = floor (log2 (num / den)) *)
  let e0 := (Z.log2 num - Z.log2 den)%Z in
  let ge (e : Z) := if (0 <=? e)%Z then (den * 2 ^ e <=? num)%Z else (den <=? num * 2 ^ (- e))%Z in
  let e2 := if ge e0 then (if ge (e0 + 1)%Z then (e0 + 1)%Z else e0) else (e0 - 1)%Z in
  if (e2 <? -1022)%Z then
    (* subnormal range: multiples of 2^-1074; a carry into 2^52 is the smallest normal *)
    div_rne (num * 2 ^ 1074) den
  else
    let sh := (52 - e2)%Z in
    let q := if (0 <=? sh)%Z then div_rne (num * 2 ^ sh) den else div_rne num (den * 2 ^ (- sh)) in
    let '(q, e2) := if (q =? 2 ^ 53)%Z then (2 ^ 52, e2 + 1)%Z else (q, e2) in
    if (e2 >? 1023)%Z then (2047 * 2 ^ 52)%Z          (* infinity *)
    else ((e2 + 1023) * 2 ^ 52 + (q - 2 ^ 52))%Z.

Definition digits_val (s : bytes) : Z := fold_left (fun acc c => (acc * 10 + digit_val c)%Z) s 0%Z.

(* strconv.ParseFloat(text, 64) on the spellings [lex_number] produces, as bits *)
Definition double_value (text : bytes) : N :=
  let '(neg, body) :=
    match text with
    | c :: r => if Byte.eqb c c_minus then (true, r) else if Byte.eqb c c_plus then (false, r) else (false, text)
    | [] => (false, text)
    end in
  let (ip, r1) := span is_digit body in
  let (fp, r2) := match r1 with
                  | c :: r => if Byte.eqb c c_dot then span is_digit r else ([], r1)
                  | [] => ([], r1)
                  end in
  let ex : Z :=
    match r2 with
    | e :: r =>
      if is_exp e then
        match r with
        | c :: r' => if Byte.eqb c c_minus then (- digits_val r')%Z
                     else if Byte.eqb c c_plus then digits_val r' else digits_val r
        | [] => 0%Z
        end
      else 0%Z
    | [] => 0%Z
    end in
  let m := digits_val (ip ++ fp) in
  let e10 := (ex - Z.of_nat (List.length fp))%Z in
  (* 10^dl <= m < 10^dh: crude bounds that keep the powers below small *)
  let dl := (Z.log2 m * 3 / 10)%Z in
  let dh := (Z.log2 m + 1)%Z in
  let mag : Z :=
    if (m =? 0)%Z then 0%Z
    else if (e10 + dl >? 400)%Z then (2047 * 2 ^ 52)%Z        (* certainly overflows *)
    else if (e10 + dh <? -400)%Z then 0%Z                     (* certainly rounds to zero *)
    else if (0 <=? e10)%Z then round_binary64 (m * 10 ^ e10) 1
    else round_binary64 m (10 ^ (- e10)) in
  Z.to_N (if neg then (mag + 2 ^ 63)%Z else mag).
