// c12 produces correspondence cases for property C12: histories of
// FileManager.Feed calls followed by BuildResponse, run on the real
// generator.FileManager of /repo, with the observed output.
package main

import (
	"flag"
	"fmt"
	"os"
	"strings"

	"github.com/cloudwego/thriftgo/generator"
	"github.com/cloudwego/thriftgo/generator/backend"
	"github.com/cloudwego/thriftgo/plugin"

	"verif/harness/casefile"
	"verif/harness/coqfmt"
	"verif/harness/rng"
)

type Item struct {
	Name    *string `json:"name,omitempty"`
	IP      string  `json:"ip"`
	Content string  `json:"content"`
}

type Out struct {
	Name    string `json:"name"`
	Content string `json:"content"`
}

type Case struct {
	Kind    string   `json:"kind"`
	History [][]Item `json:"history"`
	Err     bool     `json:"err"`
	Panic   string   `json:"panic,omitempty"`
	Outs    []Out    `json:"outs"`
}

func mk(point string) string { return plugin.InsertionPoint(point) }

func runImpl(h [][]Item) (c Case) {
	c.History = h
	defer func() {
		if r := recover(); r != nil {
			c.Panic = fmt.Sprint(r)
			c.Err = true
		}
	}()
	fm := generator.NewFileManager(backend.DummyLogFunc())
	for i, call := range h {
		var gs []*plugin.Generated
		for _, it := range call {
			g := &plugin.Generated{Content: it.Content}
			if it.Name != nil {
				n := *it.Name
				g.Name = &n
			}
			if it.IP != "" {
				ip := it.IP
				g.InsertionPoint = &ip
			}
			gs = append(gs, g)
		}
		if err := fm.Feed(fmt.Sprintf("src%d", i), gs); err != nil {
			c.Err = true
			return
		}
	}
	res := fm.BuildResponse()
	for _, g := range res.Contents {
		c.Outs = append(c.Outs, Out{g.GetName(), g.Content})
	}
	return
}

func coqItem(it Item) string {
	if it.Name == nil {
		return fmt.Sprintf("Up %s %s", coqfmt.Bytes(it.IP), coqfmt.Bytes(it.Content))
	}
	if it.IP == "" {
		return fmt.Sprintf("Fl %s %s", coqfmt.Bytes(*it.Name), coqfmt.Bytes(it.Content))
	}
	return fmt.Sprintf("Np %s %s %s", coqfmt.Bytes(*it.Name), coqfmt.Bytes(it.IP), coqfmt.Bytes(it.Content))
}

func coqCase(c Case) string {
	var calls []string
	for _, call := range c.History {
		var items []string
		for _, it := range call {
			items = append(items, coqItem(it))
		}
		calls = append(calls, coqfmt.List(items))
	}
	obs := "None"
	if !c.Err {
		var outs []string
		for _, o := range c.Outs {
			outs = append(outs, fmt.Sprintf("(%s, %s)", coqfmt.Bytes(o.Name), coqfmt.Bytes(o.Content)))
		}
		obs = "(Some " + coqfmt.List(outs) + ")"
	}
	return fmt.Sprintf("mkcase %s %s", coqfmt.List(calls), obs)
}

func sp(s string) *string { return &s }

type stats struct {
	Evaluations        int            `json:"evaluations"`
	DistinctNontrivial int            `json:"distinct_nontrivial"`
	Rule               string         `json:"rule"`
	Kinds              map[string]int `json:"kinds"`
	ItemsHist          map[int]int    `json:"items_per_history"`
	CallsHist          map[int]int    `json:"feed_calls_per_history"`
	ErrCount           int            `json:"impl_errors"`
	RenameCases        int            `json:"histories_with_rename"`
	DropCases          int            `json:"histories_with_identical_resubmission"`
	PatchCases         int            `json:"histories_with_patch"`
	Exhaustive         string         `json:"exhaustive_space"`
	Samples            []Case         `json:"samples"`
	Panics             int            `json:"impl_panics"`
}

func main() {
	seed := flag.Uint64("seed", 1, "seed")
	tier := flag.String("tier", "quick", "quick|thorough")
	out := flag.String("out", ".", "output directory")
	flag.Parse()

	w := casefile.New(*out, "From Verif Require Import Base.Bytes Gen.FileManager Corr.C12.", 400)
	st := &stats{Kinds: map[string]int{}, ItemsHist: map[int]int{}, CallsHist: map[int]int{}}
	seen := map[string]bool{}

	add := func(kind string, h [][]Item) {
		c := runImpl(h)
		c.Kind = kind
		st.Evaluations++
		st.Kinds[kind]++
		n := 0
		names := map[string]int{}
		hasPatch := false
		for _, call := range h {
			n += len(call)
			for _, it := range call {
				if it.Name == nil || it.IP != "" {
					hasPatch = true
				}
				if it.Name != nil && it.IP == "" {
					names[*it.Name]++
				}
			}
		}
		st.ItemsHist[n]++
		st.CallsHist[len(h)]++
		if c.Err {
			st.ErrCount++
		}
		if c.Panic != "" {
			st.Panics++
		}
		repeat := false
		for _, k := range names {
			if k > 1 {
				repeat = true
			}
		}
		if hasPatch {
			st.PatchCases++
		}
		nfiles := 0
		for _, k := range names {
			nfiles += k
		}
		if !c.Err {
			if len(c.Outs) > len(names) {
				st.RenameCases++
			}
			if repeat && len(c.Outs) < nfiles {
				st.DropCases++
			}
		}
		key := coqCase(Case{History: h})
		if n >= 2 && (repeat || hasPatch) && !seen[key] {
			seen[key] = true
			st.DistinctNontrivial++
		}
		if len(st.Samples) < 6 && n >= 3 && repeat && hasPatch && st.Evaluations%97 == 0 {
			st.Samples = append(st.Samples, c)
		}
		if err := w.Add(coqCase(c), c); err != nil {
			fmt.Fprintln(os.Stderr, err)
			os.Exit(2)
		}
	}

	// ---- corpus: minimised histories that once failed or that pin a known finding ----
	corpus := [][][]Item{
		// rename collision with a submitted name of the shape a rename produces
		{{{Name: sp("a_1.go"), Content: "X"}, {Name: sp("a.go"), Content: "A"}, {Name: sp("a.go"), Content: "B"}}},
		{{{Name: sp("a_1.go"), Content: "B"}, {Name: sp("a.go"), Content: "A"}, {Name: sp("a.go"), Content: "B"}, {Name: sp("a.go"), Content: "B"}, {Name: sp("a.go"), Content: "C"}}},
		{{{Name: sp("a.go"), Content: "A"}, {Name: sp("a.go"), Content: "B"}, {Name: sp("a_2.go"), Content: "X"}, {Name: sp("a.go"), Content: "C"}, {Name: sp("a.go"), Content: "X"}, {Name: sp("a_1.go"), Content: "Y"}}},
		// a named patch whose target was never submitted (known finding C12-named-patch-no-target)
		{{{Name: sp("a.go"), IP: "p", Content: "patch"}}},
		// unnamed first item: error
		{{{IP: "p", Content: "patch"}}},
		{{{Name: sp("a.go"), Content: "A"}}, {{IP: "p", Content: "patch"}}},
		// dropped duplicate takes its unnamed patches with it
		{{{Name: sp("a.go"), Content: "x" + mk("p") + "y"}, {Name: sp("a.go"), Content: "x" + mk("p") + "y"}, {IP: "p", Content: "LOST"}, {Name: sp("a.go"), IP: "p", Content: "KEPT"}}},
		// patch order, several occurrences, markers without patches, unterminated marker
		{{{Name: sp("a.go"), Content: mk("p") + "-" + mk("q") + "-" + mk("p") + "-@@thriftgo_insertion_point(p"}, {IP: "p", Content: "1"}, {IP: "p", Content: "2"}, {IP: "zz", Content: "3"}}},
		// insertion point names outside the marker alphabet: one key of the replacer is a prefix of
		// another; the longer key wins whatever order the table delivers them in (repaired defect:
		// the keys used to be listed in map order)
		{{{Name: sp("a.go"), Content: "x" + mk("a)b") + "y"}, {IP: "a)b", Content: "P"}}},
		{{{Name: sp("a.go"), Content: "x" + mk("a)b") + "y" + mk("a") + "z"}, {IP: "a", Content: "1"}, {IP: "a)b", Content: "2"}}},
		{{{Name: sp("a.go"), Content: "x" + mk("a)b") + "y" + mk("a") + "z"}, {IP: "a)b", Content: "2"}, {IP: "a", Content: "1"}}},
		{{{Name: sp("a.go"), Content: mk("a)b)c") + "-" + mk("a)b") + "-" + mk("a") + "-" + mk("a)c")}, {IP: "a)b)c", Content: "3"}, {IP: "a", Content: "1"}, {IP: "a)b", Content: "2"}}},
		{{{Name: sp("a.go"), Content: mk("p") + "q)" + mk("p)q")}}, {{Name: sp("a.go"), IP: "p)q", Content: "L"}, {Name: sp("a.go"), IP: "p", Content: "S"}}},
	}
	for _, h := range corpus {
		add("corpus", h)
	}
	// the same histories again: a table listed in map order gives different texts on different runs
	for rep := 0; rep < 6; rep++ {
		for _, h := range corpus[len(corpus)-5:] {
			add("corpus-overlap", h)
		}
	}

	// ---- exhaustive small histories ----
	names := []string{"a.go", "a_1.go", "b"}
	contents := []string{"A", "B", "x" + mk("p") + "y"}
	var alphabet []Item
	for _, n := range names {
		for _, c := range contents {
			alphabet = append(alphabet, Item{Name: sp(n), Content: c})
		}
	}
	alphabet = append(alphabet, Item{IP: "p", Content: "P"}, Item{IP: "q", Content: "Q"})
	alphabet = append(alphabet, Item{Name: sp("a.go"), IP: "p", Content: "R"}, Item{Name: sp("a_1.go"), IP: "p", Content: "S"})
	maxLen := 3
	if *tier == "thorough" {
		maxLen = 4
	}
	st.Exhaustive = fmt.Sprintf("all single-Feed histories of length <= %d over %d items, and every split of each length-3 history into two Feed calls", maxLen, len(alphabet))
	var rec func(prefix []Item, depth int)
	rec = func(prefix []Item, depth int) {
		if len(prefix) > 0 {
			h := append([]Item(nil), prefix...)
			add("exhaustive", [][]Item{h})
			if len(h) == 3 {
				for cut := 1; cut < 3; cut++ {
					add("exhaustive-split", [][]Item{h[:cut], h[cut:]})
				}
			}
		}
		if depth == maxLen {
			return
		}
		for _, it := range alphabet {
			rec(append(prefix, it), depth+1)
		}
	}
	rec(nil, 0)

	// ---- random longer histories ----
	r := rng.New(*seed)
	rnames := []string{"a.go", "a_1.go", "a_2.go", "a_1_1.go", "b", "b_1", "d/a.go", "d.x/a", "a.b.go", "", "_1"}
	ips := []string{"p", "q", "p.q", "$x", "r-s", "", "Q_9", "p)q", "p)"}
	piece := func() string {
		switch r.Intn(8) {
		case 0, 1:
			return mk(rng.Pick(r, ips))
		case 2:
			return "@@thriftgo_insertion_point(" + rng.Pick(r, ips)
		case 3:
			return "@@thriftgo_insertion_point"
		case 4:
			return "\n"
		default:
			return rng.Pick(r, []string{"A", "B", "C", "func f() {}", "@", ")", "("})
		}
	}
	content := func() string {
		if r.Chance(1, 3) {
			return rng.Pick(r, []string{"A", "B", "C", ""})
		}
		var b strings.Builder
		for i, n := 0, r.Range(1, 5); i < n; i++ {
			b.WriteString(piece())
		}
		return b.String()
	}
	nrand := 1500
	if *tier == "thorough" {
		nrand = 12000
	}
	for i := 0; i < nrand; i++ {
		ncalls := r.Range(1, 3)
		pool := rnames[:r.Range(2, len(rnames))]
		var h [][]Item
		for c := 0; c < ncalls; c++ {
			var call []Item
			for k, n := 0, r.Range(0, 6); k < n; k++ {
				switch r.Intn(10) {
				case 0, 1:
					call = append(call, Item{IP: rng.Pick(r, ips), Content: content()})
				case 2, 3:
					call = append(call, Item{Name: sp(rng.Pick(r, pool)), IP: rng.Pick(r, ips[:5]), Content: content()})
				default:
					call = append(call, Item{Name: sp(rng.Pick(r, pool)), Content: content()})
				}
			}
			h = append(h, call)
		}
		add("random", h)
	}

	if err := w.Close(); err != nil {
		fmt.Fprintln(os.Stderr, err)
		os.Exit(2)
	}
	st.Rule = "a history is non-trivial when it has >= 2 items and either repeats a file name or contains a patch; distinct = distinct Coq term of the history"
	if err := casefile.WriteMeta(*out, map[string]interface{}{"stats": st, "shards": w.Shards, "total": w.Total()}); err != nil {
		fmt.Fprintln(os.Stderr, err)
		os.Exit(2)
	}
}
