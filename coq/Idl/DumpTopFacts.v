(* Idl/DumpTopFacts.v — property C17, part 4: the round trip as one statement, and witnesses
   for what remains wrong. *)
From Coq Require Import List Bool NArith ZArith Lia Arith.
From Coq.Strings Require Import Byte String.
From Verif Require Import Base.Bytes Idl.Ast Idl.AstFacts Idl.Lex Idl.LexFacts Idl.Parse Idl.Print Idl.PrintFacts Idl.Dump Idl.DumpFacts.
From Verif Require Import Idl.DumpLexFacts Idl.DumpParseFacts.
Import ListNotations.

(* ---- c17_norm does not look at recorded comments *)
Section NormStrip.
  Let NC := fun _ : bytes => @nil byte.
  Let I1 := fun t : ty => t.
  Let I2 := fun c : const_value => c.

  Lemma nf_strip f : map_field norm_ty norm_cv NC (map_field I1 I2 NC f) = map_field norm_ty norm_cv NC f.
  Proof. destruct f as [id n r t d an cm]. unfold map_field. cbn. destruct d; reflexivity. Qed.

  Lemma nfs_strip l : map (map_field norm_ty norm_cv NC) (map (map_field I1 I2 NC) l) = map (map_field norm_ty norm_cv NC) l.
  Proof. rewrite map_map. apply map_ext. apply nf_strip. Qed.

  Lemma nfn_strip f : map_function norm_ty norm_cv NC (map_function I1 I2 NC f) = map_function norm_ty norm_cv NC f.
  Proof. destruct f. unfold map_function. cbn. rewrite !nfs_strip. reflexivity. Qed.

  Lemma ne_strip e : map_enum NC (map_enum NC e) = map_enum NC e.
  Proof. destruct e as [n vs an cm]. unfold map_enum. cbn. rewrite map_map. reflexivity. Qed.
  Lemma nsl_strip s : map_struct_like norm_ty norm_cv NC (map_struct_like I1 I2 NC s) = map_struct_like norm_ty norm_cv NC s.
  Proof. destruct s as [k n fs an cm]. unfold map_struct_like. cbn. rewrite nfs_strip. reflexivity. Qed.
  Lemma nsv_strip s : map_service norm_ty norm_cv NC true (map_service I1 I2 NC false s) = map_service norm_ty norm_cv NC true s.
  Proof.
    destruct s as [n e fns an rf cm]. unfold map_service. cbn. rewrite map_map.
    f_equal. apply map_ext. apply nfn_strip.
  Qed.

  Lemma c17_norm_strip b : c17_norm (strip_comments b) = c17_norm b.
  Proof.
    destruct b as [fname incs cpp nss tds cs es ss us xs svs n2c].
    unfold c17_norm, strip_comments, map_file.
    cbn [f_filename f_includes f_cpp_includes f_namespaces f_typedefs f_constants f_enums f_structs f_unions
         f_exceptions f_services f_name2cat].
    fold NC I1 I2. rewrite !map_map.
    f_equal; apply map_ext;
      first [ apply ne_strip | apply nsl_strip | apply nsv_strip | intros []; reflexivity ].
  Qed.
End NormStrip.

(* ---- the round trip *)
Theorem dump_roundtrip fmt a : dump_ok fmt a = true -> view_ok fmt a = true ->
  exists b, parse (f_filename a) (dump fmt a) = Some b /\ c17_norm b = c17_norm a.
Proof.
  intros Hd Hv. destruct (parse_dump fmt a Hd) as (b & Hp & Hs).
  exists b. split; [exact Hp|].
  rewrite <- (c17_norm_strip b), Hs, c17_norm_strip. apply dump_view_equal. exact Hv.
Qed.

(* ---- a file with nothing to print is dumped as the empty text, which the parser reads as the
   empty file (since the repair of parser.parse(), commit 6a3edb3; before it the zero-byte
   document was an error: [parse_unrepaired]) *)
Theorem dump_empty_file n fmt :
  dump fmt (empty_file n) = [] /\ parse n (dump fmt (empty_file n)) = Some (empty_file n) /\
  dump_ok fmt (empty_file n) = true /\ parse_unrepaired n (dump fmt (empty_file n)) = None.
Proof. repeat split. Qed.

(* ---- not constrained by the property: the cpp_type of a container is not written *)
Definition cpp_type_sample : file :=
  File (B "m.thrift") [] [] [] [Typedef (ty_plain kw_list None (Some (ty_named (B "i32"))) (B "std::list") []) (B "L") [] []]
       [] [] [] [] [] [] None.

Theorem dump_drops_cpp_type :
  exists b, parse (B "m.thrift") (dump (fun _ => []) cpp_type_sample) = Some b /\
            file_eqb b cpp_type_sample = false /\ c17_eqb b cpp_type_sample = true.
Proof. eexists. split; [vm_compute; reflexivity | split; vm_compute; reflexivity]. Qed.

(* ---- the hypotheses are satisfiable: a file with every kind of node in the domain *)
Definition sample_fmt (d : N) : bytes := if N.eqb d 4609434218613702656 then B "1.5" else if N.eqb d 4617315517961601024 then B "5" else [].
Definition sample_file : file :=
  File (B "s.thrift")
    [Include (B "a""b.thrift") None None]
    [B "<x&y>"]
    [Namespace (B "go") (B "a.b") [Anno (B "k") [B "&"; hx "61 5c 22 62"]]; Namespace [p_star] (B "n") []]
    [Typedef (ty_plain kw_map (Some (ty_named (B "string"))) (Some (ty_plain kw_list None (Some (ty_plain (B "i32") None None [] [Anno (B "e") [B "#OUTQUOTES"]])) [] [])) [] []) (B "T") [Anno (B "t") [B "##34;"]] (B "// leading comment of T")]
    [Constant (B "c") (ty_named (B "double")) (CList [CDouble 4609434218613702656; CDouble 4617315517961601024; CInt (-7); CLiteral (B "it's"); CMap [(CIdent (B "E.A") None, CList [])]]) [] []]
    [Enum (B "E") [EnumValue (B "A") (-3) [] (hx "2f 2f 20 61 0a 2f 2a 20 62 20 2a 2f"); EnumValue (B "B") 0 [Anno (B "x") [B "y"]] []] [] (B "/* block */")]
    [StructLike SKStruct (B "S") [Field (-1) (B "a") ReqOptional (ty_named (B "i32")) (Some (CInt 5)) [Anno (B "k") [B "v"]] []; Field 2 (B "b") ReqDefault (ty_named (B "T")) None [] (B "// end of line comment of b")] [] (hx "2f 2f 20 6f 6e 65 0a 2f 2f 20 74 77 6f")]
    [StructLike SKUnion (B "U") [] [] []]
    [StructLike SKException (B "X") [Field 1 (B "m") ReqRequired (ty_named (B "string")) None [] []] [] []]
    [Service (B "Sv") (B "Base") [Function (B "f") true true (ty_named kw_void) [Field 1 (B "a") ReqDefault (ty_named (B "i32")) (Some (CInt 5)) [Anno (B "k") [B "v"]] []] [] [] (B "// doc of f");
                                   Function (B "g") false false (ty_named (B "S")) [] [Field 1 (B "e") ReqOptional (ty_named (B "X")) None [] []; Field 2 (B "e2") ReqOptional (ty_named (B "X")) None [] []] [Anno (B "fn") [B "z"]] []] [] None []]
    None.

Example sample_in_domain : dump_ok sample_fmt sample_file = true /\ view_ok sample_fmt sample_file = true.
Proof. split; vm_compute; reflexivity. Qed.
