(* Wire/UnknownWriteFacts.v — when the old keep-aware code's Write accepts what it read (Wire/UnknownDomain.v).

     keep_write_total_w   v written by new code, read by old keep-aware code into x: if x is writable
                          (every union has exactly one declared member set, no set has two equal
                          elements) then the old code's Write succeeds
     keep_roundtrip_total the round trip new -> old(keep) -> new under the decidable hypothesis
                          keep_accepts o n so sn v, with no assumption about Write's outcome
     chain_total          chains of any length under decidable hypotheses only                    *)
From Coq Require Import List ZArith Bool Lia.
From Coq.Strings Require Import Byte.
From Verif Require Import Base.Bytes Base.BE Wire.TType Wire.WVal Wire.Codec Wire.CodecFacts Wire.Schema Wire.Value
  Wire.GenTables Wire.Std Wire.StdFacts Wire.Unknown Wire.UnknownCodecFacts Wire.UnknownEvoFacts Wire.UnknownReadFacts
  Wire.UnknownFacts Wire.UnknownDomain.
Import ListNotations.
Open Scope Z_scope.

Lemma kmapM_exists {A B} (f : A -> kres B) l :
  (forall x, In x l -> exists y, f x = KOk y) -> exists ys, kmapM f l = KOk ys.
Proof.
  induction l as [|a l IH]; intro H; cbn [kmapM]; [eauto|].
  destruct (H a (or_introl eq_refl)) as (y & ->).
  destruct IH as (ys & ->); [intros x Hx; apply H; right; assumption|]. eauto.
Qed.

Lemma Forall2_In_r {A B} (R : A -> B -> Prop) l l' y : Forall2 R l l' -> In y l' -> exists x, In x l /\ R x y.
Proof.
  induction 1 as [|a b l l' Hab _ IH]; intro Hin; [contradiction|].
  destruct Hin as [<-|Hin]; [exists a; split; [left; reflexivity | assumption]|].
  destruct (IH Hin) as (x & Hx & Hr). exists x. split; [right; assumption | assumption].
Qed.

Section Write.
  Variables o n : env.
  Hypothesis Hext : extendsb o n = true.
  Hypothesis Hwfo : wf_env o = true.
  Hypothesis Hwfn : wf_env n = true.
  Hypothesis Hopt : opt_defaults_ok o n = true.

  Definition T (v : value) : Prop := forall t key w x,
    wt_val n key t v = true -> keepable n t v = true -> closed_ty o t = true ->
    to_w n t v = Ok w -> from_wk o t w = KOk x -> writable o t x = true ->
    exists w', to_wk o t x = KOk w'.

  Lemma T_base v : is_base_value v = true -> T v.
  Proof.
    intros Hb t key w x Hwt _ _ Hw Hx _. destruct v; try discriminate;
      destruct t; try discriminate; cbn [to_w] in Hw; injection Hw as <-;
      cbn [from_wk lift from_w] in Hx; injection Hx as <-; cbn [to_wk lift to_w]; eauto.
  Qed.

  Lemma T_nil : T VNil.
  Proof.
    intros t key w x Hwt Hkp Hc Hw Hx _. destruct t; try discriminate.
    - cbn [to_w] in Hw. injection Hw as <-. cbn [from_wk lift from_w] in Hx. injection Hx as <-.
      cbn [to_wk lift to_w]. eauto.
    - cbn [to_w] in Hw. injection Hw as <-. cbn [from_wk length Nat.eqb] in Hx. rewrite orb_true_r in Hx.
      cbn [kmapM kbind] in Hx. injection Hx as <-. cbn [to_wk kmapM kbind]. eauto.
    - cbn [to_w] in Hw. injection Hw as <-. cbn [from_wk length Nat.eqb] in Hx. rewrite orb_true_r in Hx.
      cbn [kmapM kbind] in Hx. injection Hx as <-. cbn [to_wk]. unfold set_has_dup. cbn [has_dup kmapM kbind]. eauto.
    - cbn [to_w] in Hw. injection Hw as <-. cbn [from_wk length Nat.eqb] in Hx. rewrite orb_true_r in Hx.
      cbn [kmapM kbind] in Hx. injection Hx as <-. cbn [to_wk map_build fold_left kmapM kbind]. eauto.
  Qed.

  Lemma T_elems a l ws xs :
    Forall T l -> (forall v, In v l -> wt_val n false a v = true) -> (forall v, In v l -> keepable n a v = true) ->
    closed_ty o a = true ->
    Forall2 (fun v w => to_w n a v = Ok w) l ws -> Forall2 (fun w x => from_wk o a w = KOk x) ws xs ->
    forallb (writable o a) xs = true ->
    exists ys, kmapM (to_wk o a) xs = KOk ys.
  Proof.
    intros HT Hwt Hkp Hc Hm Hmx Hwr. apply kmapM_exists. intros x Hx.
    rewrite forallb_forall in Hwr. rewrite Forall_forall in HT.
    assert (H2 : Forall2 (fun v c => writable o a c = true -> exists d, to_wk o a c = KOk d) l xs).
    { apply (Forall2_comp _ _ _ _ _ _ Hm Hmx). intros v w c Hin Hvw Hwc Hwrc.
      apply (HT v Hin a false w c (Hwt v Hin) (Hkp v Hin) Hc Hvw Hwc Hwrc). }
    destruct (Forall2_In_r _ _ _ _ H2 Hx) as (v & _ & Hv). apply Hv. apply Hwr. exact Hx.
  Qed.

  Lemma T_list l : Forall T l -> T (VList l).
  Proof.
    intros HT t key w x Hwt Hkp Hc Hw Hx Hwr. destruct t; try discriminate.
    - cbn [wt_val] in Hwt. apply andb_true_iff in Hwt. destruct Hwt as [_ Hall].
      rewrite forallb_forall in Hall. cbn [keepable] in Hkp. rewrite forallb_forall in Hkp. cbn [closed_ty] in Hc.
      cbn [to_w] in Hw. apply bind_ok in Hw. destruct Hw as (ws & Hm & Hw). injection Hw as <-.
      cbn [from_wk] in Hx. rewrite !ttype_of_spec, ttype_eqb_refl in Hx. cbn [orb] in Hx.
      apply kbind_ok in Hx. destruct Hx as (xs & Hmx & Hx). injection Hx as <-.
      cbn [writable] in Hwr.
      destruct (T_elems t l ws xs HT Hall Hkp Hc (mapM_Forall2 _ _ _ Hm) (kmapM_Forall2 _ _ _ Hmx) Hwr) as (ys & Hys).
      cbn [to_wk]. rewrite Hys. cbn [kbind]. eauto.
    - cbn [wt_val] in Hwt. apply andb_true_iff in Hwt. destruct Hwt as [Hwt _].
      apply andb_true_iff in Hwt. destruct Hwt as [_ Hall].
      rewrite forallb_forall in Hall. cbn [keepable] in Hkp. rewrite forallb_forall in Hkp. cbn [closed_ty] in Hc.
      cbn [to_w] in Hw. destruct (set_has_dup l); [discriminate|].
      apply bind_ok in Hw. destruct Hw as (ws & Hm & Hw). injection Hw as <-.
      cbn [from_wk] in Hx. rewrite !ttype_of_spec, ttype_eqb_refl in Hx. cbn [orb] in Hx.
      apply kbind_ok in Hx. destruct Hx as (xs & Hmx & Hx). injection Hx as <-.
      cbn [writable] in Hwr. apply andb_true_iff in Hwr. destruct Hwr as [Hdup Hwr]. apply negb_true_iff in Hdup.
      destruct (T_elems t l ws xs HT Hall Hkp Hc (mapM_Forall2 _ _ _ Hm) (kmapM_Forall2 _ _ _ Hmx) Hwr) as (ys & Hys).
      cbn [to_wk]. rewrite Hdup, Hys. cbn [kbind]. eauto.
  Qed.

  Lemma T_map kvs : Forall (fun kv => T (fst kv) /\ T (snd kv)) kvs -> T (VMap kvs).
  Proof.
    intros HT t key w x Hwt Hkp Hc Hw Hx Hwr. destruct t as [| | | | | | | | | | | |a b]; try discriminate.
    cbn [wt_val] in Hwt. apply andb_true_iff in Hwt. destruct Hwt as [Hwt _].
    apply andb_true_iff in Hwt. destruct Hwt as [_ Hall]. rewrite forallb_forall in Hall.
    cbn [keepable] in Hkp. apply andb_true_iff in Hkp. destruct Hkp as [Hkp Hkeys].
    rewrite forallb_forall in Hkp. apply negb_true_iff in Hkeys.
    cbn [closed_ty] in Hc. apply andb_true_iff in Hc. destruct Hc as [Hca Hcb].
    rewrite Forall_forall in HT.
    cbn [to_w] in Hw. apply bind_ok in Hw. destruct Hw as (ws & Hm & Hw). injection Hw as <-.
    cbn [from_wk] in Hx. rewrite !ttype_of_spec, !ttype_eqb_refl in Hx. cbn [andb orb] in Hx.
    apply kbind_ok in Hx. destruct Hx as (xs & Hmx & Hx). injection Hx as <-.
    apply mapM_Forall2 in Hm. apply kmapM_Forall2 in Hmx.
    assert (H1 : Forall2 (fun kv c => keyrep (fst c) = keyrep (norm n a (fst kv)) /\
                    (writable o a (fst c) = true -> exists d, to_wk o a (fst c) = KOk d) /\
                    (writable o b (snd c) = true -> exists d, to_wk o b (snd c) = KOk d)) kvs xs).
    { apply (Forall2_comp _ _ _ _ _ _ Hm Hmx). intros kv wkv c Hin Hab Hbc.
      destruct (HT kv Hin) as [Tk Tv]. specialize (Hall kv Hin). apply andb_true_iff in Hall. destruct Hall as [Hwk Hwv].
      specialize (Hkp kv Hin). apply andb_true_iff in Hkp. destruct Hkp as [Hkk Hkv].
      apply bind_ok in Hab. destruct Hab as (wk & Hwk1 & Hab). apply bind_ok in Hab. destruct Hab as (wv & Hwv1 & Hab).
      injection Hab as <-. cbn [fst snd] in Hbc.
      apply kbind_ok in Hbc. destruct Hbc as (xk & Hxk & Hbc). apply kbind_ok in Hbc. destruct Hbc as (xv & Hxv & Hbc).
      injection Hbc as <-. cbn [fst snd].
      destruct (keep_roundtrip_w o n Hext Hwfo Hwfn Hopt (fst kv) a true wk xk Hwk Hkk Hca Hwk1 Hxk) as [Hrep _].
      split; [exact Hrep|]. split.
      - intro Hwrk. apply (Tk a true wk xk Hwk Hkk Hca Hwk1 Hxk Hwrk).
      - intro Hwrv. apply (Tv b false wv xv Hwv Hkv Hcb Hwv1 Hxv Hwrv). }
    assert (Hnd : map_build xs = xs).
    { apply map_build_nodup. rewrite <- Hkeys. apply has_dup_keyrep.
      clear - H1. induction H1 as [|kv c kvs xs Hc _ IH]; cbn [map]; constructor; [apply Hc | exact IH]. }
    rewrite Hnd in Hwr. cbn [writable] in Hwr. rewrite forallb_forall in Hwr. rewrite Hnd.
    destruct (kmapM_exists (fun kv => kbind (to_wk o a (fst kv)) (fun k => kbind (to_wk o b (snd kv)) (fun x => KOk (k, x)))) xs)
      as (ys & Hys).
    { intros c Hcin. destruct (Forall2_In_r _ _ _ _ H1 Hcin) as (kv & _ & (_ & Hk & Hv)).
      specialize (Hwr c Hcin). apply andb_true_iff in Hwr. destruct Hwr as [Hwk Hwv].
      destruct (Hk Hwk) as (dk & ->). destruct (Hv Hwv) as (dv & ->). cbn [kbind]. eauto. }
    cbn [to_wk]. rewrite Hys. cbn [kbind]. eauto.
  Qed.

  Lemma T_struct fs : Forall (fun p => T (snd p)) fs -> T (VStruct fs).
  Proof.
    intros HT t key w x Hwt Hkp Hc Hw Hx Hwr.
    destruct t as [| | | | | | | | |nm| | |]; try discriminate.
    pose proof Hwt as Hwt0. pose proof Hw as Hw0.
    rewrite wt_struct_eq in Hwt. destruct (find_struct n nm) as [sn|] eqn:Esn; [|discriminate].
    apply andb_true_iff in Hwt. destruct Hwt as [Hwt _]. apply andb_true_iff in Hwt.
    destruct Hwt as [Hids Hslots]. apply list_eqbZ_eq in Hids. rewrite forallb_forall in Hslots.
    cbn [closed_ty] in Hc. destruct (find_struct o nm) as [so|] eqn:Eso; [|discriminate]. clear Hc.
    destruct (ext_struct o n Hext nm so Eso) as (sn' & Esn' & He). rewrite Esn in Esn'. injection Esn' as <-.
    cbn [keepable] in Hkp. rewrite Esn in Hkp. rewrite forallb_forall in Hkp.
    rewrite to_w_struct, Esn in Hw. cbn zeta in Hw.
    destruct (is_union sn && negb (count_set (s_fields sn) fs =? 1)%nat); [discriminate|].
    apply bind_ok in Hw. destruct Hw as (ofs & Hm & Hw). injection Hw as <-.
    rewrite to_w_struct, Esn in Hw0. cbn zeta in Hw0.
    rewrite from_wk_struct, Eso in Hx. apply kbind_ok in Hx. destruct Hx as (st & Hfold & Hfin).
    unfold kfinish_read in Hfin. destruct (first_missing (s_fields so) (snd st)) eqn:Emo; [discriminate|].
    injection Hfin as <-.
    pose proof (wf_struct_nodup _ (wf_env_struct _ _ _ Hwfn Esn)) as Hndn.
    pose proof (wf_struct_nodup _ (wf_env_struct _ _ _ Hwfo Eso)) as Hndo.
    rewrite Forall_forall in HT.
    set (emit_n := fun p => match wfield_fn n sn p with Ok ow => ow | Err _ => None end).
    assert (Hofs : ofs = map emit_n fs) by (apply (mapM_map _ None _ _ Hm)).
    assert (Hemit_n : forall p wf, emit_n p = Some wf -> wid wf = fst p).
    { intros p wf H. unfold emit_n in H. destruct (wfield_fn n sn p) as [ow|] eqn:E; [|discriminate].
      subst ow. apply (wfield_fn_id _ _ _ _ E). }
    assert (Hfs_nd : NoDup (map fst fs)) by (rewrite Hids; exact Hndn).
    subst ofs. set (wfs := cat_somes (map emit_n fs)) in *.
    assert (Hwfs_nd : NoDup (map wid wfs)) by (apply emit_nodup; assumption).
    assert (Hwfs_wf : Forall wf_field wfs).
    { destruct (to_w_wf n Hwfn (VStruct fs) (TRef nm) key (WStruct wfs) Hwt0) as [Hwfw _].
      - rewrite to_w_struct, Esn. cbn zeta. exact Hw0.
      - apply wf_struct_iff in Hwfw. exact Hwfw. }
    destruct (kread_spec o so wfs [] (new_fields so) [] st Hwfs_nd Hfold) as (Hbuf & Hslo & _ & Hkrd & _).
    cbn [app] in Hbuf. rewrite Forall_forall in Hkrd.
    (* what writable says about the object *)
    unfold keep_slots in Hwr. cbn [writable] in Hwr. rewrite Eso in Hwr. cbn [tl forallb] in Hwr.
    apply andb_true_iff in Hwr. destruct Hwr as [Hcnt Hwr]. apply andb_true_iff in Hwr. destruct Hwr as [_ Hwr].
    rewrite forallb_forall in Hwr.
    (* every slot of the old object can be written *)
    assert (Hper : forall p', In p' (snd (fst st)) -> exists ow, kwfield_fn o so p' = KOk ow).
    { intros p' Hp'. pose proof (Hwr p' Hp') as Hwp. rewrite Hslo in Hp'. apply in_map_iff in Hp'. destruct Hp' as (q & Hq' & Hq).
      unfold new_fields in Hq. apply in_map_iff in Hq. destruct Hq as (fo & Hq2 & Hfo). subst q.
      set (id := f_id fo) in *.
      assert (Efo : find_field id (s_fields so) = Some fo) by (apply find_field_Some_iff; auto).
      pose proof (ext_field_old so sn id fo He Efo) as Efn.
      destruct (find_field_In _ _ _ Efn) as [Hfn _].
      set (sv := match assoc_slot id fs with Some y => y | None => VNil end).
      set (p := (id, sv)).
      assert (Hp : In p fs).
      { rewrite (slots_as_map (s_fields sn) fs Hids Hndn). apply in_map_iff. exists fo. split; [reflexivity | assumption]. }
      pose proof (Hslots p Hp) as Hok. pose proof (Hkp p Hp) as Hkpp. unfold p in Hkpp. cbn [fst snd] in Hkpp. rewrite Efn in Hkpp.
      destruct (mapM_In _ _ _ p Hm Hp) as (ow & How).
      assert (Hen : emit_n p = ow) by (unfold emit_n; rewrite How; reflexivity).
      assert (Hwf_id : wire_find id wfs = ow).
      { rewrite <- Hen. apply (wire_find_emit emit_n Hemit_n fs Hfs_nd p Hp). }
      destruct ow as [wf0|].
      - destruct (emitted_payload n sn p fo wf0 Efn Hok How) as (sv' & Hsv & Hwt' & Htow & Hty & Hpres & _).
        unfold p in Hsv, Hpres. cbn [snd] in Hsv, Hpres.
        assert (Hw0in : In wf0 wfs) by (apply wire_find_Some in Hwf_id; apply Hwf_id).
        assert (Hw0id : wid wf0 = id) by (apply (Hemit_n p wf0 Hen)).
        assert (Htyo : ttype_eqb (fst (fst wf0)) (ttype_of o (f_ty fo)) = true).
        { rewrite Hty, !ttype_of_spec. apply ttype_eqb_refl. }
        destruct (Hkrd wf0 Hw0in fo) as (xf & Hxf); [rewrite Hw0id; exact Efo | exact Htyo |].
        assert (Ep' : p' = (id, wrap_slot fo xf)).
        { rewrite <- Hq'. unfold kupd. cbn [fst snd]. fold id. rewrite Hwf_id, Efo, Htyo, Hxf. reflexivity. }
        assert (TS : T sv').
        { unfold wrap_slot in Hsv. destruct (base_ptr fo) eqn:Ebp.
          - apply T_base. unfold base_ptr in Ebp. rewrite !andb_true_iff in Ebp.
            destruct Ebp as [[_ Hb] Hnb]. apply negb_true_iff in Hnb.
            apply (wt_base_value n false (f_ty fo) sv' Hb Hwt').
            intro Hn. subst sv'. destruct (f_ty fo); discriminate.
          - rewrite <- Hsv. apply (HT p Hp). }
        assert (Hkp' : keepable n (f_ty fo) sv' = true).
        { unfold wrap_slot in Hsv. destruct (base_ptr fo) eqn:Ebp.
          - rewrite Hsv in Hkpp. cbn [is_nil] in Hkpp. rewrite andb_false_r in Hkpp. exact Hkpp.
          - subst sv'. destruct (is_optional fo && is_nil sv) eqn:Eon; [|exact Hkpp].
            apply andb_true_iff in Eon. destruct Eon as [Ho Hn].
            apply (keepable_nil_present fo n sv Hn Hpres Ho). }
        assert (Hcl : closed_ty o (f_ty fo) = true) by (apply (closed_field o n Hext nm so fo Eso Hfo)).
        rewrite Ep' in Hwp. cbn [fst snd] in Hwp. rewrite Efo in Hwp.
        rewrite Ep'. unfold kwfield_fn. cbn [fst snd]. rewrite Efo.
        destruct (present fo (wrap_slot fo xf)) eqn:Hpo; [|eauto].
        try rewrite Hpo in Hwp. cbn [negb orb] in Hwp.
        assert (Hwx : writable o (f_ty fo) xf = true).
        { unfold wrap_slot in Hwp. destruct (base_ptr fo); [cbn [writable] in Hwp|]; exact Hwp. }
        destruct (TS (f_ty fo) false (snd wf0) xf Hwt' Hkp' Hcl Htow Hxf Hwx) as (w'f & Hw'f).
        unfold wrap_slot. destruct (base_ptr fo); rewrite Hw'f; cbn [kbind]; eauto.
      - destruct (not_emitted n sn p fo Efn How) as (_ & Hopt_fo & _).
        assert (Ep' : p' = (id, init_slot fo)).
        { rewrite <- Hq'. unfold kupd. cbn [fst]. fold id. rewrite Hwf_id. reflexivity. }
        rewrite Ep'. unfold kwfield_fn. cbn [fst snd]. rewrite Efo.
        destruct (opt_default_cases o n Hopt so nm fo Eso Hfo Hopt_fo) as [Hpi|(Hpi & Hbp & wd & Hwd & _)]; rewrite Hpi; [eauto|].
        rewrite Hbp, Hwd. cbn [kbind]. eauto. }
    destruct (kmapM_exists (kwfield_fn o so) (snd (fst st)) Hper) as (ofs_o & Hk).
    unfold keep_slots. rewrite to_wk_struct, Eso. rewrite Z.eqb_refl. cbn [negb]. cbn zeta.
    assert (Hu : is_union so && negb (count_set (s_fields so) (snd (fst st)) =? 1)%nat = false).
    { destruct (is_union so); [|reflexivity]. rewrite Hcnt. reflexivity. }
    rewrite Hu, Hk. cbn [kbind]. rewrite Hbuf.
    rewrite (unknown_fields_enc (filter (unknown_to so) wfs) (Forall_filter _ _ _ Hwfs_wf)). eauto.
  Qed.

  (* ---- which errors Write can end in ---- *)

  Definition write_refusal (e : kerr) : Prop := e = KStd ESetDup \/ exists c, e = KStd (EUnionCount c).

  Definition E (v : value) : Prop := forall t key w x e,
    wt_val n key t v = true -> keepable n t v = true -> closed_ty o t = true ->
    to_w n t v = Ok w -> from_wk o t w = KOk x -> to_wk o t x = KErr e -> write_refusal e.

  Lemma kmapM_err {A B} (f : A -> kres B) l e : kmapM f l = KErr e -> exists x, In x l /\ f x = KErr e.
  Proof.
    induction l as [|a l IH]; cbn [kmapM]; [discriminate|].
    destruct (f a) as [y|e1] eqn:Ea.
    - destruct (kmapM f l) as [ys|e2]; [discriminate|]. intro H. injection H as <-.
      destruct (IH eq_refl) as (x & Hx & Hfx). exists x. split; [right; assumption | assumption].
    - intro H. injection H as <-. exists a. split; [left; reflexivity | assumption].
  Qed.

  Lemma kbind_err {A B} (r : kres A) (f : A -> kres B) e :
    kbind r f = KErr e -> r = KErr e \/ exists a, r = KOk a /\ f a = KErr e.
  Proof. destruct r as [a|e1]; cbn; [eauto | intros [= <-]; auto]. Qed.

  Lemma E_base v : is_base_value v = true -> E v.
  Proof.
    intros Hb t key w x e Hwt _ _ Hw Hx He. destruct v; try discriminate;
      destruct t; try discriminate; cbn [to_w] in Hw; injection Hw as <-;
      cbn [from_wk lift from_w] in Hx; injection Hx as <-; cbn [to_wk lift to_w] in He; discriminate.
  Qed.

  Lemma E_nil : E VNil.
  Proof.
    intros t key w x e Hwt Hkp Hc Hw Hx He. destruct t; try discriminate.
    - cbn [to_w] in Hw. injection Hw as <-. cbn [from_wk lift from_w] in Hx. injection Hx as <-.
      cbn [to_wk lift to_w] in He. discriminate.
    - cbn [to_w] in Hw. injection Hw as <-. cbn [from_wk length Nat.eqb] in Hx. rewrite orb_true_r in Hx.
      cbn [kmapM kbind] in Hx. injection Hx as <-. cbn [to_wk kmapM kbind] in He. discriminate.
    - cbn [to_w] in Hw. injection Hw as <-. cbn [from_wk length Nat.eqb] in Hx. rewrite orb_true_r in Hx.
      cbn [kmapM kbind] in Hx. injection Hx as <-. cbn [to_wk] in He. unfold set_has_dup in He. cbn [has_dup kmapM kbind] in He. discriminate.
    - cbn [to_w] in Hw. injection Hw as <-. cbn [from_wk length Nat.eqb] in Hx. rewrite orb_true_r in Hx.
      cbn [kmapM kbind] in Hx. injection Hx as <-. cbn [to_wk map_build fold_left kmapM kbind] in He. discriminate.
  Qed.

  Lemma E_elems a l ws xs e :
    Forall E l -> (forall v, In v l -> wt_val n false a v = true) -> (forall v, In v l -> keepable n a v = true) ->
    closed_ty o a = true ->
    Forall2 (fun v w => to_w n a v = Ok w) l ws -> Forall2 (fun w x => from_wk o a w = KOk x) ws xs ->
    kmapM (to_wk o a) xs = KErr e -> write_refusal e.
  Proof.
    intros HT Hwt Hkp Hc Hm Hmx He. destruct (kmapM_err _ _ _ He) as (x & Hx & Hxe).
    rewrite Forall_forall in HT.
    assert (H2 : Forall2 (fun v c => forall e', to_wk o a c = KErr e' -> write_refusal e') l xs).
    { apply (Forall2_comp _ _ _ _ _ _ Hm Hmx). intros v w c Hin Hvw Hwc e' He'.
      apply (HT v Hin a false w c e' (Hwt v Hin) (Hkp v Hin) Hc Hvw Hwc He'). }
    destruct (Forall2_In_r _ _ _ _ H2 Hx) as (v & _ & Hv). apply (Hv e Hxe).
  Qed.

  Lemma E_list l : Forall E l -> E (VList l).
  Proof.
    intros HT t key w x e Hwt Hkp Hc Hw Hx He. destruct t; try discriminate.
    - cbn [wt_val] in Hwt. apply andb_true_iff in Hwt. destruct Hwt as [_ Hall].
      rewrite forallb_forall in Hall. cbn [keepable] in Hkp. rewrite forallb_forall in Hkp. cbn [closed_ty] in Hc.
      cbn [to_w] in Hw. apply bind_ok in Hw. destruct Hw as (ws & Hm & Hw). injection Hw as <-.
      cbn [from_wk] in Hx. rewrite !ttype_of_spec, ttype_eqb_refl in Hx. cbn [orb] in Hx.
      apply kbind_ok in Hx. destruct Hx as (xs & Hmx & Hx). injection Hx as <-.
      cbn [to_wk] in He. apply kbind_err in He. destruct He as [He|(ys & _ & He)]; [|discriminate].
      apply (E_elems t l ws xs e HT Hall Hkp Hc (mapM_Forall2 _ _ _ Hm) (kmapM_Forall2 _ _ _ Hmx) He).
    - cbn [wt_val] in Hwt. apply andb_true_iff in Hwt. destruct Hwt as [Hwt _].
      apply andb_true_iff in Hwt. destruct Hwt as [_ Hall].
      rewrite forallb_forall in Hall. cbn [keepable] in Hkp. rewrite forallb_forall in Hkp. cbn [closed_ty] in Hc.
      cbn [to_w] in Hw. destruct (set_has_dup l); [discriminate|].
      apply bind_ok in Hw. destruct Hw as (ws & Hm & Hw). injection Hw as <-.
      cbn [from_wk] in Hx. rewrite !ttype_of_spec, ttype_eqb_refl in Hx. cbn [orb] in Hx.
      apply kbind_ok in Hx. destruct Hx as (xs & Hmx & Hx). injection Hx as <-.
      cbn [to_wk] in He. destruct (set_has_dup xs); [injection He as <-; left; reflexivity|].
      apply kbind_err in He. destruct He as [He|(ys & _ & He)]; [|discriminate].
      apply (E_elems t l ws xs e HT Hall Hkp Hc (mapM_Forall2 _ _ _ Hm) (kmapM_Forall2 _ _ _ Hmx) He).
  Qed.

  Lemma E_map kvs : Forall (fun kv => E (fst kv) /\ E (snd kv)) kvs -> E (VMap kvs).
  Proof.
    intros HT t key w x e Hwt Hkp Hc Hw Hx He. destruct t as [| | | | | | | | | | | |a b]; try discriminate.
    cbn [wt_val] in Hwt. apply andb_true_iff in Hwt. destruct Hwt as [Hwt _].
    apply andb_true_iff in Hwt. destruct Hwt as [_ Hall]. rewrite forallb_forall in Hall.
    cbn [keepable] in Hkp. apply andb_true_iff in Hkp. destruct Hkp as [Hkp Hkeys].
    rewrite forallb_forall in Hkp. apply negb_true_iff in Hkeys.
    cbn [closed_ty] in Hc. apply andb_true_iff in Hc. destruct Hc as [Hca Hcb].
    rewrite Forall_forall in HT.
    cbn [to_w] in Hw. apply bind_ok in Hw. destruct Hw as (ws & Hm & Hw). injection Hw as <-.
    cbn [from_wk] in Hx. rewrite !ttype_of_spec, !ttype_eqb_refl in Hx. cbn [andb orb] in Hx.
    apply kbind_ok in Hx. destruct Hx as (xs & Hmx & Hx). injection Hx as <-.
    apply mapM_Forall2 in Hm. apply kmapM_Forall2 in Hmx.
    assert (H1 : Forall2 (fun kv c => keyrep (fst c) = keyrep (norm n a (fst kv)) /\
                    (forall e', to_wk o a (fst c) = KErr e' -> write_refusal e') /\
                    (forall e', to_wk o b (snd c) = KErr e' -> write_refusal e')) kvs xs).
    { apply (Forall2_comp _ _ _ _ _ _ Hm Hmx). intros kv wkv c Hin Hab Hbc.
      destruct (HT kv Hin) as [Tk Tv]. specialize (Hall kv Hin). apply andb_true_iff in Hall. destruct Hall as [Hwk Hwv].
      specialize (Hkp kv Hin). apply andb_true_iff in Hkp. destruct Hkp as [Hkk Hkv].
      apply bind_ok in Hab. destruct Hab as (wk & Hwk1 & Hab). apply bind_ok in Hab. destruct Hab as (wv & Hwv1 & Hab).
      injection Hab as <-. cbn [fst snd] in Hbc.
      apply kbind_ok in Hbc. destruct Hbc as (xk & Hxk & Hbc). apply kbind_ok in Hbc. destruct Hbc as (xv & Hxv & Hbc).
      injection Hbc as <-. cbn [fst snd].
      destruct (keep_roundtrip_w o n Hext Hwfo Hwfn Hopt (fst kv) a true wk xk Hwk Hkk Hca Hwk1 Hxk) as [Hrep _].
      split; [exact Hrep|]. split.
      - intros e' He'. apply (Tk a true wk xk e' Hwk Hkk Hca Hwk1 Hxk He').
      - intros e' He'. apply (Tv b false wv xv e' Hwv Hkv Hcb Hwv1 Hxv He'). }
    assert (Hnd : map_build xs = xs).
    { apply map_build_nodup. rewrite <- Hkeys. apply has_dup_keyrep.
      clear - H1. induction H1 as [|kv c kvs xs Hc _ IH]; cbn [map]; constructor; [apply Hc | exact IH]. }
    rewrite Hnd in He. cbn [to_wk] in He. apply kbind_err in He. destruct He as [He|(ys & _ & He)]; [|discriminate].
    destruct (kmapM_err _ _ _ He) as (c & Hcin & Hce).
    destruct (Forall2_In_r _ _ _ _ H1 Hcin) as (kv & _ & (_ & Hk & Hv)).
    apply kbind_err in Hce. destruct Hce as [Hce|(dk & _ & Hce)]; [apply (Hk e Hce)|].
    apply kbind_err in Hce. destruct Hce as [Hce|(dv & _ & Hce)]; [apply (Hv e Hce)|discriminate].
  Qed.

  Lemma E_struct fs : Forall (fun p => E (snd p)) fs -> E (VStruct fs).
  Proof.
    intros HT t key w x e Hwt Hkp Hc Hw Hx He.
    destruct t as [| | | | | | | | |nm| | |]; try discriminate.
    pose proof Hwt as Hwt0. pose proof Hw as Hw0.
    rewrite wt_struct_eq in Hwt. destruct (find_struct n nm) as [sn|] eqn:Esn; [|discriminate].
    apply andb_true_iff in Hwt. destruct Hwt as [Hwt _]. apply andb_true_iff in Hwt.
    destruct Hwt as [Hids Hslots]. apply list_eqbZ_eq in Hids. rewrite forallb_forall in Hslots.
    cbn [closed_ty] in Hc. destruct (find_struct o nm) as [so|] eqn:Eso; [|discriminate]. clear Hc.
    destruct (ext_struct o n Hext nm so Eso) as (sn' & Esn' & He0). rewrite Esn in Esn'. injection Esn' as <-.
    cbn [keepable] in Hkp. rewrite Esn in Hkp. rewrite forallb_forall in Hkp.
    rewrite to_w_struct, Esn in Hw. cbn zeta in Hw.
    destruct (is_union sn && negb (count_set (s_fields sn) fs =? 1)%nat); [discriminate|].
    apply bind_ok in Hw. destruct Hw as (ofs & Hm & Hw). injection Hw as <-.
    rewrite to_w_struct, Esn in Hw0. cbn zeta in Hw0.
    rewrite from_wk_struct, Eso in Hx. apply kbind_ok in Hx. destruct Hx as (st & Hfold & Hfin).
    unfold kfinish_read in Hfin. destruct (first_missing (s_fields so) (snd st)) eqn:Emo; [discriminate|].
    injection Hfin as <-.
    pose proof (wf_struct_nodup _ (wf_env_struct _ _ _ Hwfn Esn)) as Hndn.
    pose proof (wf_struct_nodup _ (wf_env_struct _ _ _ Hwfo Eso)) as Hndo.
    rewrite Forall_forall in HT.
    set (emit_n := fun p => match wfield_fn n sn p with Ok ow => ow | Err _ => None end).
    assert (Hofs : ofs = map emit_n fs) by (apply (mapM_map _ None _ _ Hm)).
    assert (Hemit_n : forall p wf, emit_n p = Some wf -> wid wf = fst p).
    { intros p wf H. unfold emit_n in H. destruct (wfield_fn n sn p) as [ow|] eqn:E; [|discriminate].
      subst ow. apply (wfield_fn_id _ _ _ _ E). }
    assert (Hfs_nd : NoDup (map fst fs)) by (rewrite Hids; exact Hndn).
    subst ofs. set (wfs := cat_somes (map emit_n fs)) in *.
    assert (Hwfs_nd : NoDup (map wid wfs)) by (apply emit_nodup; assumption).
    assert (Hwfs_wf : Forall wf_field wfs).
    { destruct (to_w_wf n Hwfn (VStruct fs) (TRef nm) key (WStruct wfs) Hwt0) as [Hwfw _].
      - rewrite to_w_struct, Esn. cbn zeta. exact Hw0.
      - apply wf_struct_iff in Hwfw. exact Hwfw. }
    destruct (kread_spec o so wfs [] (new_fields so) [] st Hwfs_nd Hfold) as (Hbuf & Hslo & _ & Hkrd & _).
    cbn [app] in Hbuf. rewrite Forall_forall in Hkrd.
    (* where can the error come from? *)
    unfold keep_slots in He. rewrite to_wk_struct, Eso in He. rewrite Z.eqb_refl in He. cbn [negb] in He. cbn zeta in He.
    destruct (is_union so && negb (count_set (s_fields so) (snd (fst st)) =? 1)%nat);
      [injection He as <-; right; eauto|].
    apply kbind_err in He. destruct He as [He|(ofs_o & _ & He)].
    2:{ rewrite Hbuf in He. rewrite (unknown_fields_enc (filter (unknown_to so) wfs) (Forall_filter _ _ _ Hwfs_wf)) in He. discriminate. }
    destruct (kmapM_err _ _ _ He) as (p' & Hp' & Hpe).
    rewrite Hslo in Hp'. apply in_map_iff in Hp'. destruct Hp' as (q & Hq' & Hq).
    unfold new_fields in Hq. apply in_map_iff in Hq. destruct Hq as (fo & Hq2 & Hfo). subst q.
    set (id := f_id fo) in *.
    assert (Efo : find_field id (s_fields so) = Some fo) by (apply find_field_Some_iff; auto).
    pose proof (ext_field_old so sn id fo He0 Efo) as Efn.
    destruct (find_field_In _ _ _ Efn) as [Hfn _].
    set (sv := match assoc_slot id fs with Some y => y | None => VNil end).
    set (p := (id, sv)).
    assert (Hp : In p fs).
    { rewrite (slots_as_map (s_fields sn) fs Hids Hndn). apply in_map_iff. exists fo. split; [reflexivity | assumption]. }
    pose proof (Hslots p Hp) as Hok. pose proof (Hkp p Hp) as Hkpp. unfold p in Hkpp. cbn [fst snd] in Hkpp. rewrite Efn in Hkpp.
    destruct (mapM_In _ _ _ p Hm Hp) as (ow & How).
    assert (Hen : emit_n p = ow) by (unfold emit_n; rewrite How; reflexivity).
    assert (Hwf_id : wire_find id wfs = ow).
    { rewrite <- Hen. apply (wire_find_emit emit_n Hemit_n fs Hfs_nd p Hp). }
    destruct ow as [wf0|].
    - destruct (emitted_payload n sn p fo wf0 Efn Hok How) as (sv' & Hsv & Hwt' & Htow & Hty & Hpres & _).
      unfold p in Hsv, Hpres. cbn [snd] in Hsv, Hpres.
      assert (Hw0in : In wf0 wfs) by (apply wire_find_Some in Hwf_id; apply Hwf_id).
      assert (Hw0id : wid wf0 = id) by (apply (Hemit_n p wf0 Hen)).
      assert (Htyo : ttype_eqb (fst (fst wf0)) (ttype_of o (f_ty fo)) = true).
      { rewrite Hty, !ttype_of_spec. apply ttype_eqb_refl. }
      destruct (Hkrd wf0 Hw0in fo) as (xf & Hxf); [rewrite Hw0id; exact Efo | exact Htyo |].
      assert (Ep' : p' = (id, wrap_slot fo xf)).
      { rewrite <- Hq'. unfold kupd. cbn [fst snd]. fold id. rewrite Hwf_id, Efo, Htyo, Hxf. reflexivity. }
      assert (TS : E sv').
      { unfold wrap_slot in Hsv. destruct (base_ptr fo) eqn:Ebp.
        - apply E_base. unfold base_ptr in Ebp. rewrite !andb_true_iff in Ebp.
          destruct Ebp as [[_ Hb] Hnb]. apply negb_true_iff in Hnb.
          apply (wt_base_value n false (f_ty fo) sv' Hb Hwt').
          intro Hn. subst sv'. destruct (f_ty fo); discriminate.
        - rewrite <- Hsv. apply (HT p Hp). }
      assert (Hkp' : keepable n (f_ty fo) sv' = true).
      { unfold wrap_slot in Hsv. destruct (base_ptr fo) eqn:Ebp.
        - rewrite Hsv in Hkpp. cbn [is_nil] in Hkpp. rewrite andb_false_r in Hkpp. exact Hkpp.
        - subst sv'. destruct (is_optional fo && is_nil sv) eqn:Eon; [|exact Hkpp].
          apply andb_true_iff in Eon. destruct Eon as [Ho Hn].
          apply (keepable_nil_present fo n sv Hn Hpres Ho). }
      assert (Hcl : closed_ty o (f_ty fo) = true) by (apply (closed_field o n Hext nm so fo Eso Hfo)).
      rewrite Ep' in Hpe. unfold kwfield_fn in Hpe. cbn [fst snd] in Hpe. rewrite Efo in Hpe.
      destruct (present fo (wrap_slot fo xf)); [|discriminate].
      assert (Hxe : to_wk o (f_ty fo) xf = KErr e).
      { unfold wrap_slot in Hpe. destruct (base_ptr fo);
          (apply kbind_err in Hpe; destruct Hpe as [Hpe|(wy & _ & Hpe)]; [exact Hpe|discriminate]). }
      apply (TS (f_ty fo) false (snd wf0) xf e Hwt' Hkp' Hcl Htow Hxf Hxe).
    - destruct (not_emitted n sn p fo Efn How) as (_ & Hopt_fo & _).
      assert (Ep' : p' = (id, init_slot fo)).
      { rewrite <- Hq'. unfold kupd. cbn [fst]. fold id. rewrite Hwf_id. reflexivity. }
      rewrite Ep' in Hpe. unfold kwfield_fn in Hpe. cbn [fst snd] in Hpe. rewrite Efo in Hpe.
      destruct (opt_default_cases o n Hopt so nm fo Eso Hfo Hopt_fo) as [Hpi|(Hpi & Hbp & wd & Hwd & _)]; rewrite Hpi in Hpe; [discriminate|].
      rewrite Hbp, Hwd in Hpe. cbn [kbind] in Hpe. discriminate.
  Qed.

  (* the only errors the old code's Write can end in: the set check and the union count *)
  Theorem keep_rewrite_errors_w : forall v, E v.
  Proof.
    intro v. induction v using value_ind2.
    - apply E_base. reflexivity.
    - apply E_base. reflexivity.
    - apply E_base. reflexivity.
    - apply E_base. reflexivity.
    - apply E_base. reflexivity.
    - apply E_list. assumption.
    - apply E_map. assumption.
    - apply E_struct. assumption.
    - apply E_nil.
    - intros t key w x e Hwt. discriminate.
  Qed.

  Theorem keep_write_total_w : forall v, T v.
  Proof.
    intro v. induction v using value_ind2.
    - apply T_base. reflexivity.
    - apply T_base. reflexivity.
    - apply T_base. reflexivity.
    - apply T_base. reflexivity.
    - apply T_base. reflexivity.
    - apply T_list. assumption.
    - apply T_map. assumption.
    - apply T_struct. assumption.
    - apply T_nil.
    - intros t key w x Hwt. discriminate.
  Qed.
End Write.

(* ------------------------------------------------------------------ Write succeeds ONLY on writable objects *)

Lemma kmapM_all {A B} (f : A -> kres B) l ys x : kmapM f l = KOk ys -> In x l -> exists y, f x = KOk y.
Proof. apply kmapM_In. Qed.

Theorem write_ok_writable e : forall x t w', to_wk e t x = KOk w' -> writable e t x = true.
Proof.
  intro x.
  enough (H : (forall t w', to_wk e t x = KOk w' -> writable e t x = true) /\
              match x with VSome y => forall t w', to_wk e t y = KOk w' -> writable e t y = true | _ => True end) by apply H.
  induction x using value_ind2; try (split; [intros; reflexivity | exact I]).
  - (* list / set *)
    split; [|exact I]. intros t w' Hw. destruct t; try reflexivity; cbn [to_wk writable] in *.
    + apply kbind_ok in Hw. destruct Hw as (ys & Hm & _). apply forallb_forall. intros y Hy.
      rewrite Forall_forall in H. destruct (kmapM_all _ _ _ y Hm Hy) as (wy & Hwy). apply (proj1 (H y Hy) _ _ Hwy).
    + destruct (set_has_dup l); [discriminate|]. cbn [negb andb].
      apply kbind_ok in Hw. destruct Hw as (ys & Hm & _). apply forallb_forall. intros y Hy.
      rewrite Forall_forall in H. destruct (kmapM_all _ _ _ y Hm Hy) as (wy & Hwy). apply (proj1 (H y Hy) _ _ Hwy).
  - (* map *)
    split; [|exact I]. intros t w' Hw. destruct t; try reflexivity; cbn [to_wk writable] in *.
    apply kbind_ok in Hw. destruct Hw as (ys & Hm & _). apply forallb_forall. intros kv Hkv.
    rewrite Forall_forall in H. destruct (kmapM_all _ _ _ kv Hm Hkv) as (wkv & Hwkv).
    apply kbind_ok in Hwkv. destruct Hwkv as (wk & Hwk & Hwkv). apply kbind_ok in Hwkv. destruct Hwkv as (wv & Hwv & _).
    destruct (H kv Hkv) as [[Hk _] [Hv _]]. rewrite (Hk _ _ Hwk), (Hv _ _ Hwv). reflexivity.
  - (* struct *)
    split; [|exact I]. intros t w' Hw. destruct t; try reflexivity. rewrite to_wk_struct in Hw. cbn [writable].
    destruct (find_struct e name) as [s|]; [|reflexivity].
    destruct fs as [|[uid u] slots]; [discriminate|]. destruct u; try discriminate.
    destruct (negb (uid =? unk_id)); [discriminate|]. cbn zeta in Hw.
    destruct (is_union s && negb (count_set (s_fields s) slots =? 1)%nat) eqn:Eu; [discriminate|].
    apply kbind_ok in Hw. destruct Hw as (ofs & Hm & _). cbn [tl].
    apply andb_true_iff. split.
    + destruct (is_union s); [|reflexivity]. cbn [andb] in Eu. apply negb_false_iff in Eu. exact Eu.
    + cbn [forallb fst snd]. apply andb_true_iff. split.
      * destruct (find_field uid (s_fields s)); [|reflexivity]. cbn [writable]. apply orb_true_r.
      * apply forallb_forall. intros p Hp. rewrite Forall_forall in H.
        destruct (kmapM_all _ _ _ p Hm Hp) as (ow & How). unfold kwfield_fn in How.
        destruct (find_field (fst p) (s_fields s)) as [f|]; [|reflexivity].
        destruct (present f (snd p)); [|reflexivity]. cbn [negb orb].
        pose proof (H p (or_intror Hp)) as Hp2. cbn [snd] in Hp2.
        destruct (base_ptr f).
        -- destruct (snd p) as [| | | | | | | | |y] eqn:Es; try discriminate.
           apply kbind_ok in How. destruct How as (wy & Hwy & _). cbn [writable].
           destruct Hp2 as [_ Hy]. apply (Hy _ _ Hwy).
        -- apply kbind_ok in How. destruct How as (wy & Hwy & _). destruct Hp2 as [Hy _]. apply (Hy _ _ Hwy).
  - (* VSome *)
    split; [intros t w' Hw; cbn [to_wk lift to_w] in Hw; discriminate|]. apply IHx.
Qed.

(* ------------------------------------------------------------------ the total theorems *)

(* the classification: for what the old code holds after reading what the new code wrote, Write
   succeeds exactly when the object is writable *)
Theorem keep_write_iff o n :
  extendsb o n = true -> wf_env o = true -> wf_env n = true -> opt_defaults_ok o n = true ->
  forall v t key w x,
    wt_val n key t v = true -> keepable n t v = true -> closed_ty o t = true ->
    to_w n t v = Ok w -> from_wk o t w = KOk x ->
    ((exists w', to_wk o t x = KOk w') <-> writable o t x = true).
Proof.
  intros Hext Hwfo Hwfn Hopt v t key w x Hwt Hkp Hc Hw Hx. split.
  - intros (w' & Hw'). apply (write_ok_writable o _ _ _ Hw').
  - apply (keep_write_total_w o n Hext Hwfo Hwfn Hopt v t key w x Hwt Hkp Hc Hw Hx).
Qed.

Theorem keep_roundtrip_total o n so sn v :
  extendsb o n = true -> wf_env o = true -> wf_env n = true -> opt_defaults_ok o n = true ->
  find_struct o (s_name sn) = Some so -> find_struct n (s_name sn) = Some sn ->
  wt n sn v = true -> keepable n (TRef (s_name sn)) v = true ->
  keep_accepts o n so sn v = true ->
  exists w x w', to_wire n sn v = Ok w /\ read_new_keep o so w = KOk x /\ to_wire_keep o so x = KOk w' /\
                 read_new n sn w' = Ok (norm_struct n sn v).
Proof.
  intros Hext Hwfo Hwfn Hopt Hso Hsn Hwt Hkp Hacc. unfold keep_accepts in Hacc.
  destruct (to_wire n sn v) as [w|] eqn:Hw; [|discriminate].
  destruct (read_new_keep o so w) as [x|] eqn:Hx; [|discriminate].
  destruct (find_struct_In _ _ _ Hso) as [_ Hname]. rewrite Hname in Hacc.
  destruct (write_read n sn v Hwfn Hsn Hwt) as (wfs & Hw2 & _). rewrite Hw in Hw2. injection Hw2 as ->.
  pose proof Hx as Hx0. rewrite read_new_keep_from_wk in Hx0 by (rewrite Hname; exact Hso). rewrite Hname in Hx0.
  assert (Hc : closed_ty o (TRef (s_name sn)) = true) by (cbn [closed_ty]; rewrite Hso; reflexivity).
  destruct (keep_write_total_w o n Hext Hwfo Hwfn Hopt v (TRef (s_name sn)) false (WStruct wfs) x
              (wt_wt_val _ _ _ Hwt) Hkp Hc Hw Hx0 Hacc) as (w' & Hw').
  assert (Hw'' : to_wire_keep o so x = KOk w') by (unfold to_wire_keep; rewrite Hname; exact Hw').
  exists (WStruct wfs), x, w'. repeat split; try assumption.
  apply (keep_roundtrip o n so sn v (WStruct wfs) x w' Hext Hwfo Hwfn Hopt Hso Hsn Hwt Hkp Hw Hx Hw'').
Qed.

Fixpoint chain_dom_total (o n : env) (so sn : sschema) (k : nat) (v : value) : Prop :=
  match k with
  | O => True
  | S k' => wt n sn v = true /\ keepable n (TRef (s_name sn)) v = true /\ keep_accepts o n so sn v = true /\
            chain_dom_total o n so sn k' (norm_struct n sn v)
  end.

Theorem chain_total o n so sn :
  extendsb o n = true -> wf_env o = true -> wf_env n = true -> opt_defaults_ok o n = true ->
  find_struct o (s_name sn) = Some so -> find_struct n (s_name sn) = Some sn ->
  forall k v, chain_dom_total o n so sn k v -> chain o n so sn k v = KOk (iter_norm n sn k v).
Proof.
  intros Hext Hwfo Hwfn Hopt Hso Hsn. induction k as [|k IH]; intros v Hd; cbn [chain iter_norm]; [reflexivity|].
  destruct Hd as (Hwt & Hkp & Hacc & Hd).
  destruct (keep_roundtrip_total o n so sn v Hext Hwfo Hwfn Hopt Hso Hsn Hwt Hkp Hacc) as (w & x & w' & Hw & Hx & Hw' & Hr).
  unfold round_trip, hop_old. rewrite Hw. cbn [lift kbind]. rewrite Hx. cbn [kbind]. rewrite Hw'. cbn [kbind].
  rewrite Hr. cbn [lift kbind]. apply IH. exact Hd.
Qed.

(* the witness of the known finding is outside the domain; the example of UnknownFacts is inside *)
Lemma keep_accepts_examples :
  keep_accepts ex_old ex_new ex_s ex_s ex_v = false /\
  chain_dom_total ex2_old ex2_new ex2_so ex2_sn 3 ex2_v.
Proof. split; [vm_compute; reflexivity|]. repeat split; vm_compute; reflexivity. Qed.

(* the schema condition really is wider than opt_init_unset: an optional field with a container
   default (`1: optional list<i32> l = [1, 2]`), left nil by the sender, is written by the old code as
   its default and read back by the new code as the default it would have used anyway *)
Definition ex3_fl : field := mkfield 1 [x6c] Optional (TList TI32) (Some (LList [LInt 1; LInt 2])) false.
Definition ex3_so : sschema := mkstruct [x53] KStruct [ex3_fl].
Definition ex3_sn : sschema := mkstruct [x53] KStruct [ex3_fl; mkfield 2 [x6e] Optional TString None false].
Definition ex3_old : env := mkenv [ex3_so] [].
Definition ex3_new : env := mkenv [ex3_sn] [].
Definition ex3_v : value := VStruct [(1, VNil); (2, VSome (VStr [x78]))].

Lemma widened_domain_example :
  opt_init_unset ex3_old = false /\ opt_defaults_ok ex3_old ex3_new = true /\
  extendsb ex3_old ex3_new = true /\ wf_env ex3_old = true /\ wf_env ex3_new = true /\
  chain_dom_total ex3_old ex3_new ex3_so ex3_sn 2 ex3_v /\
  chain ex3_old ex3_new ex3_so ex3_sn 2 ex3_v = KOk (iter_norm ex3_new ex3_sn 2 ex3_v).
Proof. repeat split; vm_compute; reflexivity. Qed.
