(* Wire/Schema.v — IDL-level schemas as the code generator sees them *after* typedef
   resolution and field-id / requiredness normalisation (parser + semantic pass):

     ty       base types, enum (by name), reference to a struct / union / exception (by name),
              list / set / map
     lit      a default value as written in the IDL (already evaluated to its type)
     field    id, name, requiredness, type, optional default, "declared through a typedef" flag
     sschema  a struct-like: name, kind, fields in declaration order
     env      all struct-likes and enums of a program; names are qualified "<file>.<Name>"

   Union fields are always Optional here (the parser forces it); synthesized RPC argument and
   result types are ordinary struct schemas ("success" has id 0).  No proofs in this file. *)
From Coq Require Import List ZArith Bool.
From Verif Require Import Base.Bytes Wire.TType.
Import ListNotations.
Open Scope Z_scope.

Inductive ty :=
| TBool | TByte | TI16 | TI32 | TI64 | TDouble | TString | TBinary
| TEnum (name : bytes)
| TRef (name : bytes)
| TList (e : ty) | TSet (e : ty) | TMap (k v : ty).

Inductive req := Required | Optional | Default.

Inductive lit :=
| LBool (b : bool) | LInt (z : Z) | LDbl (bits : Z) | LStr (s : bytes) | LBin (s : bytes)
| LList (l : list lit)            (* list and set literals *)
| LMap (kvs : list (lit * lit)).

Record field := mkfield {
  f_id : Z; f_name : bytes; f_req : req; f_ty : ty;
  f_default : option lit;
  f_typedef : bool                (* the declared type was a typedef name (only fastgo cares) *)
}.

Inductive skind := KStruct | KUnion | KException.
Record sschema := mkstruct { s_name : bytes; s_kind : skind; s_fields : list field }.
Record eschema := mkenum { e_name : bytes; e_values : list (bytes * Z) }.
Record env := mkenv { structs : list sschema; enums : list eschema }.

Definition req_eqb (a b : req) : bool :=
  match a, b with Required, Required | Optional, Optional | Default, Default => true | _, _ => false end.
Definition is_optional (f : field) : bool := req_eqb (f_req f) Optional.
Definition is_required (f : field) : bool := req_eqb (f_req f) Required.
Definition has_default (f : field) : bool := match f_default f with Some _ => true | None => false end.

Fixpoint find_struct_in (l : list sschema) (n : bytes) : option sschema :=
  match l with [] => None | s :: r => if beqb n (s_name s) then Some s else find_struct_in r n end.
Definition find_struct (e : env) (n : bytes) : option sschema := find_struct_in (structs e) n.

Fixpoint find_enum_in (l : list eschema) (n : bytes) : option eschema :=
  match l with [] => None | s :: r => if beqb n (e_name s) then Some s else find_enum_in r n end.
Definition find_enum (e : env) (n : bytes) : option eschema := find_enum_in (enums e) n.

Fixpoint find_field (id : Z) (l : list field) : option field :=
  match l with [] => None | f :: r => if id =? f_id f then Some f else find_field id r end.

Definition is_union (s : sschema) : bool := match s_kind s with KUnion => true | _ => false end.

(* IDL category of a (resolved) type; an unknown struct name counts as a struct *)
Definition category_of (e : env) (t : ty) : category :=
  match t with
  | TBool => Cat_Bool | TByte => Cat_Byte | TI16 => Cat_I16 | TI32 => Cat_I32 | TI64 => Cat_I64
  | TDouble => Cat_Double | TString => Cat_String | TBinary => Cat_Binary
  | TEnum _ => Cat_Enum
  | TRef n => match find_struct e n with
              | Some s => match s_kind s with KStruct => Cat_Struct | KUnion => Cat_Union | KException => Cat_Exception end
              | None => Cat_Struct end
  | TList _ => Cat_List | TSet _ => Cat_Set | TMap _ _ => Cat_Map
  end.

(* IsBaseType of generator/golang/thrift.go: base types and enums *)
Definition is_base (t : ty) : bool :=
  match t with TRef _ | TList _ | TSet _ | TMap _ _ => false | _ => true end.
Definition is_binary (t : ty) : bool := match t with TBinary => true | _ => false end.
Definition is_structlike (t : ty) : bool := match t with TRef _ => true | _ => false end.
Definition is_container (t : ty) : bool :=
  match t with TList _ | TSet _ | TMap _ _ => true | _ => false end.

(* NeedRedirect restricted to base types: optional, no default, not binary -> Go pointer *)
Definition base_ptr (f : field) : bool :=
  is_optional f && negb (has_default f) && is_base (f_ty f) && negb (is_binary (f_ty f)).
(* SupportIsSet *)
Definition supports_isset (f : field) : bool := is_structlike (f_ty f) || is_optional f.

(* the wire type the Thrift specification prescribes for a type (the *specification*;
   the model computes wire types through the table regenerated from /repo, see Std.ttype_of) *)
Definition spec_ttype (t : ty) : ttype :=
  match t with
  | TBool => T_BOOL | TByte => T_BYTE | TI16 => T_I16 | TI32 => T_I32 | TI64 => T_I64
  | TDouble => T_DOUBLE | TString | TBinary => T_STRING | TEnum _ => T_I32 | TRef _ => T_STRUCT
  | TList _ => T_LIST | TSet _ => T_SET | TMap _ _ => T_MAP
  end.

(* schema sanity that thriftgo's checker guarantees for accepted IDL *)
Fixpoint nodupZ (l : list Z) : bool :=
  match l with [] => true | x :: r => negb (existsb (Z.eqb x) r) && nodupZ r end.
Definition wf_struct (s : sschema) : bool :=
  nodupZ (map f_id (s_fields s)) &&
  forallb (fun f => (-32768 <=? f_id f) && (f_id f <? 32768)) (s_fields s) &&
  (if is_union s then forallb is_optional (s_fields s) else true).
Definition wf_env (e : env) : bool := forallb wf_struct (structs e).
