(* Idl/Rules.v — the catalogue of rules whose violation thriftgo must diagnose
   (property C04), each with a DECLARATIVE, decidable predicate over the PARSED
   program.  Definitions only.  Nothing here mentions the models Idl/Check.v,
   Idl/Accept.v or the executable part of Idl/Resolve.v; the symbol-table notions
   ([def_of], [file_incs], [spec_include], [file_occs], [dkind]) are those of the
   specification Idl/ResolveSpec.v.

   Shape of every AST-level predicate: SOME file reachable from the main file through
   include statements ([reachable]: main file, or any transitively included file) has
   SOME site (struct, union, exception, argument list, throws list, typedef, constant,
   default value, service, ...) with the defect.

   Rules decided outside the AST (no parsed program exists, or the program is not
   concerned): SyntaxError, MissingInclude, BadCommandLine.  [violates] is [false]
   for them; they are judged on the behaviour of the binary only (Corr/C04.v), and
   the command line has its own small model in Idl/Accept.v. *)
From Coq Require Import List Bool Arith NArith ZArith.
From Coq.Strings Require Import Byte.
From Verif Require Import Base.Bytes Idl.Ast Idl.AstUtil Idl.Resolve Idl.ResolveSpec.
Import ListNotations.

Inductive rule :=
| SyntaxError | MissingInclude | IncludeCycle | DupGlobal | DupField | DupFieldId
| DupFunction | DupEnumName | DupEnumNumber | EnumOutOfInt32 | UndefinedType
| NonTypeAsType | TypedefCycle | UndefinedConst | AmbiguousConst | ConstKindMismatch
| StructLiteralBadKey | OnewayReturns | OnewayThrows | UnknownBaseService
| SecondUnionDefault | BadCommandLine.

Definition all_rules : list rule :=
  [SyntaxError; MissingInclude; IncludeCycle; DupGlobal; DupField; DupFieldId; DupFunction;
   DupEnumName; DupEnumNumber; EnumOutOfInt32; UndefinedType; NonTypeAsType; TypedefCycle;
   UndefinedConst; AmbiguousConst; ConstKindMismatch; StructLiteralBadKey; OnewayReturns;
   OnewayThrows; UnknownBaseService; SecondUnionDefault; BadCommandLine].

(* position in [all_rules]; the numbers the producer harness/cmd/c04 uses *)
Definition rule_of_code (n : N) : option rule := nth_error all_rules (N.to_nat n).

(* the rules whose violation is a property of the parsed program *)
Definition ast_level (r : rule) : bool :=
  match r with SyntaxError | MissingInclude | BadCommandLine => false | _ => true end.

(* ---------------------------------------------------------------- generic *)

(* two positions of the list hold equal elements *)
Fixpoint dupb {A} (eqb : A -> A -> bool) (l : list A) : bool :=
  match l with
  | [] => false
  | x :: r => existsb (eqb x) r || dupb eqb r
  end.

(* the Filenames the include statements of a file refer to *)
Definition inc_targets (f : file) : list bytes :=
  flat_map (fun i => match in_ref i with Some h => [h] | None => [] end) (f_includes f).

(* [b] is reached from [a] through at most [n] include statements *)
Fixpoint reach_b (n : nat) (p : program) (a b : bytes) : bool :=
  beqb a b ||
  match n with
  | O => false
  | S k =>
    match prog_file p a with
    | Some f => existsb (fun h => reach_b k p h b) (inc_targets f)
    | None => false
    end
  end.

(* main file, or transitively included file *)
Definition reachable (p : program) (fn : bytes) : bool :=
  match p with
  | [] => false
  | (m, _) :: _ => reach_b (List.length p) p m fn
  end.

(* some reachable file of the program is [bad] *)
Definition some_file (p : program) (bad : bytes -> file -> bool) : bool :=
  existsb (fun fn => reachable p fn &&
                     match prog_file p fn with Some f => bad fn f | None => false end)
          (map fst p).

(* ---------------------------------------------------------------- include cycle *)

(* some reachable file includes, directly or transitively, itself *)
Definition include_cycle (p : program) : bool :=
  some_file p (fun fn f => existsb (fun h => reach_b (List.length p) p h fn) (inc_targets f)).

(* ---------------------------------------------------------------- names, ids, enum values *)

(* every global name of the file: typedefs, constants, enums, structs, unions,
   exceptions, services *)
Definition dup_global (f : file) : bool := dupb beqb (map fst (file_def_names f)).

(* the field lists of a file: struct-likes, and per function the arguments and the
   throws *)
Definition field_lists (f : file) : list (list field) :=
  map sl_fields (struct_likes f) ++
  flat_map' (fun sv => flat_map' (fun fn => [fn_args fn; fn_throws fn]) (sv_functions sv)) (f_services f).

Definition dup_field_name (f : file) : bool :=
  existsb (fun l => dupb beqb (map fd_name l)) (field_lists f).

(* the id lists: as above, but the throws of a function that returns a value share
   their id space with the return value, which the generated result struct stores as
   field 0 *)
Definition id_lists (f : file) : list (list Z) :=
  map (fun s => map fd_id (sl_fields s)) (struct_likes f) ++
  flat_map' (fun sv => flat_map' (fun fn =>
      [map fd_id (fn_args fn);
       (if fn_void fn then [] else [0%Z]) ++ map fd_id (fn_throws fn)]) (sv_functions sv)) (f_services f).

Definition dup_field_id (f : file) : bool := existsb (dupb Z.eqb) (id_lists f).

Definition dup_function (f : file) : bool :=
  existsb (fun sv => dupb beqb (map fn_name (sv_functions sv))) (f_services f).

Definition dup_enum_name (f : file) : bool :=
  existsb (fun e => dupb beqb (map ev_name (en_values e))) (f_enums f).
Definition dup_enum_number (f : file) : bool :=
  existsb (fun e => dupb Z.eqb (map ev_value (en_values e))) (f_enums f).

Definition fits_int32 (z : Z) : bool := ((-2147483648) <=? z)%Z && (z <=? 2147483647)%Z.
Definition enum_out_of_int32 (f : file) : bool :=
  existsb (fun e => existsb (fun v => negb (fits_int32 (ev_value v))) (en_values e)) (f_enums f).

(* ---------------------------------------------------------------- functions, unions, services *)

Definition some_function (f : file) (bad : function -> bool) : bool :=
  existsb (fun sv => existsb bad (sv_functions sv)) (f_services f).

Definition oneway_returns (f : file) : bool :=
  some_function f (fun fn => fn_oneway fn && negb (fn_void fn)).
Definition oneway_throws (f : file) : bool :=
  some_function f (fun fn => fn_oneway fn && match fn_throws fn with [] => false | _ => true end).

Definition has_default (fd : field) : bool := match fd_default fd with Some _ => true | None => false end.
Definition second_union_default (f : file) : bool :=
  existsb (fun u => 2 <=? List.length (filter has_default (sl_fields u))) (f_unions f).

(* "extends B": B is a service of the file; "extends pre.B": some include with IDL
   prefix pre defines the service B *)
Definition base_known (p : program) (fn : bytes) (f : file) (sv : service) : bool :=
  match split_type (sv_extends sv) with
  | [a] => match def_of p fn a with Some DkService => true | _ => false end
  | [pre; m] =>
    match spec_include p is_service_kind pre m (file_incs f) 0 with Some _ => true | None => false end
  | _ => true                                         (* no extends clause *)
  end.
Definition unknown_base_service (p : program) (fn : bytes) (f : file) : bool :=
  existsb (fun sv => negb (base_known p fn f sv)) (f_services f).

(* ---------------------------------------------------------------- type names *)

Inductive name_status := NsOk | NsUndefined | NsNotAType.
Definition name_status_eqb (a b : name_status) : bool :=
  match a, b with NsOk, NsOk | NsUndefined, NsUndefined | NsNotAType, NsNotAType => true | _, _ => false end.

(* some include with the prefix defines the name at all *)
Definition prefix_defines (p : program) (pre m : bytes) (incs : list (bytes * option bytes)) : bool :=
  existsb (fun e => beqb (fst e) pre &&
                    match snd e with
                    | Some gn => match def_of p gn m with Some _ => true | None => false end
                    | None => false
                    end) incs.

(* what a name used as a type, written in file [fn], stands for *)
Definition type_name_status (p : program) (fn : bytes) (f : file) (n : bytes) : name_status :=
  match builtin_category n with
  | Some _ => NsOk
  | None =>
    match split_type n with
    | [a] =>
      match def_of p fn a with
      | Some k => if is_type_kind k then NsOk else NsNotAType
      | None => NsUndefined
      end
    | [pre; m] =>
      match spec_include p is_type_kind pre m (file_incs f) 0 with
      | Some _ => NsOk
      | None => if prefix_defines p pre m (file_incs f) then NsNotAType else NsUndefined
      end
    | _ => NsUndefined
    end
  end.

(* some type occurrence of the file (typedef, constant, field, container element,
   function result, argument, throws) has the status *)
Definition some_type_name (st : name_status) (p : program) (fn : bytes) (f : file) : bool :=
  existsb (fun t => name_status_eqb (type_name_status p fn f (ty_name t)) st) (file_occs f).

(* ---------------------------------------------------------------- typedef cycles *)

(* the definition (file, name) a type name written in [fn] goes to *)
Definition resolve_name (p : program) (fn n : bytes) : option (bytes * bytes) :=
  match builtin_category n with
  | Some _ => None
  | None =>
    match split_type n with
    | [a] => Some (fn, a)
    | [pre; m] =>
      match prog_file p fn with
      | Some f =>
        match spec_include p is_type_kind pre m (file_incs f) 0 with
        | Some (_, gn) => Some (gn, m)
        | None => None
        end
      | None => None
      end
    | _ => None
    end
  end.

(* one hop of a typedef chain: from the typedef (file, alias) to the definition its
   target names *)
Definition td_step (p : program) (node : bytes * bytes) : option (bytes * bytes) :=
  match def_of p (fst node) (snd node) with
  | Some (DkTypedef tgt) => resolve_name p (fst node) tgt
  | _ => None
  end.

Fixpoint td_iter (k : nat) (p : program) (node : bytes * bytes) : option (bytes * bytes) :=
  match k with
  | O => Some node
  | S k' => match td_step p node with Some n' => td_iter k' p n' | None => None end
  end.

Definition node_eqb (a b : bytes * bytes) : bool := beqb (fst a) (fst b) && beqb (snd a) (snd b).

(* the typedef comes back to itself after 1 .. (number of typedefs) hops *)
Definition on_typedef_cycle (p : program) (node : bytes * bytes) : bool :=
  existsb (fun k => match td_iter (S k) p node with Some n' => node_eqb n' node | None => false end)
          (seq 0 (prog_typedef_count p)).

Definition typedef_cycle (p : program) (fn : bytes) (f : file) : bool :=
  existsb (fun td => on_typedef_cycle p (fn, td_alias td)) (f_typedefs f).

(* ---------------------------------------------------------------- identifiers used as values *)

(* the enum a name of file [fn] stands for in NAME.VALUE — executable form of
   ResolveSpec.enum_denotes: Some (Some (file of the enum, its value names, index)),
   Some None = no enum, None = gave up (chain longer than [fuel]) *)
Fixpoint spec_enum (fuel : nat) (p : program) (fn n : bytes) : option (option (bytes * list bytes * Z)) :=
  match fuel with
  | O => None
  | S k =>
    match def_of p fn n with
    | Some (DkEnum vs) => Some (Some (fn, vs, (-1)%Z))
    | Some (DkTypedef tgt) =>
      match builtin_category tgt with
      | Some _ => Some None
      | None =>
        match split_type tgt with
        | [a] => spec_enum k p fn a
        | [pre; m] =>
          match prog_file p fn with
          | Some f =>
            match spec_include p is_type_kind pre m (file_incs f) 0 with
            | Some (i, gn) =>
              match spec_enum k p gn m with
              | Some (Some (efn, vs, _)) => Some (Some (efn, vs, Z.of_nat i))
              | Some None => Some None
              | None => None
              end
            | None => Some None
            end
          | None => Some None
          end
        | _ => Some None
        end
      end
    | _ => Some None
    end
  end.

Definition mem_bytes (x : bytes) (l : list bytes) : bool := existsb (beqb x) l.

(* every include with prefix [pre] (numbered from [idx]) contributes [h idx target] *)
Fixpoint inc_expl (h : nat -> bytes -> option (list const_extra)) (pre : bytes)
         (incs : list (bytes * option bytes)) (idx : nat) : option (list const_extra) :=
  match incs with
  | [] => Some []
  | (pre', ref) :: r =>
    match (if beqb pre' pre then match ref with Some gn => h idx gn | None => Some [] end else Some []),
          inc_expl h pre r (S idx) with
    | Some a, Some b => Some (a ++ b)
    | _, _ => None
    end
  end.

(* the explanations of one way to split the identifier (ResolveSpec.const_denotes,
   one constructor per case) *)
Definition alt_expl (fuel : nat) (p : program) (fn : bytes) (f : file) (ss : list bytes) : option (list const_extra) :=
  match ss with
  | [a] =>
    Some (match def_of p fn a with Some DkConst => [Extra false (-1)%Z a []] | _ => [] end)
  | [e; v] =>
    match spec_enum fuel p fn e,
          inc_expl (fun idx gn => Some (match def_of p gn v with
                                        | Some DkConst => [Extra false (Z.of_nat idx) v e]
                                        | _ => []
                                        end)) e (file_incs f) 0 with
    | Some r, Some c2 =>
      Some ((match r with
             | Some (_, vs, i) => if mem_bytes v vs then [Extra true i v e] else []
             | None => []
             end) ++ c2)
    | _, _ => None
    end
  | [pre; e; v] =>
    inc_expl (fun idx gn =>
                match spec_enum fuel p gn e with
                | Some (Some (_, vs, _)) => Some (if mem_bytes v vs then [Extra true (Z.of_nat idx) v e] else [])
                | Some None => Some []
                | None => None
                end) pre (file_incs f) 0
  | _ => Some []
  end.

Fixpoint all_expl (fuel : nat) (p : program) (fn : bytes) (f : file) (sss : list (list bytes)) : option (list const_extra) :=
  match sss with
  | [] => Some []
  | ss :: r =>
    match alt_expl fuel p fn f ss, all_expl fuel p fn f r with
    | Some a, Some b => Some (a ++ b)
    | _, _ => None
    end
  end.

(* all explanations of the identifier [s] written in file [fn] *)
Definition explanations (p : program) (fn : bytes) (f : file) (s : bytes) : option (list const_extra) :=
  all_expl (S (prog_typedef_count p)) p fn f (split_value s).

(* the identifiers of a file that must be explained: every identifier among the
   constant values and default values, nested ones included, except true / false *)
Definition file_idents (f : file) : list bytes :=
  flat_map (fun c => match c with
                     | CIdent s _ => if ident_is_bool s then [] else [s]
                     | _ => []
                     end) (file_const_values f).

Definition two_distinct (l : list const_extra) : bool :=
  existsb (fun x => existsb (fun y => negb (const_extra_eqb x y)) l) l.

Definition undefined_const (p : program) (fn : bytes) (f : file) : bool :=
  existsb (fun s => match explanations p fn f s with Some [] => true | _ => false end) (file_idents f).
Definition ambiguous_const (p : program) (fn : bytes) (f : file) : bool :=
  existsb (fun s => match explanations p fn f s with Some l => two_distinct l | None => false end) (file_idents f).

(* ---------------------------------------------------------------- kinds of constant values *)

(* the typed values of a file: (declared type, value) of every constant and of every
   default value (struct, union, exception fields, arguments, throws) *)
Definition typed_values (f : file) : list (ty * const_value) :=
  map (fun c => (co_type c, co_value c)) (f_constants f) ++
  flat_map (fun fd => match fd_default fd with Some v => [(fd_type fd, v)] | None => [] end) (file_fields f).

(* the written forms a scalar type can hold: bool <- integer, double, identifier;
   integers <- integer, identifier; double <- integer, double, identifier;
   string / binary <- literal, identifier other than true / false *)
Definition scalar_holds (c : category) (v : const_value) : bool :=
  match c with
  | CatBool | CatDouble =>
    match v with CInt _ | CDouble _ | CIdent _ _ => true | _ => false end
  | CatByte | CatI16 | CatI32 | CatI64 =>
    match v with CInt _ | CIdent _ _ => true | _ => false end
  | CatString | CatBinary =>
    match v with CLiteral _ => true | CIdent s _ => negb (ident_is_bool s) | _ => false end
  | _ => true
  end.

(* the struct-like a type name written DIRECTLY (no typedef, no include prefix) in
   file [fn] stands for *)
Definition direct_struct (p : program) (fn : bytes) (f : file) (t : ty) : option struct_like :=
  match builtin_category (ty_name t) with
  | Some _ => None
  | None =>
    match split_type (ty_name t) with
    | [a] =>
      match def_of p fn a with
      | Some (DkStruct _) => find_struct_like f a
      | _ => None
      end
    | _ => None
    end
  end.

(* a value of a kind the declared type cannot hold: a scalar type named directly with
   a value of another written form (a string for an integer, ...), or a struct-like
   named directly with something that is neither a map literal nor an identifier *)
Definition kind_mismatch (p : program) (fn : bytes) (f : file) : bool :=
  existsb (fun tv =>
             match builtin_category (ty_name (fst tv)) with
             | Some c => negb (scalar_holds c (snd tv))
             | None =>
               match direct_struct p fn f (fst tv) with
               | Some _ => match snd tv with CMap _ | CIdent _ _ => false | _ => true end
               | None => false
               end
             end) (typed_values f).

(* a struct literal with a key that is not a string literal, or names no field *)
Definition bad_key (s : struct_like) (k : const_value) : bool :=
  match k with
  | CLiteral n => match find_field s n with Some _ => false | None => true end
  | _ => true
  end.
Definition struct_literal_bad_key (p : program) (fn : bytes) (f : file) : bool :=
  existsb (fun tv =>
             match direct_struct p fn f (fst tv), snd tv with
             | Some s, CMap l => existsb (fun kv => bad_key s (fst kv)) l
             | _, _ => false
             end) (typed_values f).

(* ---------------------------------------------------------------- the catalogue *)

Definition violates (r : rule) (p : program) : bool :=
  match r with
  | SyntaxError | MissingInclude | BadCommandLine => false
  | IncludeCycle => include_cycle p
  | DupGlobal => some_file p (fun _ f => dup_global f)
  | DupField => some_file p (fun _ f => dup_field_name f)
  | DupFieldId => some_file p (fun _ f => dup_field_id f)
  | DupFunction => some_file p (fun _ f => dup_function f)
  | DupEnumName => some_file p (fun _ f => dup_enum_name f)
  | DupEnumNumber => some_file p (fun _ f => dup_enum_number f)
  | EnumOutOfInt32 => some_file p (fun _ f => enum_out_of_int32 f)
  | UndefinedType => some_file p (some_type_name NsUndefined p)
  | NonTypeAsType => some_file p (some_type_name NsNotAType p)
  | TypedefCycle => some_file p (typedef_cycle p)
  | UndefinedConst => some_file p (undefined_const p)
  | AmbiguousConst => some_file p (ambiguous_const p)
  | ConstKindMismatch => some_file p (kind_mismatch p)
  | StructLiteralBadKey => some_file p (struct_literal_bad_key p)
  | OnewayReturns => some_file p (fun _ f => oneway_returns f)
  | OnewayThrows => some_file p (fun _ f => oneway_throws f)
  | UnknownBaseService => some_file p (unknown_base_service p)
  | SecondUnionDefault => some_file p (fun _ f => second_union_default f)
  end.

(* the same defect, but sitting in the MAIN file *)
Definition main_file (p : program) (bad : bytes -> file -> bool) : bool :=
  match p with [] => false | (m, f) :: _ => bad m f end.
