BASELINE_OFF = "cd /repo && for m in . tests/fieldmask tests/unknown_fields; do (cd $m && GOFLAGS=-mod=mod GOPROXY=off GOSUMDB=off go test -json -vet=off -count=1 -timeout 25m ./...); done"
HOOK_COMMITS = ["1fe0d6a", "11e80b9", "6a2530e"]
NOTES = ("Every check rebuilds its Coq cone (make) and its Go harness against /repo's working tree, runs the real code on generated "
         "inputs, and evaluates model + property oracles inside coqc. Properties not yet claimed are listed under not_applicable with "
         "reason 'not built yet' only while the framework is growing; see DESIGN.md section 8 (status).")

import json, os, glob
_here = os.path.dirname(os.path.abspath(__file__))
# a property is claimed only once the coordinator has accepted its check (lib/manifest/ACCEPTED)
_accepted = set(open(os.path.join(_here, "manifest", "ACCEPTED")).read().split())
CHECKS = [json.load(open(p)) for p in sorted(glob.glob(os.path.join(_here, "manifest", "C*.json")))
          if os.path.basename(p)[:-5] in _accepted]

_NOT_BUILT = "not built yet in this round (framework growing); planned per DESIGN.md section 3"
_NA_REASONS = {}
_p = os.path.join(_here, "manifest", "not_applicable.json")
if os.path.exists(_p):
    _NA_REASONS = json.load(open(_p))
NOT_APPLICABLE = [dict(property_id="C%02d" % i, reason=_NA_REASONS.get("C%02d" % i, _NOT_BUILT))
                  for i in range(1, 21) if "C%02d" % i not in [c["id"] for c in CHECKS]]
