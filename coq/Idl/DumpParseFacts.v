(* Idl/DumpParseFacts.v — property C17, part 3: the dumper's tokens are one spelling of the
   abstract token sequence of the view (Idl/Print.v), hence parse into the view
   (parse_tokens_conc of Idl/PrintFacts.v, here for the dumper's order of headers). *)
From Coq Require Import List Bool NArith ZArith Lia Arith.
From Coq.Strings Require Import Byte.
From Verif Require Import Base.Bytes Idl.Ast Idl.AstFacts Idl.Lex Idl.LexFacts Idl.Parse Idl.Print Idl.PrintFacts Idl.Dump Idl.DumpFacts.
From Verif Require Import Idl.DumpLexFacts Idl.DumpNumFacts.
Import ListNotations.

Lemma piece_toks_app a b : piece_toks (a ++ b) = piece_toks a ++ piece_toks b.
Proof. unfold piece_toks. apply flat_map_app. Qed.
Lemma pt_T t r : piece_toks (PT t :: r) = t :: piece_toks r.
Proof. reflexivity. Qed.
Lemma pt_N text r : piece_toks (PN text :: r) = num_token text :: piece_toks r.
Proof. reflexivity. Qed.
Lemma pt_W ws r : piece_toks (Dump.PW ws :: r) = piece_toks r.
Proof. reflexivity. Qed.
Lemma pt_nil : piece_toks [] = [].
Proof. reflexivity. Qed.

(* ---- one abstract token at a time *)
Lemma cW w ps ts : conc ps ts -> conc (Print.PW w :: ps) (TWord w :: ts).
Proof. intro H. apply (conc_cons (Print.PW w) ps [TWord w] ts); [constructor | exact H]. Qed.
Lemma cP c ps ts : conc ps ts -> conc (PP c :: ps) (TPunct c :: ts).
Proof. intro H. apply (conc_cons (PP c) ps [TPunct c] ts); [constructor | exact H]. Qed.
Lemma cL s ps ts : lit_ok s = true -> conc ps ts -> conc (PL s :: ps) (lit_token s :: ts).
Proof.
  intros Hs H. destruct (lit_token_roundtrip s Hs) as (q & raw & E & _ & _ & Hu). rewrite E.
  apply (conc_cons (PL s) ps [TLit q raw] ts); [constructor; exact Hu | exact H].
Qed.
Lemma cSep0 ps ts : conc ps ts -> conc (PSep :: ps) ts.
Proof. intro H. apply (conc_cons PSep ps [] ts); [constructor | exact H]. Qed.
Lemma cSep1 ps ts : conc ps ts -> conc (PSep :: ps) (TPunct p_comma :: ts).
Proof. intro H. apply (conc_cons PSep ps [TPunct p_comma] ts); [constructor; reflexivity | exact H]. Qed.
Lemma cI z t ps ts : int_value t = Some z -> conc ps ts -> conc (PI z :: ps) (TInt t :: ts).
Proof. intros Hz H. apply (conc_cons (PI z) ps [TInt t] ts); [constructor; exact Hz | exact H]. Qed.
Lemma cD t ps ts : conc ps ts -> conc (PD (double_value t) :: ps) (TDouble t :: ts).
Proof. intro H. apply (conc_cons (PD (double_value t)) ps [TDouble t] ts); [constructor; reflexivity | exact H]. Qed.
Lemma cEA0 ps ts : conc ps ts -> conc (POptEmptyAnnos :: ps) ts.
Proof. intro H. apply (conc_cons POptEmptyAnnos ps [] ts); [constructor | exact H]. Qed.

(* ================================================================ spellings of numbers *)
(* integers are written in decimal by fmt.Sprintf("%d") and read back exactly when they fit
   (Idl/DumpNumFacts.v): constants and enum values in 64 bits, field ids in 32 bits *)
Definition z_spell (z : Z) : bool := in_i64 z.
Definition id_spell (z : Z) : bool := in_i32 z.
(* a double text read as an integer constant must be a valid one *)
Definition dbl_spell (text : bytes) : bool :=
  match num_token text with
  | TInt s => match int_value s with Some _ => true | None => false end
  | TDouble _ => true
  | _ => false
  end.

Section Spell.
  Variable fmt : N -> bytes.
  Fixpoint cv_spell (c : const_value) : bool :=
    match c with
    | CDouble d => dbl_spell (fmt d)
    | CInt z => z_spell z
    | CLiteral s => lit_ok s
    | CIdent _ _ => true
    | CList l => forallb cv_spell l
    | CMap l => forallb (fun kv => cv_spell (fst kv) && cv_spell (snd kv)) l
    end.
  Definition field_spell (f : field) : bool :=
    id_spell (fd_id f) && match fd_default f with Some v => cv_spell v | None => true end.
  Definition function_spell (f : function) : bool :=
    forallb field_spell (fn_args f) && forallb field_spell (fn_throws f).
  Definition spell_ok (a : file) : bool :=
    forallb (fun c => cv_spell (co_value c)) (f_constants a) &&
    forallb (fun e => forallb (fun v => z_spell (ev_value v)) (en_values e)) (f_enums a) &&
    forallb (fun s => forallb field_spell (sl_fields s)) (f_structs a ++ f_unions a ++ f_exceptions a) &&
    forallb (fun s => forallb function_spell (sv_functions s)) (f_services a).
End Spell.

Lemma z_spell_int z : z_spell z = true -> int_value (print_Z z) = Some z.
Proof. apply int_value_print_Z. Qed.

(* ================================================================ the tokens are a spelling of the view *)
Section Conc.
  Variable fmt : N -> bytes.

  Ltac norm := repeat rewrite <- app_assoc; cbn [app].
  Ltac ptoks := unfold word, punct, sp, nl, indent4, comma_sp, lit, int_piece;
                repeat (rewrite ?piece_toks_app, ?pt_T, ?pt_N, ?pt_W, ?pt_nil); cbn [app].

  (* annotations *)
  Lemma conc_anno_values k : forall vs last ps ts, forallb lit_ok vs = true -> conc ps ts ->
    conc (flat_map (fun v => [Print.PW k; PP p_eq; PL v; PSep]) vs ++ ps)
         (piece_toks (anno_values_pieces k vs last) ++ ts).
  Proof.
    induction vs as [|v r IH]; intros last ps ts Hl H; [exact H|].
    cbn [forallb] in Hl. apply andb_true_iff in Hl. destruct Hl as [Hv Hr].
    cbn [flat_map anno_values_pieces]. ptoks. norm.
    apply cW; norm. apply cP; norm. apply cL; [exact Hv|].
    destruct (last && match r with [] => true | _ :: _ => false end); ptoks; norm.
    - apply cSep0; norm. norm; apply IH; assumption.
    - apply cSep1; norm. norm; apply IH; assumption.
  Qed.

  Lemma conc_anno_list : forall a ps ts, forallb anno_ok a = true -> conc ps ts ->
    conc (flat_map (fun an => flat_map (fun v => [Print.PW (an_key an); PP p_eq; PL v; PSep]) (an_values an)) a ++ ps)
         (piece_toks (anno_list_pieces a) ++ ts).
  Proof.
    induction a as [|x r IH]; intros ps ts Ha H; [exact H|].
    cbn [forallb] in Ha. apply andb_true_iff in Ha. destruct Ha as [Hx Hr].
    unfold anno_ok in Hx. apply andb_true_iff in Hx. destruct Hx as [_ Hv].
    cbn [flat_map anno_list_pieces]. ptoks. norm. norm; apply conc_anno_values; [exact Hv|]. norm; apply IH; assumption.
  Qed.

  Lemma conc_annos a ps ts : annos_ok a = true -> conc ps ts ->
    conc (protos_annos (view_annos a) ++ ps) (piece_toks (annos_pieces a) ++ ts).
  Proof.
    intros Ha H. rewrite (view_annos_id a Ha). unfold annos_ok in Ha. apply andb_true_iff in Ha. destruct Ha as [Ha _].
    destruct a as [|x r].
    - cbn [protos_annos annos_pieces app]. rewrite pt_nil. cbn [app]. apply cEA0. exact H.
    - unfold protos_annos, annos_pieces. ptoks. norm. apply cP; norm. norm; apply conc_anno_list; [exact Ha|]. cbn [app]. apply cP; norm. exact H.
  Qed.

  Lemma pt_C c r : piece_toks (PC c :: r) = piece_toks r.
  Proof. reflexivity. Qed.
  Lemma pt_comment prefix c : piece_toks prefix = [] -> piece_toks (comment_pieces prefix c) = [].
  Proof.
    intro Hp. unfold comment_pieces. destruct (forallb go_space c); [reflexivity|].
    rewrite piece_toks_app, Hp. reflexivity.
  Qed.
  Ltac pcomment := rewrite ?(pt_comment [] _ eq_refl), ?(pt_comment [indent4] _ eq_refl); cbn [app].

  (* ---- types *)
  Definition pd_ty (t : ty) : bool := ty_ok t && wf_type (view_ty t).

  Lemma wf_type_unfold name k v cpp an cat r td :
    wf_type (Ty name k v cpp an cat r td) =
    wf_annos an
    && match cat with CatConstant => true | _ => false end
    && match r with None => true | _ => false end
    && match td with None => true | _ => false end
    && match k, v with
       | Some kt, Some vt => beqb name kw_map && wf_type kt && wf_type vt
       | None, Some vt => (beqb name kw_set || beqb name kw_list) && wf_type vt
       | None, None => type_name_ok name && beqb cpp []
       | Some _, None => false
       end.
  Proof. reflexivity. Qed.

  Lemma protos_type_unfold name k v cpp an cat r td :
    protos_type (Ty name k v cpp an cat r td) =
    (match k, v with
     | Some kt, Some vt =>
       [Print.PW kw_map] ++ protos_cpp cpp ++ [PP p_lpoint] ++ protos_type kt ++ [PP p_comma] ++ protos_type vt ++ [PP p_rpoint]
     | None, Some vt =>
       if beqb name kw_list
       then [Print.PW kw_list; PP p_lpoint] ++ protos_type vt ++ [PP p_rpoint] ++ protos_cpp cpp
       else [Print.PW kw_set] ++ protos_cpp cpp ++ [PP p_lpoint] ++ protos_type vt ++ [PP p_rpoint]
     | _, None => [Print.PW name]
     end) ++ protos_annos an.
  Proof. reflexivity. Qed.
  Lemma type_pieces_unfold n k v c an cat r td :
    type_pieces (Ty n k v c an cat r td) =
    (match k, v with
     | Some kt, Some vt =>
       [word n; punct p_lpoint] ++ type_pieces kt ++ [punct p_comma] ++ type_pieces vt ++ [punct p_rpoint]
     | None, Some vt => [word n; punct p_lpoint] ++ type_pieces vt ++ [punct p_rpoint]
     | _, _ => [word n]
     end) ++ annos_pieces an.
  Proof. reflexivity. Qed.

  Lemma conc_type : forall t, ty_ok t = true -> wf_type (view_ty t) = true ->
    forall ps ts, conc ps ts -> conc (protos_type (view_ty t) ++ ps) (piece_toks (type_pieces t) ++ ts).
  Proof.
    induction t as [n k v c an cat r td IHk IHv] using ty_ind'. intros Hok Hwf ps ts H.
    cbn [ty_ok] in Hok. apply andb_true_iff in Hok. destruct Hok as [Han Hsh].
    destruct k as [kt|], v as [vt|]; cbn [view_ty] in Hwf |- *; unfold ty_plain in Hwf |- *; rewrite wf_type_unfold in Hwf;
      repeat (apply andb_true_iff in Hwf; destruct Hwf as [Hwf ?]);
      repeat match goal with Hc : (_ && _) = true |- _ => apply andb_true_iff in Hc; destruct Hc end;
      rewrite protos_type_unfold, type_pieces_unfold; cbn [protos_cpp]; ptoks; norm.
    - match goal with Hn : beqb n kw_map = true |- _ => apply beqb_true in Hn; subst n end.
      apply cW; norm. apply cP; norm. norm; apply (IHk kt eq_refl); [assumption | assumption|].
      cbn [app]. apply cP; norm. norm; apply (IHv vt eq_refl); [assumption | assumption|].
      cbn [app]. apply cP; norm. norm; apply conc_annos; assumption.
    - discriminate.
    - match goal with Hn : (beqb n kw_set || beqb n kw_list) = true |- _ => rename Hn into Hn' end.
      destruct (beqb n kw_list) eqn:El.
      + apply beqb_true in El. subst n. norm. apply cW; norm. apply cP; norm.
        norm; apply (IHv vt eq_refl); [assumption | assumption|]. cbn [app]. apply cP; norm. norm; apply conc_annos; assumption.
      + rewrite orb_false_r in Hn'. apply beqb_true in Hn'. subst n. norm. apply cW; norm. apply cP; norm.
        norm; apply (IHv vt eq_refl); [assumption | assumption|]. cbn [app]. apply cP; norm. norm; apply conc_annos; assumption.
    - apply cW; norm. norm; apply conc_annos; assumption.
  Qed.

  (* ---- constant values *)
  Lemma conc_cv : forall c, cv_spell fmt c = true ->
    forall ps ts, conc ps ts -> conc (protos_cv (view_cv fmt c) ++ ps) (piece_toks (cv_pieces fmt c) ++ ts).
  Proof.
    induction c as [d|z|s|s e|l IH|l IH] using const_value_ind'; intros Hs ps ts H; cbn [cv_spell] in Hs;
      cbn [view_cv cv_pieces protos_cv]; ptoks; norm.
    - unfold dbl_spell in Hs. unfold num_view. destruct (num_token (fmt d)) as [w|t|t|q raw|pc]; try discriminate.
      + destruct (int_value t) as [z|] eqn:Ez; [|discriminate]. cbn [protos_cv app]. apply cI; assumption.
      + cbn [protos_cv app]. apply cD. exact H.
    - apply cI; [apply z_spell_int; exact Hs | exact H].
    - rewrite (view_lit_id s Hs). apply cL; assumption.
    - apply cW; norm. exact H.
    - apply cP; norm. rewrite flat_map_map.
      induction IH as [|x r Hx _ IHr]; cbn [flat_map app].
      + rewrite pt_nil. cbn [app]. apply cP; norm. exact H.
      + cbn [forallb] in Hs. apply andb_true_iff in Hs. destruct Hs as [H1 H2]. ptoks. norm.
        norm; apply Hx; [exact H1|]. cbn [app].
        destruct r as [|y r'].
        * cbn [flat_map app]. rewrite pt_nil. cbn [app]. apply cSep0; norm. apply cP; norm. exact H.
        * ptoks. apply cSep1; norm. specialize (IHr H2). revert IHr. ptoks. norm. intro IHr. exact IHr.
    - apply cP; norm. rewrite flat_map_map.
      induction IH as [|[k v] r [Hk Hv] _ IHr]; cbn [flat_map app].
      + ptoks. apply cP; norm. exact H.
      + cbn [forallb fst snd] in Hs. apply andb_true_iff in Hs. destruct Hs as [H1 H2].
        apply andb_true_iff in H1. destruct H1 as [H1k H1v]. cbn [fst snd] in *. ptoks. norm.
        norm; apply Hk; [exact H1k|]. cbn [app]. apply cP; norm. norm; apply Hv; [exact H1v|]. cbn [app].
        destruct r as [|y r'].
        * cbn [flat_map app]. ptoks. apply cSep0; norm. apply cP; norm. exact H.
        * ptoks. apply cSep1; norm. specialize (IHr H2). revert IHr. ptoks. norm. intro IHr. exact IHr.
  Qed.

  (* ---- fields *)
  Definition pd_field (f : field) : bool :=
    field_ok fmt f && field_spell fmt f && wf_type (view_ty (fd_type f)).

  Lemma conc_req_plain r ps ts : conc ps ts ->
    conc (protos_req false r ++ ps) (piece_toks (req_pieces r) ++ ts).
  Proof. intro H. destruct r; cbn [protos_req req_pieces app]; ptoks; [exact H | apply cW; exact H | apply cW; exact H]. Qed.
  Lemma conc_req_throws r r' ps ts : conc ps ts ->
    conc (protos_req true r' ++ ps) (piece_toks (req_pieces r) ++ ts).
  Proof.
    intro H. cbn [protos_req app]. destruct r; cbn [req_pieces]; ptoks.
    - apply (conc_cons PThrowsReq ps [] ts); [constructor | exact H].
    - apply (conc_cons PThrowsReq ps [TWord kw_required] ts); [constructor | exact H].
    - apply (conc_cons PThrowsReq ps [TWord kw_optional] ts); [constructor | exact H].
  Qed.

  (* [g]: the field of the view (same id, name, type, default, annotations; for a throws
     entry the requiredness is forced) *)
  Lemma conc_field throws prev f r' : pd_field f = true -> (throws = true \/ r' = fd_req f) ->
    forall ps ts, conc ps ts ->
    conc (protos_field throws prev (set_req (view_field fmt f) r') ++ ps)
         (piece_toks (field_pieces fmt f) ++ TPunct p_comma :: ts) /\
    conc (protos_field throws prev (set_req (view_field fmt f) r') ++ ps)
         (piece_toks (field_pieces fmt f) ++ ts).
  Proof.
    unfold pd_field, field_ok, field_spell, id_spell. intros Hf Hr ps ts H.
    repeat match goal with Hc : (_ && _) = true |- _ => apply andb_true_iff in Hc; destruct Hc end.
    destruct f as [id name req t d an cm]. cbn [fd_id fd_type fd_default fd_annos fd_req] in *.
    unfold protos_field, field_pieces, set_req, view_field.
    cbn [fd_id fd_name fd_req fd_type fd_default fd_annos fd_comments].
    assert (Hid : field_id_value (print_Z id) = id) by (apply field_id_value_print_Z; assumption).
    assert (Hidc : forall ps' ts', conc ps' ts' ->
              conc ((if Z.eqb id (implicit_id prev) then [POptFid id] else [PFid id]) ++ ps')
                   (TInt (print_Z id) :: TPunct p_colon :: ts')).
    { intros ps' ts' H'. destruct (Z.eqb id (implicit_id prev)); cbn [app].
      - apply (conc_cons (POptFid id) ps' [TInt (print_Z id); TPunct p_colon] ts'); [constructor; exact Hid | exact H'].
      - apply (conc_cons (PFid id) ps' [TInt (print_Z id); TPunct p_colon] ts'); [constructor; exact Hid | exact H']. }
    assert (Hbody : forall tl, conc [PSep] tl -> conc ps ts ->
      conc ((if Z.eqb id (implicit_id prev) then [POptFid id] else [PFid id]) ++
            protos_req throws r' ++ protos_type (view_ty t) ++ [Print.PW name] ++
            match option_map (view_cv fmt) d with Some c => PP p_eq :: protos_cv c | None => [] end ++
            protos_annos (view_annos an) ++ [PSep] ++ ps)
           (piece_toks ([int_piece id; punct p_colon; sp] ++ req_pieces req ++ type_pieces t ++ [sp; word name] ++
              match d with Some v => [sp; punct p_eq; sp] ++ cv_pieces fmt v | None => [] end ++ annos_pieces an) ++ tl ++ ts)).
    { intros tl Htl Hps. ptoks. norm. apply Hidc.
      assert (Hsep : conc (PSep :: ps) (tl ++ ts)) by (apply (conc_app [PSep] ps tl ts); assumption).
      destruct Hr as [-> | ->]; [apply conc_req_throws | destruct throws; [apply conc_req_throws | apply conc_req_plain]];
        (norm; apply conc_type; [assumption | assumption|]; apply cW; norm;
         destruct d as [v|]; cbn [option_map]; ptoks; norm;
         [ apply cP; norm; apply conc_cv; [assumption|]; norm; apply conc_annos; assumption
         | apply conc_annos; assumption ]). }
    split.
    - specialize (Hbody [TPunct p_comma]). cbn [app] in Hbody. norm.
      repeat rewrite <- app_assoc in Hbody. cbn [app] in Hbody. apply Hbody; [|exact H].
      apply (conc_cons PSep [] [TPunct p_comma] []); [constructor; reflexivity | constructor].
    - specialize (Hbody []). cbn [app] in Hbody. norm.
      repeat rewrite <- app_assoc in Hbody. cbn [app] in Hbody. apply Hbody; [|exact H].
      apply (conc_cons PSep [] [] []); constructor.
  Qed.

  (* ---- field lists.  [VF]: how the view spells a field of this list *)
  Lemma conc_sep_fields throws r' :
    (throws = true \/ forall f : field, r' f = fd_req f) ->
    forall l prev ps ts, forallb pd_field l = true -> conc ps ts ->
    conc (protos_fields throws prev (map (fun f => set_req (view_field fmt f) (r' f)) l) ++ ps)
         (piece_toks (sep_fields fmt l) ++ ts).
  Proof.
    intros Hr. induction l as [|f r IH]; intros prev ps ts Hl H; [exact H|].
    cbn [forallb] in Hl. apply andb_true_iff in Hl. destruct Hl as [Hf Hrr].
    cbn [map protos_fields sep_fields]. ptoks. norm.
    assert (Hr' : throws = true \/ r' f = fd_req f) by (destruct Hr as [Hr|Hr]; [left; exact Hr | right; apply Hr]).
    destruct r as [|g r2].
    - cbn [map protos_fields sep_fields app]. rewrite pt_nil. cbn [app].
      apply (proj2 (conc_field throws prev f (r' f) Hf Hr' ps ts H)).
    - ptoks. norm.
      apply (proj1 (conc_field throws prev f (r' f) Hf Hr' _ _ (IH (Some (fd_id (set_req (view_field fmt f) (r' f)))) ps ts Hrr H))).
  Qed.

  Lemma conc_struct_fields : forall l prev ps ts, forallb pd_field l = true -> conc ps ts ->
    conc (protos_fields false prev (map (view_field fmt) l) ++ ps)
         (piece_toks (flat_map (fun f => comment_pieces [indent4] (fd_comments f) ++ [indent4] ++ field_pieces fmt f ++ [nl]) l) ++ ts).
  Proof.
    induction l as [|f r IH]; intros prev ps ts Hl H; [exact H|].
    cbn [forallb] in Hl. apply andb_true_iff in Hl. destruct Hl as [Hf Hrr].
    cbn [map protos_fields flat_map]. ptoks. pcomment. norm.
    assert (E : view_field fmt f = set_req (view_field fmt f) (fd_req f)) by (destruct f; reflexivity).
    rewrite E at 1.
    apply (proj2 (conc_field false prev f (fd_req f) Hf (or_intror eq_refl) _ _
                   (IH (Some (fd_id (view_field fmt f))) ps ts Hrr H))).
  Qed.

  Lemma view_fields_id l : forallb pd_field l = true -> view_fields fmt l = map (view_field fmt) l.
  Proof.
    intro H. unfold view_fields. apply assign_ids_id. rewrite forallb_map. apply forallb_forall. intros f Hf.
    rewrite forallb_forall in H. specialize (H f Hf). unfold pd_field, field_ok in H.
    repeat match goal with Hc : (_ && _) = true |- _ => apply andb_true_iff in Hc; destruct Hc end.
    destruct f; assumption.
  Qed.
  Lemma view_throws_id l : forallb pd_field l = true ->
    assign_ids None (map (fun x => set_req (view_field fmt x) ReqOptional) l) = map (fun x => set_req (view_field fmt x) ReqOptional) l.
  Proof.
    intro H. apply assign_ids_id. rewrite forallb_map. apply forallb_forall. intros f Hf.
    rewrite forallb_forall in H. specialize (H f Hf). unfold pd_field, field_ok in H.
    repeat match goal with Hc : (_ && _) = true |- _ => apply andb_true_iff in Hc; destruct Hc end.
    destruct f; assumption.
  Qed.

  (* ---- struct-likes *)
  Definition pd_struct (s : struct_like) : bool := forallb pd_field (sl_fields s) && annos_ok (sl_annos s).

  Lemma conc_struct k s : pd_struct s = true -> forall ps ts, conc ps ts ->
    conc (protos_struct_like (view_struct fmt k s) ++ ps)
         (piece_toks (struct_pieces fmt (sl_kind_name k) s) ++ ts).
  Proof.
    unfold pd_struct. intros Hs ps ts H. apply andb_true_iff in Hs. destruct Hs as [Hf Ha].
    unfold protos_struct_like, view_struct, struct_pieces.
    cbn [sl_category sl_name sl_fields sl_annos]. rewrite (view_fields_id _ Hf).
    ptoks. pcomment. norm. apply cW; norm. apply cW; norm. apply cP; norm.
    apply conc_struct_fields; [exact Hf|]. cbn [app]. apply cP; norm. apply conc_annos; assumption.
  Qed.

  (* ---- functions and services *)
  Definition pd_function (f : function) : bool :=
    ty_ok (fn_type f) && (is_void_type (fn_type f) || wf_type (view_ty (fn_type f))) &&
    forallb pd_field (fn_args f) && forallb pd_field (fn_throws f) && annos_ok (fn_annos f).

  Lemma is_void_type_pieces t : is_void_type t = true -> type_pieces t = [word kw_void].
  Proof.
    destruct t as [n [k|] [v|] c an cat r td]; cbn [is_void_type]; try discriminate.
    destruct an; [|discriminate]. intro H. apply beqb_true in H. subst n. reflexivity.
  Qed.

  Lemma conc_function f : pd_function f = true -> forall ps ts, conc ps ts ->
    conc (protos_function (view_function fmt f) ++ ps) (piece_toks (function_pieces fmt f) ++ ts).
  Proof.
    unfold pd_function. intros Hf ps ts H.
    repeat match goal with Hc : (_ && _) = true |- _ => apply andb_true_iff in Hc; destruct Hc end.
    unfold protos_function, view_function, function_pieces.
    cbn [fn_oneway fn_void fn_type fn_name fn_args fn_throws fn_annos].
    rewrite (view_fields_id (fn_args f)) by assumption. rewrite (view_throws_id (fn_throws f)) by assumption.
    ptoks. pcomment. norm.
    assert (E : map (view_field fmt) (fn_args f) = map (fun x => set_req (view_field fmt x) (fd_req x)) (fn_args f))
      by (apply map_ext; intros [] ; reflexivity).
    destruct (fn_oneway f); ptoks; norm; [apply cW; norm|];
    (destruct (is_void_type (fn_type f)) eqn:Ev;
      [ rewrite (is_void_type_pieces _ Ev); ptoks; apply cW; norm
      | match goal with Hw : (false || wf_type _) = true |- _ => cbn [orb] in Hw end;
        norm; apply conc_type; [assumption | assumption|] ]);
    (apply cW; norm; apply cP; norm; rewrite E;
     apply (conc_sep_fields false fd_req (or_intror (fun _ => eq_refl))); [assumption|];
     apply cP; norm;
     destruct (fn_throws f) as [|t0 tr] eqn:Et; cbn [map]; ptoks; norm;
     [ apply conc_annos; [assumption|]; apply cSep0; exact H
     | apply cW; norm; apply cP; norm;
       apply (conc_sep_fields true (fun _ => ReqOptional) (or_introl eq_refl) (t0 :: tr)); [assumption|];
       cbn [app]; apply cP; norm; apply conc_annos; [assumption|]; apply cSep0; exact H ]).
  Qed.

  Lemma conc_flat_map {A} (pr : A -> list ptok) (pc : A -> list piece) (ok : A -> bool) :
    (forall x ps ts, ok x = true -> conc ps ts -> conc (pr x ++ ps) (piece_toks (pc x) ++ ts)) ->
    forall l ps ts, forallb ok l = true -> conc ps ts ->
    conc (flat_map pr l ++ ps) (piece_toks (flat_map pc l) ++ ts).
  Proof.
    intro Hx. induction l as [|x r IH]; intros ps ts Hl H; [exact H|].
    cbn [forallb] in Hl. apply andb_true_iff in Hl. destruct Hl as [H1 H2].
    cbn [flat_map]. rewrite piece_toks_app. norm. apply Hx; [exact H1|]. apply IH; assumption.
  Qed.

  Definition pd_service (s : service) : bool := forallb pd_function (sv_functions s) && annos_ok (sv_annos s).

  Lemma conc_service s : pd_service s = true -> forall ps ts, conc ps ts ->
    conc (protos_service (view_service fmt s) ++ ps) (piece_toks (service_pieces fmt s) ++ ts).
  Proof.
    unfold pd_service. intros Hs ps ts H. apply andb_true_iff in Hs. destruct Hs as [Hf Ha].
    unfold protos_service, view_service, service_pieces.
    cbn [sv_name sv_extends sv_functions sv_annos]. ptoks. pcomment. norm.
    apply cW; norm. apply cW; norm.
    assert (Hbody : conc
      (PP p_lwing :: flat_map protos_function (map (view_function fmt) (sv_functions s)) ++
       PP p_rwing :: protos_annos (view_annos (sv_annos s)) ++ ps)
      (TPunct p_lwing :: piece_toks (flat_map (function_pieces fmt) (sv_functions s)) ++
       TPunct p_rwing :: piece_toks (annos_pieces (sv_annos s)) ++ ts)).
    { apply cP; norm. rewrite flat_map_map.
      apply (conc_flat_map (fun f => protos_function (view_function fmt f)) (function_pieces fmt) pd_function);
        [intros; apply conc_function; assumption | exact Hf|].
      apply cP; norm. apply conc_annos; assumption. }
    destruct (sv_extends s) as [|e0 e]; ptoks; norm.
    - exact Hbody.
    - apply cW; norm. apply cW; norm. exact Hbody.
  Qed.

  (* ---- enums *)
  Definition pd_enum (e : enum) : bool :=
    forallb (fun v => z_spell (ev_value v) && annos_ok (ev_annos v)) (en_values e) && annos_ok (en_annos e).

  Lemma conc_enum_values : forall l prev ps ts,
    forallb (fun v => z_spell (ev_value v) && annos_ok (ev_annos v)) l = true -> conc ps ts ->
    conc (protos_enum_values prev (map (fun v => EnumValue (ev_name v) (ev_value v) (view_annos (ev_annos v)) []) l) ++ ps)
         (piece_toks (enum_values_pieces l) ++ ts).
  Proof.
    induction l as [|v r IH]; intros prev ps ts Hl H; [exact H|].
    cbn [forallb] in Hl. apply andb_true_iff in Hl. destruct Hl as [Hv Hr].
    apply andb_true_iff in Hv. destruct Hv as [Hz Ha].
    cbn [map protos_enum_values enum_values_pieces]. unfold protos_enum_value. cbn [ev_name ev_value ev_annos].
    ptoks. pcomment. norm. apply cW; norm.
    assert (Hval : forall ps' ts', conc ps' ts' ->
      conc ((if Z.eqb (ev_value v) (implicit_enum_value prev) then [POptEnumVal (ev_value v)]
             else [PP p_eq; PI (ev_value v)]) ++ ps') (TPunct p_eq :: TInt (print_Z (ev_value v)) :: ts')).
    { intros ps' ts' H'. destruct (Z.eqb (ev_value v) (implicit_enum_value prev)); cbn [app].
      - apply (conc_cons (POptEnumVal (ev_value v)) ps' [TPunct p_eq; TInt (print_Z (ev_value v))] ts');
          [constructor; apply z_spell_int; exact Hz | exact H'].
      - apply cP. apply cI; [apply z_spell_int; exact Hz | exact H']. }
    apply Hval. apply conc_annos; [exact Ha|]. apply cSep0; norm.
    destruct r as [|w r']; ptoks; apply IH; assumption.
  Qed.

  Lemma conc_enum e : pd_enum e = true -> forall ps ts, conc ps ts ->
    conc (protos_enum (view_enum e) ++ ps) (piece_toks (enum_pieces e) ++ ts).
  Proof.
    unfold pd_enum. intros He ps ts H. apply andb_true_iff in He. destruct He as [Hv Ha].
    unfold protos_enum, view_enum, enum_pieces. cbn [en_name en_values en_annos].
    ptoks. pcomment. norm. apply cW; norm. apply cW; norm. apply cP; norm.
    apply conc_enum_values; [exact Hv|]. cbn [app]. apply cP; norm. apply conc_annos; assumption.
  Qed.

  (* ---- typedefs, constants, namespaces *)
  Definition pd_typedef (t : typedef) : bool := pd_ty (td_type t) && annos_ok (td_annos t).
  Lemma conc_typedef t : pd_typedef t = true -> forall ps ts, conc ps ts ->
    conc (protos_typedef (view_typedef t) ++ ps) (piece_toks (typedef_pieces t) ++ ts).
  Proof.
    unfold pd_typedef, pd_ty. intros Ht ps ts H.
    repeat match goal with Hc : (_ && _) = true |- _ => apply andb_true_iff in Hc; destruct Hc end.
    unfold protos_typedef, view_typedef, typedef_pieces. cbn [td_type td_alias td_annos].
    ptoks. pcomment. norm. apply cW; norm. apply conc_type; [assumption | assumption|].
    apply cW; norm. apply conc_annos; assumption.
  Qed.

  Definition pd_constant (c : constant) : bool :=
    pd_ty (co_type c) && cv_spell fmt (co_value c) && annos_ok (co_annos c).
  Lemma conc_constant c : pd_constant c = true -> forall ps ts, conc ps ts ->
    conc (protos_constant (view_constant fmt c) ++ ps) (piece_toks (constant_pieces fmt c) ++ ts).
  Proof.
    unfold pd_constant, pd_ty. intros Hc ps ts H.
    repeat match goal with Hc : (_ && _) = true |- _ => apply andb_true_iff in Hc; destruct Hc end.
    unfold protos_constant, view_constant, constant_pieces. cbn [co_type co_name co_value co_annos].
    ptoks. pcomment. norm. apply cW; norm. apply conc_type; [assumption | assumption|].
    apply cW; norm. apply cP; norm. apply conc_cv; [assumption|]. apply cSep0; norm. apply conc_annos; assumption.
  Qed.

  Lemma conc_namespace n : annos_ok (ns_annos n) = true -> forall ps ts, conc ps ts ->
    conc (protos_namespace (view_namespace n) ++ ps) (piece_toks (namespace_pieces n) ++ ts).
  Proof.
    intros Ha ps ts H. unfold protos_namespace, view_namespace, namespace_pieces, scope_piece.
    cbn [ns_language ns_name ns_annos]. ptoks. norm. apply cW; norm.
    destruct (beqb (ns_language n) [p_star]); ptoks; [apply cP | apply cW]; norm; apply cW; norm; apply conc_annos; assumption.
  Qed.

  Lemma piece_toks_section {A} (f : A -> list piece) l : piece_toks (section f l) = piece_toks (flat_map f l).
  Proof. unfold section. rewrite piece_toks_app. destruct l; [reflexivity|]. unfold nl. rewrite pt_W, pt_nil. apply app_nil_r. Qed.
End Conc.

(* ================================================================ the file *)
Section FileLevel.
  Variable fmt : N -> bytes.
  Ltac norm := repeat rewrite <- app_assoc; cbn [app].

  (* the dumper writes the headers in the order include, namespace, cpp_include *)
  Definition dump_hs (v : file) : list header :=
    map (fun i => HInclude (in_path i)) (f_includes v) ++ map HNamespace (f_namespaces v) ++
    map HCppInclude (f_cpp_includes v).

  Definition pd_ok (a : file) : bool :=
    includes_ok (f_includes a) && forallb lit_ok (f_cpp_includes a) &&
    forallb (fun n => annos_ok (ns_annos n)) (f_namespaces a) &&
    forallb pd_typedef (f_typedefs a) && forallb (pd_constant fmt) (f_constants a) &&
    forallb pd_enum (f_enums a) && forallb (pd_struct fmt) (f_structs a) && forallb (pd_struct fmt) (f_unions a) &&
    forallb (pd_struct fmt) (f_exceptions a) && forallb (pd_service fmt) (f_services a).

  Lemma view_includes_eq l : includes_ok l = true ->
    add_includes [] (map (fun i => HInclude (view_lit (in_path i))) l) = map (fun i => Include (in_path i) None None) l.
  Proof.
    unfold includes_ok. intro H. apply andb_true_iff in H. destruct H as [H1 H2].
    assert (E : map (fun i => HInclude (view_lit (in_path i))) l = map HInclude (map in_path l)).
    { rewrite map_map. apply (map_ext_forallb _ _ (fun i => lit_ok (in_path i) && nonempty_l (in_path i)) l); [|exact H1].
      intros i Hi. apply andb_true_iff in Hi. destruct Hi as [Hi _]. rewrite (view_lit_id _ Hi). reflexivity. }
    rewrite E. rewrite add_includes_acc.
    - cbn [app]. rewrite map_map. reflexivity.
    - rewrite forallb_map. apply forallb_forall. intros i Hi. rewrite forallb_forall in H1.
      specialize (H1 i Hi). apply andb_true_iff in H1. tauto.
    - exact H2.
    - intros; reflexivity.
  Qed.

  Theorem conc_file a : pd_ok a = true ->
    conc (flat_map protos_header (dump_hs (dump_view fmt a)) ++ flat_map protos_def (defs_of (dump_view fmt a)))
         (piece_toks (dump_pieces fmt a)).
  Proof.
    unfold pd_ok. intro H. repeat (apply andb_true_iff in H; destruct H as [H ?]).
    unfold dump_hs, defs_of, dump_view, dump_pieces.
    cbn [f_includes f_cpp_includes f_namespaces f_typedefs f_constants f_enums f_structs f_unions f_exceptions f_services].
    assert (Hinc : includes_ok (f_includes a) = true) by (unfold includes_ok; rewrite H, H9; reflexivity).
    rewrite (view_includes_eq _ Hinc).
    rewrite !flat_map_app, !piece_toks_app, !piece_toks_section, !map_map, !flat_map_map.
    cbn [protos_header protos_def in_path].
    rewrite <- (app_nil_r (piece_toks (flat_map (service_pieces fmt) (f_services a)))).
    norm.
    apply (conc_flat_map (fun i => [Print.PW kw_include; PL (in_path i)]) _ (fun i => lit_ok (in_path i) && nonempty_l (in_path i))).
    { intros i ps ts Hi Hc. apply andb_true_iff in Hi. destruct Hi as [Hi _]. cbn [app].
      unfold word, sp, lit, nl. rewrite pt_T, pt_W, pt_T, pt_W, pt_nil. cbn [app]. apply cW. apply cL; assumption. }
    { exact H. }
    apply (conc_flat_map (fun n => protos_namespace (view_namespace n)) _ (fun n => annos_ok (ns_annos n)));
      [intros; apply conc_namespace; assumption | assumption|].
    apply (conc_flat_map (fun p => [Print.PW kw_cpp_include; PL (view_lit p)]) _ lit_ok).
    { intros p ps ts Hp Hc. cbn [app]. rewrite (view_lit_id p Hp).
      unfold word, sp, lit, nl. rewrite pt_T, pt_W, pt_T, pt_W, pt_nil. cbn [app]. apply cW. apply cL; assumption. }
    { assumption. }
    apply (conc_flat_map (fun t => protos_typedef (view_typedef t)) _ pd_typedef);
      [intros; apply conc_typedef; assumption | assumption|].
    apply (conc_flat_map (fun c => protos_constant (view_constant fmt c)) _ (pd_constant fmt));
      [intros; apply conc_constant; assumption | assumption|].
    apply (conc_flat_map (fun e => protos_enum (view_enum e)) _ pd_enum);
      [intros; apply conc_enum; assumption | assumption|].
    apply (conc_flat_map (fun s => protos_struct_like (view_struct fmt SKStruct s)) (struct_pieces fmt kw_struct) (pd_struct fmt));
      [intros; apply (conc_struct fmt SKStruct); assumption | assumption|].
    apply (conc_flat_map (fun s => protos_struct_like (view_struct fmt SKUnion s)) (struct_pieces fmt kw_union) (pd_struct fmt));
      [intros; apply (conc_struct fmt SKUnion); assumption | assumption|].
    apply (conc_flat_map (fun s => protos_struct_like (view_struct fmt SKException s)) (struct_pieces fmt kw_exception) (pd_struct fmt));
      [intros; apply (conc_struct fmt SKException); assumption | assumption|].
    rewrite <- (app_nil_r (flat_map (fun x : service => protos_service (view_service fmt x)) (f_services a))).
    apply (conc_flat_map (fun s => protos_service (view_service fmt s)) _ (pd_service fmt));
      [intros; apply conc_service; assumption | assumption|].
    constructor.
  Qed.

  (* ---- the parser accepts the headers in any order of kinds *)
  Lemma add_includes_app : forall l1 l2 acc, add_includes acc (l1 ++ l2) = add_includes (add_includes acc l1) l2.
  Proof.
    induction l1 as [|h r IH]; intros l2 acc; [reflexivity|].
    cbn [app add_includes]. destruct h as [p|p|n]; try apply IH.
    destruct (beqb p [] || existsb (fun i => beqb (in_path i) p) acc); apply IH.
  Qed.

  Lemma file_of_dump_hs n v ds : file_of n (dump_hs v) ds = file_of n (hs_of v) ds.
  Proof.
    unfold file_of, dump_hs, hs_of. f_equal.
    - rewrite !add_includes_app.
      set (A := add_includes [] (map (fun i => HInclude (in_path i)) (f_includes v))).
      assert (HN : forall acc, add_includes acc (map HNamespace (f_namespaces v)) = acc).
      { intro acc. apply add_includes_non. intros h Hh. apply in_map_iff in Hh. destruct Hh as (? & <- & _). exact I. }
      assert (HC : forall acc, add_includes acc (map HCppInclude (f_cpp_includes v)) = acc).
      { intro acc. apply add_includes_non. intros h Hh. apply in_map_iff in Hh. destruct Hh as (? & <- & _). exact I. }
      rewrite ?HN, ?HC, ?HN, ?HC. reflexivity.
    - rewrite !flat_map_app, !flat_map_map. cbn.
      rewrite (flat_map_nil _ (f_includes v)) by reflexivity.
      rewrite (flat_map_nil _ (f_namespaces v)) by reflexivity. cbn [app]. rewrite app_nil_r. reflexivity.
    - rewrite !flat_map_app, !flat_map_map. cbn.
      rewrite (flat_map_nil _ (f_includes v)) by reflexivity.
      rewrite (flat_map_nil _ (f_cpp_includes v)) by reflexivity. cbn [app]. rewrite app_nil_r. reflexivity.
  Qed.

  (* parse_tokens_conc of Idl/PrintFacts.v for the dumper's order of headers *)
  Theorem parse_tokens_dump_order v lts fin :
    wf_file v = true ->
    C (flat_map protos_header (dump_hs v) ++ flat_map protos_def (defs_of v)) lts ->
    exists a', parse_tokens (f_filename v) lts fin = Some a' /\ strip_comments a' = strip_comments v.
  Proof.
    intros Hwf H. destruct (wf_file_inv v Hwf) as (_ & _ & Hwns & Hwd & _).
    destruct (C_app_inv _ _ _ H) as (ph & pd & -> & Hph & Hpd).
    assert (Hwh : forallb wf_header (dump_hs v) = true).
    { unfold dump_hs. rewrite !forallb_app. rewrite forallb_forall in Hwns.
      assert (E1 : forallb wf_header (map (fun i => HInclude (in_path i)) (f_includes v)) = true)
        by (apply forallb_forall; intros h Hh; apply in_map_iff in Hh; destruct Hh as (? & <- & _); reflexivity).
      assert (E2 : forallb wf_header (map HCppInclude (f_cpp_includes v)) = true)
        by (apply forallb_forall; intros h Hh; apply in_map_iff in Hh; destruct Hh as (? & <- & _); reflexivity).
      assert (E3 : forallb wf_header (map HNamespace (f_namespaces v)) = true)
        by (apply forallb_forall; intros h Hh; apply in_map_iff in Hh; destruct Hh as (n & <- & Hn); exact (Hwns n Hn)).
      rewrite E1, E2, E3. reflexivity. }
    assert (Hrest : pd = [] \/ exists tr w X, pd = (tr, TWord w) :: X /\ In w def_kws).
    { destruct (defs_of v) as [|d r].
      - apply C_nil_inv in Hpd. left. exact Hpd.
      - cbn [flat_map] in Hpd. destruct (C_app_inv _ _ _ Hpd) as (p1 & p2 & -> & Hp1 & _).
        destruct (def_first d p1 Hp1) as (tr & w & p' & -> & Hin). right. exists tr, w, (p' ++ p2). auto. }
    unfold parse_tokens.
    rewrite (parse_headers_conc (dump_hs v) (S (List.length (ph ++ pd))) ph pd Hwh Hph); [| rewrite app_length; lia | exact Hrest].
    destruct (parse_defs_conc (defs_of v) (S (List.length (ph ++ pd)))
                              (match dump_hs v with [] => true | _ => false end) pd fin Hwd Hpd) as (ds' & Eds & Hmap);
      [rewrite app_length; lia|].
    rewrite Eds. eexists. split; [reflexivity|].
    rewrite (strip_file_of _ _ _ _ Hmap). rewrite file_of_dump_hs. rewrite (file_of_hs_defs v Hwf). reflexivity.
  Qed.

  (* the domain of the round trip, all decidable:
     lex_ok   names are words, literal values in the domain of quoteLiteral, double texts have
              a number shape, no recorded comments
     pd_ok    the AST has the shape the parser builds (annotation keys grouped, include paths
              distinct and not empty, no id equal to the NOTSET sentinel, types well formed in
              the sense of Idl/Print.v, ids in i32 and integer values in i64; a double text that
              reads as an integer is a valid integer constant)
     wf_file  the view is a file the token grammar can express (Idl/Print.v): no keyword used
              as a name, ids in i32, values in i64, containers named map / set / list *)
  Definition dump_ok (a : file) : bool :=
    lex_ok fmt a && pd_ok a && wf_file (dump_view fmt a).

  Theorem parse_dump a : dump_ok a = true ->
    exists b, parse (f_filename a) (dump fmt a) = Some b /\
              strip_comments b = strip_comments (dump_view fmt a).
  Proof.
    unfold dump_ok. intro H.
    apply andb_true_iff in H. destruct H as [H Hwf].
    apply andb_true_iff in H. destruct H as [Hlex Hpd].
    unfold parse.
    rewrite (lex_dump fmt a Hlex). destruct (group [] (dump_pieces fmt a)) as [lts fin] eqn:Eg.
    change (f_filename a) with (f_filename (dump_view fmt a)).
    apply parse_tokens_dump_order; [exact Hwf|].
    unfold C, untriv. replace lts with (fst (group [] (dump_pieces fmt a))) by (rewrite Eg; reflexivity).
    rewrite group_toks. apply conc_file. exact Hpd.
  Qed.
End FileLevel.
