(* Corr/C19.v — correspondence record and comparison for property C19.
   A case = one run of the REAL asyncPostProcess.OnFinished (kind 0, through generator.VerifOnFinished)
   or of the real Generator.Persist (kind 1, through generator.VerifPersist, files on a real disk)
   under -tags verif: the job list, the limit, the fault oracle, the event trace recorded by the
   verification hook (under a forced or a free-running schedule), the returned error class, the
   completed writes, the jobs whose callbacks returned an error, and the callback activity seen
   after the call returned.

   [mismatches] returns (case index, code):
     1  model and implementation disagree: the trace is not an execution of Gen/Persist.v (some
        event is not an enabled step), or the final state / result / write log differ  (correspondence)
     2  nil returned but not every job written exactly once with its own content    (property oracle)
     3  a started job failed but nil was returned (lost error)                       (property oracle)
     4  a callback of this call was running or started after the call had returned   (property oracle)
     5  a write that is not some job's own (path, content), or a job written twice   (property oracle)
     6  the call did not return (deadlock / hang)                                    (property oracle)
     7  the call panicked                                                            (property oracle)
     8  an error was returned that no failing callback of this run produced          (property oracle)
    10  the content slice given to the write callback changed while the callback was
        running: the post-processor's result is shared with another worker           (property oracle)
   The oracles 2-8 look only at what was observed on the implementation, not at the model. *)
From Coq Require Import List Arith Bool NArith Ascii String.
From Verif Require Import Base.Bytes Gen.Persist Gen.PersistHook.
Import ListNotations.

(* ---- where the trace points must sit for the labels of Gen/Persist.v to mean what they say ----
   (event, statement before, statement after).  An event that announces an operation enabling
   other goroutines sits directly before it (err-send before the channel send; done and release,
   in one deferred function registered after - hence run before - the deferred wg.Done(); <-processing);
   an event that reports an operation enabled by other goroutines sits directly after it (acquire,
   recv-err, final-wait, return after wg.Wait()).  Gen/PersistHook.v is regenerated from
   generator/generator.go on every run; if the placement or the statement skeleton of OnFinished
   differs from this table, every case is reported as a correspondence failure. *)
Open Scope string_scope.
Definition expected_hook_points : list (string * string * string) := [
  ("dispatch", "for-jobs", "select");
  ("acquire", "case-send-token", "case-recv-err");
  ("recv-err", "case-recv-err", "wait");
  ("return", "wait", "return-err");
  ("spawn", "add-1", "go-worker");
  ("done@defer", "defer-done-then-release", "var-err");
  ("release@defer", "defer-done-then-release", "var-err");
  ("worker-start", "defer-done-then-release", "var-err");
  ("pp-done", "block-end", "if-err-nil");
  ("write-done", "call-write", "block-end");
  ("err-send", "if-err-notnil", "send-err");
  ("final-wait", "wait", "select");
  ("return", "case-recv-err", "return-err");
  ("return", "default", "return-nil")
].
Definition expected_skeleton : list string := [
  "other"; "other"; "block-end";                       (* if p.concurrency <= 0 { p.concurrency = 1 } *)
  "var-wg"; "make-errs"; "make-tokens";
  "for-jobs"; "select"; "case-send-token"; "case-recv-err"; "wait"; "return-err"; "block-end";
  "add-1"; "go-worker"; "defer-done-then-release"; "var-err";
  "if-pp"; "call-pp"; "block-end";
  "if-err-nil"; "call-write"; "block-end";
  "if-err-notnil"; "send-err"; "block-end";
  "worker-args"; "block-end";
  "wait"; "select"; "case-recv-err"; "return-err"; "default"; "return-nil"; "block-end"
].
Close Scope string_scope.

Definition triple_eqb (a b : string * string * string) : bool :=
  String.eqb (fst (fst a)) (fst (fst b)) && String.eqb (snd (fst a)) (snd (fst b)) && String.eqb (snd a) (snd b).
Fixpoint list_eqb {A} (eqb : A -> A -> bool) (a b : list A) : bool :=
  match a, b with
  | [], [] => true
  | x :: a', y :: b' => eqb x y && list_eqb eqb a' b'
  | _, _ => false
  end.
Definition hook_ok : bool :=
  list_eqb triple_eqb hook_points expected_hook_points && list_eqb String.eqb skeleton expected_skeleton.

Inductive stage := SPP | SW.
Inductive result :=
| RNil                              (* nil *)
| RErr (j : nat) (st : stage)       (* the error produced by job j's PostProcess / write callback *)
| ROther                            (* some other error *)
| RPre                              (* Persist failed before starting any job *)
| RHang
| RPanic.

Record case := mkcase {
  c_kind : nat;                       (* 0 = OnFinished, 1 = Persist, 2 = OnFinished / Persist with the REAL
                                         GoBackend.PostProcess: contents are SHA-256 digests, c_jobs holds
                                         (path, digest of the content expected after post-processing, computed
                                         by a serial PostProcess on a private copy), c_ppnil = true: the model
                                         sees the post-processor as a pure function already applied *)
  c_mode : nat;                       (* 0 = forced schedule, 1 = free-running *)
  c_reserr : bool;                    (* kind 1: the response carries an error *)
  c_jobs : list (bytes * bytes);
  c_k : nat;
  c_ppnil : bool;                     (* no post-processor *)
  c_fpp : list nat;                   (* jobs whose PostProcess fails *)
  c_fw : list nat;                    (* jobs whose write fails *)
  c_trace : string;                   (* two characters per event, see parse_trace *)
  c_res : result;
  c_written : list (bytes * bytes);   (* completed writes (path, content) *)
  c_failed : list nat;                (* jobs whose PostProcess or write callback returned an error in this run *)
  c_late : nat;                       (* callbacks in flight at return + callback entries/exits after return *)
  c_unstable : nat                    (* kind 2: the slice handed to the write callback changed while the callback ran *)
}.

(* the post-processor used by the harness *)
Definition hpp (p c : bytes) : bytes := c ++ B "#pp:" ++ p.

(* trace encoding: kind letter + job digit *)
Definition digit (a : ascii) : option nat :=
  let v := nat_of_ascii a in
  if (48 <=? v) && (v <=? 57) then Some (v - 48)              (* 0-9 *)
  else if (65 <=? v) && (v <=? 90) then Some (v - 55)         (* A-Z = 10..35 *)
  else if (97 <=? v) && (v <=? 122) then Some (v - 61)        (* a-z = 36..61 *)
  else None.

Definition ev_of (kind idx : ascii) : option ev :=
  match kind with
  | "F"%char => Some EFinalWait
  | "R"%char => Some EReturn
  | _ =>
    match digit idx with
    | None => None
    | Some i =>
      match kind with
      | "d"%char => Some (EDispatch i)
      | "a"%char => Some (EAcquire i)
      | "r"%char => Some (ERecvErr i)
      | "s"%char => Some (ESpawn i)
      | "b"%char => Some (EStart i)
      | "p"%char => Some (EPP i)
      | "w"%char => Some (EWrite i)
      | "e"%char => Some (EErrSend i)
      | "D"%char => Some (EDone i)
      | "L"%char => Some (ERelease i)
      | _ => None
      end
    end
  end.

Fixpoint parse_trace (s : string) : option (list ev) :=
  match s with
  | EmptyString => Some []
  | String a (String b r) =>
      match ev_of a b, parse_trace r with
      | Some e, Some l => Some (e :: l)
      | _, _ => None
      end
  | _ => None
  end.

Definition pair_eqb (a b : bytes * bytes) : bool := beqb (fst a) (fst b) && beqb (snd a) (snd b).

Fixpoint remove1 (x : bytes * bytes) (l : list (bytes * bytes)) : option (list (bytes * bytes)) :=
  match l with
  | [] => None
  | y :: r => if pair_eqb x y then Some r else option_map (cons y) (remove1 x r)
  end.

(* a is a sub-multiset of b; returns what is left of b *)
Fixpoint subtract (a b : list (bytes * bytes)) : option (list (bytes * bytes)) :=
  match a with
  | [] => Some b
  | x :: r => match remove1 x b with Some b' => subtract r b' | None => None end
  end.
Definition sub_multiset (a b : list (bytes * bytes)) : bool :=
  match subtract a b with Some _ => true | None => false end.
Definition perm_eqb (a b : list (bytes * bytes)) : bool :=
  match subtract a b with Some [] => true | _ => false end.

Definition mem (j : nat) (l : list nat) : bool := existsb (Nat.eqb j) l.

Definition stage_eqb (a b : stage) : bool :=
  match a, b with SPP, SPP | SW, SW => true | _, _ => false end.

Definition check (c : case) : list N :=
  let ppf := if c_ppnil c then (fun _ x => x) else hpp in
  let fpp := fun j => mem j (c_fpp c) in
  let fw := fun j => mem j (c_fw c) in
  let pre := if Nat.eqb (c_kind c) 1 then persist_jobs (c_reserr c) (c_jobs c) else Some (c_jobs c) in
  match pre with
  | None =>
      (* the prologue of Persist fails: error, no event, nothing written *)
      (match c_res c, c_trace c, c_written c with
       | RPre, EmptyString, [] => if hook_ok then [] else [1%N]
       | _, _, _ => [1%N]
       end)
      ++ (match c_written c with [] => [] | _ => [5%N] end)
      ++ (match c_res c with RNil => [2%N] | RHang => [6%N] | RPanic => [7%N] | _ => [] end)
  | Some jobs =>
    let expected := map (out ppf) jobs in
    let corr :=
      if negb hook_ok then [1%N] else
      match parse_trace (c_trace c) with
      | None => [1%N]
      | Some tr =>
        match run_trace jobs (c_k c) ppf fpp fw (init jobs) tr with
        | None => [1%N]
        | Some s =>
          match c_res c with
          | RHang | RPanic => []            (* reported by the oracles; the trace prefix was accepted *)
          | r =>
            let res_ok :=
              match d s, r with
              | Ret None, RNil => true
              | Ret (Some e), RErr j st =>
                  (* forced schedule: the channel is FIFO, the returned error is exactly the model's.
                     free-running: two racing sends may be logged in the other order (the event
                     precedes the send), so any reported error is accepted *)
                  (if Nat.eqb (c_mode c) 0 then Nat.eqb e j else mem j (e :: errs s))
                  && stage_eqb st (if fpp j then SPP else SW)
              | _, _ => false
              end in
            if res_ok && perm_eqb (disk s) (c_written c) then [] else [1%N]
          end
        end
      end in
    let o2 := match c_res c with
              | RNil => if perm_eqb (c_written c) expected then [] else [2%N]
              | _ => [] end in
    let o3 := match c_res c, c_failed c with
              | RNil, _ :: _ => [3%N]
              | _, _ => [] end in
    let o4 := if Nat.eqb (c_late c) 0 then [] else [4%N] in
    let o5 := if sub_multiset (c_written c) expected then [] else [5%N] in
    let o6 := match c_res c with RHang => [6%N] | _ => [] end in
    let o7 := match c_res c with RPanic => [7%N] | _ => [] end in
    let o8 := match c_res c with
              | RErr j _ => if mem j (c_failed c) then [] else [8%N]
              | ROther | RPre => [8%N]
              | _ => [] end in
    let o10 := if Nat.eqb (c_unstable c) 0 then [] else [10%N] in
    corr ++ o2 ++ o3 ++ o4 ++ o5 ++ o6 ++ o7 ++ o8 ++ o10
  end.

Fixpoint mismatches_from (i : N) (cs : list case) : list (N * N) :=
  match cs with
  | [] => []
  | c :: r => map (fun code => (i, code)) (check c) ++ mismatches_from (i + 1)%N r
  end.
Definition mismatches (cs : list case) : list (N * N) := mismatches_from 0%N cs.
