(* Wire/MaskedFacts.v — facts about the generated codec under a field mask (Wire/Masked.v).

     hdr_count_eq_written    the pre-count loop as generated now gives the number of elements the
                             filtering loop writes, for every selector and every list
     to_wm_counts            every header count of what Write emits under a mask is truthful
     enc_r_cook              ... so the bytes are the standard encoding of a generic wire value
     to_wm_allpass / from_wm_allpass   a selector that passes everything (the nil mask) gives the
                             standard codec
     to_wm_spec              Write under a mask, read by a plain peer = restrict (wmode cfg)
     from_wm_spec            plain Write, Read under a mask                = restrict RqDrop
     restrict_agree          restrict depends on the selector only through the answers along
                             passing prefixes (gwalk): bridge to path sets
     ps_walk_spec            residual path sets answer as Mask.Spec.spec_pass
     old_loop witness        the pre-count loop of the pinned source under-counts            *)
From Coq Require Import List ZArith Bool Lia Arith.
From Coq.Strings Require Import Byte.
From Verif Require Import Base.Bytes Base.BE Wire.TType Wire.WVal Wire.Codec Wire.CodecFacts
  Wire.Schema Wire.Value Wire.GenTables Wire.Std Wire.StdFacts Wire.Masked.
From Verif Require Mask.Path Mask.Desc Mask.Trie Mask.Spec.
Import ListNotations.
Open Scope Z_scope.

(* ------------------------------------------------------------------ induction principles *)

Section WvalInd.
  Variable P : wval -> Prop.
  Hypothesis HBool : forall b, P (WBool b).
  Hypothesis HByte : forall z, P (WByte z).
  Hypothesis HDouble : forall z, P (WDouble z).
  Hypothesis HI16 : forall z, P (WI16 z).
  Hypothesis HI32 : forall z, P (WI32 z).
  Hypothesis HI64 : forall z, P (WI64 z).
  Hypothesis HStr : forall s, P (WStr s).
  Hypothesis HStruct : forall fs, Forall (fun f => P (snd f)) fs -> P (WStruct fs).
  Hypothesis HMap : forall kt vt kvs, Forall (fun kv => P (fst kv) /\ P (snd kv)) kvs -> P (WMap kt vt kvs).
  Hypothesis HSet : forall et l, Forall P l -> P (WSet et l).
  Hypothesis HList : forall et l, Forall P l -> P (WList et l).

  Fixpoint wval_ind2 (w : wval) : P w :=
    match w with
    | WBool b => HBool b | WByte z => HByte z | WDouble z => HDouble z | WI16 z => HI16 z
    | WI32 z => HI32 z | WI64 z => HI64 z | WStr s => HStr s
    | WStruct fs => HStruct fs ((fix go (l : list (ttype * Z * wval)) : Forall (fun f => P (snd f)) l :=
                                  match l with [] => Forall_nil _ | f :: r => Forall_cons f (wval_ind2 (snd f)) (go r) end) fs)
    | WMap kt vt kvs => HMap kt vt kvs ((fix go (l : list (wval * wval)) : Forall (fun kv => P (fst kv) /\ P (snd kv)) l :=
                                  match l with
                                  | [] => Forall_nil _
                                  | kv :: r => Forall_cons kv (conj (wval_ind2 (fst kv)) (wval_ind2 (snd kv))) (go r) end) kvs)
    | WSet et l => HSet et l ((fix go (l : list wval) : Forall P l :=
                                  match l with [] => Forall_nil _ | x :: r => Forall_cons x (wval_ind2 x) (go r) end) l)
    | WList et l => HList et l ((fix go (l : list wval) : Forall P l :=
                                  match l with [] => Forall_nil _ | x :: r => Forall_cons x (wval_ind2 x) (go r) end) l)
    end.
End WvalInd.

Section RwInd.
  Variable P : rw -> Prop.
  Hypothesis HV : forall w, P (RV w).
  Hypothesis HStruct : forall fs, Forall (fun f => P (snd f)) fs -> P (RStruct fs).
  Hypothesis HMap : forall kt vt c kvs, Forall (fun kv => P (snd kv)) kvs -> P (RMap kt vt c kvs).
  Hypothesis HSet : forall et c l, Forall P l -> P (RSet et c l).
  Hypothesis HList : forall et c l, Forall P l -> P (RList et c l).

  Fixpoint rw_ind2 (r : rw) : P r :=
    match r with
    | RV w => HV w
    | RStruct fs => HStruct fs ((fix go (l : list (ttype * Z * rw)) : Forall (fun f => P (snd f)) l :=
                                  match l with [] => Forall_nil _ | f :: r => Forall_cons f (rw_ind2 (snd f)) (go r) end) fs)
    | RMap kt vt c kvs => HMap kt vt c kvs ((fix go (l : list (wval * rw)) : Forall (fun kv => P (snd kv)) l :=
                                  match l with [] => Forall_nil _ | kv :: r => Forall_cons kv (rw_ind2 (snd kv)) (go r) end) kvs)
    | RSet et c l => HSet et c l ((fix go (l : list rw) : Forall P l :=
                                  match l with [] => Forall_nil _ | x :: r => Forall_cons x (rw_ind2 x) (go r) end) l)
    | RList et c l => HList et c l ((fix go (l : list rw) : Forall P l :=
                                  match l with [] => Forall_nil _ | x :: r => Forall_cons x (rw_ind2 x) (go r) end) l)
    end.
End RwInd.

(* ------------------------------------------------------------------ truthful counts: bytes = enc (cook r) *)

Lemma enc_struct_fix fs :
  enc (WStruct fs) =
  (fix go (l : list (ttype * Z * wval)) : bytes :=
     match l with [] => [x00] | (t, id, x) :: r => put_be 1 (code t) ++ put_be 2 id ++ enc x ++ go r end) fs.
Proof. reflexivity. Qed.

Theorem enc_r_cook : forall r, counts_ok r = true -> enc_r r = enc (cook r).
Proof.
  induction r using rw_ind2; intro Hc.
  - reflexivity.
  - cbn [counts_ok] in Hc. cbn [enc_r cook enc].
    induction fs as [|[[t i] x] fs IHfs]; [reflexivity|].
    inversion H as [|? ? Hx Hrest]; subst. cbn [forallb snd] in Hc, Hx. apply andb_true_iff in Hc. destruct Hc as [Hc1 Hc2].
    cbn [map fst snd]. rewrite (Hx Hc1). do 3 f_equal. apply IHfs; assumption.
  - cbn [counts_ok] in Hc. apply andb_true_iff in Hc. destruct Hc as [Hn Hc]. apply Nat.eqb_eq in Hn. subst c.
    cbn [enc_r cook enc]. rewrite map_length. do 3 f_equal.
    induction kvs as [|[k x] kvs IHk]; [reflexivity|].
    inversion H as [|? ? Hx Hrest]; subst. cbn [forallb snd] in Hc, Hx. apply andb_true_iff in Hc. destruct Hc as [Hc1 Hc2].
    cbn [map fst snd]. rewrite (Hx Hc1). do 2 f_equal. apply IHk; assumption.
  - cbn [counts_ok] in Hc. apply andb_true_iff in Hc. destruct Hc as [Hn Hc]. apply Nat.eqb_eq in Hn. subst c.
    cbn [enc_r cook enc]. rewrite map_length. do 2 f_equal.
    induction l as [|x l IHl]; [reflexivity|].
    inversion H as [|? ? Hx Hrest]; subst. cbn [forallb] in Hc. apply andb_true_iff in Hc. destruct Hc as [Hc1 Hc2].
    cbn [map]. rewrite (Hx Hc1). f_equal. apply IHl; assumption.
  - cbn [counts_ok] in Hc. apply andb_true_iff in Hc. destruct Hc as [Hn Hc]. apply Nat.eqb_eq in Hn. subst c.
    cbn [enc_r cook enc]. rewrite map_length. do 2 f_equal.
    induction l as [|x l IHl]; [reflexivity|].
    inversion H as [|? ? Hx Hrest]; subst. cbn [forallb] in Hc. apply andb_true_iff in Hc. destruct Hc as [Hc1 Hc2].
    cbn [map]. rewrite (Hx Hc1). f_equal. apply IHl; assumption.
Qed.

(* ------------------------------------------------------------------ generic facts about results *)

Lemma mapM_map {A B C} (f : B -> result C) (g : A -> B) l : mapM f (map g l) = mapM (fun x => f (g x)) l.
Proof. induction l as [|x l IH]; [reflexivity|]. cbn. rewrite IH. reflexivity. Qed.

Lemma mapM_ext {A B} (f g : A -> result B) l : (forall x, In x l -> f x = g x) -> mapM f l = mapM g l.
Proof.
  induction l as [|x l IH]; intro H; [reflexivity|]. cbn. rewrite (H x) by (left; reflexivity).
  rewrite IH by (intros; apply H; right; assumption). reflexivity.
Qed.

(* ------------------------------------------------------------------ the selector *)

Section SelFacts.
  Variable St : Type.
  Variable step : St -> qkey -> St * bool.
  Variable live : St -> bool.
  Variable top : St.
  Variable all_q : St -> bool.
  (* Exist() = false: every query passes (nil mask, mask without type) *)
  Hypothesis live_pass : forall st k, live st = false -> snd (step st k) = true.

  Local Notation mapM_sel := (Masked.mapM_sel St step).
  Local Notation sel_map := (Masked.sel_map St step).
  Local Notation hdr_loop := (Masked.hdr_loop St step).
  Local Notation hdr_count := (Masked.hdr_count St step live).

  Section Count.
    Context {A : Type}.
    Variable key : nat -> A -> qkey.
    Variable st : St.

    (* the number of elements the filtering loop handles *)
    Fixpoint count_sel (i : nat) (l : list A) : nat :=
      match l with
      | [] => O
      | x :: r => ((if snd (step st (key i x)) then 1 else 0) + count_sel (S i) r)%nat
      end.

    Lemma count_sel_le : forall l i, (count_sel i l <= length l)%nat.
    Proof. induction l as [|x l IH]; intro i; cbn; [lia|]. specialize (IH (S i)). destruct (snd (step st (key i x))); lia. Qed.

    Lemma hdr_loop_count : forall l i c, (length l <= c)%nat ->
      hdr_loop key st i l c = (c - (length l - count_sel i l))%nat.
    Proof.
      induction l as [|x l IH]; intros i c Hc; cbn [Masked.hdr_loop count_sel length]; [lia|].
      cbn [length] in Hc. pose proof (count_sel_le l (S i)) as Hle.
      destruct (snd (step st (key i x))).
      - rewrite IH by lia. lia.
      - rewrite IH by lia. lia.
    Qed.

    Lemma count_sel_all : forall l i, (forall k, snd (step st k) = true) -> count_sel i l = length l.
    Proof. induction l as [|x l IH]; intros i H; cbn; [reflexivity|]. rewrite H, IH by assumption. reflexivity. Qed.

    (* the pre-count loop gives the number of written elements: for every selector state, every list *)
    Theorem hdr_count_eq_written : forall l, hdr_count key st l = count_sel 0 l.
    Proof.
      intro l. unfold Masked.hdr_count. destruct (live st) eqn:Hl.
      - rewrite hdr_loop_count by lia. pose proof (count_sel_le l 0). lia.
      - symmetry. apply count_sel_all. intro k. apply live_pass. exact Hl.
    Qed.

    Lemma sel_map_length {B} (g : St -> A -> B) : forall l i, length (sel_map key st g i l) = count_sel i l.
    Proof.
      induction l as [|x l IH]; intro i; cbn [Masked.sel_map count_sel]; [reflexivity|].
      destruct (snd (step st (key i x))); cbn [length]; rewrite IH; reflexivity.
    Qed.

    Lemma mapM_sel_length {B} (f : St -> A -> result B) : forall l i ys,
      mapM_sel (fun i x => Ok (key i x)) st f i l = Ok ys -> length ys = count_sel i l.
    Proof.
      induction l as [|x l IH]; intros i ys H; cbn [Masked.mapM_sel count_sel] in *.
      - injection H as <-. reflexivity.
      - destruct (snd (step st (key i x))).
        + destruct (f (fst (step st (key i x))) x) as [y|]; [|discriminate].
          destruct (mapM_sel (fun i x => Ok (key i x)) st f (S i) l) as [ys'|] eqn:E; [|discriminate].
          injection H as <-. cbn [length]. rewrite (IH _ _ E). reflexivity.
        + rewrite (IH _ _ H). reflexivity.
    Qed.

    Lemma mapM_sel_Forall {B} (f : St -> A -> result B) (P : B -> Prop) : forall l i ys,
      Forall (fun x => forall s y, f s x = Ok y -> P y) l ->
      mapM_sel (fun i x => Ok (key i x)) st f i l = Ok ys -> Forall P ys.
    Proof.
      induction l as [|x l IH]; intros i ys HF H; cbn [Masked.mapM_sel] in H.
      - injection H as <-. constructor.
      - inversion HF as [|? ? Hx Hl]; subst.
        destruct (snd (step st (key i x))).
        + destruct (f (fst (step st (key i x))) x) as [y|] eqn:Ef; [|discriminate].
          destruct (mapM_sel (fun i x => Ok (key i x)) st f (S i) l) as [ys'|] eqn:E; [|discriminate].
          injection H as <-. constructor; [eapply Hx; eauto | eapply IH; eauto].
        + eapply IH; eauto.
    Qed.

    (* the filtering loop succeeds and reads back as the selection of the results *)
    Lemma mapM_sel_ok {B C} (f : St -> A -> result B) (g : B -> result C) (h : St -> A -> C) : forall l i,
      Forall (fun x => forall s, exists y, f s x = Ok y /\ g y = Ok (h s x)) l ->
      exists ys, mapM_sel (fun i x => Ok (key i x)) st f i l = Ok ys /\
                 mapM g ys = Ok (sel_map key st h i l).
    Proof.
      induction l as [|x l IH]; intros i HF.
      - exists []. split; reflexivity.
      - inversion HF as [|? ? Hx Hl]; subst. destruct (IH (S i) Hl) as (ys & Hm & Hg).
        cbn [Masked.mapM_sel Masked.sel_map]. destruct (snd (step st (key i x))).
        + destruct (Hx (fst (step st (key i x)))) as (y & Hf & Hgy).
          exists (y :: ys). rewrite Hf, Hm. split; [reflexivity|]. cbn [mapM]. rewrite Hgy, Hg. reflexivity.
        + exists ys. split; assumption.
    Qed.

    Lemma count_sel_const k : (forall i x, key i x = k) ->
      forall l i, count_sel i l = if snd (step st k) then length l else O.
    Proof.
      intros Hk. induction l as [|x l IH]; intro i; cbn [count_sel length].
      - destruct (snd (step st k)); reflexivity.
      - rewrite Hk, IH. destruct (snd (step st k)); reflexivity.
    Qed.
  End Count.

  Local Notation to_wm := (Masked.to_wm St step live top all_q).
  Local Notation from_wm := (Masked.from_wm St step).
  Local Notation restrict := (Masked.restrict St step top).

  (* named versions of the inline lambdas *)
  Definition wfield_m (cfg : mcfg) (e : env) (st : St) (s : sschema) (p : Z * value) : result (option (ttype * Z * rw)) :=
    match find_field (fst p) (s_fields s) with
    | None => Err EBadValue
    | Some f =>
        if present f (snd p) then
          let sub := fst (step st (QF (f_id f))) in
          let ex := snd (step st (QF (f_id f))) in
          if ex || (is_required f && negb (zero_required cfg)) then
            let s' := if ex then sub else top in
            if base_ptr f then
              match snd p with
              | VSome x => bind (to_wm cfg e s' (f_ty f) x) (fun x => Ok (Some (ttype_of e (f_ty f), f_id f, x)))
              | _ => Err EBadValue end
            else bind (to_wm cfg e s' (f_ty f) (snd p)) (fun x => Ok (Some (ttype_of e (f_ty f), f_id f, x)))
          else if is_required f then Ok (Some (ttype_of e (f_ty f), f_id f, RV (zero_w e (f_ty f))))
          else Ok None
        else Ok None
    end.

  Lemma to_wm_struct cfg e st n fs :
    to_wm cfg e st (TRef n) (VStruct fs) =
    match find_struct e n with
    | Some s =>
        let c := count_set (s_fields s) fs in
        if is_union s && negb (c =? 1)%nat then Err (EUnionCount c) else
        bind (mapM (wfield_m cfg e st s) fs) (fun ofs => Ok (RStruct (cat_somes ofs)))
    | None => Err EUnknownStruct end.
  Proof. reflexivity. Qed.

  Lemma forallb_cat_somes_rw (q : ttype * Z * rw -> bool) (l : list (option (ttype * Z * rw))) :
    forallb (fun o => match o with Some x => q x | None => true end) l = true -> forallb q (cat_somes l) = true.
  Proof.
    induction l as [|[x|] l IH]; cbn; [reflexivity | | exact IH].
    intro H. apply andb_true_iff in H. destruct H as [H1 H2]. rewrite H1, IH by assumption. reflexivity.
  Qed.

  (* every header count of what Write emits under a mask is the number of elements that follow *)
  Definition Pc (cfg : mcfg) (e : env) (v : value) : Prop :=
    forall st t r, to_wm cfg e st t v = Ok r -> counts_ok r = true.

  Lemma to_wm_counts_aux cfg e : pinned cfg = false ->
    forall v, Pc cfg e v /\ match v with VSome x => Pc cfg e x | _ => True end.
  Proof.
    intros Hpin v. induction v using value_ind2;
      try (split; [|exact I]; intros st t r Hr; cbn [Masked.to_wm] in Hr;
           destruct (to_w e t _); [injection Hr as <-; reflexivity | discriminate]).
    - (* VList *)
      split; [|exact I]. intros st t r Hr.
      destruct t; try discriminate; cbn [Masked.to_wm] in Hr.
      + destruct (mapM_sel (fun i x => Ok (idx_key i x)) st (fun s x => to_wm cfg e s t x) 0 l) as [xs|] eqn:Hm; [|discriminate].
        injection Hr as <-. cbn [counts_ok]. unfold list_hdr. rewrite Hpin.
        rewrite hdr_count_eq_written, <- (mapM_sel_length _ _ _ _ _ _ Hm), Nat.eqb_refl.
        cbn [andb]. apply forallb_Forall. eapply mapM_sel_Forall; [|exact Hm].
        eapply Forall_impl; [|exact H]. intros x [Hx _] s y Hy. eapply Hx; eauto.
      + destruct (set_has_dup l); [discriminate|].
        destruct (mapM_sel (fun i x => Ok (idx_key i x)) st (fun s x => to_wm cfg e s t x) 0 l) as [xs|] eqn:Hm; [|discriminate].
        injection Hr as <-. cbn [counts_ok]. unfold list_hdr. rewrite Hpin.
        rewrite hdr_count_eq_written, <- (mapM_sel_length _ _ _ _ _ _ Hm), Nat.eqb_refl.
        cbn [andb]. apply forallb_Forall. eapply mapM_sel_Forall; [|exact Hm].
        eapply Forall_impl; [|exact H]. intros x [Hx _] s y Hy. eapply Hx; eauto.
    - (* VMap *)
      split; [|exact I]. intros st t r Hr.
      destruct t; try discriminate; cbn [Masked.to_wm] in Hr.
      match type of Hr with bind (Masked.mapM_sel _ _ ?K _ ?F _ _) _ = _ => set (kf := K) in *; set (ff := F) in * end.
      destruct (mapM_sel kf st ff 0 kvs) as [xs|] eqn:Hm; [|discriminate].
      injection Hr as <-. cbn [counts_ok].
      assert (Hlen : length xs = count_sel (fun _ kv => map_qkey t1 (fst kv)) st 0 kvs)
        by (eapply mapM_sel_length; exact Hm).
      apply andb_true_iff. split.
      + apply Nat.eqb_eq. rewrite Hlen. unfold map_hdr. destruct (kkind_of t1) eqn:Ek.
        * apply hdr_count_eq_written.
        * apply hdr_count_eq_written.
        * symmetry. rewrite (count_sel_const _ st (QI 0)); [reflexivity|].
          intros i x. unfold map_qkey. rewrite Ek. reflexivity.
      + apply forallb_Forall. eapply mapM_sel_Forall; [|exact Hm].
        eapply Forall_impl; [|exact H]. intros kv [_ [Hx _]] s y Hy. unfold ff in Hy.
        destruct (to_w e t1 (fst kv)); [|discriminate]. cbn [bind] in Hy.
        destruct (to_wm cfg e s t2 (snd kv)) as [x|] eqn:Ex; [|discriminate]. injection Hy as <-.
        cbn [snd]. eapply Hx; eauto.
    - (* VStruct *)
      split; [|exact I]. intros st t r Hr.
      destruct t; try discriminate. rewrite to_wm_struct in Hr.
      destruct (find_struct e name) as [s|]; [|discriminate]. cbn zeta in Hr.
      destruct (is_union s && negb (count_set (s_fields s) fs =? 1)%nat); [discriminate|].
      destruct (mapM (wfield_m cfg e st s) fs) as [ofs|] eqn:Hm; [|discriminate]. injection Hr as <-.
      cbn [counts_ok]. apply forallb_cat_somes_rw. apply forallb_Forall. apply mapM_Forall2 in Hm.
      clear -Hm H. induction Hm as [|p ow fs' ofs' Hp Hm IH]; [constructor|].
      inversion H as [|? ? Hx Hl]; subst. constructor; [|apply IH; assumption].
      unfold wfield_m in Hp. destruct (find_field (fst p) (s_fields s)) as [f|]; [|discriminate].
      destruct (present f (snd p)); [|injection Hp as <-; reflexivity].
      cbn zeta in Hp.
      destruct (snd (step st (QF (f_id f))) || (is_required f && negb (zero_required cfg))).
      + destruct (base_ptr f).
        * destruct (snd p) as [| | | | | | | | |x] eqn:Es; try discriminate.
          match type of Hp with bind ?X _ = _ => destruct X as [y|] eqn:Ey; [|discriminate] end.
          injection Hp as <-. cbn [snd]. destruct Hx as [_ Hx]. eapply Hx; eauto.
        * match type of Hp with bind ?X _ = _ => destruct X as [y|] eqn:Ey; [|discriminate] end.
          injection Hp as <-. cbn [snd]. destruct Hx as [Hx _]. eapply Hx; eauto.
      + destruct (is_required f); injection Hp as <-; reflexivity.
    - (* VSome *)
      split; [|apply IHv]. intros st t r Hr. cbn [Masked.to_wm to_w bind] in Hr. discriminate.
  Qed.

  Theorem to_wm_counts cfg e : pinned cfg = false ->
    forall v st t r, to_wm cfg e st t v = Ok r -> counts_ok r = true.
  Proof. intros Hpin v. apply (to_wm_counts_aux cfg e Hpin v). Qed.
End SelFacts.

(* ------------------------------------------------------------------ a struct written field by field, read field by field *)

Definition seen_add (f : field) (seen : list Z) : list Z := if is_required f then f_id f :: seen else seen.

Section Fold.
  Variable s : sschema.
  Variable emit : Z * value -> result (option wfield).
  Variable rstep : rstate -> wfield -> result rstate.
  Variable nfn : Z * value -> Z * value.

  (* what one slot contributes: nothing (then the field is not required and the peer keeps the fresh
     slot), or a field that the reader stores, or a field that the reader skips *)
  Definition good (f : field) (p : Z * value) : Prop :=
    exists x, nfn p = (fst p, x) /\ exists ow, emit p = Ok ow /\
      match ow with
      | Some wfl =>
          (forall fs seen, rstep (fs, seen) wfl = Ok (set_field (f_id f) x fs, seen_add f seen)) \/
          (x = init_slot f /\ forall fs seen, rstep (fs, seen) wfl = Ok (fs, seen_add f seen))
      | None => is_required f = false /\ x = init_slot f
      end.

  Lemma fold_gen : NoDup (map f_id (s_fields s)) ->
    forall todo ftodo done fdone seen,
      s_fields s = fdone ++ ftodo ->
      map fst done = map f_id fdone ->
      map fst todo = map f_id ftodo ->
      Forall (fun p => forall f, find_field (fst p) (s_fields s) = Some f -> good f p) todo ->
      exists ofs seen',
        mapM emit todo = Ok ofs /\
        foldM rstep (cat_somes ofs) (done ++ map (fun f => (f_id f, init_slot f)) ftodo, seen)
          = Ok (done ++ map nfn todo, seen') /\
        (forall id, In id seen -> In id seen') /\
        (forall f, In f ftodo -> is_required f = true -> In (f_id f) seen').
  Proof.
    intros Hnd. induction todo as [|p todo IH]; intros ftodo done fdone seen Hsplit Hdone Htodo Hgood.
    - destruct ftodo; [|discriminate]. exists [], seen. cbn. repeat split; auto. intros f [].
    - destruct ftodo as [|f ftodo]; [discriminate|]. cbn [map] in Htodo. injection Htodo as Hid Htodo.
      inversion Hgood as [|? ? Hp Hrest]; subst.
      assert (Hnotdone : ~ In (f_id f) (map f_id fdone)).
      { rewrite Hsplit, map_app in Hnd. cbn [map] in Hnd. apply NoDup_remove_2 in Hnd.
        intro H. apply Hnd. apply in_or_app. left. exact H. }
      assert (Hnotrest : ~ In (f_id f) (map f_id ftodo)).
      { rewrite Hsplit, map_app in Hnd. cbn [map] in Hnd. apply NoDup_remove_2 in Hnd.
        intro H. apply Hnd. apply in_or_app. right. exact H. }
      assert (Hfind : find_field (f_id f) (s_fields s) = Some f).
      { rewrite Hsplit, find_field_app_skip by assumption. apply find_field_head. }
      rewrite Hid in Hp. specialize (Hp f Hfind). destruct Hp as (x & Hn & ow & How & Hshape).
      assert (Hsplit' : s_fields s = (fdone ++ [f]) ++ ftodo) by (rewrite <- app_assoc; exact Hsplit).
      assert (Hdone' : map fst (done ++ [nfn p]) = map f_id (fdone ++ [f])).
      { rewrite !map_app, Hdone, Hn. cbn. rewrite Hid. reflexivity. }
      destruct ow as [wfl|].
      + destruct (IH ftodo (done ++ [nfn p]) (fdone ++ [f]) (seen_add f seen) Hsplit' Hdone' Htodo Hrest)
          as (ofs & seen' & Hm & Hfold & Hmono & Hreq).
        exists (Some wfl :: ofs), seen'.
        split; [cbn [mapM]; rewrite How, Hm; reflexivity|].
        split.
        * cbn [cat_somes foldM map].
          assert (Hstep : rstep (done ++ (f_id f, init_slot f) :: map (fun f0 => (f_id f0, init_slot f0)) ftodo, seen) wfl
                          = Ok ((done ++ [nfn p]) ++ map (fun f0 => (f_id f0, init_slot f0)) ftodo, seen_add f seen)).
          { destruct Hshape as [Hset | [Hx Hskip]].
            - rewrite Hset. rewrite set_field_app. rewrite (set_field_notin _ _ done) by (rewrite Hdone; assumption).
              cbn [set_field map fst]. rewrite Z.eqb_refl.
              change (map (fun p0 : Z * value => if fst p0 =? f_id f then (fst p0, x) else p0)
                          (map (fun f0 : field => (f_id f0, init_slot f0)) ftodo))
                with (set_field (f_id f) x (map (fun f0 : field => (f_id f0, init_slot f0)) ftodo)).
              rewrite set_field_notin by (rewrite map_map; cbn [fst]; assumption).
              rewrite Hn, Hid, <- app_assoc. reflexivity.
            - rewrite Hskip. rewrite Hn, Hid, Hx, <- app_assoc. reflexivity. }
          rewrite Hstep. rewrite Hfold. rewrite <- app_assoc. reflexivity.
        * split.
          -- intros id0 Hin. apply Hmono. unfold seen_add. destruct (is_required f); [right|]; assumption.
          -- intros g [<-|Hg] Hrq; [|apply Hreq; assumption].
             apply Hmono. unfold seen_add. rewrite Hrq. left. reflexivity.
      + destruct Hshape as (Hnr & Hx).
        destruct (IH ftodo (done ++ [nfn p]) (fdone ++ [f]) seen Hsplit' Hdone' Htodo Hrest)
          as (ofs & seen' & Hm & Hfold & Hmono & Hreq).
        exists (None :: ofs), seen'.
        split; [cbn [mapM]; rewrite How, Hm; reflexivity|].
        split.
        * cbn [cat_somes map]. rewrite Hn, Hid, Hx in Hfold. rewrite <- app_assoc in Hfold. cbn [app] in Hfold.
          rewrite Hfold. rewrite Hn, Hid, Hx, <- app_assoc. reflexivity.
        * split; [assumption|].
          intros g [<-|Hg] Hrq; [|apply Hreq; assumption]. congruence.
  Qed.
End Fold.

(* ------------------------------------------------------------------ small facts *)

Lemma mapM_bind_map {A B C} (f : A -> result B) (g : B -> C) l :
  mapM (fun x => bind (f x) (fun y => Ok (g y))) l = bind (mapM f l) (fun ys => Ok (map g ys)).
Proof.
  induction l as [|x l IH]; [reflexivity|]. cbn [mapM]. rewrite IH.
  destruct (f x); [|reflexivity]. cbn [bind]. destruct (mapM f l); reflexivity.
Qed.

Definition cook_field (f : ttype * Z * rw) : wfield := (fst f, cook (snd f)).

Lemma cat_somes_map {A B} (g : A -> B) (l : list (option A)) :
  cat_somes (map (option_map g) l) = map g (cat_somes l).
Proof. induction l as [|[x|] l IH]; cbn; [reflexivity | rewrite IH; reflexivity | exact IH]. Qed.

Lemma from_w_zero e t :
  match t with
  | TRef n => exists s, find_struct e n = Some s /\ existsb is_required (s_fields s) = false
  | _ => True end ->
  from_w e t (zero_w e t) = Ok (zero_read e t).
Proof.
  destruct t; intro H; try reflexivity.
  - destruct H as (s & Hs & Hr). cbn [zero_w zero_read]. rewrite from_w_struct, Hs. cbn [foldM bind].
    unfold finish_read. cbn [fst snd]. rewrite (no_required_first_missing _ _ Hr). reflexivity.
  - cbn [zero_w zero_read from_w length Nat.eqb]. rewrite orb_true_r. reflexivity.
  - cbn [zero_w zero_read from_w length Nat.eqb]. rewrite orb_true_r. reflexivity.
  - cbn [zero_w zero_read from_w length Nat.eqb]. rewrite orb_true_r. reflexivity.
Qed.

Lemma find_struct_in_In l n s : find_struct_in l n = Some s -> In s l.
Proof.
  induction l as [|x l IH]; cbn; [discriminate|]. destruct (beqb n (s_name x)); [intros [= <-]; left; reflexivity|].
  intro H. right. apply IH. exact H.
Qed.

Lemma zero_okb_sound e : zero_okb e = true ->
  forall n s f, find_struct e n = Some s -> In f (s_fields s) -> is_required f = true ->
  from_w e (f_ty f) (zero_w e (f_ty f)) = Ok (zero_read e (f_ty f)).
Proof.
  intros H n s f Hs Hin Hr. apply from_w_zero.
  unfold zero_okb in H. rewrite forallb_forall in H. specialize (H s (find_struct_in_In _ _ _ Hs)).
  rewrite forallb_forall in H. specialize (H f Hin). rewrite Hr in H. cbn [negb orb] in H.
  destruct (f_ty f); try exact I.
  destruct (find_struct e name) as [s'|]; [|discriminate]. exists s'. split; [reflexivity|].
  apply negb_true_iff in H. exact H.
Qed.

(* ------------------------------------------------------------------ Write under a mask / Read under a mask = restrict *)

Section SpecFacts.
  Variable St : Type.
  Variable step : St -> qkey -> St * bool.
  Variable live : St -> bool.
  Variable top : St.
  Variable all_q : St -> bool.
  Variable e : env.
  Hypothesis Henv : wf_env e = true.

  Local Notation mapM_sel := (Masked.mapM_sel St step).
  Local Notation sel_map := (Masked.sel_map St step).
  Local Notation to_wm := (Masked.to_wm St step live top all_q).
  Local Notation from_wm := (Masked.from_wm St step).
  Local Notation restrict := (Masked.restrict St step top).
  Local Notation wfield_m := (MaskedFacts.wfield_m St step live top all_q).

  Definition restrict_fn (rq : reqmode) (st : St) (s : sschema) (p : Z * value) : Z * value :=
    match find_field (fst p) (s_fields s) with
    | Some f =>
        if present f (snd p) then
          let sub := fst (step st (QF (f_id f))) in
          let ex := snd (step st (QF (f_id f))) in
          if ex || (is_required f && match rq with RqKeep => true | _ => false end) then
            let s' := if ex then sub else top in
            (fst p, if base_ptr f
                    then match snd p with VSome x => VSome (restrict rq e s' (f_ty f) x) | o => o end
                    else restrict rq e s' (f_ty f) (snd p))
          else if is_required f && match rq with RqZero => true | _ => false end then
            (fst p, wrap_slot f (zero_read e (f_ty f)))
          else (fst p, init_slot f)
        else (fst p, init_slot f)
    | None => p end.

  Lemma restrict_struct rq st n fs :
    restrict rq e st (TRef n) (VStruct fs) =
    match find_struct e n with
    | Some s => VStruct (map (restrict_fn rq st s) fs)
    | None => VStruct fs end.
  Proof. reflexivity. Qed.

  Lemma from_wm_struct st n wfs :
    from_wm e st (TRef n) (WStruct wfs) =
    match find_struct e n with
    | Some s => bind (foldM (read_step_m St step e s st) wfs (new_fields s, [])) (finish_read s)
    | None => Err EUnknownStruct end.
  Proof. reflexivity. Qed.

  (* values without elements of their own: the mask plays no role *)
  Definition flat (v : value) : bool :=
    match v with VList _ | VMap _ | VStruct _ => false | _ => true end.

  Lemma restrict_flat rq st t v : flat v = true -> restrict rq e st t v = norm e t v.
  Proof. destruct v; try discriminate; reflexivity. Qed.

  Lemma to_wm_flat cfg st t v : flat v = true -> to_wm cfg e st t v = bind (to_w e t v) (fun w => Ok (RV w)).
  Proof. destruct v; try discriminate; reflexivity. Qed.

  Lemma from_wm_flat st t v w : flat v = true -> to_w e t v = Ok w -> from_wm e st t w = from_w e t w.
  Proof.
    destruct v; try discriminate; intros _ H; destruct t; try discriminate; cbn [to_w] in H;
      try (injection H as <-; reflexivity).
    - destruct (find_struct e name) as [s|]; [|discriminate]. destruct (is_union s); [discriminate|].
      injection H as <-. reflexivity.
  Qed.

  Section Write.
    Variable cfg : mcfg.
    Hypothesis Hzero : zero_required cfg = true ->
      forall n s f, find_struct e n = Some s -> In f (s_fields s) -> is_required f = true ->
      from_w e (f_ty f) (zero_w e (f_ty f)) = Ok (zero_read e (f_ty f)).

    Definition Qw (v : value) : Prop := forall t key st, wt_val e key t v = true ->
      exists r, to_wm cfg e st t v = Ok r /\ from_w e t (cook r) = Ok (restrict (wmode cfg) e st t v).

    Lemma Qw_flat v : flat v = true -> Qw v.
    Proof.
      intros Hf t key st Hwt. destruct (to_from e Henv v t key Hwt) as (w & Hw & Hr).
      exists (RV w). rewrite to_wm_flat, Hw by assumption. split; [reflexivity|].
      rewrite restrict_flat by assumption. exact Hr.
    Qed.

    Definition emit_w (st : St) (s : sschema) (p : Z * value) : result (option wfield) :=
      bind (wfield_m cfg e st s p) (fun o => Ok (option_map cook_field o)).

    Lemma good_w st n s f p :
      find_struct e n = Some s ->
      find_field (fst p) (s_fields s) = Some f ->
      slot_ok e s p = true ->
      Qw (snd p) -> (forall x, snd p = VSome x -> Qw x) ->
      good (emit_w st s) (read_step e s) (restrict_fn (wmode cfg) st s) f p.
    Proof.
      intros Hs Hf Hok HQ HQs. unfold good, emit_w, MaskedFacts.wfield_m, restrict_fn, slot_ok in *. rewrite Hf in *.
      destruct (find_field_In _ _ _ Hf) as [Hin Hidf].
      assert (Hfind : find_field (f_id f) (s_fields s) = Some f) by (rewrite Hidf; exact Hf).
      destruct (present f (snd p)) eqn:Hp.
      2:{ exists (init_slot f). split; [reflexivity|]. exists None. split; [reflexivity|]. split; [|reflexivity].
          unfold present in Hp. apply orb_false_iff in Hp. destruct Hp as [Hp _]. apply negb_false_iff in Hp.
          unfold is_optional, is_required in *. destruct (f_req f); try discriminate; reflexivity. }
      cbn zeta.
      set (ex := snd (step st (QF (f_id f)))). set (sub := fst (step st (QF (f_id f)))).
      assert (Hmode : (is_required f && match wmode cfg with RqKeep => true | _ => false end) = (is_required f && negb (zero_required cfg))).
      { unfold wmode. destruct (zero_required cfg); reflexivity. }
      rewrite Hmode.
      destruct (ex || (is_required f && negb (zero_required cfg))) eqn:Hsel.
      - set (s' := if ex then sub else top).
        destruct (base_ptr f) eqn:Hb.
        + destruct (snd p) as [| | | | | | | | |x] eqn:Es; try discriminate.
          * exfalso. unfold present, isset, base_ptr in *.
            rewrite !andb_true_iff in Hb. destruct Hb as [[[Ho Hd] _] _].
            rewrite Ho in Hp. cbn in Hp. apply negb_true_iff in Hd. unfold has_default in Hd.
            destruct (f_default f); [discriminate|]. cbn in Hp. discriminate.
          * destruct (HQs x eq_refl _ _ s' Hok) as (r & Hw & Hr).
            exists (VSome (restrict (wmode cfg) e s' (f_ty f) x)). split; [reflexivity|].
            exists (Some (ttype_of e (f_ty f), f_id f, cook r)). rewrite Hw. cbn [bind option_map cook_field fst snd].
            split; [reflexivity|]. left. intros fs seen.
            rewrite (read_step_field e s f (cook r) _ (fs, seen) Hfind Hr). unfold wrap_slot. rewrite Hb. reflexivity.
        + assert (Hwt : exists r, to_wm cfg e s' (f_ty f) (snd p) = Ok r /\
                                  from_w e (f_ty f) (cook r) = Ok (restrict (wmode cfg) e s' (f_ty f) (snd p))).
          { destruct (is_optional f && is_nil (snd p)) eqn:Eon.
            - apply andb_true_iff in Eon. destruct Eon as [Ho Hn].
              destruct (snd p); try discriminate.
              unfold present, isset in Hp. rewrite Ho in Hp. cbn [negb orb] in Hp.
              destruct (f_default f) as [l|]; [|discriminate].
              destruct (is_base (f_ty f)) eqn:Eb; [|discriminate].
              cbn [negb orb] in Hok. destruct (f_ty f); try discriminate.
              exists (RV (WStr [])). split; reflexivity.
            - apply (HQ _ _ s' Hok). }
          destruct Hwt as (r & Hw & Hr).
          exists (restrict (wmode cfg) e s' (f_ty f) (snd p)). split; [reflexivity|].
          exists (Some (ttype_of e (f_ty f), f_id f, cook r)). rewrite Hw. cbn [bind option_map cook_field fst snd].
          split; [reflexivity|]. left. intros fs seen.
          rewrite (read_step_field e s f (cook r) _ (fs, seen) Hfind Hr). unfold wrap_slot. rewrite Hb. reflexivity.
      - apply orb_false_iff in Hsel. destruct Hsel as [Hex Hrz].
        destruct (is_required f) eqn:Hrq.
        + (* required, filtered, zero_required *)
          cbn [andb] in Hrz. apply negb_false_iff in Hrz.
          assert (Hm2 : match wmode cfg with RqZero => true | _ => false end = true) by (unfold wmode; rewrite Hrz; reflexivity).
          rewrite Hm2. cbn [andb].
          exists (wrap_slot f (zero_read e (f_ty f))). split; [reflexivity|].
          exists (Some (ttype_of e (f_ty f), f_id f, zero_w e (f_ty f))). cbn [bind option_map cook_field fst snd cook].
          split; [reflexivity|]. left. intros fs seen.
          rewrite (read_step_field e s f (zero_w e (f_ty f)) _ (fs, seen) Hfind (Hzero Hrz n s f Hs Hin Hrq)).
          cbn [fst snd]. unfold seen_add. rewrite Hrq. reflexivity.
        + cbn [andb]. exists (init_slot f). split; [reflexivity|]. exists None. split; [reflexivity|]. split; reflexivity.
    Qed.

    Lemma cook_struct ofs :
      cook (RStruct (cat_somes ofs)) = WStruct (cat_somes (map (option_map cook_field) ofs)).
    Proof. cbn [cook]. rewrite cat_somes_map. reflexivity. Qed.

    Theorem to_wm_spec_aux : forall v, Qw v /\ match v with VSome x => Qw x | _ => True end.
    Proof.
      intro v. induction v using value_ind2;
        try (split; [apply Qw_flat; reflexivity | exact I]).
      - (* VList *)
        split; [|exact I]. intros t key st Hwt. destruct t; try discriminate; cbn [wt_val] in Hwt.
        + apply andb_true_iff in Hwt. destruct Hwt as [_ Hall]. apply forallb_Forall in Hall.
          assert (HF : Forall (fun x => forall s, exists y, to_wm cfg e s t x = Ok y /\
                          from_w e t (cook y) = Ok (restrict (wmode cfg) e s t x)) l).
          { eapply Forall_and_impl; [exact H | exact Hall |]. intros x [Hx _] Hwx s. apply (Hx _ _ s Hwx). }
          destruct (mapM_sel_ok St step idx_key st _ (fun y => from_w e t (cook y)) _ l 0%nat HF) as (ys & Hm & Hg).
          exists (RList (ttype_of e t) (list_hdr St step live all_q cfg st l) ys).
          cbn [Masked.to_wm]. rewrite Hm. cbn [bind]. split; [reflexivity|].
          cbn [cook from_w Masked.restrict]. rewrite ttype_eqb_refl. cbn [orb]. rewrite mapM_map, Hg. reflexivity.
        + apply andb_true_iff in Hwt. destruct Hwt as [Hwt Hdup]. apply andb_true_iff in Hwt.
          destruct Hwt as [_ Hall]. apply forallb_Forall in Hall. apply negb_true_iff in Hdup.
          assert (HF : Forall (fun x => forall s, exists y, to_wm cfg e s t x = Ok y /\
                          from_w e t (cook y) = Ok (restrict (wmode cfg) e s t x)) l).
          { eapply Forall_and_impl; [exact H | exact Hall |]. intros x [Hx _] Hwx s. apply (Hx _ _ s Hwx). }
          destruct (mapM_sel_ok St step idx_key st _ (fun y => from_w e t (cook y)) _ l 0%nat HF) as (ys & Hm & Hg).
          exists (RSet (ttype_of e t) (list_hdr St step live all_q cfg st l) ys).
          cbn [Masked.to_wm]. unfold set_has_dup. rewrite Hdup, Hm. cbn [bind]. split; [reflexivity|].
          cbn [cook from_w Masked.restrict]. rewrite ttype_eqb_refl. cbn [orb]. rewrite mapM_map, Hg. reflexivity.
      - (* VMap *)
        split; [|exact I]. intros t key st Hwt. destruct t; try discriminate; cbn [wt_val] in Hwt.
        apply andb_true_iff in Hwt. destruct Hwt as [Hwt _]. apply andb_true_iff in Hwt.
        destruct Hwt as [_ Hall]. apply forallb_Forall in Hall.
        set (f := fun (s : St) (kv : value * value) => bind (to_w e t1 (fst kv)) (fun k =>
                    bind (to_wm cfg e s t2 (snd kv)) (fun x => Ok (k, x)))).
        set (g := fun kv : wval * rw => bind (from_w e t1 (fst kv)) (fun k =>
                    bind (from_w e t2 (cook (snd kv))) (fun x => Ok (k, x)))).
        set (h := fun (s : St) (kv : value * value) => (norm e t1 (fst kv), restrict (wmode cfg) e s t2 (snd kv))).
        assert (HF : Forall (fun kv => forall s, exists y, f s kv = Ok y /\ g y = Ok (h s kv)) kvs).
        { eapply Forall_and_impl; [exact H | exact Hall |]. intros kv [_ [Hx _]] Hw s.
          apply andb_true_iff in Hw. destruct Hw as [Hwk Hwx].
          destruct (to_from e Henv (fst kv) _ _ Hwk) as (wk & Hk1 & Hk2). destruct (Hx _ _ s Hwx) as (rx & Hx1 & Hx2).
          exists (wk, rx). unfold f, g, h. cbn [fst snd]. rewrite Hk1, Hx1, Hk2, Hx2. split; reflexivity. }
        destruct (mapM_sel_ok St step (fun _ kv => map_qkey t1 (fst kv)) st f g h kvs 0%nat HF) as (ys & Hm & Hg).
        exists (RMap (ttype_of e t1) (ttype_of e t2) (map_hdr St step live t1 st kvs) ys).
        cbn [Masked.to_wm]. fold f. rewrite Hm. cbn [bind]. split; [reflexivity|].
        cbn [cook from_w Masked.restrict]. rewrite !ttype_eqb_refl. cbn [andb orb].
        rewrite mapM_map. cbn [fst snd].
        assert (Hwm : forall rq', rq' = wmode cfg ->
                  (fun (_ : nat) (kv : value * value) => map_qkey t1 match rq' with RqDrop => norm e t1 (fst kv) | _ => fst kv end)
                  = (fun _ kv => map_qkey t1 (fst kv))).
        { intros rq' ->. unfold wmode. destruct (zero_required cfg); reflexivity. }
        rewrite (Hwm _ eq_refl). fold h. unfold g in Hg. rewrite Hg. reflexivity.
      - (* VStruct *)
        split; [|exact I]. intros t key st Hwt. destruct t; try discriminate.
        rewrite wt_struct_eq in Hwt. rewrite to_wm_struct, restrict_struct.
        destruct (find_struct e name) as [s|] eqn:Hs; [|discriminate].
        apply andb_true_iff in Hwt. destruct Hwt as [Hwt Hun]. apply andb_true_iff in Hwt.
        destruct Hwt as [Hids Hslots]. apply list_eqbZ_eq in Hids. apply forallb_Forall in Hslots.
        pose proof (wf_env_struct _ _ _ Henv Hs) as Hwfs. pose proof (wf_struct_nodup _ Hwfs) as Hnd.
        assert (Hgood : Forall (fun p => forall f, find_field (fst p) (s_fields s) = Some f ->
                          good (emit_w st s) (read_step e s) (restrict_fn (wmode cfg) st s) f p) fs).
        { eapply Forall_and_impl; [exact H | exact Hslots |]. intros p Hp Hok f Hf.
          eapply good_w; eauto.
          - apply Hp.
          - intros x Ex. destruct Hp as [_ Hp]. rewrite Ex in Hp. exact Hp. }
        destruct (fold_gen s _ _ _ Hnd fs (s_fields s) [] [] [] eq_refl eq_refl Hids Hgood)
          as (ofs & seen' & Hm & Hfold & _ & Hreq).
        cbn zeta.
        assert (Hu : is_union s && negb (count_set (s_fields s) fs =? 1)%nat = false).
        { destruct (is_union s); [|reflexivity]. rewrite Hun. reflexivity. }
        rewrite Hu. unfold emit_w in Hm. rewrite mapM_bind_map in Hm.
        destruct (mapM (wfield_m cfg e st s) fs) as [ofs0|] eqn:Hm0; [|discriminate]. cbn [bind] in Hm. injection Hm as <-.
        cbn [bind]. eexists. split; [reflexivity|].
        rewrite cook_struct, from_w_struct, Hs. cbn [app] in Hfold. unfold new_fields.
        match goal with |- bind ?X _ = _ => replace X with (Ok (map (restrict_fn (wmode cfg) st s) fs, seen') : result rstate) by (symmetry; exact Hfold) end.
        cbn [bind].
        unfold finish_read. cbn [fst snd]. rewrite first_missing_none; [reflexivity|].
        intros f Hin Hr. apply Hreq; assumption.
      - (* VSome *)
        split; [intros t key st Hwt; discriminate | apply IHv].
    Qed.
  End Write.

  (* ---- plain Write, Read under a mask ---- *)

  Lemma mapM_exists {A B} (f : A -> result B) (R : A -> B -> Prop) l :
    Forall (fun x => exists w, f x = Ok w /\ R x w) l -> exists ws, mapM f l = Ok ws /\ Forall2 R l ws.
  Proof.
    induction l as [|x l IH]; intro H.
    - exists []. split; [reflexivity | constructor].
    - inversion H as [|? ? (w & Hf & HR) Hl]; subst. destruct (IH Hl) as (ws & Hm & H2).
      exists (w :: ws). cbn. rewrite Hf, Hm. split; [reflexivity | constructor; assumption].
  Qed.

  Lemma mapM_sel_rel {A W C} (key : nat -> A -> qkey) (key' : nat -> W -> result qkey) st
        (f' : St -> W -> result C) (h : St -> A -> C) l ws :
    Forall2 (fun x w => (forall i, key' i w = Ok (key i x)) /\ forall s, f' s w = Ok (h s x)) l ws ->
    forall i, mapM_sel key' st f' i ws = Ok (sel_map key st h i l).
  Proof.
    induction 1 as [|x w l ws [Hk Hf] H2 IH]; intro i; [reflexivity|].
    cbn [Masked.mapM_sel Masked.sel_map]. rewrite Hk. destruct (snd (step st (key i x))).
    - rewrite Hf, IH. reflexivity.
    - apply IH.
  Qed.

  Definition Qr (v : value) : Prop := forall t key, wt_val e key t v = true ->
    exists w, to_w e t v = Ok w /\ forall st, from_wm e st t w = Ok (restrict RqDrop e st t v).

  Lemma Qr_flat v : flat v = true -> Qr v.
  Proof.
    intros Hf t key Hwt. destruct (to_from e Henv v t key Hwt) as (w & Hw & Hr).
    exists w. split; [exact Hw|]. intro st. rewrite (from_wm_flat st t v w Hf Hw), restrict_flat by assumption. exact Hr.
  Qed.

  Lemma read_step_m_field s st f w fs seen :
    find_field (f_id f) (s_fields s) = Some f ->
    read_step_m St step e s st (fs, seen) (ttype_of e (f_ty f), f_id f, w) =
    if snd (step st (QF (f_id f)))
    then bind (from_wm e (fst (step st (QF (f_id f)))) (f_ty f) w)
              (fun v => Ok (set_field (f_id f) (wrap_slot f v) fs, seen_add f seen))
    else Ok (fs, seen_add f seen).
  Proof. intro Hf. unfold read_step_m. cbn [fst snd]. rewrite Hf, ttype_eqb_refl. reflexivity. Qed.

  Lemma good_r st s f p :
    find_field (fst p) (s_fields s) = Some f ->
    slot_ok e s p = true ->
    Qr (snd p) -> (forall x, snd p = VSome x -> Qr x) ->
    good (wfield_fn e s) (read_step_m St step e s st) (restrict_fn RqDrop st s) f p.
  Proof.
    intros Hf Hok HQ HQs. unfold good, wfield_fn, restrict_fn, slot_ok in *. rewrite Hf in *.
    destruct (find_field_In _ _ _ Hf) as [Hin Hidf].
    assert (Hfind : find_field (f_id f) (s_fields s) = Some f) by (rewrite Hidf; exact Hf).
    destruct (present f (snd p)) eqn:Hp.
    2:{ exists (init_slot f). split; [reflexivity|]. exists None. split; [reflexivity|]. split; [|reflexivity].
        unfold present in Hp. apply orb_false_iff in Hp. destruct Hp as [Hp _]. apply negb_false_iff in Hp.
        unfold is_optional, is_required in *. destruct (f_req f); try discriminate; reflexivity. }
    cbn beta iota zeta. rewrite !andb_false_r, orb_false_r.
    assert (Hpay : forall x, Qr x -> wt_val e false (f_ty f) x = true ->
              exists w, to_w e (f_ty f) x = Ok w /\
                ((snd (step st (QF (f_id f))) = true /\
                  forall fs seen, read_step_m St step e s st (fs, seen) (ttype_of e (f_ty f), f_id f, w)
                     = Ok (set_field (f_id f) (wrap_slot f (restrict RqDrop e (fst (step st (QF (f_id f)))) (f_ty f) x)) fs, seen_add f seen)) \/
                 (snd (step st (QF (f_id f))) = false /\
                  forall fs seen, read_step_m St step e s st (fs, seen) (ttype_of e (f_ty f), f_id f, w) = Ok (fs, seen_add f seen)))).
    { intros x Hx Hwx. destruct (Hx _ _ Hwx) as (w & Hw & Hr). exists w. split; [exact Hw|].
      destruct (snd (step st (QF (f_id f)))) eqn:Hex; [left | right]; (split; [reflexivity|]); intros fs seen;
        rewrite read_step_m_field by assumption; rewrite Hex; [rewrite Hr|]; reflexivity. }
    destruct (base_ptr f) eqn:Hb.
    - destruct (snd p) as [| | | | | | | | |x] eqn:Es; try discriminate.
      + exfalso. unfold present, isset, base_ptr in *.
        rewrite !andb_true_iff in Hb. destruct Hb as [[[Ho Hd] _] _].
        rewrite Ho in Hp. cbn in Hp. apply negb_true_iff in Hd. unfold has_default in Hd.
        destruct (f_default f); [discriminate|]. cbn in Hp. discriminate.
      + destruct (Hpay x (HQs x eq_refl) Hok) as (w & Hw & [[Hex Hst] | [Hex Hst]]); rewrite Hex.
        * exists (VSome (restrict RqDrop e (fst (step st (QF (f_id f)))) (f_ty f) x)). split; [reflexivity|].
          exists (Some (ttype_of e (f_ty f), f_id f, w)). rewrite Hw. cbn [bind]. split; [reflexivity|]. left.
          intros fs seen. rewrite Hst. unfold wrap_slot. rewrite Hb. reflexivity.
        * exists (init_slot f). split; [reflexivity|].
          exists (Some (ttype_of e (f_ty f), f_id f, w)). rewrite Hw. cbn [bind]. split; [reflexivity|]. right.
          split; [reflexivity | exact Hst].
    - assert (Hcase : exists w, to_w e (f_ty f) (snd p) = Ok w /\
                ((snd (step st (QF (f_id f))) = true /\
                  forall fs seen, read_step_m St step e s st (fs, seen) (ttype_of e (f_ty f), f_id f, w)
                     = Ok (set_field (f_id f) (wrap_slot f (restrict RqDrop e (fst (step st (QF (f_id f)))) (f_ty f) (snd p))) fs, seen_add f seen)) \/
                 (snd (step st (QF (f_id f))) = false /\
                  forall fs seen, read_step_m St step e s st (fs, seen) (ttype_of e (f_ty f), f_id f, w) = Ok (fs, seen_add f seen)))).
      { destruct (is_optional f && is_nil (snd p)) eqn:Eon.
        - apply andb_true_iff in Eon. destruct Eon as [Ho Hn].
          destruct (snd p); try discriminate.
          unfold present, isset in Hp. rewrite Ho in Hp. cbn [negb orb] in Hp.
          destruct (f_default f) as [l|]; [|discriminate].
          destruct (is_base (f_ty f)) eqn:Eb; [|discriminate].
          cbn [negb orb] in Hok. destruct (f_ty f) eqn:Et; try discriminate.
          exists (WStr []). split; [reflexivity|].
          destruct (snd (step st (QF (f_id f)))) eqn:Hex; [left | right]; (split; [reflexivity|]); intros fs seen;
            rewrite <- Et, read_step_m_field by assumption; rewrite Hex, ?Et; reflexivity.
        - apply (Hpay _ HQ Hok). }
      destruct Hcase as (w & Hw & [[Hex Hst] | [Hex Hst]]); rewrite Hex.
      + exists (restrict RqDrop e (fst (step st (QF (f_id f)))) (f_ty f) (snd p)). split; [reflexivity|].
        exists (Some (ttype_of e (f_ty f), f_id f, w)). rewrite Hw. cbn [bind]. split; [reflexivity|]. left.
        intros fs seen. rewrite Hst. unfold wrap_slot. rewrite Hb. reflexivity.
      + exists (init_slot f). split; [reflexivity|].
        exists (Some (ttype_of e (f_ty f), f_id f, w)). rewrite Hw. cbn [bind]. split; [reflexivity|]. right.
        split; [reflexivity | exact Hst].
  Qed.

  Theorem from_wm_spec_aux : forall v, Qr v /\ match v with VSome x => Qr x | _ => True end.
  Proof.
    intro v. induction v using value_ind2;
      try (split; [apply Qr_flat; reflexivity | exact I]).
    - (* VList *)
      split; [|exact I]. intros t key Hwt. destruct t; try discriminate; cbn [wt_val] in Hwt.
      + apply andb_true_iff in Hwt. destruct Hwt as [_ Hall]. apply forallb_Forall in Hall.
        assert (HF : Forall (fun x => exists w, to_w e t x = Ok w /\
                        ((forall i : nat, Ok (idx_key i w) = Ok (idx_key i x)) /\
                         forall s, from_wm e s t w = Ok (restrict RqDrop e s t x))) l).
        { eapply Forall_and_impl; [exact H | exact Hall |]. intros x [Hx _] Hwx.
          destruct (Hx _ _ Hwx) as (w & Hw & Hr). exists w. split; [exact Hw|]. split; [reflexivity | exact Hr]. }
        destruct (mapM_exists _ _ _ HF) as (ws & Hm & H2).
        exists (WList (ttype_of e t) ws). cbn [to_w]. rewrite Hm. cbn [bind]. split; [reflexivity|]. intro st.
        cbn [Masked.from_wm Masked.restrict]. rewrite ttype_eqb_refl. cbn [orb].
        rewrite (mapM_sel_rel idx_key (fun i x => Ok (idx_key i x)) st _ _ l ws H2). reflexivity.
      + apply andb_true_iff in Hwt. destruct Hwt as [Hwt Hdup]. apply andb_true_iff in Hwt.
        destruct Hwt as [_ Hall]. apply forallb_Forall in Hall. apply negb_true_iff in Hdup.
        assert (HF : Forall (fun x => exists w, to_w e t x = Ok w /\
                        ((forall i : nat, Ok (idx_key i w) = Ok (idx_key i x)) /\
                         forall s, from_wm e s t w = Ok (restrict RqDrop e s t x))) l).
        { eapply Forall_and_impl; [exact H | exact Hall |]. intros x [Hx _] Hwx.
          destruct (Hx _ _ Hwx) as (w & Hw & Hr). exists w. split; [exact Hw|]. split; [reflexivity | exact Hr]. }
        destruct (mapM_exists _ _ _ HF) as (ws & Hm & H2).
        exists (WSet (ttype_of e t) ws). cbn [to_w]. unfold set_has_dup. rewrite Hdup, Hm. cbn [bind]. split; [reflexivity|]. intro st.
        cbn [Masked.from_wm Masked.restrict]. rewrite ttype_eqb_refl. cbn [orb].
        rewrite (mapM_sel_rel idx_key (fun i x => Ok (idx_key i x)) st _ _ l ws H2). reflexivity.
    - (* VMap *)
      split; [|exact I]. intros t key Hwt. destruct t; try discriminate; cbn [wt_val] in Hwt.
      apply andb_true_iff in Hwt. destruct Hwt as [Hwt _]. apply andb_true_iff in Hwt.
      destruct Hwt as [_ Hall]. apply forallb_Forall in Hall.
      set (f := fun kv : value * value => bind (to_w e t1 (fst kv)) (fun k =>
                  bind (to_w e t2 (snd kv)) (fun x => Ok (k, x)))).
      set (key' := fun (_ : nat) (kv : wval * wval) => bind (from_w e t1 (fst kv)) (fun k => Ok (map_qkey t1 k))).
      set (f' := fun (s : St) (kv : wval * wval) => bind (from_w e t1 (fst kv)) (fun k =>
                  bind (from_wm e s t2 (snd kv)) (fun x => Ok (k, x)))).
      set (keyf := fun (_ : nat) (kv : value * value) => map_qkey t1 (norm e t1 (fst kv))).
      set (h := fun (s : St) (kv : value * value) => (norm e t1 (fst kv), restrict RqDrop e s t2 (snd kv))).
      assert (HF : Forall (fun kv => exists w, f kv = Ok w /\
                      ((forall i : nat, key' i w = Ok (keyf i kv)) /\ forall s, f' s w = Ok (h s kv))) kvs).
      { eapply Forall_and_impl; [exact H | exact Hall |]. intros kv [_ [Hx _]] Hw.
        apply andb_true_iff in Hw. destruct Hw as [Hwk Hwx].
        destruct (to_from e Henv (fst kv) _ _ Hwk) as (wk & Hk1 & Hk2). destruct (Hx _ _ Hwx) as (wx & Hx1 & Hx2).
        exists (wk, wx). unfold f, key', f', keyf, h. cbn [fst snd]. rewrite Hk1, Hx1, Hk2. cbn [bind].
        split; [reflexivity|]. split; [reflexivity|]. intro s. rewrite Hx2. reflexivity. }
      destruct (mapM_exists _ _ _ HF) as (ws & Hm & H2).
      exists (WMap (ttype_of e t1) (ttype_of e t2) ws). cbn [to_w]. fold f. rewrite Hm. cbn [bind]. split; [reflexivity|]. intro st.
      cbn [Masked.from_wm Masked.restrict]. rewrite !ttype_eqb_refl. cbn [andb orb].
      fold key'. fold f'. rewrite (mapM_sel_rel keyf key' st f' h kvs ws H2). reflexivity.
    - (* VStruct *)
      split; [|exact I]. intros t key Hwt. destruct t; try discriminate.
      rewrite wt_struct_eq in Hwt. rewrite to_w_struct.
      destruct (find_struct e name) as [s|] eqn:Hs; [|discriminate].
      apply andb_true_iff in Hwt. destruct Hwt as [Hwt Hun]. apply andb_true_iff in Hwt.
      destruct Hwt as [Hids Hslots]. apply list_eqbZ_eq in Hids. apply forallb_Forall in Hslots.
      pose proof (wf_env_struct _ _ _ Henv Hs) as Hwfs. pose proof (wf_struct_nodup _ Hwfs) as Hnd.
      cbn zeta.
      assert (Hu : is_union s && negb (count_set (s_fields s) fs =? 1)%nat = false).
      { destruct (is_union s); [|reflexivity]. rewrite Hun. reflexivity. }
      rewrite Hu.
      assert (Hgood : forall st, Forall (fun p => forall f, find_field (fst p) (s_fields s) = Some f ->
                        good (wfield_fn e s) (read_step_m St step e s st) (restrict_fn RqDrop st s) f p) fs).
      { intro st. eapply Forall_and_impl; [exact H | exact Hslots |]. intros p Hp Hok f Hf.
        eapply good_r; eauto.
        - apply Hp.
        - intros x Ex. destruct Hp as [_ Hp]. rewrite Ex in Hp. exact Hp. }
      destruct (fold_gen s _ _ _ Hnd fs (s_fields s) [] [] [] eq_refl eq_refl Hids (Hgood top))
        as (ofs & _ & Hm & _).
      rewrite Hm. cbn [bind]. eexists. split; [reflexivity|]. intro st.
      destruct (fold_gen s _ _ _ Hnd fs (s_fields s) [] [] [] eq_refl eq_refl Hids (Hgood st))
        as (ofs' & seen' & Hm' & Hfold & _ & Hreq).
      rewrite Hm in Hm'. injection Hm' as <-.
      rewrite from_wm_struct, restrict_struct, Hs. cbn [app] in Hfold. unfold new_fields.
      match goal with |- bind ?X _ = _ => replace X with (Ok (map (restrict_fn RqDrop st s) fs, seen') : result rstate) by (symmetry; exact Hfold) end.
      cbn [bind]. unfold finish_read. cbn [fst snd]. rewrite first_missing_none; [reflexivity|].
      intros f Hin Hr. apply Hreq; assumption.
    - (* VSome *)
      split; [intros t key Hwt; discriminate | apply IHv].
  Qed.
End SpecFacts.

(* ------------------------------------------------------------------ a selector that passes everything: the standard codec *)

Definition map_res {A B} (c : A -> B) (a : result A) : result B :=
  match a with Ok r => Ok (c r) | Err er => Err er end.

Lemma mapM_map_res {A B C} (c : B -> C) (f : A -> result B) (g : A -> result C) l :
  Forall (fun x => map_res c (f x) = g x) l -> map_res (map c) (mapM f l) = mapM g l.
Proof.
  induction 1 as [|x l Hx Hl IH]; [reflexivity|]. cbn [mapM]. rewrite <- Hx, <- IH.
  destruct (f x); [|reflexivity]. cbn [map_res]. destruct (mapM f l); reflexivity.
Qed.

Lemma foldM_ext {A S} (f g : S -> A -> result S) l :
  Forall (fun x => forall s, f s x = g s x) l -> forall s, foldM f l s = foldM g l s.
Proof.
  induction 1 as [|x l Hx Hl IH]; intro s; [reflexivity|]. cbn [foldM]. rewrite Hx. destruct (g s x); [apply IH | reflexivity].
Qed.

Section AllPass.
  Variable St : Type.
  Variable step : St -> qkey -> St * bool.
  Variable live : St -> bool.
  Variable top : St.
  Variable all_q : St -> bool.
  Variable st : St.
  Hypothesis Hall : forall k, step st k = (st, true).

  Local Notation mapM_sel := (Masked.mapM_sel St step).
  Local Notation to_wm := (Masked.to_wm St step live top all_q).
  Local Notation from_wm := (Masked.from_wm St step).
  Local Notation wfield_m := (MaskedFacts.wfield_m St step live top all_q).

  Lemma mapM_sel_allpass {A B} (key : nat -> A -> result qkey) (f : St -> A -> result B) : forall l i,
    Forall (fun x => forall i, match key i x with Err er => f st x = Err er | Ok _ => True end) l ->
    mapM_sel key st f i l = mapM (f st) l.
  Proof.
    induction l as [|x l IH]; intros i HF; [reflexivity|]. inversion HF as [|? ? Hx Hl]; subst.
    cbn [Masked.mapM_sel mapM]. specialize (Hx i). destruct (key i x) as [k|er].
    - rewrite Hall. cbn [fst snd]. rewrite (IH (S i) Hl). reflexivity.
    - rewrite Hx. reflexivity.
  Qed.

  Lemma mapM_sel_allpass_pure {A B} (key : nat -> A -> qkey) (f : St -> A -> result B) l i :
    mapM_sel (fun i x => Ok (key i x)) st f i l = mapM (f st) l.
  Proof. apply mapM_sel_allpass. apply Forall_forall. intros x _ j. exact I. Qed.

  Definition Pa (cfg : mcfg) (e : env) (v : value) : Prop :=
    forall t, map_res cook (to_wm cfg e st t v) = to_w e t v.

  Lemma cook_field_somes ofs : map cook_field (cat_somes ofs) = cat_somes (map (option_map cook_field) ofs).
  Proof. symmetry. apply cat_somes_map. Qed.

  Theorem to_wm_allpass_aux cfg e : forall v, Pa cfg e v /\ match v with VSome x => Pa cfg e x | _ => True end.
  Proof.
    intro v. induction v using value_ind2;
      try (split; [|exact I]; intro t; cbn [Masked.to_wm]; destruct (to_w e t _); reflexivity).
    - (* VList *)
      split; [|exact I]. intro t. destruct t; try reflexivity; cbn [Masked.to_wm to_w].
      + rewrite mapM_sel_allpass_pure.
        rewrite <- (mapM_map_res cook (fun x => to_wm cfg e st t x) (to_w e t) l).
        * destruct (mapM (fun x => to_wm cfg e st t x) l); reflexivity.
        * eapply Forall_impl; [|exact H]. intros x [Hx _]. apply Hx.
      + destruct (set_has_dup l); [reflexivity|].
        rewrite mapM_sel_allpass_pure.
        rewrite <- (mapM_map_res cook (fun x => to_wm cfg e st t x) (to_w e t) l).
        * destruct (mapM (fun x => to_wm cfg e st t x) l); reflexivity.
        * eapply Forall_impl; [|exact H]. intros x [Hx _]. apply Hx.
    - (* VMap *)
      split; [|exact I]. intro t. destruct t; try reflexivity; cbn [Masked.to_wm to_w].
      rewrite mapM_sel_allpass_pure.
      match goal with |- map_res cook (bind (mapM ?F kvs) _) = bind (mapM ?G kvs) _ =>
        rewrite <- (mapM_map_res (fun kv : wval * rw => (fst kv, cook (snd kv))) F G kvs) end.
      + match goal with |- map_res cook (bind ?X _) = _ => destruct X end; reflexivity.
      + eapply Forall_impl; [|exact H]. intros kv [_ [Hx _]]. cbn beta.
        destruct (to_w e t1 (fst kv)); [|reflexivity]. cbn [bind]. rewrite <- (Hx t2).
        destruct (to_wm cfg e st t2 (snd kv)); reflexivity.
    - (* VStruct *)
      split; [|exact I]. intro t. destruct t; try reflexivity. rewrite to_wm_struct, to_w_struct.
      destruct (find_struct e name) as [s|]; [|reflexivity]. cbn zeta.
      destruct (is_union s && negb (count_set (s_fields s) fs =? 1)%nat); [reflexivity|].
      rewrite <- (mapM_map_res (option_map cook_field) (wfield_m cfg e st s) (wfield_fn e s) fs).
      + destruct (mapM (wfield_m cfg e st s) fs) as [ofs|]; [|reflexivity]. cbn [bind map_res cook].
        rewrite <- cat_somes_map. reflexivity.
      + eapply Forall_impl; [|exact H]. intros p Hp. unfold MaskedFacts.wfield_m, wfield_fn.
        destruct (find_field (fst p) (s_fields s)) as [f|]; [|reflexivity].
        destruct (present f (snd p)); [|reflexivity]. cbn zeta. rewrite Hall. cbn [fst snd orb].
        destruct (base_ptr f).
        * destruct (snd p) as [| | | | | | | | |x] eqn:Es; try reflexivity. cbn beta in Hp. rewrite Es in Hp. destruct Hp as [_ Hp].
          rewrite <- (Hp (f_ty f)). destruct (to_wm cfg e st (f_ty f) x); reflexivity.
        * destruct Hp as [Hp _]. rewrite <- (Hp (f_ty f)). destruct (to_wm cfg e st (f_ty f) (snd p)); reflexivity.
    - (* VSome *)
      split; [|apply IHv]. intro t. reflexivity.
  Qed.

  Theorem from_wm_allpass e : forall w t, from_wm e st t w = from_w e t w.
  Proof.
    intro w. induction w using wval_ind2; intro t; try reflexivity.
    - (* WStruct *)
      destruct t; try reflexivity. rewrite from_wm_struct, from_w_struct.
      destruct (find_struct e name) as [s|]; [|reflexivity]. f_equal.
      apply foldM_ext. eapply Forall_impl; [|exact H]. intros wf Hwf rs.
      unfold read_step_m, read_step. destruct (find_field (snd (fst wf)) (s_fields s)) as [f|]; [|reflexivity].
      destruct (ttype_eqb (fst (fst wf)) (ttype_of e (f_ty f))); [|reflexivity].
      cbn zeta. rewrite Hall. cbn [fst snd]. rewrite Hwf. reflexivity.
    - (* WMap *)
      destruct t; try reflexivity. cbn [Masked.from_wm from_w].
      destruct ((ttype_eqb kt (ttype_of e t1) && ttype_eqb vt (ttype_of e t2)) || (length kvs =? 0)%nat); [|reflexivity].
      rewrite mapM_sel_allpass.
      + f_equal. apply mapM_ext. intros kv Hin. rewrite Forall_forall in H. destruct (H kv Hin) as [_ Hx].
        rewrite Hx. reflexivity.
      + apply Forall_forall. intros kv _ i. destruct (from_w e t1 (fst kv)); [exact I | reflexivity].
    - (* WSet *)
      destruct t; try reflexivity. cbn [Masked.from_wm from_w].
      destruct (ttype_eqb et (ttype_of e t) || (length l =? 0)%nat); [|reflexivity].
      rewrite mapM_sel_allpass_pure. f_equal. apply mapM_ext.
      intros x Hin. rewrite Forall_forall in H. apply H. exact Hin.
    - (* WList *)
      destruct t; try reflexivity. cbn [Masked.from_wm from_w].
      destruct (ttype_eqb et (ttype_of e t) || (length l =? 0)%nat); [|reflexivity].
      rewrite mapM_sel_allpass_pure. f_equal. apply mapM_ext.
      intros x Hin. rewrite Forall_forall in H. apply H. exact Hin.
  Qed.
End AllPass.

(* ------------------------------------------------------------------ restrict depends on the selector through gwalk only *)

Section Agree.
  Variable S1 S2 : Type.
  Variable step1 : S1 -> qkey -> S1 * bool.
  Variable step2 : S2 -> qkey -> S2 * bool.
  Variable top1 : S1.
  Variable top2 : S2.

  (* the two selectors give the same answer along every key sequence (conjunction of the steps) *)
  Definition agree (a : S1) (b : S2) : Prop := forall q, gwalk S1 step1 a q = gwalk S2 step2 b q.

  Hypothesis Htop : agree top1 top2.

  Lemma agree_flag a b k : agree a b -> snd (step1 a k) = snd (step2 b k).
  Proof. intro H. specialize (H [k]). cbn [gwalk] in H. rewrite !andb_true_r in H. exact H. Qed.

  Lemma agree_sub a b k : agree a b -> snd (step1 a k) = true -> agree (fst (step1 a k)) (fst (step2 b k)).
  Proof.
    intros H Hk q. pose proof (agree_flag a b k H) as Hf. specialize (H (k :: q)). cbn [gwalk] in H.
    rewrite <- Hf, Hk in H. exact H.
  Qed.

  Lemma sel_map_agree {A B} (key : nat -> A -> qkey) a b (g1 : S1 -> A -> B) (g2 : S2 -> A -> B) : agree a b ->
    forall l, Forall (fun x => forall a' b', agree a' b' -> g1 a' x = g2 b' x) l ->
    forall i, sel_map S1 step1 key a g1 i l = sel_map S2 step2 key b g2 i l.
  Proof.
    intros Hab l HF. induction HF as [|x l Hx Hl IH]; intro i; [reflexivity|].
    cbn [sel_map]. rewrite <- (agree_flag a b _ Hab). destruct (snd (step1 a (key i x))) eqn:Hk.
    - rewrite (Hx _ _ (agree_sub a b _ Hab Hk)), IH. reflexivity.
    - apply IH.
  Qed.

  Definition Pg (rq : reqmode) (e : env) (v : value) : Prop :=
    forall t a b, agree a b -> restrict S1 step1 top1 rq e a t v = restrict S2 step2 top2 rq e b t v.

  Theorem restrict_agree_aux rq e : forall v, Pg rq e v /\ match v with VSome x => Pg rq e x | _ => True end.
  Proof.
    intro v. induction v using value_ind2; try (split; [|exact I]; intros t sa sb Hab; reflexivity).
    - (* VList *)
      split; [|exact I]. intros t sa sb Hab. destruct t; try reflexivity; cbn [restrict]; f_equal;
        (apply sel_map_agree; [exact Hab|]; eapply Forall_impl; [|exact H]; intros x [Hx _] a' b' H'; apply Hx; exact H').
    - (* VMap *)
      split; [|exact I]. intros t sa sb Hab. destruct t; try reflexivity. cbn [restrict]. do 2 f_equal.
      apply sel_map_agree; [exact Hab|]. eapply Forall_impl; [|exact H]. intros kv [_ [Hx _]] a' b' H'.
      rewrite (Hx _ _ _ H'). reflexivity.
    - (* VStruct *)
      split; [|exact I]. intros t sa sb Hab. destruct t; try reflexivity. cbn [restrict].
      destruct (find_struct e name) as [s|]; [|reflexivity]. f_equal. apply map_ext_in. intros p Hin.
      rewrite Forall_forall in H. specialize (H p Hin). cbn beta in H.
      destruct (find_field (fst p) (s_fields s)) as [f|]; [|reflexivity].
      destruct (present f (snd p)); [|reflexivity]. cbn zeta.
      rewrite <- (agree_flag sa sb _ Hab).
      destruct (snd (step1 sa (QF (f_id f)))) eqn:Hk.
      + cbn [orb]. pose proof (agree_sub sa sb _ Hab Hk) as Hsub.
        destruct (base_ptr f).
        * destruct (snd p) as [| | | | | | | | |x] eqn:Es; try reflexivity. destruct H as [_ H]. rewrite (H _ _ _ Hsub). reflexivity.
        * destruct H as [H _]. rewrite (H _ _ _ Hsub). reflexivity.
      + cbn [orb]. destruct (is_required f && match rq with RqKeep => true | _ => false end); [|reflexivity].
        destruct (base_ptr f).
        * destruct (snd p) as [| | | | | | | | |x] eqn:Es; try reflexivity. destruct H as [_ H]. rewrite (H _ _ _ Htop). reflexivity.
        * destruct H as [H _]. rewrite (H _ _ _ Htop). reflexivity.
    - split; [|apply IHv]. intros t sa sb Hab. reflexivity.
  Qed.
End Agree.

(* ------------------------------------------------------------------ residual path sets answer as Mask.Spec.spec_pass *)

Section PsFacts.
  Import Mask.Spec.

  Lemma existsb_ext' {A} (f g : A -> bool) l : (forall x, f x = g x) -> existsb f l = existsb g l.
  Proof. intro H. induction l as [|x l IH]; [reflexivity|]. cbn. rewrite H, IH. reflexivity. Qed.

  Lemma existsb_deriv (F : spath -> bool) ps k :
    existsb F (deriv ps k) = existsb (fun p => match p with [] => F [] | s :: r => seg_matches s k && F r end) ps.
  Proof.
    unfold deriv. induction ps as [|p ps IH]; [reflexivity|]. cbn [flat_map]. rewrite existsb_app.
    change (existsb ?G (p :: ps)) with (G p || existsb G ps). f_equal; [|exact IH].
    destruct p as [|s r]; cbn [existsb]; [apply orb_false_r|]. destruct (seg_matches s k); cbn [existsb andb]; [apply orb_false_r | reflexivity].
  Qed.

  Lemma complete_cons ps k q : complete ps (k :: q) = complete (deriv ps k) q.
  Proof.
    unfold complete. rewrite existsb_deriv. apply existsb_ext'. intros [|s r]; reflexivity.
  Qed.

  Lemma deriv_nil k : deriv [] k = [].
  Proof. reflexivity. Qed.

  Lemma ps_walk_cons black ps k q :
    ps_walk black ps (k :: q) = ps_pass black ps k && ps_walk black (deriv ps k) q.
  Proof. reflexivity. Qed.

  Lemma ps_walk_black : forall q ps,
    ps_walk true ps q = match q with [] => true | _ => negb (complete ps q) end.
  Proof.
    induction q as [|k q IH]; intros ps; [reflexivity|].
    rewrite ps_walk_cons, IH. unfold ps_pass.
    destruct q as [|k' q'].
    - rewrite andb_true_r. f_equal. unfold complete. apply existsb_ext'.
      intros [|s [|s' r]]; cbn [covers]; try reflexivity.
      + rewrite andb_true_r. reflexivity.
      + rewrite andb_false_r. reflexivity.
    - rewrite (complete_cons ps k (k' :: q')).
      destruct (existsb (fun p => match p with [] => true | [s] => seg_matches s k | _ => false end) ps) eqn:E; [|reflexivity].
      cbn [negb andb]. symmetry. apply negb_false_iff. unfold complete.
      apply existsb_exists in E. destruct E as [p [Hin Hp]]. apply existsb_exists.
      destruct p as [|s [|s' r]]; [| |discriminate].
      + exists []. split; [|reflexivity]. unfold deriv. apply in_flat_map. exists []. split; [exact Hin | left; reflexivity].
      + exists []. split; [|reflexivity]. unfold deriv. apply in_flat_map. exists [s]. split; [exact Hin|]. rewrite Hp. left; reflexivity.
  Qed.

  Definition sel (q : list qkey) (p : spath) : bool := covers p q || touches p q.

  Lemma sel_nil p : sel [] p = true.
  Proof. unfold sel. destruct p; reflexivity. Qed.

  Lemma sel_cons k q p : sel (k :: q) p = match p with [] => true | s :: r => seg_matches s k && sel q r end.
  Proof. unfold sel. destruct p as [|s r]; [reflexivity|]. cbn [covers touches]. destruct (seg_matches s k); reflexivity. Qed.

  Lemma white_pass_eq ps q : ps <> [] -> (complete ps q || touched ps q) = existsb (sel q) ps.
  Proof.
    intros _. unfold complete, touched, sel. induction ps as [|p ps IH]; [reflexivity|]. cbn [existsb]. rewrite <- IH.
    destruct (covers p q), (touches p q), (existsb (fun p0 => covers p0 q) ps), (existsb (fun p0 => touches p0 q) ps); reflexivity.
  Qed.

  Lemma ps_walk_white_ne : forall q ps, ps <> [] -> ps_walk false ps q = existsb (sel q) ps.
  Proof.
    induction q as [|k q IH]; intros ps Hne.
    - destruct ps as [|p ps]; [congruence|]. cbn [existsb]. rewrite sel_nil. reflexivity.
    - rewrite ps_walk_cons. unfold ps_pass.
      destruct ps as [|p0 ps0] eqn:Eps; [congruence|]. rewrite <- Eps in *.
      destruct (existsb (head_matches k) ps) eqn:E.
      + cbn [andb]. assert (Hd : deriv ps k <> []).
        { apply existsb_exists in E. destruct E as [p [Hin Hp]]. intro Hd.
          assert (In (match p with [] => [] | _ :: r => r end) (deriv ps k)) as HI.
          { unfold deriv. apply in_flat_map. exists p. split; [exact Hin|]. destruct p as [|s r]; [left; reflexivity|].
            cbn [head_matches] in Hp. rewrite Hp. left; reflexivity. }
          rewrite Hd in HI. exact HI. }
        rewrite (IH _ Hd), existsb_deriv. apply existsb_ext'. intros [|s r]; [rewrite sel_cons; unfold sel; destruct q; reflexivity|].
        rewrite sel_cons. reflexivity.
      + cbn [andb]. symmetry. apply not_true_is_false. intro Hx. apply existsb_exists in Hx. destruct Hx as [p [Hin Hp]].
        assert (existsb (head_matches k) ps = true) as Hy.
        { apply existsb_exists. exists p. split; [exact Hin|]. rewrite sel_cons in Hp. destruct p as [|s r]; [reflexivity|].
          cbn [head_matches]. apply andb_true_iff in Hp. apply Hp. }
        congruence.
  Qed.

  Lemma ps_walk_nil_white : forall q, ps_walk false [] q = true.
  Proof. induction q as [|k q IH]; [reflexivity|]. rewrite ps_walk_cons. unfold ps_pass. cbn [andb]. exact IH. Qed.

  (* the residual path sets give, along every position, the answer of the path-set semantics of C14 *)
  Theorem ps_walk_spec black ps q : ps_walk black ps q = spec_pass black ps q.
  Proof.
    destruct q as [|k q]; [reflexivity|]. unfold spec_pass. destruct black.
    - rewrite ps_walk_black. reflexivity.
    - destruct ps as [|p ps]; [apply ps_walk_nil_white|].
      rewrite white_pass_eq by discriminate. apply ps_walk_white_ne. discriminate.
  Qed.
End PsFacts.

(* ------------------------------------------------------------------ the field-mask library as a selector *)

Lemma mquery_nil k : mquery None k = (None, true).
Proof. reflexivity. Qed.

Lemma mquery_live_pass m k : mlive m = false -> snd (mquery m k) = true.
Proof.
  unfold mlive, mquery, Mask.Trie.exist_q, Mask.Trie.query. destruct m as [x|]; [|reflexivity].
  intro H. rewrite H. reflexivity.
Qed.

Lemma gwalk_mask m q : gwalk (option mask) mquery m q = Mask.Trie.walk m q.
Proof.
  unfold Mask.Trie.walk, mquery. revert m. induction q as [|k q IH]; intro m; [reflexivity|].
  cbn [gwalk Mask.Trie.walk_to]. destruct (Mask.Trie.query m k) as [c ok].
  cbn [fst snd]. rewrite IH. destruct (Mask.Trie.walk_to c q). reflexivity.
Qed.

Lemma gwalk_nil_mask q : gwalk (option mask) mquery None q = true.
Proof. induction q as [|k q IH]; [reflexivity|]. cbn [gwalk]. rewrite mquery_nil. exact IH. Qed.

Lemma ps_walk_top black q : ps_walk black [] q = true.
Proof.
  induction q as [|k q IH]; [reflexivity|]. unfold ps_walk in *. cbn [gwalk ps_step fst snd deriv flat_map].
  unfold ps_pass. cbn [existsb negb]. destruct black; cbn [andb]; exact IH.
Qed.

(* ------------------------------------------------------------------ the statements for the field-mask library instance *)

Theorem hdr_count_eq_written_mask {A} (key : nat -> A -> qkey) (m : option mask) (l : list A) :
  hdr_count (option mask) mquery mlive key m l = count_sel (option mask) mquery key m 0 l.
Proof. apply hdr_count_eq_written. exact mquery_live_pass. Qed.

Theorem masked_counts cfg m e s v r :
  pinned cfg = false -> to_wire_masked cfg m e s v = Ok r -> counts_ok r = true /\ enc_r r = enc (cook r).
Proof.
  intros Hp Hr. assert (Hc : counts_ok r = true).
  { eapply (to_wm_counts (option mask) mquery mlive None mall mquery_live_pass cfg e Hp); exact Hr. }
  split; [exact Hc | apply enc_r_cook; exact Hc].
Qed.

Lemma read_new_from_w e s wfs : find_struct e (s_name s) = Some s ->
  read_new e s (WStruct wfs) = from_w e (TRef (s_name s)) (WStruct wfs).
Proof. intro Hs. rewrite from_w_struct, Hs. reflexivity. Qed.

Lemma to_wm_struct_shape cfg m e n fs r : to_wm_mask cfg e m (TRef n) (VStruct fs) = Ok r -> exists rfs, r = RStruct rfs.
Proof.
  unfold to_wm_mask. rewrite to_wm_struct. destruct (find_struct e n) as [s|]; [|discriminate]. cbn zeta.
  destruct (is_union s && negb (count_set (s_fields s) fs =? 1)%nat); [discriminate|].
  destruct (mapM _ fs); [|discriminate]. cbn [bind]. intros [= <-]. eexists. reflexivity.
Qed.

Theorem masked_write_value cfg m e s v :
  wf_env e = true -> find_struct e (s_name s) = Some s -> wt e s v = true ->
  (zero_required cfg = true -> zero_okb e = true) ->
  exists r, to_wire_masked cfg m e s v = Ok r /\
            read_new e s (cook r) = Ok (restrict_mask (wmode cfg) e m (TRef (s_name s)) v).
Proof.
  intros Henv Hs Hwt Hz. destruct (wt_is_struct _ _ _ Hwt) as (fs & ->).
  assert (Hzero : zero_required cfg = true -> forall n s f, find_struct e n = Some s -> In f (s_fields s) -> is_required f = true ->
                  from_w e (f_ty f) (zero_w e (f_ty f)) = Ok (zero_read e (f_ty f))).
  { intro H. apply zero_okb_sound. apply Hz. exact H. }
  destruct (to_wm_spec_aux (option mask) mquery mlive None mall e Henv cfg Hzero (VStruct fs)) as [HQ _].
  destruct (HQ _ _ m (wt_wt_val _ _ _ Hwt)) as (r & Hw & Hr).
  exists r. split; [exact Hw|]. destruct (to_wm_struct_shape _ _ _ _ _ _ Hw) as (rfs & ->).
  cbn [cook] in *. rewrite read_new_from_w by exact Hs. exact Hr.
Qed.

Lemma from_wire_m_from_wm e s m wfs : find_struct e (s_name s) = Some s ->
  from_wire_m (option mask) mquery e s m (new_struct e s) (WStruct wfs) = from_wm_mask e m (TRef (s_name s)) (WStruct wfs).
Proof. intro Hs. unfold from_wm_mask. rewrite from_wm_struct, Hs. reflexivity. Qed.

Theorem masked_read_value cfg m e s v :
  wf_env e = true -> find_struct e (s_name s) = Some s -> wt e s v = true ->
  exists wfs, to_wire e s v = Ok (WStruct wfs) /\
              read_new_masked cfg m e s (WStruct wfs) = Ok (restrict_mask RqDrop e m (TRef (s_name s)) v).
Proof.
  intros Henv Hs Hwt. destruct (wt_is_struct _ _ _ Hwt) as (fs & ->).
  destruct (from_wm_spec_aux (option mask) mquery None e Henv (VStruct fs)) as [HQ _].
  destruct (HQ _ _ (wt_wt_val _ _ _ Hwt)) as (w & Hw & Hr).
  assert (exists wfs, w = WStruct wfs) as (wfs & ->).
  { rewrite to_w_struct, Hs in Hw. cbn zeta in Hw.
    destruct (is_union s && negb (count_set (s_fields s) fs =? 1)%nat); [discriminate|].
    destruct (mapM _ fs); [|discriminate]. cbn [bind] in Hw. injection Hw as <-. eexists. reflexivity. }
  exists wfs. split; [exact Hw|]. unfold read_new_masked, from_wire_masked.
  rewrite from_wire_m_from_wm by exact Hs. apply Hr.
Qed.

(* ---- the nil mask ---- *)

Theorem nil_mask_write cfg e s v : map_res cook (to_wire_masked cfg None e s v) = to_wire e s v.
Proof.
  unfold to_wire_masked, to_wire, to_wm_mask.
  apply (to_wm_allpass_aux (option mask) mquery mlive None mall None mquery_nil cfg e v).
Qed.

Theorem nil_mask_write_bytes cfg e s v : pinned cfg = false ->
  write_bytes_masked cfg None e s v = write_bytes e s v.
Proof.
  intro Hp. unfold write_bytes_masked, write_bytes. rewrite <- (nil_mask_write cfg).
  destruct (to_wire_masked cfg None e s v) as [r|] eqn:Hr; [|reflexivity].
  cbn [bind map_res]. destruct (masked_counts _ _ _ _ _ _ Hp Hr) as [_ ->]. reflexivity.
Qed.

Theorem nil_mask_read cfg e s init w : from_wire_masked cfg None e s init w = from_wire e s init w.
Proof.
  unfold from_wire_masked, from_wire_m, from_wire. destruct init; try reflexivity. destruct w; try reflexivity.
  f_equal. apply foldM_ext. apply Forall_forall. intros wf _ rs.
  unfold read_step_m, read_step. destruct (find_field (snd (fst wf)) (s_fields s)) as [f|]; [|reflexivity].
  destruct (ttype_eqb (fst (fst wf)) (ttype_of e (f_ty f))); [|reflexivity].
  cbn zeta. rewrite mquery_nil. cbn [fst snd].
  rewrite (from_wm_allpass (option mask) mquery None mquery_nil e). reflexivity.
Qed.

Theorem nil_mask_read_bytes cfg e s init bs : read_bytes_masked cfg None e s init bs = read_bytes e s init bs.
Proof. unfold read_bytes_masked, read_bytes. destruct (dec_struct bs) as [[w r]|]; [apply nil_mask_read | reflexivity]. Qed.

(* ---- sub masks apply recursively ---- *)

(* the payload of a selected struct-typed / container-typed field is written under the sub mask
   that Field(id) returned *)
Theorem submask_field cfg e m s f x :
  find_field (f_id f) (s_fields s) = Some f -> present f x = true -> base_ptr f = false ->
  snd (mquery m (QF (f_id f))) = true ->
  wfield_m (option mask) mquery mlive None mall cfg e m s (f_id f, x) =
  bind (to_wm_mask cfg e (fst (mquery m (QF (f_id f)))) (f_ty f) x)
       (fun r => Ok (Some (ttype_of e (f_ty f), f_id f, r))).
Proof.
  intros Hf Hp Hb Hex. unfold wfield_m. cbn [fst snd]. rewrite Hf, Hp. cbn zeta. rewrite Hex, Hb. reflexivity.
Qed.

(* ... and in the specification: the slot of a selected field is the restriction of its value to the sub mask *)
Theorem submask_recursive rq e m n s fs :
  find_struct e n = Some s ->
  restrict_mask rq e m (TRef n) (VStruct fs) =
  VStruct (map (fun p =>
     match find_field (fst p) (s_fields s) with
     | Some f =>
         if present f (snd p) && snd (mquery m (QF (f_id f))) then
           (fst p, if base_ptr f
                   then match snd p with VSome x => VSome (restrict_mask rq e (fst (mquery m (QF (f_id f)))) (f_ty f) x) | o => o end
                   else restrict_mask rq e (fst (mquery m (QF (f_id f)))) (f_ty f) (snd p))
         else restrict_fn (option mask) mquery None e rq m s p
     | None => p end) fs).
Proof.
  intro Hs. unfold restrict_mask. rewrite restrict_struct, Hs. f_equal. apply map_ext. intro p.
  unfold restrict_fn at 1. destruct (find_field (fst p) (s_fields s)) as [f|] eqn:Hf; [|reflexivity].
  destruct (present f (snd p)) eqn:Hp; cbn [andb].
  - cbn zeta. destruct (snd (mquery m (QF (f_id f)))) eqn:Hex.
    + reflexivity.
    + unfold restrict_fn. rewrite Hf, Hp. cbn zeta. rewrite Hex. reflexivity.
  - unfold restrict_fn. rewrite Hf, Hp. reflexivity.
Qed.

(* list / set elements: element i is written under the sub mask Int(i) returned, iff it passes *)
Theorem submask_elements cfg e m et l :
  to_wm_mask cfg e m (TList et) (VList l) =
  bind (mapM_sel (option mask) mquery (fun i x => Ok (idx_key i x)) m (fun sub x => to_wm_mask cfg e sub et x) 0 l)
       (fun xs => Ok (RList (ttype_of e et) (list_hdr (option mask) mquery mlive mall cfg m l) xs)).
Proof. reflexivity. Qed.

(* ---- path sets ---- *)

(* a mask that answers along every position as the path set does restricts as the path set does *)
Theorem restrict_mask_pathset black ps m rq e t v :
  (forall q, Mask.Trie.walk m q = Mask.Spec.spec_pass black ps q) ->
  restrict_mask rq e m t v = restrict_ps black rq e ps t v.
Proof.
  intro H. unfold restrict_mask, restrict_ps.
  apply (restrict_agree_aux (option mask) (list Mask.Spec.spath) mquery (ps_step black) None []).
  - intro q. rewrite gwalk_nil_mask. symmetry. apply ps_walk_top.
  - intro q. rewrite gwalk_mask, H. symmetry. apply ps_walk_spec.
Qed.

Theorem masked_write_pathset cfg black ps m e s v :
  wf_env e = true -> find_struct e (s_name s) = Some s -> wt e s v = true ->
  (zero_required cfg = true -> zero_okb e = true) ->
  (forall q, Mask.Trie.walk m q = Mask.Spec.spec_pass black ps q) ->
  exists r, to_wire_masked cfg m e s v = Ok r /\
            read_new e s (cook r) = Ok (restrict_ps black (wmode cfg) e ps (TRef (s_name s)) v).
Proof.
  intros Henv Hs Hwt Hz Hag. destruct (masked_write_value cfg m e s v Henv Hs Hwt Hz) as (r & Hw & Hr).
  exists r. split; [exact Hw|]. rewrite Hr. f_equal. apply restrict_mask_pathset. exact Hag.
Qed.

Theorem masked_read_pathset cfg black ps m e s v :
  wf_env e = true -> find_struct e (s_name s) = Some s -> wt e s v = true ->
  (forall q, Mask.Trie.walk m q = Mask.Spec.spec_pass black ps q) ->
  exists wfs, to_wire e s v = Ok (WStruct wfs) /\
              read_new_masked cfg m e s (WStruct wfs) = Ok (restrict_ps black RqDrop e ps (TRef (s_name s)) v).
Proof.
  intros Henv Hs Hwt Hag. destruct (masked_read_value cfg m e s v Henv Hs Hwt) as (wfs & Hw & Hr).
  exists wfs. split; [exact Hw|]. rewrite Hr. f_equal. apply restrict_mask_pathset. exact Hag.
Qed.

(* the nil mask and the empty path set select everything: restrict is the plain round trip *)
Theorem restrict_nil_mask rq e t v : restrict_mask rq e None t v = norm e t v.
Proof.
  unfold restrict_mask. revert t.
  enough (H : (forall t, restrict (option mask) mquery None rq e None t v = norm e t v) /\
              match v with VSome x => forall t, restrict (option mask) mquery None rq e None t x = norm e t x | _ => True end) by apply H.
  induction v using value_ind2; try (split; [|exact I]; intro t; reflexivity).
  - split; [|exact I]. intro t. destruct t; try reflexivity; cbn [restrict norm]; f_equal;
      (generalize 0%nat; induction l as [|x l IHl]; intro i; [reflexivity|]; inversion H as [|? ? [Hx _] Hl]; subst;
       cbn [sel_map map]; rewrite mquery_nil; cbn [fst snd]; rewrite Hx, (IHl Hl); reflexivity).
  - split; [|exact I]. intro t. destruct t; try reflexivity. cbn [restrict norm]. do 2 f_equal.
    generalize 0%nat. induction kvs as [|kv kvs IHk]; intro i; [reflexivity|]. inversion H as [|? ? [_ [Hx _]] Hl]; subst.
    cbn [sel_map map]. rewrite mquery_nil. cbn [fst snd]. rewrite Hx, (IHk Hl). reflexivity.
  - split; [|exact I]. intro t. destruct t; try reflexivity. rewrite restrict_struct, norm_struct_eq.
    destruct (find_struct e name) as [s|]; [|reflexivity]. f_equal. apply map_ext_in. intros p Hin.
    rewrite Forall_forall in H. specialize (H p Hin). cbn beta in H.
    unfold restrict_fn, norm_fn. destruct (find_field (fst p) (s_fields s)) as [f|]; [|reflexivity].
    destruct (present f (snd p)); [|reflexivity]. cbn zeta. rewrite mquery_nil. cbn [fst snd orb].
    destruct (base_ptr f).
    + destruct (snd p) as [| | | | | | | | |x] eqn:Es; try reflexivity. destruct H as [_ H]. rewrite H. reflexivity.
    + destruct H as [H _]. rewrite H. reflexivity.
  - split; [intro t; reflexivity | apply IHv].
Qed.

(* ------------------------------------------------------------------ what Write emits under a mask fits the wire format *)

Lemma zero_w_wf e t : wf (zero_w e t) /\ wtype (zero_w e t) = ttype_of e t.
Proof.
  rewrite ttype_of_spec. destruct t; cbn [zero_w wf wtype spec_ttype length]; (split; [|reflexivity]);
    try exact I; try (apply in_srange_1; lia); try (apply in_srange_2; lia); try (apply in_srange_4; lia);
    try (apply in_srange_8; lia); try (split; [apply in_srange_4; cbn; lia | exact I]).
  unfold in_range. cbn. lia.
Qed.

Section WfFacts.
  Variable St : Type.
  Variable step : St -> qkey -> St * bool.
  Variable live : St -> bool.
  Variable top : St.
  Variable all_q : St -> bool.
  Variable e : env.
  Hypothesis Henv : wf_env e = true.
  Variable cfg : mcfg.

  Local Notation to_wm := (Masked.to_wm St step live top all_q).
  Local Notation wfield_m := (MaskedFacts.wfield_m St step live top all_q).

  Definition Ww (v : value) : Prop := forall st t key r, wt_val e key t v = true -> to_wm cfg e st t v = Ok r ->
    wf (cook r) /\ wtype (cook r) = ttype_of e t.

  Lemma Ww_flat v : flat v = true -> Ww v.
  Proof.
    intros Hf st t key r Hwt Hr. rewrite (to_wm_flat St step live top all_q e cfg st t v Hf) in Hr.
    destruct (to_w e t v) as [w|] eqn:Hw; [|discriminate]. injection Hr as <-. cbn [cook].
    apply (to_w_wf e Henv v t key w Hwt Hw).
  Qed.

  Lemma len_sel_srange {A} (key : nat -> A -> qkey) st (l : list A) (n : nat) :
    len_ok l = true -> n = count_sel St step key st 0 l -> in_srange 4 (Z.of_nat n).
  Proof.
    intros Hl ->. pose proof (count_sel_le St step key st l 0). unfold len_ok in Hl. apply Z.ltb_lt in Hl.
    apply in_srange_4. lia.
  Qed.

  Theorem to_wm_wf_aux : forall v, Ww v /\ match v with VSome x => Ww x | _ => True end.
  Proof.
    intro v. induction v using value_ind2; try (split; [apply Ww_flat; reflexivity | exact I]).
    - (* VList *)
      split; [|exact I]. intros st t key r Hwt Hr. destruct t; try discriminate; cbn [wt_val Masked.to_wm] in *.
      + apply andb_true_iff in Hwt. destruct Hwt as [Hlen Hall]. apply forallb_Forall in Hall.
        destruct (Masked.mapM_sel St step (fun i x => Ok (idx_key i x)) st (fun s x => to_wm cfg e s t x) 0 l) as [xs|] eqn:Hm; [|discriminate].
        injection Hr as <-. cbn [cook]. rewrite (ttype_of_spec e (TList t)). split; [|reflexivity].
        apply wf_list_iff. split.
        * rewrite map_length. eapply len_sel_srange; [exact Hlen|]. eapply mapM_sel_length. exact Hm.
        * apply Forall_map. eapply (mapM_sel_Forall St step); [|exact Hm].
          eapply Forall_and_impl; [exact H | exact Hall |]. intros x [Hx _] Hwx s y Hy.
          destruct (Hx _ _ _ _ Hwx Hy). split; assumption.
      + apply andb_true_iff in Hwt. destruct Hwt as [Hwt _]. apply andb_true_iff in Hwt. destruct Hwt as [Hlen Hall].
        apply forallb_Forall in Hall. destruct (set_has_dup l); [discriminate|].
        destruct (Masked.mapM_sel St step (fun i x => Ok (idx_key i x)) st (fun s x => to_wm cfg e s t x) 0 l) as [xs|] eqn:Hm; [|discriminate].
        injection Hr as <-. cbn [cook]. rewrite (ttype_of_spec e (TSet t)). split; [|reflexivity].
        apply wf_set_iff. split.
        * rewrite map_length. eapply len_sel_srange; [exact Hlen|]. eapply mapM_sel_length. exact Hm.
        * apply Forall_map. eapply (mapM_sel_Forall St step); [|exact Hm].
          eapply Forall_and_impl; [exact H | exact Hall |]. intros x [Hx _] Hwx s y Hy.
          destruct (Hx _ _ _ _ Hwx Hy). split; assumption.
    - (* VMap *)
      split; [|exact I]. intros st t key r Hwt Hr. destruct t; try discriminate; cbn [wt_val Masked.to_wm] in *.
      apply andb_true_iff in Hwt. destruct Hwt as [Hwt _]. apply andb_true_iff in Hwt. destruct Hwt as [Hlen Hall].
      apply forallb_Forall in Hall.
      match type of Hr with bind (Masked.mapM_sel _ _ ?K _ ?F _ _) _ = _ => set (kf := K) in *; set (ff := F) in * end.
      destruct (Masked.mapM_sel St step kf st ff 0 kvs) as [xs|] eqn:Hm; [|discriminate].
      injection Hr as <-. cbn [cook]. rewrite (ttype_of_spec e (TMap t1 t2)). split; [|reflexivity].
      apply wf_map_iff. split.
      + rewrite map_length. eapply (len_sel_srange (fun _ kv => map_qkey t1 (fst kv))); [exact Hlen|]. eapply mapM_sel_length. exact Hm.
      + apply Forall_map. eapply (mapM_sel_Forall St step); [|exact Hm].
        eapply Forall_and_impl; [exact H | exact Hall |]. intros kv [_ [Hx _]] Hw s y Hy.
        apply andb_true_iff in Hw. destruct Hw as [Hwk Hwx]. unfold ff in Hy.
        destruct (to_w e t1 (fst kv)) as [wk|] eqn:E1; [|discriminate]. cbn [bind] in Hy.
        destruct (to_wm cfg e s t2 (snd kv)) as [rx|] eqn:E2; [|discriminate]. injection Hy as <-.
        destruct (to_w_wf e Henv _ _ _ _ Hwk E1). destruct (Hx _ _ _ _ Hwx E2). cbn [fst snd]. auto.
    - (* VStruct *)
      split; [|exact I]. intros st t key r Hwt Hr. destruct t; try discriminate.
      rewrite wt_struct_eq in Hwt. rewrite to_wm_struct in Hr.
      destruct (find_struct e name) as [s|] eqn:Hs; [|discriminate]. cbn zeta in Hr.
      destruct (is_union s && negb (count_set (s_fields s) fs =? 1)%nat); [discriminate|].
      destruct (mapM (wfield_m cfg e st s) fs) as [ofs|] eqn:Hm; [|discriminate]. injection Hr as <-.
      rewrite (ttype_of_spec e (TRef name)). split; [|reflexivity].
      apply andb_true_iff in Hwt. destruct Hwt as [Hwt _]. apply andb_true_iff in Hwt.
      destruct Hwt as [_ Hslots]. apply forallb_Forall in Hslots.
      pose proof (wf_env_struct _ _ _ Henv Hs) as Hwfs.
      cbn [cook]. apply wf_struct_iff. apply Forall_map. apply Forall_cat_somes. apply mapM_Forall2 in Hm.
      apply (Forall2_out _ _ _ _ _ _ Hm H Hslots). intros p ow Hx H2 Hp.
      unfold MaskedFacts.wfield_m in Hp. unfold slot_ok in H2.
      destruct (find_field (fst p) (s_fields s)) as [f|] eqn:Hf; [|discriminate].
      destruct (find_field_In _ _ _ Hf) as [Hin _].
      destruct (present f (snd p)); [|injection Hp as <-; exact I]. cbn zeta in Hp.
      destruct (snd (step st (QF (f_id f))) || (is_required f && negb (zero_required cfg))).
      + destruct (base_ptr f).
        * destruct (snd p) as [| | | | | | | | |x] eqn:Es; try discriminate.
          match type of Hp with bind ?X _ = _ => destruct X as [y|] eqn:E1; [|discriminate] end. injection Hp as <-.
          destruct Hx as [_ Hx]. destruct (Hx _ _ _ _ H2 E1) as [Hw1 Hw2]. cbn [fst snd].
          split; [assumption | split; [apply (wf_struct_ids s); assumption | assumption]].
        * match type of Hp with bind ?X _ = _ => destruct X as [y|] eqn:E1; [|discriminate] end. injection Hp as <-.
          cbn [fst snd].
          destruct (is_optional f && is_nil (snd p)) eqn:Eon.
          -- apply andb_true_iff in Eon. destruct Eon as [_ Hn]. destruct (snd p) eqn:Es; try discriminate.
             cbn [Masked.to_wm] in E1. destruct (to_w e (f_ty f) VNil) as [w|] eqn:Ew; [|discriminate]. injection E1 as <-. cbn [cook].
             destruct (f_ty f); cbn [is_base is_binary negb orb] in H2; try discriminate; cbn [to_w] in Ew.
             ++ injection Ew as <-. rewrite ttype_of_spec.
                split; [reflexivity | split; [apply (wf_struct_ids s); assumption | cbn; apply in_srange_4; lia]].
             ++ destruct (find_struct e name0) as [s0|]; [|discriminate].
                destruct (is_union s0); [discriminate|]. injection Ew as <-. rewrite ttype_of_spec.
                split; [reflexivity | split; [apply (wf_struct_ids s); assumption | exact I]].
             ++ injection Ew as <-. rewrite (ttype_of_spec e (TList t)).
                split; [reflexivity | split; [apply (wf_struct_ids s); assumption | cbn; split; [apply in_srange_4; lia | exact I]]].
             ++ injection Ew as <-. rewrite (ttype_of_spec e (TSet t)).
                split; [reflexivity | split; [apply (wf_struct_ids s); assumption | cbn; split; [apply in_srange_4; lia | exact I]]].
             ++ injection Ew as <-. rewrite (ttype_of_spec e (TMap t1 t2)).
                split; [reflexivity | split; [apply (wf_struct_ids s); assumption | cbn; split; [apply in_srange_4; lia | exact I]]].
          -- destruct Hx as [Hx _]. destruct (Hx _ _ _ _ H2 E1) as [Hw1 Hw2].
             split; [assumption | split; [apply (wf_struct_ids s); assumption | assumption]].
      + destruct (is_required f); injection Hp as <-; [|exact I]. cbn [fst snd cook].
        destruct (zero_w_wf e (f_ty f)) as [Hz1 Hz2].
        split; [assumption | split; [apply (wf_struct_ids s); assumption | assumption]].
    - split; [intros st t key r Hwt; discriminate | apply IHv].
  Qed.
End WfFacts.

Theorem masked_write_bytes cfg m e s v :
  pinned cfg = false -> wf_env e = true -> find_struct e (s_name s) = Some s -> wt e s v = true ->
  (zero_required cfg = true -> zero_okb e = true) ->
  exists bs, write_bytes_masked cfg m e s v = Ok bs /\
    forall rest, read_bytes e s (new_struct e s) (bs ++ rest)
                 = Ok (restrict_mask (wmode cfg) e m (TRef (s_name s)) v).
Proof.
  intros Hp Henv Hs Hwt Hz. destruct (masked_write_value cfg m e s v Henv Hs Hwt Hz) as (r & Hw & Hr).
  destruct (masked_counts _ _ _ _ _ _ Hp Hw) as [Hc Henc].
  exists (enc_r r). unfold write_bytes_masked. rewrite Hw. cbn [bind]. split; [reflexivity|]. intro rest.
  destruct (wt_is_struct _ _ _ Hwt) as (fs & ->).
  destruct (to_wm_struct_shape _ _ _ _ _ _ Hw) as (rfs & ->).
  destruct (to_wm_wf_aux (option mask) mquery mlive None mall e Henv cfg (VStruct fs)) as [HW _].
  destruct (HW _ _ _ _ (wt_wt_val _ _ _ Hwt) Hw) as [Hwf _].
  unfold read_bytes. rewrite Henc. cbn [cook] in *. rewrite dec_struct_enc by exact Hwf. exact Hr.
Qed.
