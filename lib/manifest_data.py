BASELINE_OFF = "cd /repo && for m in . tests/fieldmask tests/unknown_fields; do (cd $m && GOFLAGS=-mod=mod GOPROXY=off GOSUMDB=off go test -json -vet=off -count=1 -timeout 25m ./...); done"
HOOK_COMMITS = ["1fe0d6a", "11e80b9", "6a2530e"]
NOTES = ("All 20 properties are claimed; not_applicable is empty. Every check rebuilds its Coq cone (make) and its Go harness against /repo's "
         "working tree (-tags verif), re-runs its translators (tables, grammar, schemas, map-range sites, hook placement regenerated from the "
         "source), runs the real code on generated inputs, and evaluates model + property oracles inside coqc; theorems are in coq/Props/Cxx.v "
         "(Print Assumptions: closed under the global context; coqchk in the thorough tier). Known findings: known_findings.json + "
         "known_findings.d/*.json (status finding | fixed). Build log with every /repo commit, finding and seeded change: notes/BUILDLOG.md; "
         "design, deviations, false alarms corrected and trusted base: DESIGN.md section 8.")

import json, os, glob
_here = os.path.dirname(os.path.abspath(__file__))
# a property is claimed only once the coordinator has accepted its check (lib/manifest/ACCEPTED)
_accepted = set(open(os.path.join(_here, "manifest", "ACCEPTED")).read().split())
CHECKS = [json.load(open(p)) for p in sorted(glob.glob(os.path.join(_here, "manifest", "C*.json")))
          if os.path.basename(p)[:-5] in _accepted]

_NOT_BUILT = "not built yet in this round (framework growing); planned per DESIGN.md section 3"
_NA_REASONS = {}
_p = os.path.join(_here, "manifest", "not_applicable.json")
if os.path.exists(_p):
    _NA_REASONS = json.load(open(_p))
NOT_APPLICABLE = [dict(property_id="C%02d" % i, reason=_NA_REASONS.get("C%02d" % i, _NOT_BUILT))
                  for i in range(1, 21) if "C%02d" % i not in [c["id"] for c in CHECKS]]
