(* Gen/Options.v — executable model of the go backend's option handling:
     generator/golang/option.go   allParams lookup (first entry whose name is a prefix of the key),
                                  checkBool, the six hand-written actions, Features.params,
                                  CodeUtils.HandleOptions, validateOptions
     generator/golang/util.go     NewCodeUtils, SetNamingStyle / UseInitialisms, UseTemplate, UsePackage
     args/args.go                 Arguments.Targets -> checkOptions (nested structs adapt the template)
     plugin/plugin.go             ParseCompactArguments, Pack
   The ordered table, the defaults and the style / template name sets come from the generated
   Gen/OptionsTable.v; the documentation tables from Gen/OptionsDoc.v.
   The second half defines the specification vocabulary (settings, what an option writes, last
   setting of a list, expected value) used by the theorems and by the correspondence oracles.
   No proofs in this file. *)
From Coq Require Import List Arith Bool.
From Coq.Strings Require Import Byte.
From Verif Require Import Base.Bytes Gen.OptionsSyntax Gen.OptionsTable Gen.OptionsDoc.
Import ListNotations.
From Coq Require Import String.
Open Scope string_scope.

(* ------------------------------------------------------------------ state *)

Definition nfeat : nat := List.length feature_defaults.

Record cfg := mkcfg {
  c_feats : list bool;               (* Features, by field index *)
  c_style : bytes;                   (* namingStyle.Name() *)
  c_doinit : bool;                   (* CodeUtils.doInitialisms *)
  c_curinit : bool;                  (* does the current naming style object correct initialisms *)
  c_prefix : bytes;                  (* packagePrefix *)
  c_template : bytes;                (* useTemplate *)
  c_imports : list (bytes * bytes)   (* importReplace *)
}.

(* NewCodeUtils in a fresh process *)
Definition default_cfg : cfg :=
  mkcfg feature_defaults default_style init_doinit init_curinit [] default_template [].

Inductive err := EBool | EStyle | ETemplate | EUsePackage | ECombo (k : nat) | EUnmodelled.
Inductive result (A : Type) := Ok (a : A) | Err (e : err).
Arguments Ok {A} a.
Arguments Err {A} e.

Fixpoint set_nth (i : nat) (b : bool) (l : list bool) : list bool :=
  match l, i with
  | [], _ => []
  | _ :: r, O => b :: r
  | x :: r, S j => x :: set_nth j b r
  end.

Definition get_feat (i : nat) (c : cfg) : bool := nth i (c_feats c) false.
Definition set_feat (i : nat) (b : bool) (c : cfg) : cfg :=
  mkcfg (set_nth i b (c_feats c)) (c_style c) (c_doinit c) (c_curinit c) (c_prefix c) (c_template c) (c_imports c).
Definition set_import (p r : bytes) (c : cfg) : cfg :=
  mkcfg (c_feats c) (c_style c) (c_doinit c) (c_curinit c) (c_prefix c) (c_template c) (update p r (c_imports c)).
(* SetNamingStyle: the selected style object receives the doInitialisms field *)
Definition set_style (s : bytes) (c : cfg) : cfg :=
  mkcfg (c_feats c) s (c_doinit c) (c_doinit c) (c_prefix c) (c_template c) (c_imports c).
(* UseInitialisms *)
Definition set_init (e : bool) (c : cfg) : cfg :=
  mkcfg (c_feats c) (c_style c) e e (c_prefix c) (c_template c) (c_imports c).
Definition set_prefix (p : bytes) (c : cfg) : cfg :=
  mkcfg (c_feats c) (c_style c) (c_doinit c) (c_curinit c) p (c_template c) (c_imports c).
Definition set_template (t : bytes) (c : cfg) : cfg :=
  mkcfg (c_feats c) (c_style c) (c_doinit c) (c_curinit c) (c_prefix c) t (c_imports c).

(* ------------------------------------------------------------------ parsing *)

Definition ch_eq : byte := x3d.     (* = *)
Definition ch_comma : byte := x2c.  (* , *)
Definition ch_colon : byte := x3a.  (* : *)

(* strings.SplitN(s, sep, 2) *)
Fixpoint split_first (sep : byte) (s : bytes) : bytes * option bytes :=
  match s with
  | [] => ([], None)
  | b :: r => if Byte.eqb b sep then ([], Some r)
              else let (h, t) := split_first sep r in (b :: h, t)
  end.

(* strings.Split(s, sep): always at least one piece *)
Fixpoint split_all (sep : byte) (s : bytes) : list bytes :=
  match s with
  | [] => [[]]
  | b :: r => if Byte.eqb b sep then [] :: split_all sep r
              else match split_all sep r with
                   | h :: t => (b :: h) :: t
                   | [] => [[b]]
                   end
  end.

Definition or_empty (o : option bytes) : bytes := match o with Some v => v | None => [] end.

(* HandleOptions: name, value of one argument *)
Definition parse_arg (a : bytes) : bytes * bytes :=
  let (n, r) := split_first ch_eq a in (n, or_empty r).

Definition s_true : bytes := Eval vm_compute in B "true".
Definition s_false : bytes := Eval vm_compute in B "false".

(* checkBool *)
Definition parse_bool (v : bytes) : option bool :=
  match v with
  | [] => Some true
  | _ => if beqb v s_true then Some true
         else if beqb v s_false then Some false
         else None
  end.

(* ------------------------------------------------------------------ one option *)

(* strings.HasPrefix(s, p); same function as Base.Bytes.is_prefix, but stops at the first
   difference when evaluated call-by-value *)
Fixpoint prefixb (p s : bytes) : bool :=
  match p, s with
  | [], _ => true
  | a :: p', b :: s' => if Byte.eqb a b then prefixb p' s' else false
  | _ :: _, [] => false
  end.

(* first entry of allParams whose name is a prefix of the key *)
Definition find_entry (key : bytes) (t : list (bytes * action)) : option (bytes * action) :=
  find (fun e => prefixb (fst e) key) t.

Definition style_known (v : bytes) : bool := existsb (beqb v) naming_styles.
Definition template_known (v : bytes) : bool := beqb v default_template || existsb (beqb v) templates.

Definition apply (a : action) (v : bytes) (c : cfg) : result cfg :=
  match a with
  | AImportPath => Ok (set_import default_thrift_lib v c)
  | AUsePackage =>
      match split_first ch_eq v with
      | (p, Some r) => Ok (set_import p r c)
      | (_, None) => Err EUsePackage
      end
  | ANamingStyle => if style_known v then Ok (set_style v c) else Err EStyle
  | AIgnoreInit =>
      match parse_bool v with
      | Some b => Ok (set_init (negb b) c)
      | None => Err EBool
      end
  | APackagePrefix => Ok (set_prefix v c)
  | ATemplate => if template_known v then Ok (set_template v c) else Err ETemplate
  | AFeature i =>
      match parse_bool v with
      | Some b => Ok (set_feat i b c)
      | None => Err EBool
      end
  | AUnknown => Err EUnmodelled
  end.

Definition step (o : bytes * bytes) (c : cfg) : result cfg :=
  match find_entry (fst o) table with
  | Some e => apply (snd e) (snd o) c
  | None => Ok c                       (* "unsupported option": logged and ignored *)
  end.

(* the loop of HandleOptions; on the first error the state reached so far is kept *)
Fixpoint run (opts : list (bytes * bytes)) (c : cfg) : cfg * option err :=
  match opts with
  | [] => (c, None)
  | o :: r => match step o c with
              | Ok c' => run r c'
              | Err e => (c, Some e)
              end
  end.

(* ------------------------------------------------------------------ after the loop *)

Definition feat_index (n : bytes) : nat :=
  match lookup n table with Some (AFeature i) => i | _ => nfeat end.

Definition ix_deep_equal : nat := Eval vm_compute in feat_index (B "gen_deep_equal").
Definition ix_nested : nat := Eval vm_compute in feat_index (B "enable_nested_struct").
Definition ix_apache_warning : nat := Eval vm_compute in feat_index (B "apache_warning").
Definition ix_apache_adaptor : nat := Eval vm_compute in feat_index (B "apache_adaptor").
Definition ix_with_field_mask : nat := Eval vm_compute in feat_index (B "with_field_mask").
Definition ix_with_reflection : nat := Eval vm_compute in feat_index (B "with_reflection").
Definition ix_snake : nat := Eval vm_compute in feat_index (B "snake_style_json_tag").
Definition ix_lower_camel : nat := Eval vm_compute in feat_index (B "lower_camel_style_json_tag").
Definition ix_gen_json_tag : nat := Eval vm_compute in feat_index (B "gen_json_tag").
Definition ix_always_json : nat := Eval vm_compute in feat_index (B "always_gen_json_tag").

Definition slim : bytes := Eval vm_compute in B "slim".

(* "do not generate deep equal for slim template" *)
Definition post (c : cfg) : cfg :=
  if beqb (c_template c) slim then set_feat ix_deep_equal false c else c.

(* validateOptions: the rejected combinations, in the order of the code *)
Definition combo_violation (f : nat -> bool) : option nat :=
  if f ix_apache_warning && f ix_apache_adaptor then Some 1
  else if f ix_with_field_mask && negb (f ix_with_reflection) then Some 2
  else if f ix_snake && f ix_lower_camel then Some 3
  else if negb (f ix_gen_json_tag) && f ix_always_json then Some 4
  else None.

Definition validate (c : cfg) : option nat := combo_violation (fun i => get_feat i c).

(* CodeUtils.HandleOptions on parsed arguments *)
Definition handle (opts : list (bytes * bytes)) (c : cfg) : result cfg :=
  match run opts c with
  | (c', None) =>
      let c'' := post c' in
      match validate c'' with
      | None => Ok c''
      | Some k => Err (ECombo k)
      end
  | (_, Some e) => Err e
  end.

Definition handle_args (args : list bytes) : result cfg := handle (map parse_arg args) default_cfg.

(* the state of the CodeUtils after HandleOptions returned, error or not *)
Definition final_state (opts : list (bytes * bytes)) (c : cfg) : cfg :=
  match run opts c with
  | (c', None) => post c'
  | (c', Some _) => c'
  end.

(* ------------------------------------------------------------------ args.checkOptions, plugin *)

Definition template_name : bytes := Eval vm_compute in B "template".

(* the inner condition of checkOptions is a tautology and the in-loop assignment writes to a copy *)
Definition check_options (opts : list (bytes * bytes)) : list (bytes * bytes) :=
  if get_feat ix_nested (final_state opts default_cfg) then
    if existsb (fun o => beqb (fst o) template_name) opts then opts
    else (opts ++ [(template_name, slim)])%list
  else opts.

(* plugin.ParseCompactArguments: language and options of `lang[:k=v,k,...]` *)
Definition parse_compact (s : bytes) : bytes * list (bytes * bytes) :=
  match split_first ch_colon s with
  | (lang, None) => (lang, [])
  | (lang, Some rest) => (lang, map parse_arg (split_all ch_comma rest))
  end.

(* plugin.Pack *)
Definition pack (o : bytes * bytes) : bytes := (fst o ++ ch_eq :: snd o)%list.

(* Arguments.Targets for one -g value: the options handed to the backend *)
Definition targets (g : bytes) : list (bytes * bytes) := check_options (snd (parse_compact g)).

(* what the backend then does with them: HandleOptions(Pack(options)) *)
Definition handle_packed (opts : list (bytes * bytes)) : result cfg :=
  handle (map parse_arg (map pack opts)) default_cfg.

(* ================================================================== specification vocabulary *)

(* the individual settings an option list can influence *)
Inductive setting :=
| SFeat (i : nat) | SStyle | SInit | SPrefix | STemplate | SImport (p : bytes).

Inductive value := VBool (b : bool) | VStr (s : bytes) | VOpt (o : option bytes).

Definition get (s : setting) (c : cfg) : value :=
  match s with
  | SFeat i => VBool (get_feat i c)
  | SStyle => VStr (c_style c)
  | SInit => VBool (c_curinit c)
  | SPrefix => VStr (c_prefix c)
  | STemplate => VStr (c_template c)
  | SImport p => VOpt (lookup p (c_imports c))
  end.

Definition setting_eqb (a b : setting) : bool :=
  match a, b with
  | SFeat i, SFeat j => Nat.eqb i j
  | SStyle, SStyle | SInit, SInit | SPrefix, SPrefix | STemplate, STemplate => true
  | SImport p, SImport q => beqb p q
  | _, _ => false
  end.

Definition value_eqb (a b : value) : bool :=
  match a, b with
  | VBool x, VBool y => Bool.eqb x y
  | VStr x, VStr y => beqb x y
  | VOpt None, VOpt None => true
  | VOpt (Some x), VOpt (Some y) => beqb x y
  | _, _ => false
  end.

Definition vbool (v : value) : bool := match v with VBool b => b | _ => false end.

Definition action_eqb (a b : action) : bool :=
  match a, b with
  | AImportPath, AImportPath | AUsePackage, AUsePackage | ANamingStyle, ANamingStyle
  | AIgnoreInit, AIgnoreInit | APackagePrefix, APackagePrefix | ATemplate, ATemplate
  | AUnknown, AUnknown => true
  | AFeature i, AFeature j => Nat.eqb i j
  | _, _ => false
  end.

(* the one setting a well-formed option writes, and the value; None = the option is invalid *)
Definition writes (a : action) (v : bytes) : option (setting * value) :=
  match a with
  | AImportPath => Some (SImport default_thrift_lib, VOpt (Some v))
  | AUsePackage =>
      match split_first ch_eq v with
      | (p, Some r) => Some (SImport p, VOpt (Some r))
      | (_, None) => None
      end
  | ANamingStyle => if style_known v then Some (SStyle, VStr v) else None
  | AIgnoreInit => match parse_bool v with Some b => Some (SInit, VBool (negb b)) | None => None end
  | APackagePrefix => Some (SPrefix, VStr v)
  | ATemplate => if template_known v then Some (STemplate, VStr v) else None
  | AFeature i => match parse_bool v with Some b => Some (SFeat i, VBool b) | None => None end
  | AUnknown => None
  end.

(* the entry whose name IS the key (no prefix matching) *)
Definition exact_action (n : bytes) : option action := lookup n table.

Definition documented (n : bytes) : Prop := In n (map fst table).

Definition opt_ok (o : bytes * bytes) : bool :=
  match exact_action (fst o) with
  | Some a => match writes a (snd o) with Some _ => true | None => false end
  | None => true
  end.

(* an option read exactly: the setting it writes and the value, if it is a valid documented option *)
Definition wr (o : bytes * bytes) : option (setting * value) :=
  match exact_action (fst o) with
  | Some a => writes a (snd o)
  | None => None
  end.

(* the value of setting s after a list of writes: the last one that writes s wins *)
Fixpoint last_w (s : setting) (ws : list (option (setting * value))) (cur : value) : value :=
  match ws with
  | [] => cur
  | w :: r =>
      last_w s r (match w with
                  | Some (s', x) => if setting_eqb s s' then x else cur
                  | None => cur
                  end)
  end.

(* the value of setting s after the option list, reading names exactly *)
Definition last_setting (s : setting) (opts : list (bytes * bytes)) (cur : value) : value :=
  last_w s (map wr opts) cur.

Definition default_of (s : setting) : value := get s default_cfg.

Definition slim_selected_w (dflt : setting -> value) (ws : list (option (setting * value))) : bool :=
  value_eqb (last_w STemplate ws (dflt STemplate)) (VStr slim).

(* what the property promises for setting s after an accepted option list: its last setting, else
   its default; the documented implication: the slim template switches deep-equal off *)
Definition expected_w (dflt : setting -> value) (s : setting) (ws : list (option (setting * value))) : value :=
  match s with
  | SFeat i => if Nat.eqb i ix_deep_equal
               then (if slim_selected_w dflt ws then VBool false else last_w s ws (dflt s))
               else last_w s ws (dflt s)
  | _ => last_w s ws (dflt s)
  end.

Definition expected (dflt : setting -> value) (s : setting) (opts : list (bytes * bytes)) : value :=
  expected_w dflt s (map wr opts).

Definition combo_ok_w (dflt : setting -> value) (ws : list (option (setting * value))) : bool :=
  match combo_violation (fun i => vbool (expected_w dflt (SFeat i) ws)) with None => true | Some _ => false end.

Definition combo_ok (dflt : setting -> value) (opts : list (bytes * bytes)) : bool :=
  combo_ok_w dflt (map wr opts).

Definition spec_accepts (dflt : setting -> value) (opts : list (bytes * bytes)) : bool :=
  forallb opt_ok opts && combo_ok dflt opts.

(* ------------------------------------------------------------------ documented defaults *)

Definition name_of_action (a : action) : option bytes :=
  option_map fst (find (fun e => action_eqb (snd e) a) table).

Definition readme_default (n : bytes) : doc_default :=
  match lookup n readme_options with Some d => d | None => DNone end.

Definition help_enabled (n : bytes) : option bool := option_map fst (lookup n help_options).

(* the default the documentation states for a setting; where it states none, the code's *)
Definition doc_default_of (s : setting) : value :=
  match s with
  | SFeat i =>
      match name_of_action (AFeature i) with
      | Some n => match readme_default n with
                  | DBool b => VBool b
                  | _ => match help_enabled n with Some b => VBool b | None => default_of s end
                  end
      | None => default_of s
      end
  | SStyle =>
      match option_map readme_default (name_of_action ANamingStyle) with
      | Some (DStr x) => VStr x
      | _ => match help_style_default with Some x => VStr x | None => default_of s end
      end
  | SInit =>
      match option_map readme_default (name_of_action AIgnoreInit) with
      | Some (DBool b) => VBool (negb b)
      | _ => VBool true
      end
  | SPrefix => VStr []
  | STemplate => default_of s
  | SImport _ => VOpt None
  end.
