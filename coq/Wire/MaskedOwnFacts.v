(* Wire/MaskedOwnFacts.v — facts about a mask set by the user on a non-root struct value
   (Wire/MaskedOwn.v). *)
From Coq Require Import List ZArith Bool Lia.
From Verif Require Import Base.Bytes Base.BE Wire.TType Wire.WVal Wire.Codec Wire.CodecFacts
  Wire.Schema Wire.Value Wire.GenTables Wire.Std Wire.StdFacts Wire.Masked Wire.MaskedFacts
  Wire.MaskedHalfway Wire.MaskedHalfwayFacts Wire.MaskedOwn.
Import ListNotations.
Open Scope Z_scope.

(* an object whose own mask is what arrives anyway is written as under that mask *)
Lemma mapM_sel2_same {A B} (key : nat -> A -> qkey) m (f : option mask -> option mask -> A -> result B)
      (g : option mask -> A -> result B) l :
  Forall (fun x => forall b, f b b x = g b x) l ->
  forall i, mapM_sel2 key m m f i l = mapM_sel (option mask) mquery (fun i x => Ok (key i x)) m g i l.
Proof.
  induction 1 as [|x l Hx Hl IH]; intro i; [reflexivity|].
  cbn [mapM_sel2 mapM_sel]. unfold stale_sub. destruct (snd (mquery m (key i x))); [rewrite Hx, IH | rewrite IH]; reflexivity.
Qed.

Definition Ps (cfg : mcfg) (e : env) (v : value) : Prop :=
  forall m t, to_wm_again cfg e m m t v = to_wm_mask cfg e m t v.

Theorem to_wm_again_same_aux cfg e : forall v, Ps cfg e v /\ match v with VSome x => Ps cfg e x | _ => True end.
Proof.
  intro v. induction v using value_ind2; try (split; [|exact I]; intros m t; reflexivity).
  - split; [|exact I]. intros m t. destruct t; try reflexivity; unfold to_wm_mask; cbn [to_wm_again to_wm].
    + rewrite (mapM_sel2_same idx_key m _ (fun s x => to_wm_mask cfg e s t x)); [reflexivity|].
      eapply Forall_impl; [|exact H]. intros x [Hx _] b. apply Hx.
    + destruct (set_has_dup l); [reflexivity|].
      rewrite (mapM_sel2_same idx_key m _ (fun s x => to_wm_mask cfg e s t x)); [reflexivity|].
      eapply Forall_impl; [|exact H]. intros x [Hx _] b. apply Hx.
  - split; [|exact I]. intros m t. destruct t; try reflexivity; unfold to_wm_mask; cbn [to_wm_again to_wm].
    rewrite (mapM_sel2_same (fun _ kv => map_qkey t1 (fst kv)) m _
               (fun s kv => bind (to_w e t1 (fst kv)) (fun k => bind (to_wm_mask cfg e s t2 (snd kv)) (fun x => Ok (k, x))))); [reflexivity|].
    eapply Forall_impl; [|exact H]. intros kv [_ [Hx _]] b. cbn beta. rewrite Hx. reflexivity.
  - split; [|exact I]. intros m t. destruct t; try reflexivity. unfold to_wm_mask. cbn [to_wm_again to_wm].
    destruct (find_struct e name) as [s|]; [|reflexivity]. cbn zeta.
    destruct (is_union s && negb (count_set (s_fields s) fs =? 1)%nat); [reflexivity|].
    assert (Ho : own_or m m = m) by (destruct m; reflexivity). rewrite Ho.
    f_equal. apply mapM_ext. intros p Hin. rewrite Forall_forall in H. specialize (H p Hin). cbn beta in H.
    destruct (find_field (fst p) (s_fields s)) as [f|]; [|reflexivity].
    destruct (present f (snd p)); [|reflexivity].
    destruct (snd (mquery m (QF (f_id f)))) eqn:Hex; cbn [orb].
    + unfold stale_sub. rewrite Hex. destruct (base_ptr f).
      * destruct (snd p) as [| | | | | | | | |x] eqn:Es; try reflexivity. destruct H as [_ H]. rewrite H. reflexivity.
      * destruct H as [H _]. rewrite H. reflexivity.
    + destruct (is_required f && negb (zero_required cfg)); [|reflexivity].
      unfold stale_sub. rewrite Hex. destruct (base_ptr f).
      * destruct (snd p) as [| | | | | | | | |x] eqn:Es; try reflexivity. destruct H as [_ H]. rewrite H. reflexivity.
      * destruct H as [H _]. rewrite H. reflexivity.
  - split; [intros m t; reflexivity | apply IHv].
Qed.

Theorem to_wm_again_same cfg e m t v : to_wm_again cfg e m m t v = to_wm_mask cfg e m t v.
Proof. apply (to_wm_again_same_aux cfg e v). Qed.

(* a struct value with a non-nil mask of its own (fresh sub objects) is written exactly like a root
   object under that mask, whatever its parent passes *)
Theorem own_mask_wins cfg e m st n fs :
  to_wm_again cfg e (Some m) st (TRef n) (VStruct fs) = to_wm_mask cfg e (Some m) (TRef n) (VStruct fs).
Proof. rewrite <- to_wm_again_same. reflexivity. Qed.

(* without field_mask_halfway the mask the user set on the sub object is overwritten: no effect *)
Theorem own_mask_default_ignored cfg e m_own : halfway cfg = false ->
  forall path st n v, to_wm_own cfg e path m_own st n v = to_wm_mask cfg e st (TRef n) v.
Proof.
  intros Hh path. induction path as [|id rest IH]; intros st n v.
  - cbn [to_wm_own]. rewrite Hh. reflexivity.
  - cbn [to_wm_own]. destruct v; try reflexivity. unfold to_wm_mask. rewrite to_wm_struct.
    destruct (find_struct e n) as [s|]; [|reflexivity]. cbn zeta.
    destruct (is_union s && negb (count_set (s_fields s) fs =? 1)%nat); [reflexivity|].
    f_equal. apply mapM_ext. intros p _. unfold wfield_m.
    destruct (find_field (fst p) (s_fields s)) as [f|]; [|reflexivity].
    destruct (present f (snd p)); [|reflexivity]. cbn zeta.
    destruct (snd (mquery st (QF (f_id f))) || (is_required f && negb (zero_required cfg))); [|reflexivity].
    destruct (base_ptr f); [reflexivity|].
    destruct (f_ty f); try reflexivity. destruct (f_id f =? id); [|reflexivity]. rewrite IH. reflexivity.
Qed.

(* field_mask_halfway, nil mask on the sub object: nothing to keep *)
Theorem own_mask_nil cfg e :
  forall path st n v, to_wm_own cfg e path None st n v = to_wm_mask cfg e st (TRef n) v.
Proof.
  intro path. induction path as [|id rest IH]; intros st n v.
  - cbn [to_wm_own]. destruct (halfway cfg); [apply to_wm_again_fresh | reflexivity].
  - cbn [to_wm_own]. destruct v; try reflexivity. unfold to_wm_mask. rewrite to_wm_struct.
    destruct (find_struct e n) as [s|]; [|reflexivity]. cbn zeta.
    destruct (is_union s && negb (count_set (s_fields s) fs =? 1)%nat); [reflexivity|].
    f_equal. apply mapM_ext. intros p _. unfold wfield_m.
    destruct (find_field (fst p) (s_fields s)) as [f|]; [|reflexivity].
    destruct (present f (snd p)); [|reflexivity]. cbn zeta.
    destruct (snd (mquery st (QF (f_id f))) || (is_required f && negb (zero_required cfg))); [|reflexivity].
    destruct (base_ptr f); [reflexivity|].
    destruct (f_ty f); try reflexivity. destruct (f_id f =? id); [|reflexivity]. rewrite IH. reflexivity.
Qed.

(* field_mask_halfway: the sub object at the end of the path is written under ITS mask *)
Theorem own_mask_halfway_at cfg e m st n fs : halfway cfg = true ->
  to_wm_own cfg e [] (Some m) st n (VStruct fs) = to_wm_mask cfg e (Some m) (TRef n) (VStruct fs).
Proof. intro Hh. cbn [to_wm_own]. rewrite Hh. apply own_mask_wins. Qed.
