(* Wire/FastBitset.v — generator/fastgo/bitset.go (bitsetCodeGen with typename "uint8", as gen_fastread.go uses
   it for the required fields of a struct): which variable, which set-bit statements and which tests it
   emits for n required fields, and what the emitted tests compute.

     gen_setbit n i          GenSetbit for the i-th added field (word index, mask)
     gen_if_not_set n        GenIfNotSet: a sequence of blocks, each a run of tests
                             `if isset[w] & mask == 0 { fid = ..; goto RequiredFieldNotSetError }`,
                             optionally wrapped in `if isset[w] != full { ... }`
     run prog st             the first test that fires on the words [st]
     state n seen            the words after the set-bit statements of the fields in [seen] ran

   No proofs in this file. *)
From Coq Require Import List ZArith Bool Lia Arith.
Import ListNotations.
Open Scope Z_scope.

Definition varbits : nat := 8.                       (* newBitsetCodeGen("isset", "uint8") *)

(* bitvalue: 1 << (i % varbits) *)
Definition bitvalue (i : nat) : Z := 2 ^ Z.of_nat (i mod varbits).
(* bitsvalue: the OR of 1 << 0 .. 1 << (n-1) *)
Fixpoint bitsvalue (n : nat) : Z :=
  match n with O => 0 | S k => Z.lor (bitsvalue k) (2 ^ Z.of_nat k) end.

(* one variable when everything fits a word (g.i <= bits), else an array indexed by i / varbits *)
Definition multi (n : nat) : bool := (varbits <? n)%nat.
Definition word_of (n i : nat) : nat := if multi n then (i / varbits)%nat else O.
(* GenVar: number of words declared (0: no variable) *)
Definition gen_var (n : nat) : nat :=
  if (n =? 0)%nat then O else if multi n then ((n + varbits - 1) / varbits)%nat else 1%nat.

(* GenSetbit: isset[w] |= mask *)
Definition gen_setbit (n i : nat) : nat * Z := (word_of n i, bitvalue i).

Inductive test := Test (w : nat) (mask : Z) (v : nat).     (* if isset[w] & mask == 0 { report v } *)
Inductive block :=
| Guarded (w : nat) (full : Z) (ts : list test)            (* if isset[w] != full { ts } *)
| Plain (ts : list test).

Definition tests_range (n lo hi : nat) : list test :=
  map (fun i => Test (word_of n i) (bitvalue i) i) (seq lo (hi - lo)).

(* for i+g.varbits < g.i { ... }: the words that are certainly full words *)
Fixpoint full_words (fuel : nat) (i n : nat) : list block * nat :=
  match fuel with
  | O => ([], i)
  | S f =>
      if (i + varbits <? n)%nat then
        let (bs, j) := full_words f (i + varbits) n in
        (Guarded (i / varbits) (bitsvalue varbits) (tests_range n i (i + varbits)) :: bs, j)
      else ([], i)
  end.

Definition gen_if_not_set (n : nat) : list block :=
  if (n =? 0)%nat then []
  else if negb (multi n) then
    [if (varbits / 2 <? n)%nat then Guarded O (bitsvalue n) (tests_range n 0 n) else Plain (tests_range n 0 n)]
  else
    let (bs, i) := full_words n 0 n in
    bs ++ (if (i <? n)%nat then
             [if (varbits / 2 <? n mod varbits)%nat
              then Guarded (i / varbits) (bitsvalue (n mod varbits)) (tests_range n i n)
              else Plain (tests_range n i n)]
           else []).

(* ---- what the emitted code computes ---- *)

Definition words := nat -> Z.

Fixpoint run_tests (st : words) (ts : list test) : option nat :=
  match ts with
  | [] => None
  | Test w mask v :: r => if Z.land (st w) mask =? 0 then Some v else run_tests st r
  end.

Definition run_block (st : words) (b : block) : option nat :=
  match b with
  | Guarded w full ts => if st w =? full then None else run_tests st ts
  | Plain ts => run_tests st ts
  end.

Fixpoint run (st : words) (p : list block) : option nat :=
  match p with
  | [] => None
  | b :: r => match run_block st b with Some v => Some v | None => run st r end
  end.

Definition set_word (st : words) (w : nat) (mask : Z) : words :=
  fun w' => if (w' =? w)%nat then Z.lor (st w') mask else st w'.

(* all words zero, then the set-bit statement of every field read (in any order, repeats allowed) *)
Definition state (n : nat) (seen : list nat) : words :=
  fold_left (fun st i => set_word st (fst (gen_setbit n i)) (snd (gen_setbit n i))) seen (fun _ => 0).

(* specification: the first added field, in order of addition, that was not read *)
Definition first_unset (n : nat) (seen : list nat) : option nat :=
  find (fun i => negb (existsb (Nat.eqb i) seen)) (seq 0 n).
