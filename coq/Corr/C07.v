(* Corr/C07.v — comparison for C07: every run of one (program, option set) must have produced
   the same set of files with the same contents, and the plugin must have been sent the same
   bytes.  Codes:
     2  output files (set or contents) differ between runs, or exit status differs
     3  the bytes sent to the plugin differ between runs that used the same output path although
        they decode to the same request (only the order of map entries differs)
     4  the request sent to the plugin differs between runs even after canonicalisation
     5  thriftgo failed on a generated program (the program generator left the accepted language) *)
From Coq Require Import List Arith Bool NArith.
From Verif Require Import Base.Bytes.
Import ListNotations.

Record run := mkrun { r_exit : N; r_dir : N; r_files : list (bytes * bytes); r_plug_raw : bytes; r_plug_canon : bytes }.
Record case := mkcase { c_runs : list run }.

Definition files_eqb (a b : list (bytes * bytes)) : bool :=
  (List.length a =? List.length b) &&
  forallb (fun p => beqb (fst (fst p)) (fst (snd p)) && beqb (snd (fst p)) (snd (snd p))) (combine a b).

Definition check (c : case) : list N :=
  match c_runs c with
  | [] => []
  | r0 :: rest =>
    (if forallb (fun r => N.eqb (r_exit r) (r_exit r0) && files_eqb (r_files r) (r_files r0)) rest then [] else [2%N]) ++
    (if forallb (fun r => beqb (r_plug_canon r) (r_plug_canon r0)) rest
     then (if forallb (fun r => negb (N.eqb (r_dir r) (r_dir r0)) || beqb (r_plug_raw r) (r_plug_raw r0)) rest then [] else [3%N])
     else [4%N]) ++
    (if N.eqb (r_exit r0) 0 then [] else [5%N])
  end.

Fixpoint mismatches_from (i : N) (cs : list case) : list (N * N) :=
  match cs with
  | [] => []
  | c :: r => map (fun code => (i, code)) (check c) ++ mismatches_from (i + 1)%N r
  end.
Definition mismatches (cs : list case) : list (N * N) := mismatches_from 0%N cs.
