"""C04 — invalid input is diagnosed: non-zero exit, message, no output, no crash
(main.go, sdk/invoke.go, args/args.go, parser/circle_detect.go, semantic/checker.go,
semantic/semantic.go, generator/golang/resolver.go, scope_internal.go)."""
import json
import vlib


class S(vlib.Spec):
    prop = "C04"
    design_ref = "DESIGN.md section 3 / C04"
    coq_targets = ["Props/C04.vo", "Corr/C04.vo"]
    props_file = "Props/C04.v"
    harness_pkg = "./cmd/c04"
    harness_name = "c04"
    needs_thriftgo = True
    corr_codes = {1, 8, 9}
    code_names = {
        1: "model and implementation disagree: accepts says accept and thriftgo did not (exit 0 and files), or the other way round",
        8: "the edited program does not violate the intended rule as Idl/Rules.v defines it, or a value-kind edit of any shape is no defect for violates_deep of Idl/RulesKinds.v (mutation engine and specification disagree)",
        9: "model out of fuel",
        2: "a rule-breaking tree / bad command line ended in exit status 0",
        3: "a rule-breaking tree / bad command line left a file under the output directory",
        4: "a rule-breaking tree / bad command line produced no diagnostic",
        5: "the output contains a Go trace (panic / fatal error / goroutine)",
        6: "the run hit the time limit",
        7: "a valid program was rejected and a Go trace was printed",
    }
    modelled = ("sdk/invoke.go InvokeThriftgo (order of the stages), parser/circle_detect.go searchCircle, parser/AST-extend.go dfs / DepthFirstSearch, "
                "semantic/checker.go CheckAll, CheckGlobals, CheckEnums, checkFieldList, CheckStructLikes, CheckUnions, CheckFunctions -> coq/Idl/Check.v; "
                "semantic/semantic.go ResolveSymbols -> coq/Idl/Resolve.v (C05); generator/golang/resolver.go resolveConst, onBool..onStructLike, "
                "scope_internal.go buildIncludes / resolveTypesAndValues (which files, which values), backend.go / fastgo.go recursion flag, "
                "args/args.go Parse, Targets and the language loop of InvokeThriftgo -> coq/Idl/Accept.v; hand-written, tied by the process-level "
                "correspondence on every run (accept/reject of the real binary on every case)")
    trusted_base = [
        "hand-written models coq/Idl/Check.v (semantic/checker.go statement by statement, after the repairs proposed_fixes/C04-1..3) and coq/Idl/Accept.v "
        "(CircleDetect, the constant-kind decisions of generator/golang/resolver.go, the set of files a Go scope is built for, the command-line stage); "
        "coq/Idl/Resolve.v is the model of property C05",
        "specification coq/Idl/Rules.v (rule catalogue, violates) and coq/Idl/RulesKinds.v (violates_deep: value kinds for every shape of the declared type) over the symbol-table notions of coq/Idl/ResolveSpec.v and the executable denotation of coq/Idl/ResolvableSpec.v (C05)",
        "harness/astdump + harness/idlast (real parser.Thrift -> Idl.Ast term), harness/idlgen (base programs, renderer), harness/idlmut (catalogue edits), "
        "harness/cmd/c04 (runs the real thriftgo binary: bash ulimit -v, time limit, process group kill; projects exit status / files / output), lib/vlib.py",
        "the operating system's process interface (exit status, RLIMIT_AS, signals); a Go trace is recognised by the substrings panic / fatal error / goroutine",
        "what the Go backend does beyond the modelled decisions (name reservation, templates, formatting, file writing) enters only through the observed accept/reject "
        "of valid programs and mutants, not through a theorem",
    ]
    assumptions = [
        "the input of accepts is what the parser delivers (astdump of parser.ParseFile on the edited tree); theorems about identifiers need plain_names "
        "(no definition named like a builtin type or with a dot), the domain of C05's binding theorem",
        "fuel of the models (dfs: files+1, search_circle: files+2, kind_check: depth of the value+1, scope closure: files+1) is sufficient on the domain: "
        "running out is a distinct reject value and reported as correspondence code 9",
        "exit status, absence of a Go trace and termination of the real process are observed on the generated cases, not proved",
    ]

    def producer_args(self, ctx):
        a = ["-seed", str(ctx.seed), "-tier", ctx.tier, "-out", ctx.out, "-thriftgo", ctx.thriftgo, "-jobs", "4"]
        if ctx.tier == "quick":
            a += ["-bases", "8", "-per-base", "20", "-time-limit", "10s"]     # + corpus (50 cases) + the 8 unmodified programs
        else:
            a += ["-bases", "20", "-per-base", "60"]    # about 1,250 cases / 3,300 process runs (5 min; 10 under heavy load)
            a += ["-time-limit", "20s"]
        return a

    @staticmethod
    def _cfg(r):
        return "%s%s" % (r.get("lang"), "-r" if r.get("recursive") else "")

    def classify(self, code, case):
        """Stable key of an oracle failure: rule, where the edit sits, and which configurations misbehaved."""
        case = case or {}
        rule = case.get("rule_name") or "valid"
        where = case.get("site") if rule == "BadCommandLine" else case.get("position")
        where = where or "none"
        runs = case.get("runs") or []

        def by(pred):
            return "+".join(sorted({self._cfg(r) for r in runs if pred(r)})) or "none"

        if code == 2:
            return "C04-%s-exit0-%s-by-%s" % (rule, where, by(lambda r: r.get("exit0")))
        if code == 3:
            return "C04-%s-file-written-%s-by-%s" % (rule, where, by(lambda r: r.get("files")))
        if code == 4:
            return "C04-%s-no-diagnostic-%s-by-%s" % (rule, where, by(lambda r: not r.get("diag") and not r.get("timeout")))
        if code == 5:
            return "C04-%s-go-trace-%s-%s-by-%s" % (rule, case.get("site") or "none", where, by(lambda r: r.get("trace")))
        if code == 6:
            return "C04-%s-timeout-%s-by-%s" % (rule, where, by(lambda r: r.get("timeout")))
        if code == 7:
            return "C04-valid-program-rejected-with-trace-by-%s" % by(lambda r: r.get("trace") and not (r.get("exit0") and r.get("files")))
        return "C04-code-%d" % code

    def search(self, ctx):
        return None


def run(tier):
    return vlib.standard_run(S(), tier)


def replay(path):
    obj = json.load(open(path))
    print(json.dumps(obj, indent=1)[:8000])
    return 0
