// Package gobuild compiles batches of thriftgo-generated Go code in a scratch module.
package gobuild

import (
	"fmt"
	"go/parser"
	"go/token"
	"os"
	"os/exec"
	"path/filepath"
	"regexp"
	"strings"
	"time"
)

// Repo returns the repository under test.
func Repo() string {
	if r := os.Getenv("VERIF_REPO"); r != "" {
		return r
	}
	return "/repo"
}

const Module = "verif/gen"

// InitModule writes go.mod / go.sum of a scratch module whose packages import the runtime
// libraries of generated code (apache/thrift v0.13.0, cloudwego/gopkg, thriftgo from Repo()).
func InitModule(dir string) error {
	gomod := fmt.Sprintf(`module %s

go 1.18

require (
	github.com/apache/thrift v0.13.0
	github.com/cloudwego/gopkg v0.2.0
	github.com/cloudwego/thriftgo v0.0.0
)

replace github.com/cloudwego/thriftgo => %s
`, Module, Repo())
	if err := os.WriteFile(filepath.Join(dir, "go.mod"), []byte(gomod), 0o644); err != nil {
		return err
	}
	sum, err := os.ReadFile(filepath.Join(Repo(), "go.sum"))
	if err != nil {
		return err
	}
	return os.WriteFile(filepath.Join(dir, "go.sum"), sum, 0o644)
}

func goEnv() []string {
	return append(os.Environ(), "GOFLAGS=-mod=mod", "GOPROXY=off", "GOSUMDB=off", "GOTOOLCHAIN=local")
}

// RunThriftgo runs the thriftgo binary from an EMPTY working directory (it reads config files
// from the cwd) and reports exit status and combined output. timeout kills it (exit 124).
func RunThriftgo(bin, cwd string, args []string, timeout time.Duration) (int, string) {
	cmd := exec.Command(bin, args...)
	cmd.Dir = cwd
	cmd.Env = goEnv()
	type res struct {
		out []byte
		err error
	}
	ch := make(chan res, 1)
	go func() { o, e := cmd.CombinedOutput(); ch <- res{o, e} }()
	select {
	case r := <-ch:
		if r.err != nil {
			if ee, ok := r.err.(*exec.ExitError); ok {
				return ee.ExitCode(), string(r.out)
			}
			return 1, string(r.out) + r.err.Error()
		}
		return 0, string(r.out)
	case <-time.After(timeout):
		if cmd.Process != nil {
			cmd.Process.Kill()
		}
		return 124, "timeout"
	}
}

// ParseAll parses every .go file under root; returns the files that are not valid Go.
func ParseAll(root string) (bad []string, n int) {
	filepath.Walk(root, func(p string, info os.FileInfo, err error) error {
		if err != nil || info.IsDir() || !strings.HasSuffix(p, ".go") {
			return nil
		}
		n++
		fset := token.NewFileSet()
		if _, perr := parser.ParseFile(fset, p, nil, parser.AllErrors); perr != nil {
			rel, _ := filepath.Rel(root, p)
			bad = append(bad, rel+": "+firstLine(perr.Error()))
		}
		return nil
	})
	return
}

func firstLine(s string) string {
	if i := strings.IndexByte(s, '\n'); i >= 0 {
		return s[:i]
	}
	return s
}

// CaseKeyPattern: case directories are named cNNN_MM
var caseKey = regexp.MustCompile(`c\d{3}_\d{2}`)

// Build runs `go build ./...` (and optionally vet) in the module root and returns, per
// top-level case directory (first path element below root), the error lines that mention it.
func Build(root string, vet bool, timeout time.Duration) (ok bool, perCase map[string][]string, raw string) {
	perCase = map[string][]string{}
	run := func(args ...string) (bool, string) {
		cmd := exec.Command("go", args...)
		cmd.Dir = root
		cmd.Env = goEnv()
		done := make(chan struct{})
		var out []byte
		var err error
		go func() { out, err = cmd.CombinedOutput(); close(done) }()
		select {
		case <-done:
		case <-time.After(timeout):
			if cmd.Process != nil {
				cmd.Process.Kill()
			}
			return false, "timeout"
		}
		return err == nil, string(out)
	}
	ok, raw = run("build", "-gcflags=-e", "./...")
	if ok && vet {
		var v string
		ok, v = run("vet", "./...")
		raw += v
	}
	if !ok {
		for _, line := range strings.Split(raw, "\n") {
			t := strings.TrimSpace(line)
			if t == "" {
				continue
			}
			// attribute a line to the case directory it mentions (first path element below the module root)
			if m := caseKey.FindString(t); m != "" {
				if strings.HasPrefix(t, "# ") && !strings.Contains(t, ".go") {
					continue // package header line
				}
				perCase[m] = append(perCase[m], t)
			}
		}
	}
	return
}
