(* Wire/MaskedReadFacts.v — Read under a mask on arbitrary wire input (Wire/MaskedRead.v):
     from_wm_filter    masked Read succeeded  ->  it is the plain Read of the filtered message under
                       the relaxed schema
     from_wm_total     plain Read of the whole message succeeds  ->  the masked Read succeeds   *)
From Coq Require Import List ZArith Bool Lia.
From Verif Require Import Base.Bytes Base.BE Wire.TType Wire.WVal Wire.Codec Wire.CodecFacts
  Wire.Schema Wire.Value Wire.GenTables Wire.Std Wire.StdFacts Wire.Masked Wire.MaskedFacts Wire.MaskedRead.
Import ListNotations.
Open Scope Z_scope.

(* ------------------------------------------------------------------ the relaxed schema *)

Lemma find_struct_relax e n : find_struct (relax e) n = option_map relax_s (find_struct e n).
Proof.
  unfold find_struct, relax. cbn [structs]. induction (structs e) as [|s l IH]; [reflexivity|].
  cbn [map find_struct_in relax_s s_name]. destruct (beqb n (s_name s)); [reflexivity | exact IH].
Qed.

Lemma find_field_relax id fs : find_field id (map relax_f fs) = option_map relax_f (find_field id fs).
Proof.
  induction fs as [|f fs IH]; [reflexivity|]. cbn [map find_field relax_f f_id].
  destruct (id =? f_id f); [reflexivity | exact IH].
Qed.

Lemma ttype_of_relax e t : ttype_of (relax e) t = ttype_of e t.
Proof. rewrite !ttype_of_spec. reflexivity. Qed.

Lemma is_optional_relax f : is_optional (relax_f f) = is_optional f.
Proof. unfold is_optional, relax_f. cbn [f_req]. destruct (f_req f); reflexivity. Qed.

Lemma is_required_relax f : is_required (relax_f f) = false.
Proof. unfold is_required, relax_f. cbn [f_req]. destruct (f_req f); reflexivity. Qed.

Lemma base_ptr_relax f : base_ptr (relax_f f) = base_ptr f.
Proof. unfold base_ptr. rewrite is_optional_relax. reflexivity. Qed.

Lemma wrap_slot_relax f v : wrap_slot (relax_f f) v = wrap_slot f v.
Proof. unfold wrap_slot. rewrite base_ptr_relax. reflexivity. Qed.

Lemma init_slot_relax f : init_slot (relax_f f) = init_slot f.
Proof. unfold init_slot, zero_slot. rewrite base_ptr_relax. reflexivity. Qed.

Lemma new_fields_relax s : new_fields (relax_s s) = new_fields s.
Proof.
  unfold new_fields, relax_s. cbn [s_fields]. rewrite map_map. apply map_ext. intro f.
  rewrite init_slot_relax. reflexivity.
Qed.

Lemma finish_read_relax s fs seen : finish_read (relax_s s) (fs, seen) = Ok (VStruct fs).
Proof.
  unfold finish_read. cbn [fst snd]. rewrite first_missing_none; [reflexivity|].
  intros f Hin Hr. unfold relax_s in Hin. cbn [s_fields] in Hin. apply in_map_iff in Hin.
  destruct Hin as (f0 & <- & _). rewrite is_required_relax in Hr. discriminate.
Qed.

Lemma finish_read_ok s st v : finish_read s st = Ok v -> v = VStruct (fst st).
Proof. unfold finish_read. destruct (first_missing (s_fields s) (snd st)); [discriminate|]. intros [= <-]. reflexivity. Qed.

(* ------------------------------------------------------------------ generic *)

Section Gen.
  Variable St : Type.
  Variable step : St -> qkey -> St * bool.
  Variable topst : St.
  Hypothesis Htop : forall k, step topst k = (topst, true).
  Variable e : env.

  Local Notation mapM_sel := (Masked.mapM_sel St step).
  Local Notation sel_map := (Masked.sel_map St step).
  Local Notation from_wm := (Masked.from_wm St step).
  Local Notation filter_w := (MaskedRead.filter_w St step topst).

  Lemma mapM_sel_filter {A B C} (key' : nat -> A -> result qkey) (key : nat -> A -> qkey) st
        (f : St -> A -> result B) (g : C -> result B) (h : St -> A -> C) :
    (forall i x k, key' i x = Ok k -> key i x = k) ->
    forall l, Forall (fun x => forall s y, f s x = Ok y -> g (h s x) = Ok y) l ->
    forall i xs, mapM_sel key' st f i l = Ok xs -> mapM g (sel_map key st h i l) = Ok xs.
  Proof.
    intros Hk l HF. induction HF as [|x l Hx Hl IH]; intros i xs H; cbn [Masked.mapM_sel Masked.sel_map] in *.
    - exact H.
    - destruct (key' i x) as [k|] eqn:Ek; [|discriminate]. rewrite (Hk _ _ _ Ek).
      destruct (snd (step st k)).
      + destruct (f (fst (step st k)) x) as [y|] eqn:Ef; [|discriminate].
        destruct (mapM_sel key' st f (S i) l) as [ys|] eqn:Em; [|discriminate]. injection H as <-.
        cbn [mapM]. rewrite (Hx _ _ Ef), (IH _ _ Em). reflexivity.
      + apply IH. exact H.
  Qed.

  Definition Pm (w : wval) : Prop := forall t st v,
    from_wm e st t w = Ok v -> from_w (relax e) t (filter_w e st t w) = Ok v.

  Definition fstep (st : St) (s : sschema) (wf : wfield) : option wfield :=
    match find_field (snd (fst wf)) (s_fields s) with
    | Some f =>
        if ttype_eqb (fst (fst wf)) (ttype_of e (f_ty f)) then
          if snd (step st (QF (f_id f)))
          then Some (fst wf, filter_w e (fst (step st (QF (f_id f)))) (f_ty f) (snd wf))
          else None
        else Some wf
    | None => Some wf end.

  Lemma filter_w_struct st n wfs :
    filter_w e st (TRef n) (WStruct wfs) =
    match find_struct e n with
    | Some s => WStruct (cat_somes (map (fstep st s) wfs))
    | None => WStruct wfs end.
  Proof. reflexivity. Qed.

  Lemma fold_filter st s wfs :
    Forall (fun wf => Pm (snd wf)) wfs ->
    forall fs seen fs' seen', foldM (read_step_m St step e s st) wfs (fs, seen) = Ok (fs', seen') ->
    forall seen2, exists seen2',
      foldM (read_step (relax e) (relax_s s)) (cat_somes (map (fstep st s) wfs)) (fs, seen2) = Ok (fs', seen2').
  Proof.
    induction 1 as [|wf wfs Hwf Hl IH]; intros fs seen fs' seen' H seen2.
    - cbn in H. injection H as <- <-. exists seen2. reflexivity.
    - cbn [foldM] in H. destruct (read_step_m St step e s st (fs, seen) wf) as [[fs1 seen1]|] eqn:E; [|discriminate].
      unfold read_step_m in E. cbn [map cat_somes]. unfold fstep at 1.
      destruct (find_field (snd (fst wf)) (s_fields s)) as [f|] eqn:Hf.
      + destruct (ttype_eqb (fst (fst wf)) (ttype_of e (f_ty f))) eqn:Et.
        * cbn zeta in E. destruct (snd (step st (QF (f_id f)))) eqn:Hex.
          -- destruct (from_wm e (fst (step st (QF (f_id f)))) (f_ty f) (snd wf)) as [pv|] eqn:Ep; [|discriminate].
             cbn [bind fst snd] in E. injection E as <- <-.
             destruct (IH _ _ _ _ H seen2) as (seen2' & IH').
             exists seen2'. cbn [cat_somes foldM]. unfold read_step at 1. cbn [fst snd relax_s s_fields].
             rewrite find_field_relax, Hf. cbn [option_map relax_f f_ty f_id]. rewrite ttype_of_relax, Et.
             rewrite (Hwf _ _ _ Ep). cbn [bind]. rewrite is_required_relax.
             change (mkfield (f_id f) (f_name f) match f_req f with Required => Default | r => r end (f_ty f) (f_default f) (f_typedef f)) with (relax_f f).
             rewrite wrap_slot_relax. exact IH'.
          -- cbn [fst snd] in E. injection E as <- <-. cbn [cat_somes]. apply (IH _ _ _ _ H seen2).
        * injection E as <- <-. destruct (IH _ _ _ _ H seen2) as (seen2' & IH').
          exists seen2'. cbn [cat_somes foldM]. unfold read_step at 1. cbn [relax_s s_fields].
          rewrite find_field_relax, Hf. cbn [option_map relax_f f_ty]. rewrite ttype_of_relax, Et. exact IH'.
      + injection E as <- <-. destruct (IH _ _ _ _ H seen2) as (seen2' & IH').
        exists seen2'. cbn [cat_somes foldM]. unfold read_step at 1. cbn [relax_s s_fields].
        rewrite find_field_relax, Hf. cbn [option_map]. exact IH'.
  Qed.

  Theorem from_wm_filter : forall w, Pm w.
  Proof.
    induction w using wval_ind2; intros t st v Hv;
      try (cbn [Masked.from_wm MaskedRead.filter_w] in *; destruct t; try discriminate; exact Hv).
    - (* WStruct *)
      destruct t; try discriminate. rewrite from_wm_struct in Hv. rewrite filter_w_struct.
      destruct (find_struct e name) as [s|] eqn:Hs; [|discriminate].
      destruct (foldM (read_step_m St step e s st) fs (new_fields s, [])) as [[fs' seen']|] eqn:Ef; [|discriminate].
      cbn [bind] in Hv. apply finish_read_ok in Hv. cbn [fst] in Hv. subst v.
      destruct (fold_filter st s fs H _ _ _ _ Ef []) as (seen2' & Hfold).
      rewrite from_w_struct, find_struct_relax, Hs. cbn [option_map]. rewrite new_fields_relax, Hfold. cbn [bind].
      apply finish_read_relax.
    - (* WMap *)
      destruct t; try discriminate. cbn [Masked.from_wm MaskedRead.filter_w] in *.
      destruct ((ttype_eqb kt (ttype_of e t1) && ttype_eqb vt (ttype_of e t2)) || (length kvs =? 0)%nat) eqn:Eh; [|discriminate].
      match type of Hv with bind (Masked.mapM_sel _ _ ?K _ ?F _ _) _ = _ => set (key' := K) in *; set (f := F) in * end.
      destruct (mapM_sel key' st f 0 kvs) as [xs|] eqn:Em; [|discriminate]. cbn [bind] in Hv. injection Hv as <-.
      cbn [from_w]. rewrite !ttype_of_relax.
      match goal with |- (if ?c then _ else _) = _ => assert (Hc : c = true) end.
      { apply orb_true_iff in Eh. destruct Eh as [Eh|Eh]; [rewrite Eh; reflexivity|].
        apply Nat.eqb_eq in Eh. destruct kvs; [|discriminate]. cbn. apply orb_true_r. }
      rewrite Hc.
      match goal with |- bind (mapM ?G (Masked.sel_map _ _ ?KEY _ ?HH _ _)) _ = _ =>
        rewrite (mapM_sel_filter key' KEY st f G HH) with (xs := xs) end; [reflexivity | | | exact Em].
      + intros i kv k Hk. unfold key' in Hk. destruct (from_w e t1 (fst kv)) as [k0|]; [|discriminate].
        cbn [bind] in Hk. injection Hk as <-. reflexivity.
      + eapply Forall_impl; [|exact H]. intros kv [Hk Hx] s y Hy. unfold f in Hy.
        destruct (from_w e t1 (fst kv)) as [k0|] eqn:Ek; [|discriminate]. cbn [bind] in Hy.
        destruct (from_wm e s t2 (snd kv)) as [x0|] eqn:Ex; [|discriminate]. injection Hy as <-.
        cbn [fst snd]. rewrite (Hk t1 topst k0), (Hx _ _ _ Ex); [reflexivity|].
        rewrite (from_wm_allpass St step topst Htop e). exact Ek.
    - (* WSet *)
      destruct t; try discriminate. cbn [Masked.from_wm MaskedRead.filter_w] in *.
      destruct (ttype_eqb et (ttype_of e t) || (length l =? 0)%nat) eqn:Eh; [|discriminate].
      destruct (mapM_sel (fun i x => Ok (idx_key i x)) st (fun s x => from_wm e s t x) 0 l) as [xs|] eqn:Em; [|discriminate].
      cbn [bind] in Hv. injection Hv as <-. cbn [from_w]. rewrite ttype_of_relax.
      match goal with |- (if ?c then _ else _) = _ => assert (Hc : c = true) end.
      { apply orb_true_iff in Eh. destruct Eh as [Eh|Eh]; [rewrite Eh; reflexivity|].
        apply Nat.eqb_eq in Eh. destruct l; [|discriminate]. cbn. apply orb_true_r. }
      rewrite Hc.
      rewrite (mapM_sel_filter (fun i x => Ok (idx_key i x)) idx_key st (fun s x => from_wm e s t x)
                 (from_w (relax e) t) (fun s x => filter_w e s t x)) with (xs := xs); [reflexivity | | | exact Em].
      + intros i x k [= <-]. reflexivity.
      + eapply Forall_impl; [|exact H]. intros x Hx s y Hy. apply Hx. exact Hy.
    - (* WList *)
      destruct t; try discriminate. cbn [Masked.from_wm MaskedRead.filter_w] in *.
      destruct (ttype_eqb et (ttype_of e t) || (length l =? 0)%nat) eqn:Eh; [|discriminate].
      destruct (mapM_sel (fun i x => Ok (idx_key i x)) st (fun s x => from_wm e s t x) 0 l) as [xs|] eqn:Em; [|discriminate].
      cbn [bind] in Hv. injection Hv as <-. cbn [from_w]. rewrite ttype_of_relax.
      match goal with |- (if ?c then _ else _) = _ => assert (Hc : c = true) end.
      { apply orb_true_iff in Eh. destruct Eh as [Eh|Eh]; [rewrite Eh; reflexivity|].
        apply Nat.eqb_eq in Eh. destruct l; [|discriminate]. cbn. apply orb_true_r. }
      rewrite Hc.
      rewrite (mapM_sel_filter (fun i x => Ok (idx_key i x)) idx_key st (fun s x => from_wm e s t x)
                 (from_w (relax e) t) (fun s x => filter_w e s t x)) with (xs := xs); [reflexivity | | | exact Em].
      + intros i x k [= <-]. reflexivity.
      + eapply Forall_impl; [|exact H]. intros x Hx s y Hy. apply Hx. exact Hy.
  Qed.
End Gen.

(* ------------------------------------------------------------------ the masked Read succeeds where the plain Read does *)

Section Total.
  Variable St : Type.
  Variable step : St -> qkey -> St * bool.
  Variable e : env.

  Local Notation mapM_sel := (Masked.mapM_sel St step).
  Local Notation from_wm := (Masked.from_wm St step).

  Lemma mapM_sel_total {A B} (key' : nat -> A -> result qkey) st (f : St -> A -> result B) l :
    Forall (fun x => (forall i, exists k, key' i x = Ok k) /\ forall s, exists y, f s x = Ok y) l ->
    forall i, exists ys, mapM_sel key' st f i l = Ok ys.
  Proof.
    induction 1 as [|x l [Hk Hf] Hl IH]; intro i; [exists []; reflexivity|].
    cbn [Masked.mapM_sel]. destruct (Hk i) as (k & ->). destruct (IH (S i)) as (ys & Hys).
    destruct (snd (step st k)).
    - destruct (Hf (fst (step st k))) as (y & ->). rewrite Hys. eexists. reflexivity.
    - exists ys. exact Hys.
  Qed.

  Lemma mapM_ok_Forall {A B} (f : A -> result B) l ys : mapM f l = Ok ys -> Forall (fun x => exists y, f x = Ok y) l.
  Proof.
    revert ys. induction l as [|x l IH]; intros ys H; [constructor|]. cbn in H.
    destruct (f x) as [y|] eqn:E; [|discriminate]. destruct (mapM f l) as [ys'|] eqn:E2; [|discriminate].
    constructor; [eauto | eapply IH; reflexivity].
  Qed.

  Definition Pt (w : wval) : Prop := forall t v, from_w e t w = Ok v -> forall st, exists v', from_wm e st t w = Ok v'.

  Lemma fold_total st s wfs :
    Forall (fun wf => Pt (snd wf)) wfs ->
    forall fs seen fs' seen', foldM (read_step e s) wfs (fs, seen) = Ok (fs', seen') ->
    forall fs2, exists fs2', foldM (read_step_m St step e s st) wfs (fs2, seen) = Ok (fs2', seen').
  Proof.
    induction 1 as [|wf wfs Hwf Hl IH]; intros fs seen fs' seen' H fs2.
    - cbn in H. injection H as <- <-. exists fs2. reflexivity.
    - cbn [foldM] in *. destruct (read_step e s (fs, seen) wf) as [[fs1 seen1]|] eqn:E; [|discriminate].
      unfold read_step in E. unfold read_step_m.
      destruct (find_field (snd (fst wf)) (s_fields s)) as [f|].
      + destruct (ttype_eqb (fst (fst wf)) (ttype_of e (f_ty f))).
        * destruct (from_w e (f_ty f) (snd wf)) as [pv|] eqn:Ep; [|discriminate]. cbn [bind fst snd] in E.
          injection E as <- <-. cbn zeta. cbn [fst snd]. destruct (snd (step st (QF (f_id f)))).
          -- destruct (Hwf _ _ Ep (fst (step st (QF (f_id f))))) as (pv' & ->). cbn [bind]. apply (IH _ _ _ _ H).
          -- apply (IH _ _ _ _ H).
        * injection E as <- <-. apply (IH _ _ _ _ H).
      + injection E as <- <-. apply (IH _ _ _ _ H).
  Qed.

  Theorem from_wm_total : forall w, Pt w.
  Proof.
    induction w using wval_ind2; intros t v Hv st;
      try (cbn [Masked.from_wm]; eexists; exact Hv).
    - destruct t; try discriminate. rewrite from_w_struct in Hv. rewrite from_wm_struct.
      destruct (find_struct e name) as [s|]; [|discriminate].
      destruct (foldM (read_step e s) fs (new_fields s, [])) as [[fs' seen']|] eqn:Ef; [|discriminate].
      cbn [bind] in Hv. destruct (fold_total st s fs H _ _ _ _ Ef (new_fields s)) as (fs2' & ->). cbn [bind].
      unfold finish_read in *. cbn [fst snd] in *. destruct (first_missing (s_fields s) seen'); [discriminate|]. eexists. reflexivity.
    - destruct t; try discriminate. cbn [from_w Masked.from_wm] in *.
      destruct ((ttype_eqb kt (ttype_of e t1) && ttype_eqb vt (ttype_of e t2)) || (length kvs =? 0)%nat); [|discriminate].
      match type of Hv with bind (mapM ?G kvs) _ = _ => destruct (mapM G kvs) as [xs|] eqn:Em; [|discriminate] end.
      apply mapM_ok_Forall in Em.
      match goal with |- exists v', bind (Masked.mapM_sel _ _ ?K st ?F 0%nat kvs) _ = _ =>
        destruct (mapM_sel_total K st F kvs) with (i := 0%nat) as (ys & ->) end; [|eexists; reflexivity].
      rewrite Forall_forall in *. intros kv Hin. destruct (Em kv Hin) as (y & Hy). destruct (H kv Hin) as [_ Hx].
      destruct (from_w e t1 (fst kv)) as [k|]; [|discriminate]. cbn [bind] in Hy.
      destruct (from_w e t2 (snd kv)) as [x|] eqn:Ex; [|discriminate].
      split; [intro i; eexists; reflexivity|]. intro s. cbn [bind]. destruct (Hx _ _ Ex s) as (x' & ->). eexists. reflexivity.
    - destruct t; try discriminate. cbn [from_w Masked.from_wm] in *.
      destruct (ttype_eqb et (ttype_of e t) || (length l =? 0)%nat); [|discriminate].
      destruct (mapM (from_w e t) l) as [xs|] eqn:Em; [|discriminate]. apply mapM_ok_Forall in Em.
      destruct (mapM_sel_total (fun i x => Ok (idx_key i x)) st (fun s x => from_wm e s t x) l) with (i := 0%nat) as (ys & ->);
        [|eexists; reflexivity].
      rewrite Forall_forall in *. intros x Hin. destruct (Em x Hin) as (y & Hy).
      split; [intro i; eexists; reflexivity|]. intro s. apply (H x Hin _ _ Hy s).
    - destruct t; try discriminate. cbn [from_w Masked.from_wm] in *.
      destruct (ttype_eqb et (ttype_of e t) || (length l =? 0)%nat); [|discriminate].
      destruct (mapM (from_w e t) l) as [xs|] eqn:Em; [|discriminate]. apply mapM_ok_Forall in Em.
      destruct (mapM_sel_total (fun i x => Ok (idx_key i x)) st (fun s x => from_wm e s t x) l) with (i := 0%nat) as (ys & ->);
        [|eexists; reflexivity].
      rewrite Forall_forall in *. intros x Hin. destruct (Em x Hin) as (y & Hy).
      split; [intro i; eexists; reflexivity|]. intro s. apply (H x Hin _ _ Hy s).
  Qed.
End Total.

(* ------------------------------------------------------------------ the field-mask library instance, top level *)

(* Read under ANY mask into a fresh object, of ANY wire struct the plain code reads: it succeeds,
   and stores what the plain code (with no field required) reads from the message restricted
   to the mask *)
Theorem masked_read_any cfg m e s wfs v0 :
  find_struct e (s_name s) = Some s ->
  read_new e s (WStruct wfs) = Ok v0 ->
  exists v, read_new_masked cfg m e s (WStruct wfs) = Ok v /\
            read_new (relax e) (relax_s s) (filter_w_mask e m (TRef (s_name s)) (WStruct wfs)) = Ok v.
Proof.
  intros Hs H0. rewrite read_new_from_w in H0 by exact Hs.
  destruct (from_wm_total (option mask) mquery e (WStruct wfs) _ _ H0 m) as (v & Hv).
  exists v. unfold read_new_masked, from_wire_masked. rewrite from_wire_m_from_wm by exact Hs.
  split; [exact Hv|].
  pose proof (from_wm_filter (option mask) mquery None mquery_nil e (WStruct wfs) _ _ _ Hv) as Hf.
  unfold filter_w_mask. rewrite filter_w_struct, Hs in *.
  rewrite from_w_struct, find_struct_relax, Hs in Hf. cbn [option_map] in Hf.
  unfold read_new, from_wire, new_struct. exact Hf.
Qed.

(* the same at byte level *)
Theorem masked_read_any_bytes cfg m e s bs v0 :
  find_struct e (s_name s) = Some s ->
  read_bytes e s (new_struct e s) bs = Ok v0 ->
  exists v w rest, dec_struct bs = Some (w, rest) /\
    read_bytes_masked cfg m e s (new_struct e s) bs = Ok v /\
    read_new (relax e) (relax_s s) (filter_w_mask e m (TRef (s_name s)) w) = Ok v.
Proof.
  intros Hs H0. unfold read_bytes, read_bytes_masked in *.
  destruct (dec_struct bs) as [[w rest]|]; [|discriminate].
  assert (exists wfs, w = WStruct wfs) as (wfs & ->).
  { unfold from_wire, new_struct in H0. destruct w; try discriminate. eexists. reflexivity. }
  destruct (masked_read_any cfg m e s wfs v0 Hs H0) as (v & Hv & Hf).
  exists v, (WStruct wfs), rest. split; [reflexivity|]. split; [exact Hv | exact Hf].
Qed.
