(* Wire/WVal.v — generic wire values: what binary-protocol bytes denote without a schema.
   Integers are *signed* (as the Go API shows them: int8/int16/int32/int64), doubles are
   64-bit patterns (0 <= bits < 2^64), field ids are signed 16-bit. *)
From Coq Require Import List ZArith NArith Lia Bool.
From Verif Require Import Base.Bytes Base.BE Wire.TType.
Import ListNotations.
Open Scope Z_scope.

Inductive wval :=
| WBool (b : bool) | WByte (z : Z) | WDouble (bits : Z) | WI16 (z : Z) | WI32 (z : Z) | WI64 (z : Z)
| WStr (s : bytes)
| WStruct (fs : list (ttype * Z * wval))
| WMap (kt vt : ttype) (kvs : list (wval * wval))
| WSet (et : ttype) (l : list wval)
| WList (et : ttype) (l : list wval).

Definition wfield := (ttype * Z * wval)%type.

Definition wtype (v : wval) : ttype :=
  match v with WBool _ => T_BOOL | WByte _ => T_BYTE | WDouble _ => T_DOUBLE | WI16 _ => T_I16
  | WI32 _ => T_I32 | WI64 _ => T_I64 | WStr _ => T_STRING | WStruct _ => T_STRUCT
  | WMap _ _ _ => T_MAP | WSet _ _ => T_SET | WList _ _ => T_LIST end.

Fixpoint depth (v : wval) : nat :=
  match v with
  | WStruct fs => S ((fix go (l : list (ttype*Z*wval)) : nat :=
                        match l with [] => O | (_,_,x) :: r => Nat.max (depth x) (go r) end) fs)
  | WMap _ _ kvs => S ((fix go (l : list (wval*wval)) : nat :=
                        match l with [] => O | (k,x) :: r => Nat.max (Nat.max (depth k) (depth x)) (go r) end) kvs)
  | WSet _ l | WList _ l => S ((fix go (l : list wval) : nat :=
                        match l with [] => O | x :: r => Nat.max (depth x) (go r) end) l)
  | _ => 1%nat
  end.

(* well-formedness: everything fits its wire width and container headers are truthful *)
Fixpoint wf (v : wval) : Prop :=
  match v with
  | WBool _ => True
  | WByte z => in_srange 1 z
  | WDouble z => in_range 8 z
  | WI64 z => in_srange 8 z
  | WI16 z => in_srange 2 z
  | WI32 z => in_srange 4 z
  | WStr s => in_srange 4 (Z.of_nat (length s))
  | WStruct fs =>
      (fix all (l : list (ttype*Z*wval)) : Prop :=
         match l with [] => True
         | (t,id,x) :: r => (wtype x = t /\ in_srange 2 id /\ wf x) /\ all r end) fs
  | WMap kt vt kvs => in_srange 4 (Z.of_nat (length kvs)) /\
      (fix all (l : list (wval*wval)) : Prop :=
         match l with [] => True
         | (k,x) :: r => (wtype k = kt /\ wtype x = vt /\ wf k /\ wf x) /\ all r end) kvs
  | WSet et l | WList et l => in_srange 4 (Z.of_nat (length l)) /\
      (fix all (l : list wval) : Prop :=
         match l with [] => True | x :: r => (wtype x = et /\ wf x) /\ all r end) l
  end.

(* boolean version, used by the correspondence files *)
Fixpoint wfb (v : wval) : bool :=
  match v with
  | WBool _ => true
  | WByte z => in_srangeb 1 z
  | WDouble z => (0 <=? z) && (z <? 256 ^ 8)
  | WI64 z => in_srangeb 8 z
  | WI16 z => in_srangeb 2 z
  | WI32 z => in_srangeb 4 z
  | WStr s => in_srangeb 4 (Z.of_nat (length s))
  | WStruct fs =>
      (fix all (l : list (ttype*Z*wval)) : bool :=
         match l with [] => true
         | (t,id,x) :: r => (ttype_eqb (wtype x) t && in_srangeb 2 id && wfb x) && all r end) fs
  | WMap kt vt kvs => in_srangeb 4 (Z.of_nat (length kvs)) &&
      (fix all (l : list (wval*wval)) : bool :=
         match l with [] => true
         | (k,x) :: r => (ttype_eqb (wtype k) kt && ttype_eqb (wtype x) vt && wfb k && wfb x) && all r end) kvs
  | WSet et l | WList et l => in_srangeb 4 (Z.of_nat (length l)) &&
      (fix all (l : list wval) : bool :=
         match l with [] => true | x :: r => (ttype_eqb (wtype x) et && wfb x) && all r end) l
  end.

(* decidable equality, and equality modulo the order of map entries (Go map iteration)
   and — optionally — of struct fields (reorder_fields) *)
Fixpoint weqb (a b : wval) {struct a} : bool :=
  match a, b with
  | WBool x, WBool y => Bool.eqb x y
  | WByte x, WByte y | WDouble x, WDouble y | WI16 x, WI16 y | WI32 x, WI32 y | WI64 x, WI64 y => x =? y
  | WStr x, WStr y => beqb x y
  | WStruct fa, WStruct fb =>
      (fix go (la : list (ttype*Z*wval)) (lb : list (ttype*Z*wval)) : bool :=
         match la, lb with
         | [], [] => true
         | (t,i,x) :: ra, (t',i',y) :: rb => ttype_eqb t t' && (i =? i') && weqb x y && go ra rb
         | _, _ => false end) fa fb
  | WMap k v la, WMap k' v' lb =>
      ttype_eqb k k' && ttype_eqb v v' &&
      (fix go (la : list (wval*wval)) (lb : list (wval*wval)) : bool :=
         match la, lb with
         | [], [] => true
         | (x,y) :: ra, (x',y') :: rb => weqb x x' && weqb y y' && go ra rb
         | _, _ => false end) la lb
  | WSet t la, WSet t' lb | WList t la, WList t' lb =>
      ttype_eqb t t' &&
      (fix go (la lb : list wval) : bool :=
         match la, lb with
         | [], [] => true
         | x :: ra, y :: rb => weqb x y && go ra rb
         | _, _ => false end) la lb
  | _, _ => false
  end.

Section Remove.
  Context {A : Type} (eq : A -> A -> bool).
  (* remove the first element of l that is eq to a *)
  Fixpoint remove1 (a : A) (l : list A) : option (list A) :=
    match l with
    | [] => None
    | x :: r => if eq a x then Some r else
                match remove1 a r with Some r' => Some (x :: r') | None => None end
    end.
  Fixpoint perm_eqb (la lb : list A) : bool :=
    match la with
    | [] => match lb with [] => true | _ => false end
    | a :: ra => match remove1 a lb with Some lb' => perm_eqb ra lb' | None => false end
    end.
End Remove.

(* [weq_mod fields_too a b]: equal up to permutation of map entries at every level; with
   fields_too = true also up to permutation of struct fields at every level *)
Fixpoint weq_mod (fields_too : bool) (a b : wval) {struct a} : bool :=
  match a, b with
  | WBool x, WBool y => Bool.eqb x y
  | WByte x, WByte y | WDouble x, WDouble y | WI16 x, WI16 y | WI32 x, WI32 y | WI64 x, WI64 y => x =? y
  | WStr x, WStr y => beqb x y
  | WStruct fa, WStruct fb =>
      if fields_too then
        (fix go (la : list (ttype*Z*wval)) (lb : list (ttype*Z*wval)) : bool :=
           match la with
           | [] => match lb with [] => true | _ => false end
           | (t,i,x) :: ra =>
             match (fix rm (l : list (ttype*Z*wval)) : option (list (ttype*Z*wval)) :=
                      match l with
                      | [] => None
                      | (t',i',y) :: r =>
                        if ttype_eqb t t' && (i =? i') && weq_mod fields_too x y then Some r
                        else match rm r with Some r' => Some ((t',i',y) :: r') | None => None end
                      end) lb with
             | Some lb' => go ra lb'
             | None => false
             end
           end) fa fb
      else
        (fix go (la : list (ttype*Z*wval)) (lb : list (ttype*Z*wval)) : bool :=
           match la, lb with
           | [], [] => true
           | (t,i,x) :: ra, (t',i',y) :: rb => ttype_eqb t t' && (i =? i') && weq_mod fields_too x y && go ra rb
           | _, _ => false end) fa fb
  | WMap k v la, WMap k' v' lb =>
      ttype_eqb k k' && ttype_eqb v v' &&
      (fix go (la : list (wval*wval)) (lb : list (wval*wval)) : bool :=
         match la with
         | [] => match lb with [] => true | _ => false end
         | (x,y) :: ra =>
           match (fix rm (l : list (wval*wval)) : option (list (wval*wval)) :=
                    match l with
                    | [] => None
                    | (x',y') :: r =>
                      if weq_mod fields_too x x' && weq_mod fields_too y y' then Some r
                      else match rm r with Some r' => Some ((x',y') :: r') | None => None end
                    end) lb with
           | Some lb' => go ra lb'
           | None => false
           end
         end) la lb
  | WSet t la, WSet t' lb | WList t la, WList t' lb =>
      ttype_eqb t t' &&
      (fix go (la lb : list wval) : bool :=
         match la, lb with
         | [], [] => true
         | x :: ra, y :: rb => weq_mod fields_too x y && go ra rb
         | _, _ => false end) la lb
  | _, _ => false
  end.

(* encoded size in bytes (what BLength must return) *)
Fixpoint wsize (v : wval) : nat :=
  match v with
  | WBool _ | WByte _ => 1
  | WI16 _ => 2
  | WI32 _ => 4
  | WI64 _ | WDouble _ => 8
  | WStr s => 4 + length s
  | WStruct fs => (fix go (l : list (ttype*Z*wval)) : nat :=
                     match l with [] => 1 | (_,_,x) :: r => 3 + wsize x + go r end) fs
  | WMap _ _ kvs => 6 + (fix go (l : list (wval*wval)) : nat :=
                     match l with [] => 0 | (k,x) :: r => wsize k + wsize x + go r end) kvs
  | WSet _ l | WList _ l => 5 + (fix go (l : list wval) : nat :=
                     match l with [] => 0 | x :: r => wsize x + go r end) l
  end%nat.
