(* Idl/ResolveCompleteConst.v — completeness for identifiers used as values: the number
   of candidates ResolveConstValue collects is the number of explanations the
   specification counts ([explanations]); hence [resolve_complete]. *)
From Coq Require Import List Bool Arith Lia NArith ZArith Permutation.
From Coq.Strings Require Import Byte.
From Verif Require Import Base.Bytes Idl.Ast Idl.AstUtil Idl.AstFacts Idl.Resolve Idl.ResolveSpec Idl.ResolveTd
     Idl.ResolveLemmas Idl.ResolveInv Idl.ResolveConst Idl.ResolveProg Idl.ResolveDeref Idl.ResolveFacts
     Idl.ResolvableSpec Idl.ResolveComplete Idl.ResolvePath Idl.ResolveFuelEnum Idl.ResolvableConst.
Import ListNotations.
Local Open Scope resolve_scope.

(* ---------------------------------------------------------------- enum_denotes = denoting an enum *)

Lemma enum_denotes_def p fn n efn vs i :
  enum_denotes p fn n efn vs i -> exists x, def_denotes p fn n (TEnum efn x) /\ def_of p efn x = Some (DkEnum vs).
Proof.
  induction 1 as [fn n vs H | fn n tgt a efn vs i H Hb Hs _ (x & Hd & Hx) | fn f n tgt pre m i gn efn vs j H Hb Hs Hf Hi _ (x & Hd & Hx)].
  - exists n. split; [eapply dd_enum; eauto | exact H].
  - exists x. split; [|exact Hx]. eapply dd_typedef; [exact H|]. eapply nd_local; eauto.
  - exists x. split; [|exact Hx]. eapply dd_typedef; [exact H|]. eapply nd_qualified; eauto.
Qed.

Lemma def_enum_denotes p :
  (forall fn n d, def_denotes p fn n d -> forall efn x vs, d = TEnum efn x -> def_of p efn x = Some (DkEnum vs) ->
     exists i, enum_denotes p fn n efn vs i) /\
  (forall fn n d, name_denotes p fn n d -> forall efn x vs, d = TEnum efn x -> def_of p efn x = Some (DkEnum vs) ->
     builtin_category n = None /\
     ((exists a i, split_type n = [a] /\ enum_denotes p fn a efn vs i) \/
      (exists f pre m i gn j, split_type n = [pre; m] /\ prog_file p fn = Some f /\
         spec_include p is_type_kind pre m (file_incs f) 0 = Some (i, gn) /\ enum_denotes p gn m efn vs j))).
Proof.
  apply denotes_mutind.
  - intros fn n vs0 H efn x vs [= <- <-] Hx. assert (vs0 = vs) by congruence. subst. eexists. eapply ed_enum; eauto.
  - intros fn n k H efn x vs E. discriminate.
  - intros fn n tgt d H _ IH efn x vs E Hx. destruct (IH efn x vs E Hx) as (Hb & [(a & i & Hs & He)|(f & pre & m & i & gn & j & Hs & Hf & Hi & He)]).
    + exists i. eapply ed_local; eauto.
    + eexists. eapply ed_qualified; eauto.
  - intros fn n c H efn x vs E. discriminate.
  - intros fn n a d Hb Hs _ IH efn x vs E Hx. split; [exact Hb|]. destruct (IH efn x vs E Hx) as (i & He). left. eauto.
  - intros fn f n pre m i gn d Hb Hs Hf Hi _ IH efn x vs E Hx. split; [exact Hb|]. destruct (IH efn x vs E Hx) as (j & He).
    right. exists f, pre, m, i, gn, j. auto.
Qed.

Lemma denote_def_sound p k fn a d : denote_def (denote k p) p fn a = Some d -> def_denotes p fn a d.
Proof.
  unfold denote_def. destruct (def_of p fn a) as [kd|] eqn:Dk; [|discriminate].
  destruct kd as [tgt| |vs|s|]; try discriminate.
  - intros H. eapply dd_typedef; eauto. eapply denote_sound; eauto.
  - intros [= <-]. eapply dd_enum; eauto.
  - intros [= <-]. eapply dd_struct; eauto.
Qed.

Lemma enum_values_of_spec p fn e vs :
  enum_values_of p fn e = Some vs <-> exists efn i, enum_denotes p fn e efn vs i.
Proof.
  unfold enum_values_of. split.
  - destruct (denote_def (denote (denote_fuel p) p) p fn e) as [d|] eqn:E; [|discriminate].
    destruct d as [c|efn x|? ? ?]; try discriminate.
    destruct (def_of p efn x) as [kd|] eqn:Dx; [|discriminate]. destruct kd; try discriminate. intros [= <-].
    destruct (proj1 (def_enum_denotes p) _ _ _ (denote_def_sound _ _ _ _ _ E) efn x values eq_refl Dx) as (i & Hi). eauto.
  - intros (efn & i & He). destruct (enum_denotes_def _ _ _ _ _ _ He) as (x & Hd & Hx).
    destruct (proj1 (denotes_path p) _ _ _ Hd) as (l & Hl).
    rewrite (proj1 (denote_path p) _ _ _ _ Hl (denote_fuel p)); [rewrite Hx; reflexivity|].
    pose proof (def_path_bound _ _ _ _ _ Hl). unfold denote_fuel. lia.
Qed.

Lemma enum_cands_length en v x : length (enum_cands en v x) = count_name v (map ev_name (en_values en)).
Proof.
  unfold enum_cands, count_name. rewrite map_length. induction (en_values en) as [|ev l IH]; cbn [filter map]; [reflexivity|].
  destruct (beqb (ev_name ev) v); cbn [length]; rewrite IH; reflexivity.
Qed.

(* ---------------------------------------------------------------- counting candidates *)

Section Count.
  Variables (p done : program) (fn : bytes) (f : file).
  Hypothesis Hinv : inv p done.
  Hypothesis Hf : prog_file p fn = Some f.
  Hypothesis Htargets : forall i, In i (f_includes f) -> exists hn, in_ref i = Some hn /\ lookup hn done <> None.
  Hypothesis Hplain : plain_names p = true.
  Hypothesis Hall_td : forall gn n tgt, def_of p gn n = Some (DkTypedef tgt) -> exists d, def_denotes p gn n d.
  Variable n2c : list (bytes * category).
  Hypothesis Hreg : register (file_def_names f) [] = Ok n2c.
  Variable tds1 : list typedef.
  Hypothesis Htds1 : mapM (resolve_typedef done (with_name2cat f (Some n2c))) (f_typedefs f) = Ok tds1.

  Let f1 := cur1 f n2c tds1.
  Let fuel := enum_fuel done f1.

  Lemma get_enum_count gn g g' e v x : ectx p done gn g g' -> near done fn gn ->
    exists ge, get_enum fuel done g' e = Ok ge /\
      length (match ge with Some (en, _) => enum_cands en v (x ge) | None => [] end) = enum_value_count p gn e v.
  Proof.
    intros Ec Hn.
    destruct (enum_fuel_suffices p done fn f Hinv Hf Htargets Hplain Hall_td n2c tds1 gn g g' e Htds1 Ec Hn) as (ge & Hge).
    exists ge. split; [exact Hge|].
    pose proof (get_enum_spec p done Hinv Hplain _ _ _ _ _ _ Ec Hge) as Hs. unfold enum_value_count.
    destruct ge as [[en idx]|].
    - destruct Hs as (efn & He). rewrite enum_cands_length.
      rewrite (proj2 (enum_values_of_spec p gn e _) (ex_intro _ efn (ex_intro _ idx He))). reflexivity.
    - destruct (enum_values_of p gn e) as [vs|] eqn:Ev; [|reflexivity].
      apply enum_values_of_spec in Ev. destruct Ev as (efn & i & He). exfalso. eapply Hs; eauto.
  Qed.

  Lemma inc_cands_length h cnt pre : forall incs idx,
    (forall x, In x incs -> exists hn, in_ref x = Some hn /\ lookup hn done <> None) ->
    (forall idx0 x hn g', In x incs -> in_ref x = Some hn -> lookup hn done = Some g' ->
        exists csi, h idx0 g' = Ok csi /\ length csi = cnt hn) ->
    exists cs, inc_cands done h pre incs idx = Ok cs /\ length cs = sum_incs cnt pre (map inc_key incs).
  Proof.
    induction incs as [|x incs IH]; intros idx Hin Hh; cbn [inc_cands map sum_incs]; [eauto|].
    destruct (IH (S idx)) as (rest & Hr & Lr); [intros y Hy; apply Hin; right; exact Hy | intros; eapply Hh; eauto; right; assumption|].
    unfold inc_key at 1. destruct (beqb (idl_prefix (in_path x)) pre).
    - destruct (Hin x (or_introl eq_refl)) as (hn & Hrx & Hl). rewrite (include_target_done done x hn Hrx), Hrx.
      destruct (lookup hn done) as [g'|] eqn:Lg; [|congruence].
      destruct (Hh idx x hn g' (or_introl eq_refl) Hrx Lg) as (csi & -> & Lc). cbn [bind]. rewrite Hr. cbn [bind].
      eexists. split; [reflexivity|]. rewrite app_length, Lc, Lr. reflexivity.
    - cbn [bind]. rewrite Hr. cbn [bind]. eexists. split; [reflexivity|]. cbn [app]. rewrite Lr. reflexivity.
  Qed.

  Lemma f1_ectx : ectx p done fn f f1.
  Proof. exact (cur_ectx p done fn f n2c tds1 Hinv Hf Htargets Hreg Htds1). Qed.

  Lemma alt_cands_length ss : exists cs, alt_cands fuel done f1 ss = Ok cs /\ length cs = alt_count p fn f ss.
  Proof.
    destruct ss as [|a [|b [|c [|? ?]]]]; cbn [alt_cands alt_count]; eauto.
    - eexists. split; [reflexivity|]. unfold const_count.
      rewrite (ec_n2c _ _ _ _ _ f1_ectx), <- (def_of_file p fn f a Hf).
      destruct (def_of p fn a) as [k|]; [|reflexivity]. destruct k as [| | |s|]; try reflexivity. destruct s; reflexivity.
    - destruct (get_enum_count fn f f1 a b (fun ge => match ge with Some (_, idx) => Extra true idx b a | None => Extra true 0 b a end) f1_ectx (or_introl eq_refl)) as (ge & Hge & Lge).
      rewrite Hge. cbn [bind].
      destruct (inc_cands_length (fun idx g => Ok match lookup b (n2c_of g) with Some CatConstant => [Extra false (Z.of_nat idx) b a] | _ => [] end)
                  (fun gn => const_count p gn b) a (f_includes f) 0 Htargets) as (c2 & Hc2 & Lc2).
      { intros idx0 x hn g' _ _ Lg. eexists. split; [reflexivity|].
        destruct (Hinv hn g' Lg) as (g & Hg & Gd). unfold const_count.
        rewrite (gd_n2c _ _ _ _ _ Gd), <- (def_of_file p hn g b Hg).
        destruct (def_of p hn b) as [k|]; [|reflexivity]. destruct k as [| | |s|]; try reflexivity. destruct s; reflexivity. }
      change (f_includes f1) with (f_includes f). rewrite Hc2. cbn [bind]. eexists. split; [reflexivity|].
      rewrite app_length, Lc2. f_equal. rewrite <- Lge. destruct ge as [[en idx]|]; reflexivity.
    - change (f_includes f1) with (f_includes f).
      apply (inc_cands_length _ (fun gn => enum_value_count p gn b c) a (f_includes f) 0 Htargets).
      intros idx0 x hn g' _ _ Lg. destruct (Hinv hn g' Lg) as (g & Hg & Gd).
      assert (Hnear : near done fn hn) by (right; congruence).
      destruct (get_enum_count hn g g' b c (fun ge => match ge with Some (_, _) => Extra true (Z.of_nat idx0) c b | None => Extra true 0 c b end)
                  (good_ectx p done hn g g' Hg Gd) Hnear) as (ge & Hge & Lge).
      rewrite Hge. cbn [bind]. eexists. split; [reflexivity|]. rewrite <- Lge. destruct ge as [[en idx]|]; reflexivity.
  Qed.

  Lemma all_cands_length : forall sss, exists cs, all_cands fuel done f1 sss = Ok cs /\
    length cs = fold_right (fun ss acc => alt_count p fn f ss + acc) 0 sss.
  Proof.
    induction sss as [|ss sss (rest & Hr & Lr)]; cbn [all_cands fold_right]; [eauto|].
    destruct (alt_cands_length ss) as (a & -> & La). cbn [bind]. rewrite Hr. cbn [bind].
    eexists. split; [reflexivity|]. rewrite app_length, La, Lr. reflexivity.
  Qed.

  Lemma ident_ok_resolves s : ident_ok p fn s = true -> exists e, resolve_ident fuel done f1 s = Ok e.
  Proof.
    unfold ident_ok. rewrite Hf. intros H. apply Nat.eqb_eq in H. unfold resolve_ident.
    destruct (ident_is_bool s); [eauto|].
    destruct (all_cands_length (split_value s)) as (cs & -> & Lc). cbn [bind]. unfold explanations in H. rewrite H in Lc.
    destruct cs as [|e [|? ?]]; cbn in Lc; try lia. eauto.
  Qed.
End Count.

(* ---------------------------------------------------------------- completeness *)

Lemma resolvable_typedefs_denote p idok :
  resolvable_with idok p = true ->
  forall gn n tgt, def_of p gn n = Some (DkTypedef tgt) -> exists d, def_denotes p gn n d.
Proof.
  intros H gn n tgt Hd. unfold resolvable_with in H. destruct p as [|[mainfn mf] p'] eqn:Ep; [discriminate|].
  rewrite <- Ep in *. apply andb_true_iff in H. destruct H as (_ & Hall). rewrite forallb_forall in Hall.
  pose proof Hd as Hd0. unfold def_of, prog_file in Hd. destruct (lookup gn p) as [g|] eqn:Lg; [|discriminate].
  pose proof (Hall (gn, g) (lookup_In _ _ _ Lg)) as Hok. cbn [fst snd] in Hok. unfold file_ok in Hok.
  repeat (apply andb_true_iff in Hok; destruct Hok as (Hok & ?)). rename H2 into Hty. rewrite forallb_forall in Hty.
  apply lookup_In in Hd. unfold file_defs in Hd. apply in_app_or in Hd. destruct Hd as [Hd|Hd].
  - apply in_map_iff in Hd. destruct Hd as (td & [= Ha Ht] & Hin).
    assert (Hto : ty_ok p gn (td_type td) = true).
    { apply Hty. unfold file_top_occs. apply in_or_app. left. apply in_map. exact Hin. }
    destruct (ty_ok_head_denotes p gn _ Hto) as (d & Hden). rewrite Ht in Hden.
    exists d. eapply dd_typedef; eauto.
  - exfalso. repeat (apply in_app_or in Hd; destruct Hd as [Hd|Hd]); apply in_map_iff in Hd; destruct Hd as (? & [= _ ?] & _).
Qed.

(* the resolver model succeeds on every resolvable program *)
Theorem resolve_complete p : resolvable p = true -> exists r, resolve_program p = Ok r.
Proof.
  unfold resolvable. intros H. apply andb_true_iff in H. destruct H as (Hplain & Hres).
  apply (resolve_complete_with p (ident_ok p)); [|exact Hres].
  intros done fn f n2c tds1 s Hinv Hf Htg Hreg Htds Hs.
  exact (ident_ok_resolves p done fn f Hinv Hf Htg Hplain (resolvable_typedefs_denote p _ Hres) n2c Hreg tds1 Htds s Hs).
Qed.
