package main

import (
	"fmt"
	"os"

	"github.com/cloudwego/thriftgo/parser"
	"github.com/cloudwego/thriftgo/tool/trimmer/dump"

	"verif/harness/astdump"
)

// probe: debugging aid, `c17 -probe 'IDL text'` prints the dumped text, and the AST of the re-parsed text.
func probe(src string) {
	t, err := parser.ParseString("main.thrift", src)
	if err != nil {
		fmt.Println("PARSE-ERROR:", err)
		os.Exit(1)
	}
	fmt.Println("AST1:", astdump.CoqFile(t))
	out, err := dump.DumpIDL(t)
	if err != nil {
		fmt.Println("DUMP-ERROR:", err)
		os.Exit(1)
	}
	fmt.Printf("----- dumped (%d bytes)\n%s\n-----\n", len(out), out)
	t2, err := parser.ParseString("main.thrift", out)
	if err != nil {
		fmt.Println("REPARSE-ERROR:", err)
		os.Exit(1)
	}
	fmt.Println("AST2:", astdump.CoqFile(t2))
}
