package main

import (
	"encoding/hex"
	"encoding/json"
	"fmt"
	"reflect"
	"sort"
	"strings"
)

// Verbs of property C09 (schema evolution, keep_unknown_fields):
//
//	kchain <unitW> <structW> <value JSON> <unit1> <struct1> <unit2> <struct2> ...
//	    the value is written by <unitW>; the bytes are read by a NewX() object of <unit1>, which is
//	    dumped and re-written; its bytes go to <unit2>; and so on. The chain stops at the first error.
//	    -> {"write":{"err","bytes"},"hops":[{"err","rest","carry","dump","rewrite":{"err","bytes"}}...]}
//	khop <unit> <struct> <hex> [<hex2> ...]
//	    one object, NewX(); Read is called once per input, on the same object; then dump and re-write.
//	    -> {"errs":[class...],"carry","dump","rewrite":{"err","bytes"}}
//
// "dump" is the JSON value form of Dump with one addition: a struct whose pointer type has the method
// CarryingUnknownFields gets a leading pseudo-slot [32768, <what the method returned>], and every struct
// reached through a pointer gets the pseudo-slot [32769, {"s":[[id, IsSet<Field>()] ...]}] (the fields that
// have such a method, Go declaration order). Only public methods are used; the private buffer is never
// looked at (its content shows in the re-written bytes).

const unkSlot = 32768
const issetSlot = 32769

// DumpK prints like Dump and adds the CarryingUnknownFields pseudo-slot.
func DumpK(rv reflect.Value) string {
	var b strings.Builder
	dumpK(&b, rv)
	return b.String()
}

func carryingOf(ptr reflect.Value) (bool, bool) {
	m := ptr.MethodByName("CarryingUnknownFields")
	if !m.IsValid() || m.Type().NumIn() != 0 || m.Type().NumOut() != 1 || m.Type().Out(0).Kind() != reflect.Bool {
		return false, false
	}
	return m.Call(nil)[0].Bool(), true
}

func dumpK(b *strings.Builder, rv reflect.Value) {
	switch rv.Kind() {
	case reflect.Ptr:
		if rv.IsNil() {
			b.WriteString("null")
			return
		}
		if rv.Elem().Kind() == reflect.Struct {
			dumpStructK(b, rv.Elem(), rv)
			return
		}
		b.WriteString(`{"p":`)
		dumpK(b, rv.Elem())
		b.WriteString("}")
	case reflect.Struct:
		if rv.CanAddr() {
			dumpStructK(b, rv, rv.Addr())
		} else {
			dumpStructK(b, rv, reflect.Value{})
		}
	case reflect.Slice:
		if rv.IsNil() {
			b.WriteString("null")
			return
		}
		if rv.Type().Elem().Kind() == reflect.Uint8 {
			dump(b, rv)
			return
		}
		b.WriteString("[")
		for i := 0; i < rv.Len(); i++ {
			if i > 0 {
				b.WriteString(",")
			}
			dumpK(b, rv.Index(i))
		}
		b.WriteString("]")
	case reflect.Map:
		if rv.IsNil() {
			b.WriteString("null")
			return
		}
		var ents []string
		it := rv.MapRange()
		for it.Next() {
			var e strings.Builder
			e.WriteString("[")
			dumpK(&e, it.Key())
			e.WriteString(",")
			dumpK(&e, it.Value())
			e.WriteString("]")
			ents = append(ents, e.String())
		}
		sort.Strings(ents)
		b.WriteString(`{"m":[` + strings.Join(ents, ",") + `]}`)
	default:
		dump(b, rv)
	}
}

func dumpStructK(b *strings.Builder, sv reflect.Value, ptr reflect.Value) {
	b.WriteString(`{"s":[`)
	n := 0
	if ptr.IsValid() {
		if c, ok := carryingOf(ptr); ok {
			fmt.Fprintf(b, "[%d,%v]", unkSlot, c)
			n++
		}
	}
	// what the public IsSet<Field>() methods answer on this very object (nested ones included)
	if ptr.IsValid() {
		var is []string
		for _, f := range ThriftFields(sv.Type()) {
			m := ptr.MethodByName("IsSet" + f.Go)
			if m.IsValid() && m.Type().NumIn() == 0 && m.Type().NumOut() == 1 && m.Type().Out(0).Kind() == reflect.Bool {
				is = append(is, fmt.Sprintf("[%d,%v]", f.ID, m.Call(nil)[0].Bool()))
			}
		}
		if n > 0 {
			b.WriteString(",")
		}
		n++
		fmt.Fprintf(b, `[%d,{"s":[%s]}]`, issetSlot, strings.Join(is, ","))
	}
	for _, f := range ThriftFields(sv.Type()) {
		if n > 0 {
			b.WriteString(",")
		}
		n++
		fmt.Fprintf(b, "[%d,", f.ID)
		dumpK(b, sv.Field(f.Index))
		b.WriteString("]")
	}
	b.WriteString("]}")
}

func observeHop(x interface{}, inputs [][]byte) map[string]interface{} {
	res := map[string]interface{}{}
	var errs []string
	rest := 0
	for _, in := range inputs {
		cls, r := ReadBinary(x, in)
		errs = append(errs, cls)
		rest = r
		if cls != "ok" {
			break
		}
	}
	res["errs"] = errs
	res["err"] = errs[len(errs)-1]
	res["rest"] = rest
	if errs[len(errs)-1] != "ok" {
		return res
	}
	rv := reflect.ValueOf(x)
	if c, ok := carryingOf(rv); ok {
		res["carry"] = c
	}
	res["dump"] = json.RawMessage(DumpK(rv))
	res["rewrite"] = observeWrite(x)
	return res
}

func init() {
	RegisterCommand("khop", func(a []string) interface{} {
		x := New(a[0], a[1])
		var inputs [][]byte
		for _, h := range a[2:] {
			bs, err := hex.DecodeString(h)
			if err != nil {
				panic(err)
			}
			inputs = append(inputs, bs)
		}
		return observeHop(x, inputs)
	})

	RegisterCommand("kchain", func(a []string) interface{} {
		x := New(a[0], a[1])
		x = reflect.New(reflect.TypeOf(x).Elem()).Interface()
		Fill(reflect.ValueOf(x).Elem(), ParseValue(a[2]))
		w := observeWrite(x)
		out := map[string]interface{}{"write": w}
		hops := []interface{}{}
		cur, _ := w["bytes"].(string)
		ok := w["err"] == "ok"
		for i := 3; ok && i+1 < len(a); i += 2 {
			bs, err := hex.DecodeString(cur)
			if err != nil {
				panic(err)
			}
			var h map[string]interface{}
			func() {
				defer func() {
					if r := recover(); r != nil {
						h = map[string]interface{}{"err": "panic", "msg": fmt.Sprint(r)}
					}
				}()
				h = observeHop(New(a[i], a[i+1]), [][]byte{bs})
			}()
			hops = append(hops, h)
			rw, _ := h["rewrite"].(map[string]interface{})
			if h["err"] != "ok" || rw == nil || rw["err"] != "ok" {
				break
			}
			cur, _ = rw["bytes"].(string)
		}
		out["hops"] = hops
		return out
	})
}
