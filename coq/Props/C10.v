(* Props/C10.v — property C10: the fastgo codec agrees with the standard codec and BLength is exact.
   Statements only; proofs are in Wire/FastFacts.v.

   Model: Wire/Fast.v (blength, fast_append, fast_read: three separate functions that follow
   generator/fastgo/gen_blength.go, gen_fastwrite.go and gen_fastread.go; tied to the compiled output of
   `thriftgo -g fastgo` by the correspondence of Corr/C10.v on every run), Wire/Std.v (the standard
   generated codec, property C02), Wire/Codec.v (binary protocol), Wire/GenTables.v and
   Wire/FastTables.v (the three tables of generator/fastgo/consts.go, regenerated from /repo on every
   run: wire_size, wire_type and elem_const go through them, so a changed entry breaks these proofs). *)
From Coq Require Import List ZArith Bool Lia.
From Coq.Strings Require Import Byte.
From Verif Require Import Base.Bytes Base.BE Wire.TType Wire.WVal Wire.Codec Wire.CodecFacts
  Wire.Schema Wire.Value Wire.Std Wire.StdFacts Wire.Fast Wire.FastFacts Wire.FastReadFacts Wire.FastStdFacts
  Wire.FastBitset Wire.FastBitsetFacts Wire.FastBitsetLink Wire.FastRoundTrip.
Import ListNotations.
Open Scope Z_scope.

(* ---- the tables of consts.go say what Thrift prescribes ---- *)

Theorem C10_wire_type_spec : forall e t, wire_type e t = code (spec_ttype t).
Proof. exact wire_type_spec. Qed.
Print Assumptions C10_wire_type_spec.

Theorem C10_elem_const_spec : forall e t, elem_const e t = code (spec_ttype t).
Proof. exact elem_const_spec. Qed.
Print Assumptions C10_elem_const_spec.

(* ---- BLength is exact: every schema, every struct-like, EVERY value (no typing premise: also unions
        with any number of members set, sets with duplicates, nil pointers anywhere) ---- *)

Theorem C10_blength_exact : forall e s v, blength e s v = Z.of_nat (length (fast_append e s v)).
Proof. exact blength_exact. Qed.
Print Assumptions C10_blength_exact.

(* the same at every type (field payloads, elements, keys) *)
Theorem C10_blength_exact_any_type : forall e v t, bl_val e t v = Z.of_nat (length (fa_val e t v)).
Proof. exact bl_val_exact. Qed.
Print Assumptions C10_blength_exact_any_type.

(* ---- FastAppend writes the binary-protocol encoding of what the standard Write emits, with the
        fields of every struct (at every level) in ascending id order ---- *)

Theorem C10_fast_append_is_std : forall e s v w,
  to_wire e s v = Ok w -> fast_append e s v = enc (sortw w).
Proof. exact fast_append_is_std. Qed.
Print Assumptions C10_fast_append_is_std.

Theorem C10_fast_append_is_std_any_type : forall e v t w,
  to_w e t v = Ok w -> fa_val e t v = enc (sortw w).
Proof. exact fa_val_is_std. Qed.
Print Assumptions C10_fast_append_is_std_any_type.

(* ---- ... and that encoding is read back as the value: for every schema (wf_env), struct-like and
        well-typed value, the bytes of FastAppend are the encoding of a well-formed wire struct w — the
        reference decoder returns it, whatever follows — and the standard generated Read, started from
        NewX(), turns them into the value (its normal form norm_struct: exactly what the standard
        Write/Read round trip of C02 shows) ---- *)

Theorem C10_fast_append_std_read : forall e s v,
  wf_env e = true -> find_struct e (s_name s) = Some s -> wt e s v = true ->
  exists w, wf w /\
    (forall rest, dec_struct (fast_append e s v ++ rest) = Some (w, rest)) /\
    read_new e s w = Ok (norm_struct e s v) /\
    (forall rest, read_bytes e s (new_struct e s) (fast_append e s v ++ rest) = Ok (norm_struct e s v)).
Proof. exact fast_append_std_read. Qed.
Print Assumptions C10_fast_append_std_read.

(* the standard Read does not depend on the order of the fields of a struct, at any level, when the ids of
   each struct are distinct and the read succeeds (why FastAppend may sort them) *)
Theorem C10_std_read_order_independent : forall e w t v,
  uniqb w = true -> from_w e t w = Ok v -> from_w e t (sortw w) = Ok v.
Proof. exact (fun e w => from_w_sortw e w). Qed.
Print Assumptions C10_std_read_order_independent.

(* ---- gopkg's Skip (as transcribed in fskip) consumes exactly a well-formed encoding of at most its
        depth limit ---- *)

Theorem C10_skip_enc : forall x r, wf x -> (depth x <= default_recursion_depth)%nat ->
  fskip_top (code (wtype x)) (enc x ++ r) = FOk (Z.of_nat (length (enc x))).
Proof. exact fskip_top_enc. Qed.
Print Assumptions C10_skip_enc.

(* ---- FastRead = the standard Read. For every schema e (ids unique: wf_env), every struct-like s, every
        start object, and every well-formed wire struct w nested at most 64 deep — whatever schema its
        writer had, so unknown ids and known ids with another wire type are included: on the bytes of w,
        followed by anything,
          the standard Read yields an object        => FastRead yields the same object and has consumed
                                                      exactly the encoding;
          the standard Read reports a missing
          required field                            => FastRead reports a missing required field
                                                      (the same error class; the two readers may name
                                                      different fields: declaration order / id order).
        The third possible answer of the standard model, EHeader (a field the reader knows carries a
        container whose header contradicts the schema), is outside the modelled behaviour of both. ---- *)

Theorem C10_fast_read_eq_std_read : forall e s init wfs rest v,
  wf_env e = true -> wf_struct s = true -> wf (WStruct wfs) ->
  (depth (WStruct wfs) <= default_recursion_depth)%nat ->
  read_bytes e s init (enc (WStruct wfs) ++ rest) = Ok v ->
  fast_read e s init (enc (WStruct wfs) ++ rest) = FOk (v, Z.of_nat (length (enc (WStruct wfs)))).
Proof. exact fast_read_eq_std_read. Qed.
Print Assumptions C10_fast_read_eq_std_read.

Theorem C10_fast_read_required_missing : forall e s init wfs rest id,
  wf_env e = true -> wf_struct s = true -> wf (WStruct wfs) ->
  (depth (WStruct wfs) <= default_recursion_depth)%nat ->
  read_bytes e s init (enc (WStruct wfs) ++ rest) = Err (ERequiredMissing id) ->
  exists id', fast_read e s init (enc (WStruct wfs) ++ rest) = FErr (FRequired id').
Proof. exact fast_read_required_missing. Qed.
Print Assumptions C10_fast_read_required_missing.

(* the same at every type, on wire values: FastRead of a field payload / element / key *)
Theorem C10_fast_read_any_type : forall e, wf_env e = true -> forall w fuel t,
  wf w -> (depth w <= fuel)%nat -> (depth w <= default_recursion_depth)%nat -> wtype w = spec_ttype t ->
  match from_w e t w with
  | Ok v => forall rest, fr_val fuel e t (enc w ++ rest) = FOk (v, rest)
  | Err (ERequiredMissing _) => forall rest, exists id, fr_val fuel e t (enc w ++ rest) = FErr (FRequired id)
  | Err _ => True
  end.
Proof. exact (fun e H w => fr_val_from_w e H w). Qed.
Print Assumptions C10_fast_read_any_type.

(* tolerance: fields the reader must skip do not change the object *)
Theorem C10_fast_read_ignores_unknown : forall e s init wfs rest v,
  wf_env e = true -> wf_struct s = true -> wf (WStruct wfs) ->
  (depth (WStruct wfs) <= default_recursion_depth)%nat ->
  from_wire e s init (WStruct (filter (fun wf => negb (skippable e s wf)) wfs)) = Ok v ->
  fast_read e s init (enc (WStruct wfs) ++ rest) = FOk (v, Z.of_nat (length (enc (WStruct wfs)))).
Proof. exact fast_read_ignores_unknown. Qed.
Print Assumptions C10_fast_read_ignores_unknown.

(* ---- the fast codec end to end. For every schema (wf_env), struct-like and well-typed value whose wire form
        nests at most 64 deep: FastRead, started from NewX(), of the bytes FastAppend wrote — followed by
        anything — yields the value (its normal form: the object the standard Write/Read round trip of C02
        yields) and has consumed exactly BLength() bytes. (The depth premise is inherited from
        fast_read_eq_std_read; no field is skipped here. Sorting the fields keeps the depth: depth_sortw.) ---- *)

Theorem C10_fast_round_trip : forall e s v w,
  wf_env e = true -> find_struct e (s_name s) = Some s -> wt e s v = true ->
  to_wire e s v = Ok w -> (depth w <= default_recursion_depth)%nat ->
  forall rest, fast_read e s (new_struct e s) (fast_append e s v ++ rest) = FOk (norm_struct e s v, blength e s v).
Proof. exact fast_round_trip_depth. Qed.
Print Assumptions C10_fast_round_trip.

(* ---- the required-field bit set (generator/fastgo/bitset.go; model Wire/FastBitset.v, tied to the emitted text
        for n = 0 .. 72 by the correspondence). For EVERY number n of required fields and every collection of
        fields read (any order, repeats allowed): the tests GenIfNotSet emits, run on the words the GenSetbit
        statements produced, report exactly the first added field that was not read; in particular they report
        something iff some required field is unset. ---- *)

Theorem C10_bitset_tests_spec : forall n seen, Forall (fun j => (j < n)%nat) seen ->
  run (state n seen) (gen_if_not_set n) = first_unset n seen.
Proof. exact gen_if_not_set_spec. Qed.
Print Assumptions C10_bitset_tests_spec.

Theorem C10_bitset_tests_fire_iff : forall n seen, Forall (fun j => (j < n)%nat) seen ->
  (exists v, run (state n seen) (gen_if_not_set n) = Some v) <-> (exists i, (i < n)%nat /\ ~ In i seen).
Proof. exact gen_if_not_set_fires_iff. Qed.
Print Assumptions C10_bitset_tests_fire_iff.

(* ... and that is the required-field check of the reader model: fields are added in id order, so the emitted
   code names the first missing required field in id order, which is Fast.fast_first_missing *)
Theorem C10_bitset_is_first_missing : forall s seen,
  wf_struct s = true -> Forall (fun id => In id (req_ids s)) seen ->
  bitset_first_missing s seen = fast_first_missing s seen.
Proof. exact bitset_first_missing_wf. Qed.
Print Assumptions C10_bitset_is_first_missing.

(* ---- truncated input. Every proper prefix of an encoding of a value of the struct itself — every field known
        to the reader and typed as its schema says (conforms: what to_wire produces, StdFacts.to_w_conforms),
        readable — is refused as too short: error class INVALID_DATA, in particular none of the panic
        classes. (For encodings that carry fields the reader must skip this is false: see the refutations
        below.) ---- *)

Theorem C10_fast_read_prefix_error : forall e s fs0 wfs v m,
  wf_env e = true -> find_struct e (s_name s) = Some s -> wf (WStruct wfs) ->
  (depth (WStruct wfs) <= default_recursion_depth)%nat ->
  conforms e (TRef (s_name s)) (WStruct wfs) = true ->
  from_wire e s (VStruct fs0) (WStruct wfs) = Ok v ->
  (m < length (enc (WStruct wfs)))%nat ->
  fast_read e s (VStruct fs0) (firstn m (enc (WStruct wfs))) = FErr FShort.
Proof. exact fast_read_prefix_error. Qed.
Print Assumptions C10_fast_read_prefix_error.

(* the same at every type *)
Theorem C10_fast_read_prefix_error_any_type : forall e, wf_env e = true -> forall w fuel t v,
  wf w -> (depth w <= default_recursion_depth)%nat -> conforms e t w = true -> from_w e t w = Ok v ->
  forall m, (m < length (enc w))%nat -> (m < fuel)%nat -> fr_val fuel e t (firstn m (enc w)) = FErr FShort.
Proof. exact (fun e H w => fr_val_prefix e H w). Qed.
Print Assumptions C10_fast_read_prefix_error_any_type.

(* ---- totality of the model: on EVERY byte string (any truncation, any corruption) and every start
        object fast_read answers with an object or with one of the error classes of the generated code;
        its own out-of-fuel answer is never given. Which of the classes are Go panics (FOverrun, FIndex)
        is stated by the refutations below; that the compiled code does what the model says is the
        correspondence of Corr/C10.v. ---- *)

Theorem C10_fast_read_total : forall e s init bs, fast_read e s init bs <> FErr FFuel.
Proof. exact fast_read_total. Qed.
Print Assumptions C10_fast_read_total.

(* ---- "returns an error instead of panicking" does NOT hold for the unchanged code: two recorded
        findings, both inside gopkg's Skip, exhibited on the model (and on the compiled code by the
        correspondence corpus) ---- *)

(* one corrupted type byte (08 -> ff): Skip indexes typeToSize with a negative TType *)
Theorem C10_fast_read_corrupted_type_byte_refuted :
  exists e s v bs, wt e s v = true /\ fast_append e s v = x08 :: bs /\
                   fast_read e s (new_struct e s) (fast_append e s v) = FOk (v, Z.of_nat (length (fast_append e s v))) /\
                   fast_read e s (new_struct e s) (xff :: bs) = FErr FIndex.
Proof. exact fast_read_corrupted_type_byte_refuted. Qed.
Print Assumptions C10_fast_read_corrupted_type_byte_refuted.

(* a proper prefix of an accepted encoding that carries an unknown map<string,i64> field: Skip reports
   more bytes than its buffer has *)
Theorem C10_fast_read_truncated_refuted :
  exists e s w n, wf w /\ (n < length (enc w))%nat /\
                  (exists v, fast_read e s (new_struct e s) (enc w) = FOk (v, Z.of_nat (length (enc w)))) /\
                  fast_read e s (new_struct e s) (firstn n (enc w)) = FErr FOverrun.
Proof. exact fast_read_truncated_refuted. Qed.
Print Assumptions C10_fast_read_truncated_refuted.

(* one corrupted type byte (0c -> 0d) of an encoding of the struct's own value: the same overrun *)
Theorem C10_fast_read_corrupted_overrun_refuted :
  exists e s v bs, wt e s v = true /\ fast_append e s v = x0c :: bs /\
                   fast_read e s (new_struct e s) (x0d :: bs) = FErr FOverrun.
Proof. exact fast_read_corrupted_overrun_refuted. Qed.
Print Assumptions C10_fast_read_corrupted_overrun_refuted.

(* a container size taken from the input is accepted although nothing follows it: make(T, 2147483647) is
   executed before the first element read fails. The model answers with the error; under a memory limit the
   Go runtime aborts the process instead (recorded finding; the standard generated Read allocates alike) *)
Theorem C10_fast_read_hostile_size_refuted :
  exists e s bs n r,
    fast_read e s (new_struct e s) bs = FErr FShort /\
    rd_list_begin (skipn 3 bs) = FOk (n, r) /\ n = 2147483647 /\ r = [].
Proof. exact fast_read_hostile_size_refuted. Qed.
Print Assumptions C10_fast_read_hostile_size_refuted.
