// c15 produces correspondence cases for property C15 (reflection descriptors describe the IDL).
//
// Every program (hand-written corpus first, then idlgen programs of the Valid envelope) is written
// to a scratch tree and pushed through the real front end as thriftgo does it (ParseFile recursive,
// CircleDetect, CheckAll, ResolveSymbols).  Then
//
//	(a) in process: thrift_reflection.GetFileDescriptor / Marshal / Unmarshal on every file,
//	    RegisterAST and the lookups of descriptor-extend.go / descriptor_lookup.go,
//	    BuildFileDescriptor + the Go-type maps with numbered run-time types;
//	(b) compiled (-thriftgo given): the real thriftgo binary with with_reflection, one scratch
//	    module and driver binary per program, the driver verb c15_dump (gendrv/driver/c15_reflect.go)
//	    dumps what the generated packages registered and checks type <-> descriptor both ways.
//
// One shard per program: the astdump of the program is defined once in the shard's preamble, every
// byte-string literal once in a pool.
//
//	c15 -seed N -tier quick|thorough -out DIR [-thriftgo BIN -repo DIR -scratch DIR]
package main

import (
	"crypto/sha256"
	"encoding/json"
	"flag"
	"fmt"
	"os"
	"path/filepath"
	"sort"
	"strings"
	"time"

	"github.com/cloudwego/thriftgo/parser"

	"verif/harness/astdump"
	"verif/harness/casefile"
	"verif/harness/idlast"
	"verif/harness/idlgen"
	"verif/harness/refldump"
	"verif/harness/rng"
)

type stats struct {
	Evaluations        int            `json:"evaluations"`
	DistinctNontrivial int            `json:"distinct_nontrivial"`
	Rule               string         `json:"rule"`
	Samples            []string       `json:"samples"`
	Programs           int            `json:"programs"`
	ProgramsRejected   int            `json:"programs_rejected_by_front_end"`
	IntendedMismatch   int            `json:"parsed_ast_differs_from_intended"`
	Files              int            `json:"files"`
	Kinds              map[string]int `json:"case_kinds"`
	Shapes             map[string]int `json:"descriptor_shapes"`
	Generator          map[string]int `json:"generator"`
	Lookups            int            `json:"lookups"`
	LookupsFound       int            `json:"lookups_found"`
	LookupsAcrossFiles int            `json:"lookups_found_in_another_file"`
	ParentsFound       int            `json:"parent_services_found"`
	GoTypesRegistered  int            `json:"go_types_registered"`
	GoTypeDuplicates   int            `json:"go_types_given_twice"`
	WireBytes          int            `json:"marshalled_bytes"`
	RoundTripFailures  int            `json:"marshal_roundtrip_failures"`
	Panics             int            `json:"panics"`
	DupBasePrograms    int            `json:"programs_with_same_basename_includes"`
	Compiled           map[string]int `json:"compiled"`
	GeneratorHung      int            `json:"generator_did_not_return"`
	seen               map[string]bool
}

func (s *stats) shape(k string, n int) {
	if n > 0 {
		s.Shapes[k] += n
	}
}

func (s *stats) noteDescriptor(d *refldump.File) {
	s.shape("includes", len(d.Includes))
	s.shape("namespaces", len(d.Namespaces))
	s.shape("services", len(d.Services))
	s.shape("structs", len(d.Structs))
	s.shape("unions", len(d.Unions))
	s.shape("exceptions", len(d.Exceptions))
	s.shape("enums", len(d.Enums))
	s.shape("typedefs", len(d.Typedefs))
	s.shape("consts", len(d.Consts))
	var cv func(c *refldump.CV)
	cv = func(c *refldump.CV) {
		if c == nil {
			return
		}
		s.shape(fmt.Sprintf("const_value.type_%d", c.Type), 1)
		for _, x := range c.List {
			cv(x)
		}
		for _, p := range c.Map {
			cv(p.K)
			cv(p.V)
		}
	}
	an := func(a []refldump.Anno) {
		s.shape("annotation_keys", len(a))
		for _, x := range a {
			if len(x.V) > 1 {
				s.shape("annotation_keys_with_several_values", 1)
			}
		}
	}
	flds := func(fs []*refldump.Field) {
		for _, f := range fs {
			s.shape("fields", 1)
			s.shape("requiredness."+f.Requiredness, 1)
			if f.Default != nil {
				s.shape("field_defaults", 1)
				cv(f.Default)
			}
			if f.Type.Key != nil || f.Type.Value != nil {
				s.shape("container_types", 1)
			}
			if strings.Contains(f.Type.Name, ".") {
				s.shape("qualified_type_names", 1)
			}
			if f.ID <= 0 {
				s.shape("field_ids_not_positive", 1)
			}
			if f.Comments != "" {
				s.shape("comments", 1)
			}
			an(f.Annos)
		}
	}
	for _, l := range [][]*refldump.Struct{d.Structs, d.Unions, d.Exceptions} {
		for _, x := range l {
			flds(x.Fields)
			an(x.Annos)
			if x.Comments != "" {
				s.shape("comments", 1)
			}
		}
	}
	for _, e := range d.Enums {
		an(e.Annos)
		s.shape("enum_values", len(e.Values))
		for _, v := range e.Values {
			an(v.Annos)
			if v.Value < 0 {
				s.shape("enum_values_negative", 1)
			}
		}
	}
	for _, t := range d.Typedefs {
		an(t.Annos)
	}
	for _, c := range d.Consts {
		an(c.Annos)
		cv(c.Value)
	}
	for _, sv := range d.Services {
		an(sv.Annos)
		if sv.Base != "" {
			s.shape("services_with_base", 1)
		}
		for _, m := range sv.Methods {
			s.shape("methods", 1)
			if m.Oneway {
				s.shape("methods_oneway", 1)
			}
			an(m.Annos)
			flds(m.Args)
			flds(m.Throws)
		}
	}
	defs := len(d.Services) + len(d.Structs) + len(d.Unions) + len(d.Exceptions) + len(d.Enums) + len(d.Typedefs) + len(d.Consts)
	if defs > 0 {
		h := fmt.Sprintf("%x", sha256.Sum256([]byte(d.JSON())))
		if !s.seen[h] {
			s.seen[h] = true
			s.DistinctNontrivial++
			if len(s.Samples) < 6 && defs >= 3 {
				s.Samples = append(s.Samples, fmt.Sprintf("%s: %d services, %d structs, %d unions, %d exceptions, %d enums, %d typedefs, %d consts, %d includes",
					d.Filepath, len(d.Services), len(d.Structs), len(d.Unions), len(d.Exceptions), len(d.Enums), len(d.Typedefs), len(d.Consts), len(d.Includes)))
			}
		}
	}
}

func fatal(args ...interface{}) {
	fmt.Fprintln(os.Stderr, args...)
	os.Exit(2)
}

type producer struct {
	pend   []*pending
	sem    chan struct{}
	out    string
	tmp    string
	st     *stats
	shards []string
	total  int
	serial int
	limit  int
}

func writeTree(root string, files map[string]string) {
	for name, text := range files {
		full := filepath.Join(root, filepath.FromSlash(name))
		if err := os.MkdirAll(filepath.Dir(full), 0o755); err != nil {
			fatal(err)
		}
		if err := os.WriteFile(full, []byte(text), 0o644); err != nil {
			fatal(err)
		}
	}
}

const importsLine = "From Verif Require Import Base.Bytes Base.Lit Idl.Ast Idl.Reflect Corr.C15.\n" +
	"From Coq Require Import List NArith ZArith String Uint63.\nImport ListNotations.\nOpen Scope string_scope.\n"

// emit writes the shard of one program.
func (p *producer) emit(key string, prog idlast.Program, cases []*Case, raws *rawPool) {
	if len(cases) == 0 {
		return
	}
	pl := newPool()
	progTerm := pl.intern(prog.Coq())
	terms := make([]string, len(cases))
	for i, c := range cases {
		terms[i] = pl.intern(c.coq)
	}
	pre := importsLine + pl.defs() + raws.text() +
		"Definition P : program :=\n" + progTerm + ".\nDefinition mismatches := mismatches_in P.\n"
	dir := filepath.Join(p.out, key)
	if err := os.MkdirAll(dir, 0o755); err != nil {
		fatal(err)
	}
	w := casefile.New(dir, pre, 1<<30)
	for i, c := range cases {
		if err := w.Add(terms[i], c); err != nil {
			fatal(err)
		}
		p.st.Kinds[c.Via+":"+c.Kind]++
	}
	if err := w.Close(); err != nil {
		fatal(err)
	}
	for _, s := range w.Shards {
		p.shards = append(p.shards, key+"/"+s)
	}
	p.total += w.Total()
	p.st.Evaluations += w.Total()
}

// pending is a program whose in-process cases exist and whose compiled cases may still be running.
type pending struct {
	key   string
	prog  idlast.Program
	cases []*Case
	raws  *rawPool
	comp  chan *compiled
}

// program runs one program (a tree under root) through everything in process and starts the
// compiled part (if asked) on a goroutine; the shard is written by finish.
func (p *producer) program(key, name, root, mainRel string, sources map[string]string, intended idlast.Program, comp *compiler) {
	p.st.Programs++
	main, err := parseTree(root, mainRel)
	if err != nil {
		p.st.ProgramsRejected++
		return
	}
	if intended != nil {
		// the parser must deliver what the generator meant (C03's subject; counted, never ignored)
		got := astdump.Program(main)
		stripComments(got)
		if string(got.JSON()) != string(intended.JSON()) {
			p.st.IntendedMismatch++
			fmt.Fprintf(os.Stderr, "c15: %s: parsed AST differs from the intended AST\n", name)
		}
	}
	if err := semOK(main); err != nil {
		p.st.ProgramsRejected++
		return
	}
	all := files(main)
	p.st.Files += len(all)
	dup := false
	for _, t := range all {
		if dupBasenames(t) {
			dup = true
		}
	}
	if dup {
		p.st.DupBasePrograms++
	}
	raws := &rawPool{}
	ctx := &progCtx{name: name, main: main, all: all, sources: sources, mainRel: mainRel, raws: raws, limit: p.limit, serial: &p.serial, st: p.st}
	pd := &pending{key: key, prog: astdump.Program(main), raws: raws}
	pd.cases = ctx.inProcess()
	if len(pd.cases) > 0 {
		pd.cases[0].Sources = sources
		pd.cases[0].Main = mainRel
	}
	if comp != nil {
		// the tree is copied before the caller removes it
		copyRoot, _ := os.MkdirTemp(p.tmp, "tree")
		if err := copyTree(root, copyRoot); err != nil {
			fatal(err)
		}
		pd.comp = make(chan *compiled, 1)
		p.sem <- struct{}{}
		go func() {
			defer func() { <-p.sem }()
			pd.comp <- comp.run(ctx, key, copyRoot)
		}()
	}
	p.pend = append(p.pend, pd)
}

func (p *producer) finish() {
	for _, pd := range p.pend {
		if pd.comp != nil {
			res := <-pd.comp
			if res.log != "" {
				fmt.Fprint(os.Stderr, res.log)
			}
			for k, v := range res.counters {
				switch k {
				case "panics":
					p.st.Panics += v
				case "lookups":
					p.st.Lookups += v
				case "lookups_found":
					p.st.LookupsFound += v
				case "lookups_found_in_another_file":
					p.st.LookupsAcrossFiles += v
				default:
					p.st.Compiled[k] += v
				}
			}
			pd.cases = append(pd.cases, res.cases...)
		}
		p.emit(pd.key, pd.prog, pd.cases, pd.raws)
	}
}

func stripComments(p idlast.Program) {
	for _, e := range p {
		f := e.File
		flds := func(fs []*idlast.Field) {
			for _, x := range fs {
				x.Comments = ""
			}
		}
		for _, d := range f.Typedefs {
			d.Comments = ""
		}
		for _, c := range f.Constants {
			c.Comments = ""
		}
		for _, en := range f.Enums {
			en.Comments = ""
			for _, v := range en.Values {
				v.Comments = ""
			}
		}
		for _, l := range [][]*idlast.StructLike{f.Structs, f.Unions, f.Exceptions} {
			for _, s := range l {
				s.Comments = ""
				flds(s.Fields)
			}
		}
		for _, s := range f.Services {
			s.Comments = ""
			for _, fn := range s.Functions {
				fn.Comments = ""
				flds(fn.Arguments)
				flds(fn.Throws)
			}
		}
	}
}

func (p *producer) generate(r *rng.R, opt idlgen.Options) *idlgen.Program {
	done := make(chan *idlgen.Program, 1)
	go func() { done <- idlgen.Generate(r, opt) }()
	select {
	case prog := <-done:
		return prog
	case <-time.After(10 * time.Second):
		p.st.GeneratorHung++
		return nil
	}
}

func main() {
	seed := flag.Uint64("seed", 1, "seed")
	tier := flag.String("tier", "quick", "quick|thorough")
	out := flag.String("out", ".", "output directory")
	thriftgo := flag.String("thriftgo", "", "thriftgo binary built from the repo (compiled cases)")
	repo := flag.String("repo", "/repo", "the thriftgo source tree the generated code is compiled against")
	scratch := flag.String("scratch", "", "scratch directory for the compiled cases")
	flag.Parse()
	absOut, _ := filepath.Abs(*out)
	tmp, err := os.MkdirTemp("", "c15-harness-")
	if err != nil {
		fatal(err)
	}
	defer os.RemoveAll(tmp)
	st := &stats{Kinds: map[string]int{}, Shapes: map[string]int{}, Generator: map[string]int{}, Compiled: map[string]int{}, seen: map[string]bool{}}
	p := &producer{out: absOut, tmp: tmp, st: st, limit: 40, sem: make(chan struct{}, 3)}

	nprog, ncomp := 8, 2
	if *tier == "thorough" {
		nprog, ncomp = 80, 12
		p.limit = 60
	}
	var comp *compiler
	if *thriftgo != "" {
		dir := *scratch
		if dir == "" {
			dir = filepath.Join(tmp, "compiled")
		}
		comp = newCompiler(dir, *thriftgo, *repo)
	}

	// ---- corpus
	for i, e := range corpus {
		root, _ := os.MkdirTemp(tmp, "corpus")
		writeTree(root, e.files)
		var c *compiler
		if comp != nil && e.name == "every-kind" {
			c = comp
		}
		p.program(fmt.Sprintf("c%02d", i), "corpus:"+e.name, root, e.main, e.files, nil, c)
	}

	// ---- generated programs
	r := rng.New(*seed)
	compiled := 0
	for i := 0; i < nprog; i++ {
		pr := r.Fork()
		opt := idlgen.Options{Envelope: idlgen.Valid, MaxFiles: 1 + i%5, Size: 3 + i%6}
		prog := p.generate(pr, opt)
		if prog == nil {
			continue
		}
		for k, v := range prog.Stats() {
			st.Generator[k] += v
		}
		root, _ := os.MkdirTemp(tmp, "prog")
		lay := idlgen.RandomLayout(pr)
		if _, err := prog.WriteTree(root, lay); err != nil {
			fatal(err)
		}
		var c *compiler
		if comp != nil && compiled < ncomp && i%2 == 0 {
			c = comp
			compiled++
		}
		name := fmt.Sprintf("idlgen:seed=%d:program=%d:files<=%d:size=%d", *seed, i, opt.MaxFiles, opt.Size)
		p.program(fmt.Sprintf("p%03d", i), name, root, prog.Main(), prog.Render(lay), prog.AST(), c)
		os.RemoveAll(root)
	}

	p.finish()
	if st.IntendedMismatch > 0 {
		fatal("c15: the real parser did not deliver the intended AST for", st.IntendedMismatch, "program(s)")
	}
	st.Rule = "a case is one observation of the real thrift_reflection package on one program: a file descriptor with its marshalled bytes, or a batch of lookups; non-trivial = a file descriptor with at least one definition; distinct = distinct dumped descriptor"
	sort.Strings(p.shards)
	meta := map[string]interface{}{"stats": st, "shards": p.shards, "total": p.total}
	if err := casefile.WriteMeta(absOut, meta); err != nil {
		fatal(err)
	}
	b, _ := json.Marshal(map[string]int{"cases": p.total, "programs": st.Programs, "rejected": st.ProgramsRejected})
	fmt.Println(string(b))
}

var _ = parser.ParseFile
