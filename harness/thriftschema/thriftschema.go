// Package thriftschema is translator T-thrift: it reads .thrift files of /repo with the real
// parser (parser.ParseFile, recursive) and the real semantic pass (semantic.ResolveSymbols) and
// prints the struct-likes and enums they declare as a Coq term of type Wire.Schema.env.
//
// Conventions (those of coq/Wire/Schema.v): typedefs are resolved (a field declared through a
// typedef has f_typedef = true), names are qualified "<file base name without .thrift>.<Name>",
// union fields are Optional, field ids are the effective ids the parser assigned, defaults are
// evaluated to literals of the field's type (enum identifiers to their numeric value, doubles to
// their binary64 bit pattern).  Struct-likes come in the order: files in the order given on the
// command line (each followed by the files it includes, depth first, every file once), inside a
// file structs, then unions, then exceptions, each in source order.
//
// Anything the translator cannot express (a default of struct type, a constant reference as a
// default, an unknown type name) is an error: the translator never guesses.
package thriftschema

import (
	"fmt"
	"math"
	"path/filepath"
	"strings"

	"github.com/cloudwego/thriftgo/parser"
	"github.com/cloudwego/thriftgo/semantic"

	"verif/harness/coqfmt"
)

// Load parses one .thrift file with its includes and resolves its symbols.
func Load(path string, includeDirs []string) (*parser.Thrift, error) {
	ast, err := parser.ParseFile(path, includeDirs, true)
	if err != nil {
		return nil, fmt.Errorf("parse %s: %w", path, err)
	}
	if c := parser.CircleDetect(ast); len(c) > 0 {
		return nil, fmt.Errorf("include circle: %s", c)
	}
	if err := semantic.ResolveSymbols(ast); err != nil {
		return nil, fmt.Errorf("resolve %s: %w", path, err)
	}
	return ast, nil
}

// FileKey is the qualifier used for the definitions of one file.
func FileKey(t *parser.Thrift) string {
	b := filepath.Base(t.Filename)
	return strings.TrimSuffix(b, filepath.Ext(b))
}

type tr struct {
	seen    map[string]bool // by Filename
	keys    map[string]string
	structs []string
	enums   []string
	nS, nE  int
	nF      int
}

// Result is the translated schema.
type Result struct {
	Term                    string // Coq term of type Wire.Schema.env
	Structs, Enums, Fields  int
	Files                   []string
	StructNames, EnumNames  []string
}

// Translate prints the environment of the given (already loaded) files and everything they include.
func Translate(roots []*parser.Thrift) (*Result, error) {
	t := &tr{seen: map[string]bool{}, keys: map[string]string{}}
	res := &Result{}
	var walk func(f *parser.Thrift) error
	walk = func(f *parser.Thrift) error {
		if t.seen[f.Filename] {
			return nil
		}
		t.seen[f.Filename] = true
		key := FileKey(f)
		if other, dup := t.keys[key]; dup {
			return fmt.Errorf("two files share the base name %q: %s and %s", key, other, f.Filename)
		}
		t.keys[key] = f.Filename
		res.Files = append(res.Files, f.Filename)
		for _, e := range f.Enums {
			var vs []string
			for _, v := range e.Values {
				vs = append(vs, "("+coqfmt.Bytes(v.Name)+", "+coqfmt.Z(v.Value)+")")
			}
			t.enums = append(t.enums, fmt.Sprintf("(mkenum %s %s)", coqfmt.Bytes(key+"."+e.Name), coqfmt.List(vs)))
			res.EnumNames = append(res.EnumNames, key+"."+e.Name)
		}
		for _, s := range f.GetStructLikes() {
			term, err := t.structLike(f, s)
			if err != nil {
				return fmt.Errorf("%s: %s %s: %w", f.Filename, s.Category, s.Name, err)
			}
			t.structs = append(t.structs, term)
			res.StructNames = append(res.StructNames, key+"."+s.Name)
		}
		for _, inc := range f.Includes {
			if inc.Reference == nil {
				return fmt.Errorf("%s: include %q was not parsed", f.Filename, inc.Path)
			}
			if err := walk(inc.Reference); err != nil {
				return err
			}
		}
		return nil
	}
	for _, r := range roots {
		if err := walk(r); err != nil {
			return nil, err
		}
	}
	res.Term = "(mkenv\n  [ " + strings.Join(t.structs, ";\n    ") + " ]\n  [ " + strings.Join(t.enums, ";\n    ") + " ])"
	res.Structs, res.Enums, res.Fields = len(t.structs), len(t.enums), t.nF
	return res, nil
}

func (t *tr) structLike(f *parser.Thrift, s *parser.StructLike) (string, error) {
	kind := map[string]string{"struct": "KStruct", "union": "KUnion", "exception": "KException"}[s.Category]
	if kind == "" {
		return "", fmt.Errorf("unknown struct-like category %q", s.Category)
	}
	var fs []string
	for _, fd := range s.Fields {
		ty, viaTypedef, rt, err := t.typ(f, fd.Type)
		if err != nil {
			return "", fmt.Errorf("field %s: %w", fd.Name, err)
		}
		req := map[parser.FieldType]string{parser.FieldType_Default: "Default", parser.FieldType_Required: "Required", parser.FieldType_Optional: "Optional"}[fd.Requiredness]
		if s.Category == "union" {
			req = "Optional"
		}
		def := "None"
		if fd.Default != nil {
			l, err := t.lit(rt, fd.Default)
			if err != nil {
				return "", fmt.Errorf("field %s default: %w", fd.Name, err)
			}
			def = "(Some " + l + ")"
		}
		fs = append(fs, fmt.Sprintf("(mkfield %s %s %s %s %s %s)", coqfmt.Z(int64(fd.ID)), coqfmt.Bytes(fd.Name), req, ty, def, coqfmt.Bool(viaTypedef)))
		t.nF++
	}
	return fmt.Sprintf("(mkstruct %s %s\n      %s)", coqfmt.Bytes(FileKey(f)+"."+s.Name), kind, "["+strings.Join(fs, ";\n       ")+"]"), nil
}

// rtype is a resolved type kept beside the Coq text so that defaults can be evaluated.
type rtype struct {
	kind     string // bool byte i16 i32 i64 double string binary enum struct list set map
	enumFile *parser.Thrift
	enum     *parser.Enum
	key, val *rtype
}

func (t *tr) typ(f *parser.Thrift, ty *parser.Type) (coq string, viaTypedef bool, r *rtype, err error) {
	if ty == nil {
		return "", false, nil, fmt.Errorf("missing type")
	}
	switch ty.Name {
	case "bool":
		return "TBool", false, &rtype{kind: "bool"}, nil
	case "byte", "i8":
		return "TByte", false, &rtype{kind: "byte"}, nil
	case "i16":
		return "TI16", false, &rtype{kind: "i16"}, nil
	case "i32":
		return "TI32", false, &rtype{kind: "i32"}, nil
	case "i64":
		return "TI64", false, &rtype{kind: "i64"}, nil
	case "double":
		return "TDouble", false, &rtype{kind: "double"}, nil
	case "string":
		return "TString", false, &rtype{kind: "string"}, nil
	case "binary":
		return "TBinary", false, &rtype{kind: "binary"}, nil
	case "list", "set":
		c, _, e, err := t.typ(f, ty.ValueType)
		if err != nil {
			return "", false, nil, err
		}
		ctor := map[string]string{"list": "TList", "set": "TSet"}[ty.Name]
		return "(" + ctor + " " + c + ")", false, &rtype{kind: ty.Name, val: e}, nil
	case "map":
		kc, _, k, err := t.typ(f, ty.KeyType)
		if err != nil {
			return "", false, nil, err
		}
		vc, _, v, err := t.typ(f, ty.ValueType)
		if err != nil {
			return "", false, nil, err
		}
		return "(TMap " + kc + " " + vc + ")", false, &rtype{kind: "map", key: k, val: v}, nil
	}
	// a name: typedef, enum or struct-like, possibly in an included file
	home, name := f, ty.Name
	if ty.Reference != nil {
		idx := int(ty.Reference.Index)
		if idx < 0 || idx >= len(f.Includes) || f.Includes[idx].Reference == nil {
			return "", false, nil, fmt.Errorf("type %q: bad include index %d", ty.Name, idx)
		}
		home, name = f.Includes[idx].Reference, ty.Reference.Name
	}
	if td, ok := home.GetTypedef(name); ok {
		c, _, r, err := t.typ(home, td.Type)
		return c, true, r, err
	}
	if e, ok := home.GetEnum(name); ok {
		return "(TEnum " + coqfmt.Bytes(FileKey(home)+"."+name) + ")", false, &rtype{kind: "enum", enumFile: home, enum: e}, nil
	}
	for _, s := range home.GetStructLikes() {
		if s.Name == name {
			return "(TRef " + coqfmt.Bytes(FileKey(home)+"."+name) + ")", false, &rtype{kind: "struct"}, nil
		}
	}
	return "", false, nil, fmt.Errorf("type %q not found in %s", ty.Name, home.Filename)
}

func (t *tr) lit(r *rtype, c *parser.ConstValue) (string, error) {
	if c == nil || c.TypedValue == nil {
		return "", fmt.Errorf("empty constant")
	}
	tv := c.TypedValue
	switch r.kind {
	case "bool":
		switch c.Type {
		case parser.ConstType_ConstInt:
			return "(LBool " + coqfmt.Bool(tv.GetInt() != 0) + ")", nil
		case parser.ConstType_ConstIdentifier:
			switch tv.GetIdentifier() {
			case "true":
				return "(LBool true)", nil
			case "false":
				return "(LBool false)", nil
			}
		}
	case "byte", "i16", "i32", "i64":
		if c.Type == parser.ConstType_ConstInt {
			return "(LInt " + coqfmt.Z(tv.GetInt()) + ")", nil
		}
	case "double":
		switch c.Type {
		case parser.ConstType_ConstInt:
			return fmt.Sprintf("(LDbl %d%%Z)", math.Float64bits(float64(tv.GetInt()))), nil
		case parser.ConstType_ConstDouble:
			return fmt.Sprintf("(LDbl %d%%Z)", math.Float64bits(tv.GetDouble())), nil
		}
	case "string":
		if c.Type == parser.ConstType_ConstLiteral {
			return "(LStr " + coqfmt.Bytes(tv.GetLiteral()) + ")", nil
		}
	case "binary":
		if c.Type == parser.ConstType_ConstLiteral {
			return "(LBin " + coqfmt.Bytes(tv.GetLiteral()) + ")", nil
		}
	case "enum":
		switch c.Type {
		case parser.ConstType_ConstInt:
			return "(LInt " + coqfmt.Z(tv.GetInt()) + ")", nil
		case parser.ConstType_ConstIdentifier:
			id := tv.GetIdentifier()
			if i := strings.LastIndex(id, "."); i >= 0 {
				id = id[i+1:]
			}
			for _, v := range r.enum.Values {
				if v.Name == id {
					return "(LInt " + coqfmt.Z(v.Value) + ")", nil
				}
			}
		}
	case "list", "set":
		if c.Type == parser.ConstType_ConstList {
			var items []string
			for _, x := range tv.GetList() {
				s, err := t.lit(r.val, x)
				if err != nil {
					return "", err
				}
				items = append(items, s)
			}
			return "(LList " + coqfmt.List(items) + ")", nil
		}
	case "map":
		if c.Type == parser.ConstType_ConstMap {
			var items []string
			for _, kv := range tv.GetMap() {
				k, err := t.lit(r.key, kv.Key)
				if err != nil {
					return "", err
				}
				v, err := t.lit(r.val, kv.Value)
				if err != nil {
					return "", err
				}
				items = append(items, "("+k+", "+v+")")
			}
			return "(LMap " + coqfmt.List(items) + ")", nil
		}
	}
	return "", fmt.Errorf("a %v constant as default of a %s field is outside what T-thrift translates", c.Type, r.kind)
}

// CoqFile wraps a translated environment into a complete .v file defining [name : env].
func CoqFile(name string, sources []string, res *Result) string {
	var b strings.Builder
	fmt.Fprintf(&b, "(* GENERATED by translator T-thrift (harness/cmd/translate-thrift) — do not edit.\n")
	fmt.Fprintf(&b, "   Sources (read with the real parser + semantic.ResolveSymbols): %s\n", strings.Join(sources, ", "))
	fmt.Fprintf(&b, "   %d struct-likes, %d fields, %d enums.  Typedefs resolved; names qualified \"<file>.<Name>\". *)\n", res.Structs, res.Fields, res.Enums)
	b.WriteString("From Coq Require Import List ZArith String.\nFrom Verif Require Import Base.Bytes Wire.Schema.\nImport ListNotations.\nOpen Scope string_scope.\nOpen Scope Z_scope.\n\n")
	fmt.Fprintf(&b, "Definition %s : env :=\n%s.\n\n", name, res.Term)
	var sn, en []string
	for _, s := range res.StructNames {
		sn = append(sn, coqfmt.Bytes(s))
	}
	for _, s := range res.EnumNames {
		en = append(en, coqfmt.Bytes(s))
	}
	fmt.Fprintf(&b, "Definition %s_struct_names : list bytes := %s.\n", name, coqfmt.List(sn))
	fmt.Fprintf(&b, "Definition %s_enum_names : list bytes := %s.\n", name, coqfmt.List(en))
	return b.String()
}
