(* Idl/ResolveService.v — the analogue of [occ_good] for base services: the Reference of a
   resolved service is the include [spec_include is_service_kind] chooses. *)
From Coq Require Import List Bool Arith Lia NArith ZArith Permutation.
From Coq.Strings Require Import Byte.
From Verif Require Import Base.Bytes Idl.Ast Idl.AstUtil Idl.AstFacts Idl.Resolve Idl.ResolveSpec Idl.ResolveTd
     Idl.ResolveLemmas Idl.ResolveInv Idl.ResolveConst Idl.ResolveProg Idl.ResolvableSpec Idl.ResolveComplete.
Import ListNotations.
Local Open Scope resolve_scope.

(* what the property says about the base service of one resolved service [sv] of file [fn] *)
Definition sv_good (p : program) (fn : bytes) (f : file) (sv : service) : Prop :=
  match split_type (sv_extends sv) with
  | [a] => def_of p fn a = Some DkService /\ sv_ref sv = None
  | [pre; m] => exists i gn,
      spec_include p is_service_kind pre m (file_incs f) 0 = Some (i, gn) /\
      def_of p gn m = Some DkService /\ sv_ref sv = Some (Ref m (Z.of_nat i))
  | _ => sv_ref sv = None
  end.

Lemma dkind_service k : is_service_kind k = true -> k = DkService.
Proof. destruct k as [t| |vs|s|]; cbn; try discriminate; [destruct s; discriminate | reflexivity]. Qed.

Lemma resolve_base_good p done fn f n2c tds1 sv r :
  inv p done -> prog_file p fn = Some f ->
  (forall i, In i (f_includes f) -> exists hn, in_ref i = Some hn /\ lookup hn done <> None) ->
  register (file_def_names f) [] = Ok n2c ->
  resolve_base done (cur1 f n2c tds1) sv = Ok r ->
  sv_good p fn f (Service (sv_name sv) (sv_extends sv) (sv_functions sv) (sv_annos sv) r (sv_comments sv)).
Proof.
  intros Hinv Hf Htg Hreg H. unfold resolve_base in H. unfold sv_good. cbn [sv_extends sv_ref].
  destruct (split_type (sv_extends sv)) as [|a [|m [|? ?]]] eqn:Ss; try (injection H as <-; reflexivity).
  - rewrite (cur_lookup p fn f Hf n2c Hreg tds1) in H. destruct (def_of p fn a) as [k|] eqn:Dk; [|discriminate].
    cbn [option_map] in H. destruct k as [t| |vs|s|]; cbn in H; try discriminate; [destruct s; discriminate|].
    injection H as <-. auto.
  - destruct (find_include done is_service_cat a m (f_includes (cur1 f n2c tds1)) 0) as [[idx c]|] eqn:Fi; [|discriminate].
    injection H as <-.
    destruct (cur_find_include p done f Hinv Htg n2c tds1 is_service_cat is_service_kind a m idx c (fun k => eq_refl) Fi) as (gn & k & Hs & Dk & _).
    destruct (spec_include_nth _ _ _ _ _ _ _ _ Hs) as (_ & _ & (k' & Dk' & Tk)).
    rewrite Dk in Dk'. injection Dk' as <-. rewrite (dkind_service k Tk) in Dk. exists idx, gn. auto.
Qed.

Lemma resolve_file_services p done fn f f' :
  inv p done -> prog_file p fn = Some f ->
  (forall i, In i (f_includes f) -> exists hn, in_ref i = Some hn /\ lookup hn done <> None) ->
  resolve_file_in done f = Ok f' -> Forall (sv_good p fn f) (f_services f').
Proof.
  intros Hinv Hf Htg H. unfold resolve_file_in in H. inv_bind H. injection H as <-.
  cbn [with_includes f_services]. rewrite Forall_forall. intros sv2 Hin.
  destruct (Forall2_In_r_ex _ _ _ _ (two_mapM _ _ _ _ _ E5 E12) Hin) as (sv & sv1 & H1 & H2).
  unfold resolve_service in H1. inv_bind H1. injection H1 as <-.
  unfold fix_service in H2. inv_bind H2. injection H2 as <-. cbn [sv_name sv_extends sv_annos sv_ref sv_comments sv_functions] in *.
  pose proof (resolve_base_good p done fn f x x0 sv x14 Hinv Hf Htg E E14) as G.
  unfold sv_good in *. cbn [sv_extends sv_ref] in *. exact G.
Qed.

Definition svc_inv (p done : program) : Prop :=
  forall gn g', lookup gn done = Some g' -> exists g, prog_file p gn = Some g /\ Forall (sv_good p gn g) (f_services g').

Lemma resolve_rec_svc p : forall fuel done fn done',
  inv p done -> svc_inv p done -> resolve_rec fuel p done fn = Ok done' -> svc_inv p done'.
Proof.
  induction fuel as [|k IH]; intros done fn done' Hinv Hsv H.
  - cbn [resolve_rec] in H. destruct (lookup fn done); [|discriminate]. injection H as <-. exact Hsv.
  - rewrite resolve_rec_unfold in H. destruct (lookup fn done) eqn:L; [injection H as <-; exact Hsv|].
    destruct (prog_file p fn) as [f|] eqn:Pf; [|discriminate]. inv_bind H. rename x into done1.
    assert (Hgo : forall incs d d1, inv p d -> svc_inv p d -> go_includes k p incs d = Ok d1 ->
              inv p d1 /\ svc_inv p d1 /\ extends d d1 /\
              forall i, In i incs -> exists hn, in_ref i = Some hn /\ lookup hn d1 <> None).
    { induction incs as [|i incs IHi]; intros d d1 Hd Hs Hg; cbn [go_includes] in Hg.
      - injection Hg as <-. split; [exact Hd|]. split; [exact Hs|]. split; [apply extends_refl | intros i []].
      - destruct (in_ref i) as [g|] eqn:Ri; [|discriminate]. inv_bind Hg.
        destruct (resolve_rec_inv p _ _ _ _ Hd E0) as (I1 & X1 & L1). pose proof (IH _ _ _ Hd Hs E0) as S1.
        destruct (IHi _ _ I1 S1 Hg) as (I2 & S2 & X2 & L2).
        split; [exact I2|]. split; [exact S2|]. split; [eapply extends_trans; eauto|].
        intros j [<-|Hj]; [|apply L2; exact Hj]. exists g. split; [exact Ri|]. eapply extends_some; eauto. }
    destruct (Hgo _ _ _ Hinv Hsv E) as (I1 & S1 & X1 & T1).
    destruct (lookup fn done1) eqn:L1; [discriminate|]. inv_bind H. injection H as <-.
    pose proof (resolve_file_services p done1 fn f x I1 Pf T1 E0) as G.
    intros gn g' Hl. cbn [lookup] in Hl. destruct (beqb gn fn) eqn:Eg.
    + apply beqb_true in Eg. subst. injection Hl as <-. eauto.
    + exact (S1 gn g' Hl).
Qed.

(* every service of every resolved file: its Reference is what the specification chooses *)
Theorem resolve_service_ref p r :
  parsed_program p = true -> resolve_program p = Ok r ->
  forall fn f' sv, prog_file r fn = Some f' -> f_name2cat f' <> None -> In sv (f_services f') ->
  exists f, prog_file p fn = Some f /\ sv_good p fn f sv.
Proof.
  intros Hp H fn f' sv Hf Hn Hin. unfold resolve_program in H. destruct p as [|[mainfn mf] p'] eqn:Ep; [injection H as <-; discriminate|].
  rewrite <- Ep in *. inv_bind H. injection H as <-. rename x into done.
  assert (Hs0 : svc_inv p []) by (intros ? ? Hl; discriminate).
  pose proof (resolve_rec_svc p _ _ _ _ (inv_nil p) Hs0 E) as Hsv.
  unfold prog_file in Hf. rewrite lookup_map_done in Hf.
  destruct (lookup fn p) as [f|] eqn:Lf; [|discriminate]. injection Hf as Hf.
  destruct (lookup fn done) as [f2|] eqn:Ld.
  - subst f2. destruct (Hsv fn f' Ld) as (g & Hg & Hall). rewrite Forall_forall in Hall. exists g. auto.
  - subst f'. pose proof (parsed_file p fn f Hp Lf) as Hu. unfold unresolved_file in Hu.
    destruct (f_name2cat f); [discriminate | congruence].
Qed.
