(* Idl/ResolveDeref.v — the specification is functional; semantic.Deref on a resolved
   program arrives at the definition a type name denotes. *)
From Coq Require Import List Bool Arith Lia NArith ZArith Permutation.
From Coq.Strings Require Import Byte.
From Verif Require Import Base.Bytes Idl.Ast Idl.AstUtil Idl.AstFacts Idl.Resolve Idl.ResolveSpec Idl.ResolveTd
     Idl.ResolveLemmas Idl.ResolveInv Idl.ResolveProg.
Import ListNotations.
Local Open Scope resolve_scope.

Scheme def_denotes_min := Minimality for def_denotes Sort Prop
  with name_denotes_min := Minimality for name_denotes Sort Prop.
Combined Scheme denotes_mutind from def_denotes_min, name_denotes_min.

(* a name denotes at most one thing *)
Lemma denotes_fun p :
  (forall fn n d, def_denotes p fn n d -> forall d', def_denotes p fn n d' -> d = d') /\
  (forall fn n d, name_denotes p fn n d -> forall d', name_denotes p fn n d' -> d = d').
Proof.
  apply denotes_mutind.
  - intros fn n vs H d' H'. inversion H'; subst; congruence.
  - intros fn n k H d' H'. inversion H'; subst; congruence.
  - intros fn n tgt d H _ IH d' H'. inversion H'; subst; try congruence.
    match goal with H2 : def_of p fn n = Some (DkTypedef ?t) |- _ => assert (t = tgt) by congruence; subst end. auto.
  - intros fn n c H d' H'. inversion H'; subst; congruence.
  - intros fn n a d Hb Hs _ IH d' H'. inversion H'; subst; try congruence.
    match goal with H2 : split_type n = [?x] |- _ => assert (x = a) by congruence; subst end. auto.
  - intros fn f n pre m i gn d Hb Hs Hf Hi _ IH d' H'. inversion H'; subst; try congruence.
    match goal with H2 : split_type n = [?x; ?y] |- _ => assert (x = pre /\ y = m) as (-> & ->) by (split; congruence) end.
    match goal with H2 : prog_file p fn = Some ?x |- _ => assert (x = f) by congruence; subst end.
    match goal with H2 : spec_include _ _ _ _ _ _ = Some (_, ?x) |- _ => assert (x = gn) by congruence; subst end. auto.
Qed.

Definition def_denotes_fun p := proj1 (denotes_fun p).
Definition name_denotes_fun p := proj2 (denotes_fun p).

(* ---------------------------------------------------------------- Deref *)

(* [deref] on [t] in file [g'] of the resolved program [r] arrives at [d] *)
Definition deref_to (r : program) (g' : file) (t : ty) (d : tdef) : Prop :=
  exists fuel0 h' t',
    (forall fuel, fuel0 <= fuel -> deref fuel r g' t = Ok (h', t')) /\
    ty_category t' = kind d /\ ty_ref t' = None /\ ty_is_typedef t' <> Some true /\
    match d with
    | TBuiltin c => builtin_category (ty_name t') = Some c
    | TEnum gn m | TStruct gn m _ => prog_file r gn = Some h' /\ ty_name t' = m
    end.

Section Deref.
  Variables (p done r : program).
  Hypothesis Hinv : inv p done.
  Hypothesis Hr : forall gn g', lookup gn done = Some g' -> prog_file r gn = Some g'.

  Lemma good_find_typedef gn g g' m tgt :
    good p done gn g g' -> lookup m (file_defs g) = Some (DkTypedef tgt) ->
    exists td', find_typedef g' m = Some td' /\ ty_name (td_type td') = tgt /\ occ_good p gn g (td_type td').
  Proof.
    intros Gd Hl. destruct (find_typedef g' m) as [td'|] eqn:Ft.
    - destruct (good_typedef _ _ _ _ _ _ _ Gd Ft) as (Hl' & Ho). exists td'. split; [reflexivity|].
      split; [congruence | exact Ho].
    - exfalso. unfold find_typedef in Ft. apply find_by_none in Ft. apply Ft.
      assert (E : map td_alias (f_typedefs g') = map td_alias (f_typedefs g)).
      { eapply Forall2_map_eq; [exact (gd_tds _ _ _ _ _ Gd)|]. intros x y (Ha & _). exact Ha. }
      rewrite E. apply lookup_In in Hl. unfold file_defs in Hl.
      apply in_app_or in Hl. destruct Hl as [Hl|Hl].
      + apply in_map_iff in Hl. destruct Hl as (td & [= <- _] & Hin). apply in_map. exact Hin.
      + exfalso. repeat (apply in_app_or in Hl; destruct Hl as [Hl|Hl]);
          apply in_map_iff in Hl; destruct Hl as (? & [= _ ?] & _).
  Qed.

  (* what a definition of a resolved file offers to Deref *)
  Definition def_yields (gn : bytes) (g g' : file) (m : bytes) (d : tdef) : Prop :=
    (exists vs, lookup m (file_defs g) = Some (DkEnum vs) /\ d = TEnum gn m) \/
    (exists k, lookup m (file_defs g) = Some (DkStruct k) /\ d = TStruct gn m k) \/
    (exists tgt td', lookup m (file_defs g) = Some (DkTypedef tgt) /\ find_typedef g' m = Some td' /\
                     deref_to r g' (td_type td') d).

  Lemma deref_denotes :
    (forall gn m d, def_denotes p gn m d ->
       forall g g', prog_file p gn = Some g -> lookup gn done = Some g' -> good p done gn g g' ->
       def_yields gn g g' m d) /\
    (forall fn n d, name_denotes p fn n d ->
       forall g g' t, prog_file p fn = Some g -> lookup fn done = Some g' -> good p done fn g g' ->
       occ_good p fn g t -> ty_name t = n -> deref_to r g' t d).
  Proof.
    apply denotes_mutind.
    - intros gn m vs H g g' Hg Hl Gd. left. exists vs. rewrite <- (def_of_file p gn g m Hg). auto.
    - intros gn m k H g g' Hg Hl Gd. right. left. exists k. rewrite <- (def_of_file p gn g m Hg). auto.
    - intros gn m tgt d H _ IH g g' Hg Hl Gd. right. right. rewrite (def_of_file p gn g m Hg) in H.
      destruct (good_find_typedef gn g g' m tgt Gd H) as (td' & Ft & Hn & Ho).
      exists tgt, td'. split; [exact H|]. split; [exact Ft|]. exact (IH g g' _ Hg Hl Gd Ho Hn).
    - (* builtin *)
      intros fn n c Hb g g' t Hg Hl Gd Ho Hn. unfold occ_good in Ho. rewrite Hn, Hb in Ho.
      destruct Ho as (Hc & Hr0 & Ht). exists 1, g', t. split.
      + intros [|k] Hle; [lia|]. cbn [deref]. rewrite Hr0, Ht. reflexivity.
      + rewrite Hn. repeat split; auto. rewrite Ht. discriminate.
    - (* local *)
      intros fn n a d Hb Hs Hd IH g g' t Hg Hl Gd Ho Hn. unfold occ_good in Ho. rewrite Hn, Hb, Hs in Ho.
      destruct Ho as (k & d0 & Hk & _ & Hd0 & Hc & Hr0 & Ht).
      pose proof (def_denotes_fun p _ _ _ Hd0 _ Hd) as ->.
      pose proof (split_type_single _ _ Hs) as ->. rewrite (def_of_file p fn g n Hg) in Hk.
      destruct (IH g g' Hg Hl Gd) as [(vs & Hlk & ->)|[(s & Hlk & ->)|(tgt & td' & Hlk & Ft & Hdt)]];
        rewrite Hk in Hlk; injection Hlk as ->.
      + exists 1, g', t. split.
        * intros [|k] Hle; [lia|]. cbn [deref]. rewrite Hr0, Ht. reflexivity.
        * repeat split; auto. rewrite Ht. discriminate.
      + exists 1, g', t. split.
        * intros [|k] Hle; [lia|]. cbn [deref]. rewrite Hr0, Ht. cbn. destruct s; reflexivity.
        * repeat split; auto. rewrite Ht. cbn. destruct s; discriminate.
      + destruct Hdt as (fuel0 & h' & t' & Hrun & Hrest). exists (S fuel0), h', t'. split; [|exact Hrest].
        intros [|k] Hle; [lia|]. cbn [deref]. rewrite Hr0, Ht. cbn [typedef_flag dkind_cat is_typedef_cat].
        rewrite Hn, Ft. apply Hrun. lia.
    - (* qualified *)
      intros fn f n pre m i gn d Hb Hs Hf Hsi Hd IH g g' t Hg Hl Gd Ho Hn.
      assert (f = g) by congruence. subst f.
      unfold occ_good in Ho. rewrite Hn, Hb, Hs in Ho.
      destruct Ho as (i0 & gn0 & k & d0 & Hsi0 & Hk & Hd0 & Hc & Hr0 & Ht).
      rewrite Hsi in Hsi0. injection Hsi0 as <- <-.
      pose proof (def_denotes_fun p _ _ _ Hd0 _ Hd) as ->.
      destruct (spec_include_nth _ _ _ _ _ _ _ _ Hsi) as (_ & Hnth & _). rewrite Nat.sub_0_r in Hnth.
      unfold file_incs in Hnth. rewrite nth_error_map in Hnth.
      destruct (nth_error (f_includes g) i) as [x|] eqn:Nx; [|discriminate]. cbn [option_map] in Hnth.
      injection Hnth as _ Hrx.
      (* the same include in the resolved file *)
      assert (Nx' : exists x', nth_error (f_includes g') i = Some x' /\ in_ref x' = Some gn).
      { pose proof (gd_incs _ _ _ _ _ Gd) as E.
        assert (E2 : nth_error (map (fun i => (in_path i, in_ref i)) (f_includes g')) i = Some (in_path x, in_ref x))
          by (rewrite E, nth_error_map, Nx; reflexivity).
        rewrite nth_error_map in E2. destruct (nth_error (f_includes g') i) as [x'|]; [|discriminate].
        injection E2 as _ E3. exists x'. split; [reflexivity | congruence]. }
      destruct Nx' as (x' & Nx' & Hrx').
      destruct (gd_targets _ _ _ _ _ Gd x (nth_error_In _ _ Nx)) as (hn & Hrn & Hln).
      assert (hn = gn) by congruence. subst hn.
      destruct (lookup gn done) as [h'|] eqn:Lh; [|congruence]. clear Hln.
      destruct (Hinv gn h' Lh) as (h & Hh & Gh).
      assert (Tgt : reference_target r g' (Ref m (Z.of_nat i)) = Some h').
      { unfold reference_target. cbn [ref_index]. rewrite nth_include_nat, Nx'. unfold include_target. rewrite Hrx'.
        apply Hr. exact Lh. }
      assert (Hn2c : exists mm, f_name2cat h' = Some mm /\ forall a, lookup a mm = option_map dkind_cat (lookup a (file_defs h))).
      { pose proof (gd_resolved _ _ _ _ _ Gh) as Hres. pose proof (gd_n2c _ _ _ _ _ Gh) as Hn2. unfold n2c_of in Hn2.
        destruct (f_name2cat h') as [mm|]; [|congruence]. eauto. }
      destruct Hn2c as (mm & Hmm & Hlm).
      destruct (IH h h' Hh eq_refl Gh) as [(vs & Hlk & ->)|[(s & Hlk & ->)|(tgt & td' & Hlk & Ft & Hdt)]].
      + exists 1, h', (Ty m None None [] [] CatEnum None None). split.
        * intros [|k0] Hle; [lia|]. cbn [deref]. rewrite Hr0, Tgt, Hmm. cbn [ref_name]. rewrite Hlm, Hlk. reflexivity.
        * cbn. repeat split; auto; try discriminate.
      + exists 1, h', (Ty m None None [] [] (sl_kind_category s) None None). split.
        * intros [|k0] Hle; [lia|]. cbn [deref]. rewrite Hr0, Tgt, Hmm. cbn [ref_name]. rewrite Hlm, Hlk.
          cbn. destruct s; reflexivity.
        * cbn. repeat split; auto; try discriminate.
      + destruct Hdt as (fuel0 & h2 & t' & Hrun & Hrest). exists (S fuel0), h2, t'. split; [|exact Hrest].
        intros [|k0] Hle; [lia|]. cbn [deref]. rewrite Hr0, Tgt, Hmm. cbn [ref_name]. rewrite Hlm, Hlk.
        cbn [option_map dkind_cat]. rewrite Ft. apply Hrun. lia.
  Qed.
End Deref.
