package main

import (
	"encoding/hex"
	"encoding/json"
	"fmt"
	"reflect"

	"github.com/apache/thrift/lib/go/thrift"
)

// Core verbs (property C02; reused by the others):
//
//	shape  <unit> <struct>                      -> {"fields":[{"name","id","req","kind","getter","isset"}...]}
//	write  <unit> <struct> <value JSON>         -> {"err":class,"bytes":hex}
//	read   <unit> <struct> <hex> <new|zero>     -> {"err":class,"dump":value,"getters":[[id,value]...],
//	                                                "isset":[[id,bool]...],"rest":n,"rewrite":{"err","bytes"}}
//
// Write/Read go through thrift.NewTBinaryProtocolTransport over a TMemoryBuffer.

type writer interface {
	Write(thrift.TProtocol) error
}
type reader interface {
	Read(thrift.TProtocol) error
}

// WriteBinary runs x.Write over a fresh memory buffer.
func WriteBinary(x interface{}) (string, []byte) {
	buf := thrift.NewTMemoryBuffer()
	prot := thrift.NewTBinaryProtocolTransport(buf)
	err := x.(writer).Write(prot)
	return Classify(err), append([]byte{}, buf.Bytes()...)
}

// ReadBinary runs x.Read on the bytes; returns the class and the number of unread bytes.
func ReadBinary(x interface{}, bs []byte) (string, int) {
	buf := thrift.NewTMemoryBuffer()
	buf.Write(bs)
	prot := thrift.NewTBinaryProtocolTransport(buf)
	err := x.(reader).Read(prot)
	return Classify(err), buf.Len()
}

func observeWrite(x interface{}) (res map[string]interface{}) {
	defer func() {
		if r := recover(); r != nil {
			res = map[string]interface{}{"err": "panic", "bytes": "", "msg": fmt.Sprint(r)}
		}
	}()
	cls, bs := WriteBinary(x)
	return map[string]interface{}{"err": cls, "bytes": hex.EncodeToString(bs)}
}

func init() {
	RegisterCommand("shape", func(a []string) interface{} {
		x := New(a[0], a[1])
		t := reflect.TypeOf(x).Elem()
		pt := reflect.TypeOf(x)
		var fs []map[string]interface{}
		for _, f := range ThriftFields(t) {
			_, hasG := pt.MethodByName("Get" + f.Go)
			_, hasI := pt.MethodByName("IsSet" + f.Go)
			fs = append(fs, map[string]interface{}{"name": f.Name, "id": f.ID, "req": f.Req,
				"kind": Kind(t.Field(f.Index).Type), "getter": hasG, "isset": hasI})
		}
		return map[string]interface{}{"fields": fs}
	})

	RegisterCommand("write", func(a []string) interface{} {
		x := New(a[0], a[1])
		// start from the zero object so that exactly the given slots are what Write sees
		x = reflect.New(reflect.TypeOf(x).Elem()).Interface()
		Fill(reflect.ValueOf(x).Elem(), ParseValue(a[2]))
		return observeWrite(x)
	})

	RegisterCommand("read", func(a []string) interface{} {
		var x interface{}
		if len(a) > 3 && a[3] == "zero" {
			x = NewZero(a[0], a[1])
		} else {
			x = New(a[0], a[1])
		}
		bs, err := hex.DecodeString(a[2])
		if err != nil {
			panic(err)
		}
		cls, rest := ReadBinary(x, bs)
		res := map[string]interface{}{"err": cls, "rest": rest}
		if cls != "ok" {
			return res
		}
		rv := reflect.ValueOf(x)
		res["dump"] = json.RawMessage(Dump(rv))
		var getters, issets []interface{}
		for _, f := range ThriftFields(rv.Type().Elem()) {
			if m := rv.MethodByName("Get" + f.Go); m.IsValid() && m.Type().NumIn() == 0 && m.Type().NumOut() == 1 {
				getters = append(getters, []interface{}{f.ID, json.RawMessage(Dump(m.Call(nil)[0]))})
			}
			if m := rv.MethodByName("IsSet" + f.Go); m.IsValid() && m.Type().NumIn() == 0 && m.Type().NumOut() == 1 {
				issets = append(issets, []interface{}{f.ID, m.Call(nil)[0].Bool()})
			}
		}
		res["getters"] = getters
		res["isset"] = issets
		res["rewrite"] = observeWrite(x)
		return res
	})
}
