package main

import (
	"strings"

	"github.com/cloudwego/thriftgo/parser"

	"verif/harness/idlast"
	"verif/harness/rng"
)

// The PEG agreement stream: short inputs on which the accept / reject decision of the
// generated parser (the PEG stage only: an error raised later by the tree walk, e.g. an
// integer constant out of range or the empty document, counts as accepted by the grammar)
// is compared inside Coq with the interpreter of Idl/Peg.v on the translated grammar.

func pegAccepts(src string) (accepted bool, panicked bool) {
	defer func() {
		if x := recover(); x != nil {
			panicked = true
		}
	}()
	_, err := parser.ParseString("main.thrift", src)
	if err == nil {
		return true, false
	}
	return !strings.Contains(err.Error(), "parse error near"), false
}

func pegStream(p *producer, r *rng.R, tier string) {
	n := 160
	if tier == "thorough" {
		n = 3000
	}
	fixed := []string{"", " ", "struct S {}", "struct S { 1: }", "typedef i32 X;", "struct S { 2: requiredThing t }",
		"const i32 c = 99999999999999999999", "enum E { A = 1e5 }", "struct S { 1: i32.x y }", "service X { void.x f() }",
		"service X { void f() throws g() }", "struct S { 1: map cpp_type.x }", "namespace*x", "struct$ {}", "const string s = \"a\\\"",
		"struct S {} (", "include \"a\" struct S {} include \"b\"", "const double d = 1e 5", "const double d = 1e0x10"}
	var c *Case
	flush := func() {
		if c != nil && len(c.Runs) > 0 {
			p.fail(p.docs.Add(coqCase(c), c))
		}
		c = nil
	}
	add := func(sub, src string) {
		if len(src) > 400 {
			src = src[:400]
		}
		acc, pan := pegAccepts(src)
		obs := "err"
		if acc {
			obs = "ok"
		}
		if pan {
			obs = "panic"
		}
		run := &Run{Layout: sub, Src: idlast.B(src), SrcLen: len(src), Obs: obs}
		p.account("peg", sub, src, run)
		if c == nil {
			c = &Case{Stream: "peg", Kind: kindPeg, Sub: "accept-reject", Filename: "main.thrift"}
		}
		c.Runs = append(c.Runs, run)
		if len(c.Runs) >= 20 {
			flush()
		}
	}
	for _, s := range fixed {
		add("fixed", s)
	}
	for i := 0; i < n; i++ {
		cr := r.Fork()
		switch i % 4 {
		case 0:
			add("token-soup", tokenSoup(cr, 1+cr.Intn(12)))
		case 1:
			add("random-ascii", randomBytes(cr, cr.Intn(60), true))
		default:
			d := validDoc(cr, 60+cr.Intn(200))
			if len(d) > 380 {
				// keep whole definitions where possible
				if k := strings.LastIndex(d[:380], "\n"); k > 0 {
					d = d[:k+1]
				}
			}
			src, sub := d, "valid-fragments"
			if cr.Chance(3, 4) {
				src, sub = mutate(cr, d)
			}
			add(sub, src)
		}
	}
	flush()
}
