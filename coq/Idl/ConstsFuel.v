(* Idl/ConstsFuel.v — the value of an initializer does not depend on the fuel (property C06):
   once [eval] answers with a value, every larger fuel gives the same value.  Proofs only. *)
From Coq.Strings Require Import String.
From Coq Require Import List Bool ZArith NArith Lia Arith.
From Coq.Strings Require Import Byte.
From Verif Require Import Base.Bytes Idl.Ast Idl.AstUtil Idl.Consts Idl.ConstsFacts.
Import ListNotations.
Local Open Scope Z_scope.
Local Open Scope consts_scope.

Lemma mapM_mono {A B} (f g : A -> result B) l vs :
  (forall x y, f x = Ok y -> g x = Ok y) -> mapM f l = Ok vs -> mapM g l = Ok vs.
Proof. intros H Hm. apply mapM_ok. apply mapM_ok in Hm. revert Hm. apply Forall2_impl. exact H. Qed.

Lemma expect_S k p tf t v w : expect k p tf t v = Ok w -> expect (S k) p tf t v = Ok w.
Proof.
  unfold expect. destruct (ty_category t); try (intros H; exact H);
    (destruct (has_type k p tf t v) eqn:E; [|discriminate]; intros H; rewrite (has_type_S _ _ _ _ _ E); exact H).
Qed.

Lemma struct_slots_mono q (ev ev' : ty -> const_value -> result cval) s l fs :
  (forall t c v, ev t c = Ok v -> ev' t c = Ok v) ->
  struct_slots q ev s l = Ok fs -> struct_slots q ev' s l = Ok fs.
Proof.
  intros H. unfold struct_slots. destruct (negb (keys_ok s l)); [discriminate|].
  apply mapM_mono. intros fd e. destruct (filter (key_names fd) l) as [|kv [|? ?]]; try (intros He; exact He).
  intros He. apply bind_ok in He as (v & Hv & He). rewrite (H _ _ _ Hv). exact He.
Qed.

Lemma eval_fuel_S q n : forall p vf tf t c v,
  eval q n p vf tf t c = Ok v -> eval q (S n) p vf tf t c = Ok v.
Proof.
  induction n as [|k IH]; intros p vf tf t c v H; [discriminate|].
  remember (S k) as k1 eqn:Ek. cbn [eval]. rewrite Ek in H. cbn [eval] in H.
  destruct (negb (value_category (ty_category t))); [discriminate|].
  destruct c as [b|z|s|s extra|l|l]; try exact H.
  - (* identifier *)
    destruct (bool_word (ty_category t) s); [exact H|]. destruct extra as [ex|]; [|exact H].
    destruct (denotes p vf ex) as [d|e]; [|exact H].
    apply bind_ok in H as (w & Hw & He).
    assert (Hw' : match d with DEnum z => Ok (VInt z) | DConst g co => eval q k1 p g g (co_type co) (co_value co) end = Ok w).
    { destruct d; [exact Hw | apply IH; exact Hw]. }
    rewrite Hw'. cbn [bind]. rewrite Ek. apply expect_S. exact He.
  - (* list literal *)
    destruct (ty_category t); try exact H; destruct l as [|c0 l0]; try exact H;
      destruct (ty_value t) as [et|]; try exact H;
      apply bind_ok in H as (vs & Hm & H); rewrite (mapM_mono _ (eval q k1 p vf tf et) _ _ (fun x y => IH p vf tf et x y) Hm); exact H.
  - (* map literal *)
    destruct (ty_category t); try exact H.
    + destruct l as [|kv0 l0]; [exact H|]. destruct (ty_key t) as [kt|]; [|exact H]. destruct (ty_value t) as [vt|]; [|exact H].
      apply bind_ok in H as (kvs & Hm & H).
      erewrite mapM_mono; [exact H | | exact Hm].
      intros kv ab Hab. apply bind_ok in Hab as (a & Ha & Hab). apply bind_ok in Hab as (b & Hb & Hab).
      rewrite (IH _ _ _ _ _ _ Ha). cbn [bind]. rewrite (IH _ _ _ _ _ _ Hb). exact Hab.
    + apply bind_ok in H as (gs & Hg & H). rewrite Hg. cbn [bind]. apply bind_ok in H as (fs & Hs & H).
      rewrite (struct_slots_mono q _ (eval q k1 p vf (fst gs)) _ _ _ (fun t0 c0 v0 => IH p vf (fst gs) t0 c0 v0) Hs). exact H.
    + apply bind_ok in H as (gs & Hg & H). rewrite Hg. cbn [bind]. apply bind_ok in H as (fs & Hs & H).
      rewrite (struct_slots_mono q _ (eval q k1 p vf (fst gs)) _ _ _ (fun t0 c0 v0 => IH p vf (fst gs) t0 c0 v0) Hs). exact H.
    + apply bind_ok in H as (gs & Hg & H). rewrite Hg. cbn [bind]. apply bind_ok in H as (fs & Hs & H).
      rewrite (struct_slots_mono q _ (eval q k1 p vf (fst gs)) _ _ _ (fun t0 c0 v0 => IH p vf (fst gs) t0 c0 v0) Hs). exact H.
Qed.

(* once there is a value, every larger fuel gives the same value *)
Lemma eval_fuel_mono q n m p vf tf t c v :
  (n <= m)%nat -> eval q n p vf tf t c = Ok v -> eval q m p vf tf t c = Ok v.
Proof. induction 1 as [|m _ IH]; intros H; [exact H | apply eval_fuel_S, IH, H]. Qed.

(* two fuels that both give a value give the same one *)
Lemma eval_fuel_irrelevant q n m p vf tf t c v w :
  eval q n p vf tf t c = Ok v -> eval q m p vf tf t c = Ok w -> v = w.
Proof.
  intros Hn Hm. destruct (Nat.le_ge_cases n m) as [H|H].
  - rewrite (eval_fuel_mono q n m p vf tf t c v H Hn) in Hm. congruence.
  - rewrite (eval_fuel_mono q m n p vf tf t c w H Hm) in Hn. congruence.
Qed.

(* the same for NewX() *)
Lemma new_struct_fuel_mono q n m p f s x :
  (n <= m)%nat -> new_struct q n p f s = Ok x -> new_struct q m p f s = Ok x.
Proof.
  intros Hle. unfold new_struct. intros H. apply bind_ok in H as (fs & Hm & H).
  erewrite mapM_mono; [exact H | | exact Hm].
  intros fd e He. apply bind_ok in He as (v & Hv & He).
  assert (Hv' : init_slot q m p f fd = Ok v).
  { unfold init_slot, default_value in *. destruct (fd_default fd) as [c|]; [|exact Hv].
    apply bind_ok in Hv as (d & Hd & Hv). apply bind_ok in Hd as (w & Hw & Hd). injection Hd as <-.
    unfold eval_top in *. rewrite (eval_fuel_mono q n m p f f _ _ _ Hle Hw). cbn [bind]. exact Hv. }
  rewrite Hv'. exact He.
Qed.
