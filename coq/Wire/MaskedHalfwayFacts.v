(* Wire/MaskedHalfwayFacts.v — facts about Write on objects that carry sub masks
   (Wire/MaskedHalfway.v). *)
From Coq Require Import List ZArith Bool Lia.
From Verif Require Import Base.Bytes Base.BE Wire.TType Wire.WVal Wire.Codec Wire.CodecFacts
  Wire.Schema Wire.Value Wire.GenTables Wire.Std Wire.StdFacts Wire.Masked Wire.MaskedFacts Wire.MaskedHalfway.
Import ListNotations.
Open Scope Z_scope.

Lemma stale_sub_nil k : stale_sub None k = None.
Proof. reflexivity. Qed.

Lemma mapM_sel2_fresh {A B} (key : nat -> A -> qkey) s2 (f : option mask -> option mask -> A -> result B)
      (g : option mask -> A -> result B) l :
  Forall (fun x => forall b, f None b x = g b x) l ->
  forall i, mapM_sel2 key None s2 f i l = mapM_sel (option mask) mquery (fun i x => Ok (key i x)) s2 g i l.
Proof.
  induction 1 as [|x l Hx Hl IH]; intro i; [reflexivity|].
  cbn [mapM_sel2 mapM_sel]. rewrite stale_sub_nil, Hx, IH. reflexivity.
Qed.

Definition Pf (cfg : mcfg) (e : env) (v : value) : Prop :=
  forall s2 t, to_wm_again cfg e None s2 t v = to_wm_mask cfg e s2 t v.

(* a fresh object: the model of Wire/Masked.v *)
Theorem to_wm_again_fresh_aux cfg e : forall v, Pf cfg e v /\ match v with VSome x => Pf cfg e x | _ => True end.
Proof.
  intro v. induction v using value_ind2; try (split; [|exact I]; intros s2 t; reflexivity).
  - split; [|exact I]. intros s2 t. destruct t; try reflexivity; unfold to_wm_mask; cbn [to_wm_again to_wm].
    + rewrite (mapM_sel2_fresh idx_key s2 _ (fun s x => to_wm_mask cfg e s t x)); [reflexivity|].
      eapply Forall_impl; [|exact H]. intros x [Hx _] b. apply Hx.
    + destruct (set_has_dup l); [reflexivity|].
      rewrite (mapM_sel2_fresh idx_key s2 _ (fun s x => to_wm_mask cfg e s t x)); [reflexivity|].
      eapply Forall_impl; [|exact H]. intros x [Hx _] b. apply Hx.
  - split; [|exact I]. intros s2 t. destruct t; try reflexivity; unfold to_wm_mask; cbn [to_wm_again to_wm].
    rewrite (mapM_sel2_fresh (fun _ kv => map_qkey t1 (fst kv)) s2 _
               (fun s kv => bind (to_w e t1 (fst kv)) (fun k => bind (to_wm_mask cfg e s t2 (snd kv)) (fun x => Ok (k, x))))); [reflexivity|].
    eapply Forall_impl; [|exact H]. intros kv [_ [Hx _]] b. cbn beta. rewrite Hx. reflexivity.
  - split; [|exact I]. intros s2 t. destruct t; try reflexivity. unfold to_wm_mask. cbn [to_wm_again to_wm].
    destruct (find_struct e name) as [s|]; [|reflexivity]. cbn zeta.
    destruct (is_union s && negb (count_set (s_fields s) fs =? 1)%nat); [reflexivity|].
    f_equal. apply mapM_ext. intros p Hin. rewrite Forall_forall in H. specialize (H p Hin). cbn beta in H.
    destruct (find_field (fst p) (s_fields s)) as [f|]; [|reflexivity].
    destruct (present f (snd p)); [|reflexivity]. cbn [own_or].
    destruct (snd (mquery s2 (QF (f_id f))) || (is_required f && negb (zero_required cfg))); [|reflexivity].
    rewrite stale_sub_nil. destruct (base_ptr f).
    + destruct (snd p) as [| | | | | | | | |x] eqn:Es; try reflexivity. destruct H as [_ H]. rewrite H. reflexivity.
    + destruct H as [H _]. rewrite H. reflexivity.
  - split; [intros s2 t; reflexivity | apply IHv].
Qed.

Theorem to_wm_again_fresh cfg e s2 t v : to_wm_again cfg e None s2 t v = to_wm_mask cfg e s2 t v.
Proof. apply (to_wm_again_fresh_aux cfg e v). Qed.

(* without field_mask_halfway the sub objects get what the second Write sets *)
Theorem second_write_default cfg m1 m2 e s v : halfway cfg = false ->
  second_write cfg m1 m2 e s v = to_wire_masked cfg m2 e s v.
Proof. intro H. unfold second_write. rewrite H. reflexivity. Qed.

(* a first Write under the nil mask leaves nothing behind *)
Theorem second_write_after_nil cfg m2 e s fs : find_struct e (s_name s) = Some s ->
  second_write cfg None m2 e s (VStruct fs) = to_wire_masked cfg m2 e s (VStruct fs).
Proof.
  intro Hs. unfold second_write. destruct (halfway cfg); [|reflexivity].
  unfold to_wire_masked, to_wm_mask. rewrite to_wm_struct, Hs. cbn zeta.
  destruct (is_union s && negb (count_set (s_fields s) fs =? 1)%nat); [reflexivity|].
  f_equal. apply mapM_ext. intros p _. unfold wfield_m.
  destruct (find_field (fst p) (s_fields s)) as [f|]; [|reflexivity].
  destruct (present f (snd p)); [|reflexivity]. cbn zeta.
  destruct (snd (mquery m2 (QF (f_id f))) || (is_required f && negb (zero_required cfg))); [|reflexivity].
  rewrite stale_sub_nil. destruct (base_ptr f).
  - destruct (snd p); try reflexivity. rewrite to_wm_again_fresh. reflexivity.
  - rewrite to_wm_again_fresh. reflexivity.
Qed.
