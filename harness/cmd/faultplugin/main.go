// faultplugin is the fault-injecting thriftgo plugin of the C11 check (see harness/faultplug).
// checks/c11.py also builds the same body from a scratch module that requires
// github.com/cloudwego/thriftgo v0.4.2 (replaced by the tree under test), because thriftgo only
// sends compressed includes + trailer to plugins whose build info reports a release >= v0.4.2.
package main

import "verif/harness/faultplug"

func main() { faultplug.Main() }
