package main

import (
	"fmt"

	"verif/harness/maskkit"
	"verif/harness/schemagen"
	"verif/harness/valgen"
)

// Storage boundary of the field-mask library: fieldMap keeps the sub masks of field ids 0..63 in
// an array and every other id (also negative ones) in a map; SetIfNotExist and Get must agree on
// which side an id lives. The corpus structs B0..B2 carry fields with ids 62, 63, 64, 65 and -2,
// each id once as a base type, once as a struct and once as a container; the masks go THROUGH
// each field (by id and by name, whole and with a sub path), white and black, for Write and Read.

var boundaryIDs = []int{62, 63, 64, 65, -2}

// kind of field j of struct k: 0 i32, 1 In, 2 list<In>, 3 map<string,In>, 4 list<i32>
var boundaryKinds = [3][5]int{
	{0, 1, 2, 3, 4},
	{1, 2, 0, 4, 1},
	{2, 0, 1, 0, 3},
}

func boundaryFieldName(id int) string {
	if id < 0 {
		return fmt.Sprintf("neg%d", -id)
	}
	return fmt.Sprintf("f%d", id)
}

func boundaryStructs(i32, inT *schemagen.Type) []*schemagen.Struct {
	str := &schemagen.Type{Kind: "string"}
	types := []*schemagen.Type{
		i32, inT,
		{Kind: "list", Elem: inT},
		{Kind: "map", Key: str, Elem: inT},
		{Kind: "list", Elem: i32},
	}
	var out []*schemagen.Struct
	for k := 0; k < 3; k++ {
		s := &schemagen.Struct{File: "a", Name: fmt.Sprintf("B%d", k), Kind: "struct"}
		for j, id := range boundaryIDs {
			s.Fields = append(s.Fields, &schemagen.Field{ID: id, Name: boundaryFieldName(id), Req: "default", Type: types[boundaryKinds[k][j]]})
		}
		out = append(out, s)
	}
	return out
}

func boundaryValue(k int) *valgen.Value {
	I := valgen.Int
	inV := func(x, z int64, y string) *valgen.Value {
		return valgen.Struct([]valgen.FieldVal{{ID: 1, V: I(x)}, {ID: 2, V: valgen.Some(valgen.Str([]byte(y)))}, {ID: 3, V: I(z)}})
	}
	var fs []valgen.FieldVal
	for j, id := range boundaryIDs {
		b := int64(100*k + 10*j)
		var v *valgen.Value
		switch boundaryKinds[k][j] {
		case 0:
			v = I(b + 1)
		case 1:
			v = inV(b+1, b+2, "s")
		case 2:
			v = valgen.List([]*valgen.Value{inV(b+1, b+2, "p"), inV(b+3, b+4, "q")})
		case 3:
			v = valgen.Map([][2]*valgen.Value{{valgen.Str([]byte("k")), inV(b+1, b+2, "m")}, {valgen.Str([]byte("j")), inV(b+3, b+4, "n")}})
		default:
			v = valgen.List([]*valgen.Value{I(b + 1), I(b + 2), I(b + 3)})
		}
		fs = append(fs, valgen.FieldVal{ID: id, V: v})
	}
	return valgen.Struct(fs)
}

// boundarySub is a path below a field of the given kind (nil for a base type).
func boundarySub(kind int, alt bool) maskkit.Path {
	leaf := nm("x")
	if alt {
		leaf = nm("y")
	}
	switch kind {
	case 1:
		return P(leaf)
	case 2:
		return P(ix(0), leaf)
	case 3:
		return P(maskkit.PSeg{Kind: "keys", Strs: []string{"k"}}, leaf)
	case 4:
		return P(ix(1))
	}
	return nil
}

func boundaryMasks(k int) []*maskSpec {
	mk := func(black bool, style string, ps ...maskkit.Path) *maskSpec {
		return &maskSpec{Black: black, Paths: ps, Strs: renderAll(ps), Style: style}
	}
	var out []*maskSpec
	var allW, allB []maskkit.Path
	for j, id := range boundaryIDs {
		kind := boundaryKinds[k][j]
		byName := nm(boundaryFieldName(id))
		byID := byName
		if id >= 0 {
			byID = maskkit.PSeg{Kind: "id", ID: int64(id)}
		}
		style := fmt.Sprintf("boundary-id%d", id)
		through := append(P(byID), boundarySub(kind, false)...)
		throughAlt := append(P(byID), boundarySub(kind, true)...)
		out = append(out,
			mk(false, style, through),   // white: $.63.x / $.63[0].x / $.63
			mk(false, style, P(byName)), // white: $.f63
			mk(true, style, P(byName)),  // black: $.f63
			mk(true, style, throughAlt)) // black: $.63.y
		allW = append(allW, append(P(byName), boundarySub(kind, false)...))
		allB = append(allB, append(P(byName), boundarySub(kind, true)...))
	}
	out = append(out, mk(false, "boundary-all", allW...), mk(true, "boundary-all", allB...))
	return out
}
