(* Idl/ResolveConst.v — identifiers used as values: getEnum and the candidate lists of
   ResolveConstValue against [enum_denotes] / [const_denotes]. *)
From Coq Require Import List Bool Arith Lia NArith ZArith Permutation.
From Coq.Strings Require Import Byte.
From Verif Require Import Base.Bytes Idl.Ast Idl.AstUtil Idl.AstFacts Idl.Resolve Idl.ResolveSpec Idl.ResolveTd
     Idl.ResolveLemmas Idl.ResolveInv.
Import ListNotations.
Local Open Scope resolve_scope.

Lemma plain_def p fn n k : plain_names p = true -> def_of p fn n = Some k -> plain_name n = true.
Proof.
  unfold plain_names, def_of, prog_file. intros Hp H. destruct (lookup fn p) as [f|] eqn:L; [|discriminate].
  apply lookup_In in L. apply lookup_In in H. rewrite forallb_forall in Hp. specialize (Hp _ L). cbn [snd] in Hp.
  rewrite forallb_forall in Hp. exact (Hp _ H).
Qed.

(* ---------------------------------------------------------------- enum_denotes is a function *)

Lemma enum_denotes_fun p fn n efn vs i :
  enum_denotes p fn n efn vs i -> forall efn' vs' i', enum_denotes p fn n efn' vs' i' ->
  efn' = efn /\ vs' = vs /\ i' = i.
Proof.
  induction 1 as [fn n vs H | fn n tgt a efn vs i H Hb Hs _ IH | fn f n tgt pre m i gn efn vs j H Hb Hs Hf Hi _ IH];
    intros efn' vs' i' H'; inversion H'; subst; try congruence.
  - assert (vs' = vs) by congruence. auto.
  - match goal with H2 : def_of p fn n = Some (DkTypedef ?t) |- _ => assert (t = tgt) by congruence; subst end.
    match goal with H2 : split_type tgt = [?x] |- _ => assert (x = a) by congruence; subst end. auto.
  - match goal with H2 : def_of p fn n = Some (DkTypedef ?t) |- _ => assert (t = tgt) by congruence; subst end.
    match goal with H2 : split_type tgt = [?x; ?y] |- _ => assert (x = pre /\ y = m) as (-> & ->) by (split; congruence) end.
    match goal with H2 : prog_file p fn = Some ?x |- _ => assert (x = f) by congruence; subst end.
    match goal with H2 : spec_include _ _ _ _ _ _ = Some (?a, ?x) |- _ => assert (x = gn /\ a = i) as (-> & ->) by (split; congruence) end.
    match goal with H2 : enum_denotes p gn m _ _ _ |- _ => destruct (IH _ _ _ H2) as (-> & -> & _) end. auto.
Qed.

Lemma enum_denotes_def p gn name efn vs idx :
  enum_denotes p gn name efn vs idx ->
  (exists vs', def_of p gn name = Some (DkEnum vs')) \/ (exists tgt, def_of p gn name = Some (DkTypedef tgt)).
Proof. destruct 1; eauto. Qed.

Lemma enum_denotes_typedef_inv p gn name tgt efn vs idx :
  def_of p gn name = Some (DkTypedef tgt) -> enum_denotes p gn name efn vs idx ->
  builtin_category tgt = None /\
  ((exists a, split_type tgt = [a] /\ enum_denotes p gn a efn vs idx) \/
   (exists f pre m i hn j, split_type tgt = [pre; m] /\ prog_file p gn = Some f /\
      spec_include p is_type_kind pre m (file_incs f) 0 = Some (i, hn) /\ enum_denotes p hn m efn vs j)).
Proof.
  intros Hd H. destruct H as [fn n vs H | fn n tgt' a efn vs i H Hb Hs H1 | fn f n tgt' pre m i gn efn vs j H Hb Hs Hf Hi H1].
  - congruence.
  - assert (tgt' = tgt) by congruence. subst. split; [exact Hb|]. left. eauto.
  - assert (tgt' = tgt) by congruence. subst. split; [exact Hb|]. right. exists f, pre, m, i, gn, j. auto.
Qed.

(* ---------------------------------------------------------------- enums of a file *)

Lemma file_defs_enum g en :
  NoDup (map fst (file_defs g)) -> In en (f_enums g) ->
  lookup (en_name en) (file_defs g) = Some (DkEnum (map ev_name (en_values en))).
Proof.
  intros ND Hin. apply lookup_NoDup_In; [exact ND|]. unfold file_defs.
  apply in_or_app. right. apply in_or_app. right. apply in_or_app. left.
  apply (in_map (fun e => (en_name e, DkEnum (map ev_name (en_values e))))). exact Hin.
Qed.

Lemma file_defs_enum_inv g n vs :
  NoDup (map fst (file_defs g)) -> lookup n (file_defs g) = Some (DkEnum vs) ->
  exists en, find_enum g n = Some en /\ map ev_name (en_values en) = vs.
Proof.
  intros ND Hl. pose proof (lookup_In _ _ _ Hl) as Hin. unfold file_defs in Hin.
  assert (Hen : exists en, In en (f_enums g) /\ en_name en = n).
  { apply in_app_or in Hin. destruct Hin as [Hin|Hin]; [apply in_map_iff in Hin; destruct Hin as (? & [= _ ?] & _); discriminate|].
    apply in_app_or in Hin. destruct Hin as [Hin|Hin]; [apply in_map_iff in Hin; destruct Hin as (? & [= _ ?] & _); discriminate|].
    apply in_app_or in Hin. destruct Hin as [Hin|Hin].
    - apply in_map_iff in Hin. destruct Hin as (en & [= Hn _] & Hin). eauto.
    - apply in_app_or in Hin. destruct Hin as [Hin|Hin]; apply in_map_iff in Hin; destruct Hin as (? & [= _ ?] & _); discriminate. }
  destruct Hen as (en0 & Hin0 & Hn0).
  unfold find_enum. destruct (find_by en_name n (f_enums g)) as [en|] eqn:F.
  - destruct (find_by_In _ _ _ _ F) as (Hi & Hn). exists en. split; [reflexivity|].
    pose proof (file_defs_enum g en ND Hi) as Hl'. rewrite Hn in Hl'. congruence.
  - exfalso. apply find_by_none in F. apply F. rewrite <- Hn0. apply in_map. exact Hin0.
Qed.

(* ---------------------------------------------------------------- getEnum *)

Section GetEnum.
  Variables (p done : program).
  Hypothesis Hinv : inv p done.
  Hypothesis Hplain : plain_names p = true.

  (* what getEnum reads of a file [g'] (a resolved file of [done], or the file being
     resolved once its typedef types went through ResolveType) *)
  Record ectx (gn : bytes) (g g' : file) : Prop := {
    ec_file : prog_file p gn = Some g;
    ec_nodup : NoDup (map fst (file_defs g));
    ec_n2c : forall n, lookup n (n2c_of g') = option_map dkind_cat (lookup n (file_defs g));
    ec_enums : f_enums g' = f_enums g;
    ec_td : forall n tgt, lookup n (file_defs g) = Some (DkTypedef tgt) ->
      exists td', find_typedef g' n = Some td' /\ ty_name (td_type td') = tgt /\
        match builtin_category tgt with
        | Some _ => ty_ref (td_type td') = None
        | None =>
          match split_type tgt with
          | [_] => ty_ref (td_type td') = None
          | [pre; m] => exists i hn h',
              spec_include p is_type_kind pre m (file_incs g) 0 = Some (i, hn) /\
              ty_ref (td_type td') = Some (Ref m (Z.of_nat i)) /\
              reference_target done g' (Ref m (Z.of_nat i)) = Some h' /\ lookup hn done = Some h'
          | _ => False
          end
        end }.

  Lemma good_ectx gn g g' : prog_file p gn = Some g -> good p done gn g g' -> ectx gn g g'.
  Proof.
    intros Hg Gd. constructor.
    - exact Hg.
    - exact (gd_nodup _ _ _ _ _ Gd).
    - exact (gd_n2c _ _ _ _ _ Gd).
    - exact (gd_enums _ _ _ _ _ Gd).
    - intros n tgt Hl.
      assert (Hft : exists td', find_typedef g' n = Some td' /\ ty_name (td_type td') = tgt /\ occ_good p gn g (td_type td')).
      { destruct (find_typedef g' n) as [td'|] eqn:Ft.
        - destruct (good_typedef _ _ _ _ _ _ _ Gd Ft) as (Hl' & Ho). exists td'. split; [reflexivity|]. split; [congruence | exact Ho].
        - exfalso. unfold find_typedef in Ft. apply find_by_none in Ft. apply Ft.
          assert (E : map td_alias (f_typedefs g') = map td_alias (f_typedefs g)).
          { eapply Forall2_map_eq; [exact (gd_tds _ _ _ _ _ Gd)|]. intros x y (Ha & _). exact Ha. }
          rewrite E. apply lookup_In in Hl. unfold file_defs in Hl.
          apply in_app_or in Hl. destruct Hl as [Hl|Hl].
          + apply in_map_iff in Hl. destruct Hl as (td & [= <- _] & Hin). apply in_map. exact Hin.
          + exfalso. repeat (apply in_app_or in Hl; destruct Hl as [Hl|Hl]);
              apply in_map_iff in Hl; destruct Hl as (? & [= _ ?] & _). }
      destruct Hft as (td' & Ft & Hn & Ho). exists td'. split; [exact Ft|]. split; [exact Hn|].
      unfold occ_good in Ho. rewrite Hn in Ho. destruct (builtin_category tgt); [tauto|].
      destruct (split_type tgt) as [|a [|m [|? ?]]] eqn:Sn; try contradiction.
      + destruct Ho as (? & ? & _ & _ & _ & _ & Hr0 & _). exact Hr0.
      + destruct Ho as (i & hn & k & d & Hs & _ & _ & _ & Hr0 & _).
        destruct (spec_include_nth _ _ _ _ _ _ _ _ Hs) as (_ & Hnth & _). rewrite Nat.sub_0_r in Hnth.
        unfold file_incs in Hnth. rewrite nth_error_map in Hnth.
        destruct (nth_error (f_includes g) i) as [x|] eqn:Nx; [|discriminate]. cbn [option_map] in Hnth.
        injection Hnth as _ Hrx.
        assert (Nx' : exists x', nth_error (f_includes g') i = Some x' /\ in_ref x' = Some hn).
        { pose proof (gd_incs _ _ _ _ _ Gd) as E.
          assert (E2 : nth_error (map (fun i => (in_path i, in_ref i)) (f_includes g')) i = Some (in_path x, in_ref x))
            by (rewrite E, nth_error_map, Nx; reflexivity).
          rewrite nth_error_map in E2. destruct (nth_error (f_includes g') i) as [x'|]; [|discriminate].
          injection E2 as _ E3. exists x'. split; [reflexivity | congruence]. }
        destruct Nx' as (x' & Nx' & Hrx').
        destruct (gd_targets _ _ _ _ _ Gd x (nth_error_In _ _ Nx)) as (hn2 & Hrn & Hln).
        assert (hn2 = hn) by congruence. subst hn2.
        destruct (lookup hn done) as [h'|] eqn:Lh; [|congruence].
        exists i, hn, h'. split; [exact Hs|]. split; [exact Hr0|]. split; [|exact Lh].
        unfold reference_target. cbn [ref_index]. rewrite nth_include_nat, Nx'.
        rewrite (include_target_done done x' hn Hrx'). exact Lh.
  Qed.

  Lemma get_enum_spec : forall fuel gn g g' name res,
    ectx gn g g' -> get_enum fuel done g' name = Ok res ->
    match res with
    | Some (en, idx) => exists efn, enum_denotes p gn name efn (map ev_name (en_values en)) idx
    | None => forall efn vs idx, ~ enum_denotes p gn name efn vs idx
    end.
  Proof.
    induction fuel as [|k IH]; intros gn g g' name res Ec H; cbn [get_enum] in H; [discriminate|].
    pose proof (ec_file _ _ _ Ec) as Hg.
    rewrite (ec_n2c _ _ _ Ec) in H.
    destruct (lookup name (file_defs g)) as [kd|] eqn:Lk; cbn [option_map] in H.
    2:{ injection H as <-. intros efn vs idx Hd. destruct (enum_denotes_def _ _ _ _ _ _ Hd) as [(? & E)|(? & E)];
        rewrite (def_of_file p gn g name Hg) in E; congruence. }
    destruct kd as [tgt| |vs|s|]; cbn [dkind_cat] in H.
    - (* typedef *)
      destruct (ec_td _ _ _ Ec name tgt Lk) as (td' & Ft & Hn & Href). rewrite Ft in H.
      assert (Hnone : forall efn vs idx, (forall a efn vs i, split_type tgt = [a] -> builtin_category tgt = None -> ~ enum_denotes p gn a efn vs i) ->
                      (forall f pre m i hn efn vs j, split_type tgt = [pre; m] -> builtin_category tgt = None -> prog_file p gn = Some f ->
                          spec_include p is_type_kind pre m (file_incs f) 0 = Some (i, hn) -> ~ enum_denotes p hn m efn vs j) ->
                      ~ enum_denotes p gn name efn vs idx).
      { intros efn vs idx N1 N2 Hd.
        assert (Hdef : def_of p gn name = Some (DkTypedef tgt)) by (rewrite (def_of_file p gn g name Hg); exact Lk).
        destruct (enum_denotes_typedef_inv _ _ _ _ _ _ _ Hdef Hd) as (Hb & [(a & Hs & H1)|(f & pre & m & i & hn & j & Hs & Hf & Hi & H1)]).
        - exact (N1 _ _ _ _ Hs Hb H1).
        - exact (N2 _ _ _ _ _ _ _ _ Hs Hb Hf Hi H1). }
      (* the target as a local name *)
      assert (Hlocal_none : lookup tgt (file_defs g) = None -> get_enum k done g' tgt = Ok None \/ k = 0).
      { intros Ln. destruct k as [|k']; [auto|]. left. cbn [get_enum]. rewrite (ec_n2c _ _ _ Ec), Ln. reflexivity. }
      destruct (builtin_category tgt) as [cb|] eqn:Bt.
      + rewrite Href in H. cbn [bind] in H. rewrite Hn in H.
        assert (Ln : lookup tgt (file_defs g) = None).
        { destruct (lookup tgt (file_defs g)) as [k2|] eqn:L2; [|reflexivity]. exfalso.
          assert (plain_name tgt = true) by (eapply plain_def; [exact Hplain | rewrite (def_of_file p gn g tgt Hg); exact L2]).
          unfold plain_name in *. rewrite Bt in *. discriminate. }
        destruct (Hlocal_none Ln) as [E | ->]; [|discriminate]. rewrite E in H. injection H as <-.
        intros efn vs idx. apply Hnone; intros; congruence.
      + destruct (split_type tgt) as [|a [|m [|? ?]]] eqn:St; try contradiction.
        * rewrite Href in H. cbn [bind] in H. rewrite Hn in H. pose proof (split_type_single _ _ St) as ->.
          specialize (IH gn g g' tgt res Ec H). destruct res as [[en idx]|].
          -- destruct IH as (efn & Hd). exists efn. eapply ed_local; eauto. rewrite (def_of_file p gn g name Hg). exact Lk.
          -- intros efn vs idx. apply Hnone; [|intros; congruence]. intros a0 efn0 vs0 i0 [= <-] _. apply IH.
        * destruct Href as (i & hn & h' & Hs & Hr0 & Htg & Lh). rewrite Hr0, Htg in H. cbn [ref_name ref_index] in H.
          destruct (Hinv hn h' Lh) as (h & Hh & Gh).
          destruct (get_enum k done h' m) as [r1|] eqn:G1; cbn [bind] in H; [|discriminate].
          pose proof (IH hn h h' m r1 (good_ectx hn h h' Hh Gh) G1) as IH1.
          destruct r1 as [[en idx1]|].
          -- injection H as <-. destruct IH1 as (efn & Hd). exists efn.
             eapply ed_qualified; eauto. rewrite (def_of_file p gn g name Hg). exact Lk.
          -- rewrite Hn in H.
             assert (Ln : lookup tgt (file_defs g) = None).
             { destruct (lookup tgt (file_defs g)) as [k2|] eqn:L2; [|reflexivity]. exfalso.
               assert (plain_name tgt = true) by (eapply plain_def; [exact Hplain | rewrite (def_of_file p gn g tgt Hg); exact L2]).
               unfold plain_name in *. rewrite Bt, St in *. discriminate. }
             destruct (Hlocal_none Ln) as [E | ->]; [|discriminate]. rewrite E in H. injection H as <-.
             intros efn vs idx. apply Hnone; [intros; congruence|].
             intros f pre0 m0 i0 hn0 efn0 vs0 j0 [= <- <-] _ Hf Hs0.
             assert (f = g) by congruence. subst f. rewrite Hs in Hs0. injection Hs0 as <- <-. apply IH1.
    - injection H as <-. intros efn vs idx Hd. destruct (enum_denotes_def _ _ _ _ _ _ Hd) as [(? & E)|(? & E)];
        rewrite (def_of_file p gn g name Hg) in E; congruence.
    - (* enum *)
      destruct (file_defs_enum_inv g name vs (ec_nodup _ _ _ Ec) Lk) as (en & Fe & Hvs).
      unfold find_enum in *. rewrite (ec_enums _ _ _ Ec), Fe in H. injection H as <-.
      exists gn. rewrite Hvs. apply ed_enum. rewrite (def_of_file p gn g name Hg). exact Lk.
    - assert (res = None) as -> by (destruct s; cbn in H; congruence).
      intros efn vs idx Hd. destruct (enum_denotes_def _ _ _ _ _ _ Hd) as [(? & E)|(? & E)];
        rewrite (def_of_file p gn g name Hg) in E; congruence.
    - injection H as <-. intros efn vs idx Hd. destruct (enum_denotes_def _ _ _ _ _ _ Hd) as [(? & E)|(? & E)];
        rewrite (def_of_file p gn g name Hg) in E; congruence.
  Qed.
End GetEnum.

(* ---------------------------------------------------------------- candidates *)

Lemma dkind_const k : dkind_cat k = CatConstant <-> k = DkConst.
Proof. split; [destruct k as [t| |vs|s|]; cbn; try discriminate; [reflexivity | destruct s; discriminate] | intros ->; reflexivity]. Qed.

Lemma enum_cands_In en v x e' : In e' (enum_cands en v x) <-> e' = x /\ In v (map ev_name (en_values en)).
Proof.
  unfold enum_cands. rewrite in_map_iff. split.
  - intros (ev & <- & Hin). apply filter_In in Hin. destruct Hin as (Hin & E). apply beqb_true in E.
    split; [reflexivity|]. rewrite <- E. apply in_map. exact Hin.
  - intros (-> & Hin). apply in_map_iff in Hin. destruct Hin as (ev & <- & Hin). exists ev. split; [reflexivity|].
    apply filter_In. split; [exact Hin | apply beqb_refl].
Qed.

Lemma const_cands_In (o : option category) (x e' : const_extra) :
  In e' (match o with Some CatConstant => [x] | _ => [] end) <-> o = Some CatConstant /\ e' = x.
Proof.
  destruct o as [c|]; [destruct c|]; cbn; split; try (intros []; fail); try (intros (? & _); discriminate).
  - intros [<-|[]]. auto.
  - intros (_ & ->). auto.
Qed.

Lemma opt_dkind_const (o : option dkind) : option_map dkind_cat o = Some CatConstant <-> o = Some DkConst.
Proof.
  destruct o as [k|]; cbn; split; try discriminate.
  - intros [= E]. apply dkind_const in E. congruence.
  - intros [= ->]. reflexivity.
Qed.

(* one explanation of an identifier, per SplitValue alternative *)
Definition alt_denotes (p : program) (fn : bytes) (ss : list bytes) (x : const_extra) : Prop :=
  match ss with
  | [a] => def_of p fn a = Some DkConst /\ x = Extra false (-1)%Z a []
  | [e; v] =>
    (exists efn vs i, enum_denotes p fn e efn vs i /\ In v vs /\ x = Extra true i v e) \/
    (exists f i gn, prog_file p fn = Some f /\ nth_error (file_incs f) i = Some (e, Some gn) /\
                    def_of p gn v = Some DkConst /\ x = Extra false (Z.of_nat i) v e)
  | [pre; e; v] =>
    exists f i gn efn vs j, prog_file p fn = Some f /\ nth_error (file_incs f) i = Some (pre, Some gn) /\
                            enum_denotes p gn e efn vs j /\ In v vs /\ x = Extra true (Z.of_nat i) v e
  | _ => False
  end.

Lemma const_denotes_alt p fn s x :
  const_denotes p fn s x <-> exists ss, In ss (split_value s) /\ alt_denotes p fn ss x.
Proof.
  split.
  - destruct 1 as [a Hin Hd | e v efn vs i Hin He Hv | f pre v i gn Hin Hf Hn Hd | f pre e v i gn efn vs j Hin Hf Hn He Hv].
    + exists [a]. split; [exact Hin|]. cbn. auto.
    + exists [e; v]. split; [exact Hin|]. cbn. left. eauto 6.
    + exists [pre; v]. split; [exact Hin|]. cbn. right. eauto 8.
    + exists [pre; e; v]. split; [exact Hin|]. cbn. eauto 12.
  - intros (ss & Hin & Ha). destruct ss as [|a [|b [|c [|? ?]]]]; cbn in Ha; try contradiction.
    + destruct Ha as (Hd & ->). eapply cd_local; eauto.
    + destruct Ha as [(efn & vs & i & He & Hv & ->)|(f & i & gn & Hf & Hn & Hd & ->)].
      * eapply cd_enum_value; eauto.
      * eapply cd_include_const; eauto.
    + destruct Ha as (f & i & gn & efn & vs & j & Hf & Hn & He & Hv & ->). eapply cd_include_enum_value; eauto.
Qed.

Section Cands.
  Variables (p done : program).
  Hypothesis Hinv : inv p done.
  Hypothesis Hplain : plain_names p = true.
  Variables (fn : bytes) (f f1 : file).
  Hypothesis Hctx : ectx p done fn f f1.
  Hypothesis Hincs : f_includes f1 = f_includes f.
  Hypothesis Htargets : forall i, In i (f_includes f) -> exists hn, in_ref i = Some hn /\ lookup hn done <> None.

  Lemma inc_cands_spec h pre : forall incs idx cs,
    (forall x, In x incs -> exists hn, in_ref x = Some hn /\ lookup hn done <> None) ->
    inc_cands done h pre incs idx = Ok cs ->
    forall e', In e' cs <->
      exists i x hn g' csi, idx <= i /\ nth_error incs (i - idx) = Some x /\ idl_prefix (in_path x) = pre /\
                            in_ref x = Some hn /\ lookup hn done = Some g' /\ h i g' = Ok csi /\ In e' csi.
  Proof.
    induction incs as [|x incs IH]; intros idx cs Hin H e'; cbn [inc_cands] in H.
    - injection H as <-. split; [intros []|]. intros (i & x & ? & ? & ? & _ & Hn & _). destruct (i - idx); discriminate.
    - inv_bind H. injection H as <-. rename x0 into here, x1 into rest.
      assert (Hin' : forall y, In y incs -> exists hn, in_ref y = Some hn /\ lookup hn done <> None)
        by (intros y Hy; apply Hin; right; exact Hy).
      specialize (IH (S idx) rest Hin' E0 e'). rewrite in_app_iff, IH. clear IH. split.
      + intros [Hh|(i & y & hn & g' & csi & Hle & Hn & R)].
        * destruct (beqb (idl_prefix (in_path x)) pre) eqn:Ep; [|injection E as <-; destruct Hh].
          destruct (Hin x (or_introl eq_refl)) as (hn & Hr & Hd). rewrite (include_target_done done x hn Hr) in E.
          destruct (lookup hn done) as [g'|] eqn:Lg; [|discriminate]. apply beqb_true in Ep.
          exists idx, x, hn, g', here. rewrite Nat.sub_diag. cbn. auto 10.
        * exists i, y, hn, g', csi. split; [lia|]. replace (i - idx) with (S (i - S idx)) by lia. cbn. auto.
      + intros (i & y & hn & g' & csi & Hle & Hn & Hp & Hr & Lg & Hh & Hc).
        destruct (Nat.eq_dec i idx) as [->|Hne].
        * left. rewrite Nat.sub_diag in Hn. cbn in Hn. injection Hn as <-.
          rewrite <- Hp, beqb_refl, (include_target_done done x hn Hr), Lg, Hh in E. injection E as <-. exact Hc.
        * right. exists i, y, hn, g', csi. split; [lia|]. replace (i - idx) with (S (i - S idx)) in Hn by lia. cbn in Hn. auto 10.
  Qed.

  Lemma inc_cands_call h pre : forall incs idx cs i x hn g',
    inc_cands done h pre incs idx = Ok cs -> nth_error incs i = Some x ->
    idl_prefix (in_path x) = pre -> in_ref x = Some hn -> lookup hn done = Some g' ->
    exists csi, h (idx + i) g' = Ok csi.
  Proof.
    induction incs as [|z incs IH]; intros idx cs i x hn g' H Hn Hp Hr Lg; [destruct i; discriminate|].
    cbn [inc_cands] in H. inv_bind H. destruct i as [|i]; cbn [nth_error] in Hn.
    - injection Hn as ->. rewrite Hp, beqb_refl, (include_target_done done x hn Hr), Lg in E.
      rewrite Nat.add_0_r. eauto.
    - destruct (IH _ _ _ _ _ _ E0 Hn Hp Hr Lg) as (csi & Hc). exists csi.
      replace (idx + S i) with (S idx + i) by lia. exact Hc.
  Qed.

  Lemma nth_file_incs i x : nth_error (f_includes f) i = Some x ->
    nth_error (file_incs f) i = Some (idl_prefix (in_path x), in_ref x).
  Proof. intros H. unfold file_incs. rewrite nth_error_map, H. reflexivity. Qed.

  Lemma nth_file_incs_inv i pre gn : nth_error (file_incs f) i = Some (pre, Some gn) ->
    exists x, nth_error (f_includes f) i = Some x /\ idl_prefix (in_path x) = pre /\ in_ref x = Some gn.
  Proof.
    unfold file_incs. rewrite nth_error_map. destruct (nth_error (f_includes f) i) as [x|]; [|discriminate].
    cbn. intros [= <- <-]. eauto.
  Qed.

  Lemma alt_cands_spec fuel ss cs :
    alt_cands fuel done f1 ss = Ok cs -> forall x, In x cs <-> alt_denotes p fn ss x.
  Proof.
    pose proof (ec_file _ _ _ _ _ Hctx) as Hf.
    intros H x. destruct ss as [|a [|b [|c [|? ?]]]]; cbn [alt_cands] in H; cbn [alt_denotes].
    - injection H as <-. split; [intros [] | tauto].
    - injection H as <-. rewrite const_cands_In, (ec_n2c _ _ _ _ _ Hctx), <- (def_of_file p fn f a Hf), opt_dkind_const.
      split; intros (? & ?); auto.
    - inv_bind H. injection H as <-. rename x0 into ge, x1 into c2. rewrite Hincs in E0.
      pose proof (get_enum_spec p done Hinv Hplain _ _ _ _ _ _ Hctx E) as Hge.
      pose proof (inc_cands_spec _ _ _ _ _ Htargets E0 x) as Hc2. rewrite in_app_iff, Hc2. clear Hc2. split.
      + intros [H1|(i & y & hn & g' & csi & _ & Hn & Hp & Hr & Lg & Hh & Hc)].
        * left. destruct ge as [[en idx]|]; [|destruct H1]. destruct Hge as (efn & Hd).
          apply enum_cands_In in H1. destruct H1 as (-> & Hv). eauto 8.
        * right. rewrite Nat.sub_0_r in Hn. injection Hh as <-.
          destruct (Hinv hn g' Lg) as (g & Hg & Gd).
          rewrite const_cands_In, (gd_n2c _ _ _ _ _ Gd), <- (def_of_file p hn g b Hg), opt_dkind_const in Hc.
          destruct Hc as (Dk & ->). exists f, i, hn. split; [exact Hf|]. split; [|auto].
          rewrite (nth_file_incs _ _ Hn), Hp, Hr. reflexivity.
      + intros [(efn & vs & i & Hd & Hv & ->)|(f0 & i & gn & Hf0 & Hn & Hd & ->)].
        * left. destruct ge as [[en idx]|]; [|exfalso; eapply Hge; eauto]. destruct Hge as (efn' & Hd').
          destruct (enum_denotes_fun _ _ _ _ _ _ Hd' _ _ _ Hd) as (_ & -> & ->).
          apply enum_cands_In. auto.
        * right. assert (f0 = f) by congruence. subst f0.
          destruct (nth_file_incs_inv _ _ _ Hn) as (y & Hy & Hp & Hr).
          destruct (Htargets y (nth_error_In _ _ Hy)) as (hn & Hr' & Hl). assert (hn = gn) by congruence. subst hn.
          destruct (lookup gn done) as [g'|] eqn:Lg; [|congruence].
          destruct (Hinv gn g' Lg) as (g & Hg & Gd).
          eexists i, y, gn, g', _. split; [lia|]. rewrite Nat.sub_0_r. split; [exact Hy|]. split; [exact Hp|].
          split; [exact Hr|]. split; [exact Lg|]. split; [reflexivity|].
          rewrite const_cands_In, (gd_n2c _ _ _ _ _ Gd), <- (def_of_file p gn g b Hg), opt_dkind_const. auto.
    - rewrite Hincs in H.
      pose proof (inc_cands_spec _ _ _ _ _ Htargets H x) as Hc2. rewrite Hc2. clear Hc2. split.
      + intros (i & y & hn & g' & csi & _ & Hn & Hp & Hr & Lg & Hh & Hc). rewrite Nat.sub_0_r in Hn.
        inv_bind Hh. injection Hh as <-. rename x0 into ge.
        destruct (Hinv hn g' Lg) as (g & Hg & Gd).
        pose proof (get_enum_spec p done Hinv Hplain _ _ _ _ _ _ (good_ectx p done hn g g' Hg Gd) E) as Hge.
        destruct ge as [[en idx]|]; [|destruct Hc]. destruct Hge as (efn & Hd).
        apply enum_cands_In in Hc. destruct Hc as (-> & Hv).
        exists f, i, hn, efn, (map ev_name (en_values en)), idx. split; [exact Hf|]. split; [|auto].
        rewrite (nth_file_incs _ _ Hn), Hp, Hr. reflexivity.
      + intros (f0 & i & gn & efn & vs & j & Hf0 & Hn & Hd & Hv & ->). assert (f0 = f) by congruence. subst f0.
        destruct (nth_file_incs_inv _ _ _ Hn) as (y & Hy & Hp & Hr).
        destruct (Htargets y (nth_error_In _ _ Hy)) as (hn & Hr' & Hl). assert (hn = gn) by congruence. subst hn.
        destruct (lookup gn done) as [g'|] eqn:Lg; [|congruence].
        destruct (Hinv gn g' Lg) as (g & Hg & Gd).
        destruct (inc_cands_call _ _ _ _ _ _ _ _ _ H Hy Hp Hr Lg) as (csi & Hcall). cbn [plus] in Hcall.
        exists i, y, gn, g', csi. split; [lia|]. rewrite Nat.sub_0_r. split; [exact Hy|]. split; [exact Hp|].
        split; [exact Hr|]. split; [exact Lg|]. split; [exact Hcall|].
        inv_bind Hcall. injection Hcall as <-. rename x into ge.
        pose proof (get_enum_spec p done Hinv Hplain _ _ _ _ _ _ (good_ectx p done gn g g' Hg Gd) E) as Hge.
        destruct ge as [[en idx]|]; [|exfalso; eapply Hge; eauto]. destruct Hge as (efn' & Hd').
        destruct (enum_denotes_fun _ _ _ _ _ _ Hd' _ _ _ Hd) as (_ & -> & _).
        apply enum_cands_In. auto.
    - injection H as <-. split; [intros [] | tauto].
  Qed.

  Lemma all_cands_spec fuel : forall sss cs,
    all_cands fuel done f1 sss = Ok cs ->
    forall x, In x cs <-> exists ss, In ss sss /\ alt_denotes p fn ss x.
  Proof.
    induction sss as [|ss sss IH]; intros cs H x; cbn [all_cands] in H.
    - injection H as <-. split; [intros [] | intros (? & [] & _)].
    - inv_bind H. injection H as <-. rewrite in_app_iff, (alt_cands_spec _ _ _ E x), (IH _ E0 x). split.
      + intros [Ha|(ss' & Hin & Ha)]; [exists ss; cbn; auto | exists ss'; cbn; auto].
      + intros (ss' & [<-|Hin] & Ha); [left; exact Ha | right; eauto].
  Qed.

  Definition cv_good := cv_bound p fn.

  Lemma resolve_ident_good fuel s e :
    resolve_ident fuel done f1 s = Ok (Some e) ->
    const_denotes p fn s e /\ forall e', const_denotes p fn s e' -> e' = e.
  Proof.
    unfold resolve_ident. destruct (ident_is_bool s); [discriminate|]. intros H. inv_bind H.
    destruct x as [|e0 [|? ?]]; try discriminate. injection H as <-.
    pose proof (all_cands_spec _ _ _ E) as Hs. split.
    - apply const_denotes_alt. apply Hs. left. reflexivity.
    - intros e' Hd. apply const_denotes_alt in Hd. apply Hs in Hd. destruct Hd as [<-|[]]. reflexivity.
  Qed.

  Lemma resolve_cv_good fuel : forall c c', resolve_cv fuel done f1 c = Ok c' -> Forall cv_good (cv_subvalues c').
  Proof.
    induction c as [b|z|s|s e|l IHl|l IHl] using const_value_ind'; intros c' H; cbn [resolve_cv] in H.
    - injection H as <-. repeat constructor.
    - injection H as <-. repeat constructor.
    - injection H as <-. repeat constructor.
    - inv_bind H. injection H as <-. cbn [cv_subvalues]. constructor; [|constructor].
      unfold cv_good, cv_bound. destruct x as [e0|]; [|exact I]. exact (resolve_ident_good _ _ _ E).
    - inv_bind H. injection H as <-. cbn [cv_subvalues]. constructor; [exact I|].
      revert x E. induction IHl as [|y l Hy _ IH2]; intros l' E.
      + injection E as <-. constructor.
      + inv_bind E. injection E as <-. cbn [map concat]. apply Forall_app. split; [eapply Hy; eauto | apply IH2; assumption].
    - inv_bind H. injection H as <-. cbn [cv_subvalues]. constructor; [exact I|].
      revert x E. induction IHl as [|[k v] l (Hk & Hv) _ IH2]; intros l' E.
      + injection E as <-. constructor.
      + inv_bind E. injection E as <-. cbn [map concat fst snd]. apply Forall_app. split; [|apply IH2; assumption].
        apply Forall_app. split; [eapply Hk; eauto | eapply Hv; eauto].
  Qed.
End Cands.

(* ---------------------------------------------------------------- the file being resolved *)

Lemma cur_ectx p done fn f n2c tds1 :
  inv p done -> prog_file p fn = Some f ->
  (forall i, In i (f_includes f) -> exists hn, in_ref i = Some hn /\ lookup hn done <> None) ->
  register (file_def_names f) [] = Ok n2c ->
  mapM (resolve_typedef done (with_name2cat f (Some n2c))) (f_typedefs f) = Ok tds1 ->
  ectx p done fn f (cur1 f n2c tds1).
Proof.
  intros Hinv Hf Htg Hreg Htds. constructor.
  - exact Hf.
  - exact (cur_nodup f n2c Hreg).
  - intros n. exact (proj2 (register_file f n2c Hreg) n).
  - reflexivity.
  - intros n tgt Hl.
    pose proof (tds1_aligned done f n2c tds1 Htds) as Hal.
    pose proof (cur_nodup f n2c Hreg) as ND.
    assert (Htd : exists td, In td (f_typedefs f) /\ td_alias td = n /\ ty_name (td_type td) = tgt).
    { apply lookup_In in Hl. unfold file_defs in Hl. apply in_app_or in Hl. destruct Hl as [Hl|Hl].
      - apply in_map_iff in Hl. destruct Hl as (td & [= <- <-] & Hin). eauto.
      - exfalso. repeat (apply in_app_or in Hl; destruct Hl as [Hl|Hl]);
          apply in_map_iff in Hl; destruct Hl as (? & [= _ ?] & _). }
    destruct Htd as (td & Hin & Ha & Hn).
    destruct (Forall2_In_l _ _ _ _ Hal Hin) as (td1 & Hin1 & (Ha1 & Hn1 & Ho)).
    assert (NDa : NoDup (map td_alias tds1)).
    { assert (E : map td_alias tds1 = map td_alias (f_typedefs f)).
      { eapply Forall2_map_eq; [exact Hal|]. intros x y (H1 & _). exact H1. }
      rewrite E. unfold file_defs in ND. rewrite map_app in ND. apply NoDup_app_l in ND. rewrite map_map in ND. exact ND. }
    exists td1. split; [|split; [congruence|]].
    { unfold find_typedef. cbn [cur1 with_typedefs f_typedefs]. rewrite <- Ha, <- Ha1. apply find_by_NoDup; assumption. }
    assert (Hh : head1 done (cur1 f n2c tds1) (td_type td1)) by (destruct (td_type td1); exact (Forall_inv Ho)).
    unfold head1 in Hh. rewrite Hn1, Hn in Hh.
    destruct (builtin_category tgt); [tauto|].
    destruct (split_type tgt) as [|a [|m [|? ?]]] eqn:Sn; try contradiction.
    + destruct Hh as (? & _ & _ & _ & Hr0 & _). exact Hr0.
    + destruct Hh as (idx & c & Fi & _ & Hr0 & _).
      destruct (cur_find_include p done f Hinv Htg n2c tds1 is_type_cat is_type_kind a m idx c (fun k => eq_refl) Fi) as (gn & k & Hs & _ & _).
      destruct (spec_include_nth _ _ _ _ _ _ _ _ Hs) as (_ & Hnth & _). rewrite Nat.sub_0_r in Hnth.
      unfold file_incs in Hnth. rewrite nth_error_map in Hnth.
      destruct (nth_error (f_includes f) idx) as [x|] eqn:Nx; [|discriminate]. cbn [option_map] in Hnth.
      injection Hnth as _ Hrx.
      destruct (Htg x (nth_error_In _ _ Nx)) as (hn & Hrn & Hln). assert (hn = gn) by congruence. subst hn.
      destruct (lookup gn done) as [h'|] eqn:Lh; [|congruence].
      exists idx, gn, h'. split; [exact Hs|]. split; [exact Hr0|]. split; [|exact Lh].
      unfold reference_target. cbn [ref_index]. rewrite nth_include_nat. change (f_includes (cur1 f n2c tds1)) with (f_includes f). rewrite Nx.
      rewrite (include_target_done done x gn Hrx). exact Lh.
Qed.

Section ConstFile.
  Variables (p done : program) (fn : bytes) (f f1 : file).
  Hypothesis Hinv : inv p done.
  Hypothesis Hplain : plain_names p = true.
  Hypothesis Hctx : ectx p done fn f f1.
  Hypothesis Hincs : f_includes f1 = f_includes f.
  Hypothesis Htargets : forall i, In i (f_includes f) -> exists hn, in_ref i = Some hn /\ lookup hn done <> None.
  Variable st : list tde.

  Let CG := cv_bound p fn.
  Let rcv := resolve_cv_good p done Hinv Hplain fn f f1 Hctx Hincs Htargets.

  Definition default_values (fd : field) : list const_value :=
    match fd_default fd with Some c => [c] | None => [] end.

  Lemma constant_cv fuel c c1 c2 :
    resolve_constant fuel done f1 c = Ok c1 -> fix_constant done f1 st c1 = Ok c2 ->
    Forall CG (cv_subvalues (co_value c2)).
  Proof.
    unfold resolve_constant, fix_constant. intros H1 H2. inv_bind H1. inv_bind H2.
    injection H1 as <-. injection H2 as <-. cbn [co_value]. exact (rcv _ _ _ E0).
  Qed.

  Lemma field_cv fuel b fd fd1 fd2 :
    resolve_field fuel done f1 b fd = Ok fd1 -> fix_field done f1 st fd1 = Ok fd2 ->
    Forall CG (flat_map' cv_subvalues (default_values fd2)).
  Proof.
    unfold resolve_field, fix_field. intros H1 H2. inv_bind H1. inv_bind H2.
    injection H1 as <-. injection H2 as <-. unfold default_values. cbn [fd_default].
    destruct (fd_default fd) as [c|]; [inv_bind E0; injection E0 as <- | injection E0 as <-; constructor].
    unfold flat_map'. cbn [map concat]. rewrite app_nil_r. exact (rcv _ _ _ E2).
  Qed.

  Lemma fields_cv fuel b l l1 l2 :
    mapM (resolve_field fuel done f1 b) l = Ok l1 -> mapM (fix_field done f1 st) l1 = Ok l2 ->
    Forall CG (flat_map' cv_subvalues (flat_map' default_values l2)).
  Proof.
    intros H1 H2. pose proof (Forall2_compose _ _ _ _ _ (mapM_Forall2 _ _ _ H1) (mapM_Forall2 _ _ _ H2)) as H.
    clear H1 H2. induction H as [|x z l l' (y & Hxy & Hyz) _ IH]; [constructor|].
    unfold flat_map' at 2. cbn [map concat]. unfold flat_map' at 1. rewrite map_app, concat_app.
    apply Forall_app. split; [eapply field_cv; eauto | exact IH].
  Qed.

  Lemma struct_cv fuel s s1 s2 :
    resolve_struct_like fuel done f1 s = Ok s1 -> fix_struct_like done f1 st s1 = Ok s2 ->
    Forall CG (flat_map' cv_subvalues (flat_map' default_values (sl_fields s2))).
  Proof.
    unfold resolve_struct_like, fix_struct_like. intros H1 H2. inv_bind H1. inv_bind H2.
    injection H1 as <-. injection H2 as <-. cbn [sl_fields]. eapply fields_cv; eauto.
  Qed.

  Lemma function_cv fuel fu fu1 fu2 :
    resolve_function fuel done f1 fu = Ok fu1 -> fix_function done f1 st fu1 = Ok fu2 ->
    Forall CG (flat_map' cv_subvalues (flat_map' default_values (function_fields fu2))).
  Proof.
    unfold resolve_function, fix_function. intros H1 H2. inv_bind H1. inv_bind H2.
    injection H1 as <-. injection H2 as <-. unfold function_fields. cbn [fn_args fn_throws].
    unfold flat_map'. rewrite !map_app, !concat_app, map_app, concat_app. apply Forall_app.
    split; [exact (fields_cv _ _ _ _ _ E0 E3) | exact (fields_cv _ _ _ _ _ E1 E4)].
  Qed.

  Lemma service_cv fuel sv sv1 sv2 :
    resolve_service fuel done f1 sv = Ok sv1 -> fix_service done f1 st sv1 = Ok sv2 ->
    Forall CG (flat_map' cv_subvalues (flat_map' default_values (service_fields sv2))).
  Proof.
    unfold resolve_service, fix_service. intros H1 H2. inv_bind H1. inv_bind H2.
    injection H1 as <-. injection H2 as <-. unfold service_fields. cbn [sv_functions].
    pose proof (Forall2_compose _ _ _ _ _ (mapM_Forall2 _ _ _ E) (mapM_Forall2 _ _ _ E1)) as H.
    clear E E1. induction H as [|a z l l' (y & Hxy & Hyz) _ IH]; [constructor|].
    unfold flat_map' at 3. cbn [map concat]. unfold flat_map' at 2. rewrite map_app, concat_app.
    unfold flat_map' at 1. rewrite map_app, concat_app.
    apply Forall_app. split; [eapply function_cv; eauto | exact IH].
  Qed.
End ConstFile.
