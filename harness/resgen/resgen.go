// Package resgen generates multi-file IDL programs aimed at symbol resolution
// (property C05) together with the resolution the generator INTENDS: the expected
// resolved AST (category / is-typedef / reference of every type occurrence, the Extra
// of every identifier constant, Used of every include, Name2Category, the Reference
// of every service).
//
// The intent is derived from the target the generator picked (a symbol of a file),
// not from a re-implementation of the resolver: a spelling is only used when the
// naming rules of the IDL make it denote exactly that target (first include with
// the prefix that defines the name for types and services; exactly one explanation
// for identifiers).
//
// Shapes produced on purpose: include DAGs with diamonds, the same base name in
// different directories (equal IDL prefixes), a dotted base name, typedef chains
// (local, crossing files, with forward references), global names equal to include
// prefixes, enum values written through typedefs of the enum (local and included),
// qualified constants, identifiers inside list / map constants and field / argument
// defaults, services extending local and included services.
package resgen

import (
	"encoding/json"
	"fmt"
	"sort"
	"strings"

	"verif/harness/idlast"
	"verif/harness/rng"
)

type Kind int

const (
	KTypedef Kind = iota
	KConst
	KEnum
	KStruct
	KUnion
	KException
	KService
)

func (k Kind) isType() bool {
	return k == KTypedef || k == KEnum || k == KStruct || k == KUnion || k == KException
}

// Sym is one global definition.
type Sym struct {
	File    *File
	Name    string
	Kind    Kind
	Final   idlast.Category // category a reference to the symbol finally carries
	Enum    *Sym            // the enum the symbol finally denotes (an enum itself, or a typedef chain ending in one)
	EnumIdx int32           // what getEnum reports for the symbol inside its own file: -1, or the include index of the first external hop
	Values  []string        // enum value names
	Chain   int             // typedef: number of typedef hops to the end of the chain
	Cross   bool            // typedef: the chain leaves the file
	// typedef only: what its type names (used by the independent candidate count)
	tdLocal string
	tdExt   *Sym
	tdIdx   int
}

type File struct {
	Path   string
	Prefix string
	Incs   []*File
	Syms   []*Sym
	byName map[string]*Sym
	AST    *idlast.File // expected resolved AST
}

type Program struct {
	Files []*File // main first, then in the order the recursive parser reaches them
	Stats map[string]int
	r     *rng.R
}

type Options struct {
	MaxFiles int // 1..7, default 5
	Size     int // definitions per file, default 7
}

// ---------------------------------------------------------------- naming rules (independent of the model)

func idlPrefix(path string) string {
	b := path
	if i := strings.LastIndex(b, "/"); i >= 0 {
		b = b[i+1:]
	}
	if i := strings.LastIndex(b, "."); i >= 0 {
		b = b[:i]
	}
	return b
}

// qualified type / service: the first include with the prefix that defines the name with a fitting kind
func (f *File) qual(pre, name string, fit func(Kind) bool) (int, *Sym) {
	for i, g := range f.Incs {
		if g.Prefix != pre {
			continue
		}
		if s := g.byName[name]; s != nil && fit(s.Kind) {
			return i, s
		}
	}
	return -1, nil
}

func splitValue(id string) [][]string {
	if id == "" {
		return nil
	}
	i := strings.LastIndex(id, ".")
	if i < 0 {
		return [][]string{{id}}
	}
	a, v := id[:i], id[i+1:]
	out := [][]string{{a, v}}
	if j := strings.LastIndex(a, "."); j >= 0 {
		out = append(out, []string{a[:j], a[j+1:], v})
	}
	return out
}

// enumOf: the enum a name of the file denotes for "NAME.VALUE" (nil if none)
func (f *File) enumOf(name string, depth int) *Sym {
	if depth > 64 {
		return nil
	}
	s := f.byName[name]
	if s == nil {
		return nil
	}
	switch s.Kind {
	case KEnum:
		return s
	case KTypedef:
		if s.tdExt != nil {
			return s.tdExt.File.enumOf(s.tdExt.Name, depth+1)
		}
		if s.tdLocal != "" {
			return f.enumOf(s.tdLocal, depth+1)
		}
	}
	return nil
}

// Explanations counts the ways an identifier can be read in file f.
func (f *File) Explanations(id string) int {
	n := 0
	count := func(e *Sym, v string) {
		if e == nil {
			return
		}
		for _, x := range e.Values {
			if x == v {
				n++
			}
		}
	}
	for _, ss := range splitValue(id) {
		switch len(ss) {
		case 1:
			if s := f.byName[ss[0]]; s != nil && s.Kind == KConst {
				n++
			}
		case 2:
			count(f.enumOf(ss[0], 0), ss[1])
			for _, g := range f.Incs {
				if g.Prefix == ss[0] {
					if s := g.byName[ss[1]]; s != nil && s.Kind == KConst {
						n++
					}
				}
			}
		case 3:
			for _, g := range f.Incs {
				if g.Prefix == ss[0] {
					count(g.enumOf(ss[1], 0), ss[2])
				}
			}
		}
	}
	return n
}

// ---------------------------------------------------------------- generation

type gen struct {
	r    *rng.R
	opt  Options
	p    *Program
	tsym map[*idlast.Type]*Sym // named type occurrence -> the symbol it denotes
}

var dirs = []string{"", "a/", "b/", "lib/", "lib/deep/"}
var bases = []string{"x", "y", "base", "common", "types", "v1.api"}
var defNames = []string{"Foo", "Bar", "Baz", "Item", "Kind", "Code", "Color", "Err", "Req", "Resp", "Base", "T", "U", "Node"}
var valNames = []string{"A", "B", "C", "K", "OK", "X", "Y", "None"}
var constNames = []string{"K", "A", "MAX", "X", "LIMIT", "DEFAULT", "OK"}
var fieldNames = []string{"a", "b", "c", "id", "name", "kind", "items", "m", "next"}
var baseTypes = []struct {
	n string
	c idlast.Category
}{{"bool", idlast.CatBool}, {"byte", idlast.CatByte}, {"i8", idlast.CatByte}, {"i16", idlast.CatI16}, {"i32", idlast.CatI32},
	{"i64", idlast.CatI64}, {"double", idlast.CatDouble}, {"string", idlast.CatString}, {"binary", idlast.CatBinary}}

func (g *gen) stat(k string) { g.p.Stats[k]++ }

func Generate(r *rng.R, opt Options) *Program {
	if opt.MaxFiles <= 0 {
		opt.MaxFiles = 5
	}
	if opt.MaxFiles > 7 {
		opt.MaxFiles = 7
	}
	if opt.Size <= 0 {
		opt.Size = 7
	}
	g := &gen{r: r, opt: opt, p: &Program{Stats: map[string]int{}, r: r}, tsym: map[*idlast.Type]*Sym{}}
	n := r.Range(1, opt.MaxFiles)
	if r.Chance(3, 4) && n < 3 && opt.MaxFiles >= 3 {
		n = r.Range(3, opt.MaxFiles)
	}
	// file paths: distinct, equal base names in different directories are frequent
	seen := map[string]bool{}
	files := make([]*File, n)
	mainPath := rng.Pick(r, []string{"main.thrift", "svc/main.thrift", "main.thrift"})
	files[0] = &File{Path: mainPath, Prefix: idlPrefix(mainPath), byName: map[string]*Sym{}}
	seen[mainPath] = true
	for i := 1; i < n; i++ {
		var path string
		for {
			b := rng.Pick(r, bases)
			if i >= 2 && r.Chance(1, 2) {
				b = idlPrefix(files[r.Range(1, i-1)].Path) // repeat a base name
			}
			path = rng.Pick(r, dirs) + b + ".thrift"
			if !seen[path] {
				break
			}
		}
		seen[path] = true
		files[i] = &File{Path: path, Prefix: idlPrefix(path), byName: map[string]*Sym{}}
	}
	// include DAG: i includes some j > i; every file but main is included by someone before it
	for j := 1; j < n; j++ {
		i := r.Intn(j)
		files[i].Incs = append(files[i].Incs, files[j])
	}
	for i := 0; i < n; i++ {
		for j := i + 1; j < n; j++ {
			if r.Chance(1, 3) && !hasFile(files[i].Incs, files[j]) {
				files[i].Incs = append(files[i].Incs, files[j])
			}
		}
		r2 := files[i].Incs
		for k := len(r2) - 1; k > 0; k-- { // include order is random
			m := r.Intn(k + 1)
			r2[k], r2[m] = r2[m], r2[k]
		}
	}
	// leaves first, so that the symbols of every include are known
	for i := n - 1; i >= 0; i-- {
		g.genFile(files[i], files)
	}
	// program order = depth-first from main, include order
	var order []*File
	vis := map[*File]bool{}
	var walk func(f *File)
	walk = func(f *File) {
		if vis[f] {
			return
		}
		vis[f] = true
		order = append(order, f)
		for _, x := range f.Incs {
			walk(x)
		}
	}
	walk(files[0])
	g.p.Files = order
	g.p.Stats["files"] += len(order)
	g.shapeStats()
	return g.p
}

func hasFile(l []*File, f *File) bool {
	for _, x := range l {
		if x == f {
			return true
		}
	}
	return false
}

func (g *gen) shapeStats() {
	p := g.p
	pre := map[string]int{}
	for _, f := range p.Files {
		pre[f.Prefix]++
		same := map[string]int{}
		for _, x := range f.Incs {
			same[x.Prefix]++
		}
		for _, c := range same {
			if c > 1 {
				g.stat("file.includes_two_with_same_prefix")
			}
		}
		for _, s := range f.Syms {
			for _, x := range f.Incs {
				if x.Prefix == s.Name {
					g.stat("name.equals_include_prefix")
				}
			}
		}
	}
	for _, c := range pre {
		if c > 1 {
			g.stat("program.same_base_name_groups")
		}
	}
	// diamonds: a file reachable from main along two different include edges
	indeg := map[*File]int{}
	for _, f := range p.Files {
		for _, x := range f.Incs {
			indeg[x]++
		}
	}
	for _, c := range indeg {
		if c > 1 {
			g.stat("include.diamond_targets")
		}
	}
}

func (g *gen) fresh(f *File, pool []string) string {
	// names are drawn from small pools (shared between files) and from the include
	// prefixes of the program; a numeric suffix keeps them distinct inside one file
	cands := append([]string(nil), pool...)
	if g.r.Chance(1, 4) {
		for _, x := range f.Incs {
			if !strings.Contains(x.Prefix, ".") {
				cands = append(cands, x.Prefix, x.Prefix)
			}
		}
	}
	base := rng.Pick(g.r, cands)
	name := base
	for k := 2; f.byName[name] != nil || name == "true" || name == "false"; k++ {
		name = fmt.Sprintf("%s%d", base, k)
	}
	return name
}

func (g *gen) add(f *File, s *Sym) *Sym {
	s.File = f
	f.Syms = append(f.Syms, s)
	f.byName[s.Name] = s
	return s
}

func bp(b bool) *bool { return &b }

// nameType: the type occurrence that denotes s when written in file f (nil when no
// spelling denotes it: not directly included, or shadowed by an earlier include with
// the same prefix)
func (g *gen) nameType(f *File, s *Sym) *idlast.Type {
	t := &idlast.Type{Category: s.Final}
	if s.Kind == KTypedef {
		t.IsTypedef = bp(true)
	}
	if s.File == f {
		t.Name = idlast.B(s.Name)
	} else {
		i, s2 := f.qual(s.File.Prefix, s.Name, Kind.isType)
		if s2 != s {
			return nil
		}
		t.Name = idlast.B(s.File.Prefix + "." + s.Name)
		t.Reference = &idlast.Reference{Name: idlast.B(s.Name), Index: int32(i)}
		g.stat("type.qualified")
	}
	g.tsym[t] = s
	return t
}

func (g *gen) visibleTypes(f *File, want func(*Sym) bool) []*Sym {
	var out []*Sym
	for _, s := range f.Syms {
		if s.Kind.isType() && (want == nil || want(s)) {
			out = append(out, s)
		}
	}
	for _, x := range f.Incs {
		for _, s := range x.Syms {
			if s.Kind.isType() && (want == nil || want(s)) {
				out = append(out, s)
			}
		}
	}
	return out
}

func (g *gen) genType(f *File, depth int, want func(*Sym) bool) *idlast.Type {
	k := g.r.Intn(100)
	switch {
	case k < 20:
		b := rng.Pick(g.r, baseTypes)
		return &idlast.Type{Name: idlast.B(b.n), Category: b.c}
	case k < 38 && depth < 3:
		switch g.r.Intn(3) {
		case 0:
			return &idlast.Type{Name: "list", Category: idlast.CatList, ValueType: g.genType(f, depth+1, nil)}
		case 1:
			return &idlast.Type{Name: "set", Category: idlast.CatSet, ValueType: g.genType(f, depth+1, nil)}
		default:
			return &idlast.Type{Name: "map", Category: idlast.CatMap, KeyType: g.genType(f, depth+1, nil), ValueType: g.genType(f, depth+1, nil)}
		}
	}
	vis := g.visibleTypes(f, want)
	for try := 0; try < 4 && len(vis) > 0; try++ {
		if t := g.nameType(f, rng.Pick(g.r, vis)); t != nil {
			return t
		}
		g.stat("type.shadowed_spelling_avoided")
	}
	b := rng.Pick(g.r, baseTypes)
	return &idlast.Type{Name: idlast.B(b.n), Category: b.c}
}

// ---- identifiers

type identTarget struct {
	id     string
	intent idlast.ConstExtra
}

// identFor spells an identifier for a random target that fits the (final) category;
// nil when the file offers none with a unique explanation.
func (g *gen) identFor(f *File, enum *Sym) *identTarget {
	var opts []identTarget
	if enum != nil {
		// every name that denotes the enum: locally and through each include
		for _, s := range f.Syms {
			if s.Enum == enum && (s.Kind == KEnum || s.Kind == KTypedef) {
				for _, v := range enum.Values {
					opts = append(opts, identTarget{s.Name + "." + v, idlast.ConstExtra{IsEnum: true, Index: s.EnumIdx, Name: idlast.B(v), Sel: idlast.B(s.Name)}})
				}
			}
		}
		for i, x := range f.Incs {
			for _, s := range x.Syms {
				if s.Enum == enum && (s.Kind == KEnum || s.Kind == KTypedef) {
					for _, v := range enum.Values {
						opts = append(opts, identTarget{x.Prefix + "." + s.Name + "." + v, idlast.ConstExtra{IsEnum: true, Index: int32(i), Name: idlast.B(v), Sel: idlast.B(s.Name)}})
					}
				}
			}
		}
	} else {
		for _, s := range f.Syms {
			if s.Kind == KConst {
				opts = append(opts, identTarget{s.Name, idlast.ConstExtra{Index: -1, Name: idlast.B(s.Name)}})
			}
		}
		for i, x := range f.Incs {
			for _, s := range x.Syms {
				if s.Kind == KConst {
					opts = append(opts, identTarget{x.Prefix + "." + s.Name, idlast.ConstExtra{Index: int32(i), Name: idlast.B(s.Name), Sel: idlast.B(x.Prefix)}})
				}
			}
		}
	}
	for try := 0; try < 6 && len(opts) > 0; try++ {
		o := rng.Pick(g.r, opts)
		if f.Explanations(o.id) == 1 {
			return &o
		}
		g.stat("ident.ambiguous_spelling_avoided")
	}
	return nil
}

func ident(o *identTarget) *idlast.ConstValue {
	e := o.intent
	return &idlast.ConstValue{Kind: idlast.ConstIdentifier, Identifier: idlast.B(o.id), Extra: &e}
}

func intVal(v int64) *idlast.ConstValue { return &idlast.ConstValue{Kind: idlast.ConstInt, Int: v} }

func (g *gen) genValue(f *File, t *idlast.Type, depth int) *idlast.ConstValue {
	cat := t.Category
	switch {
	case cat == idlast.CatBool:
		if g.r.Bool() {
			return &idlast.ConstValue{Kind: idlast.ConstIdentifier, Identifier: idlast.B(rng.Pick(g.r, []string{"true", "false"}))}
		}
		return intVal(int64(g.r.Intn(2)))
	case cat >= idlast.CatByte && cat <= idlast.CatI64:
		if g.r.Chance(1, 2) {
			if o := g.identFor(f, nil); o != nil {
				g.identStat(o)
				return ident(o)
			}
		}
		return intVal(int64(g.r.Intn(100)))
	case cat == idlast.CatDouble:
		return intVal(int64(g.r.Intn(10)))
	case cat == idlast.CatString || cat == idlast.CatBinary:
		return &idlast.ConstValue{Kind: idlast.ConstLiteral, Literal: idlast.B(rng.Pick(g.r, []string{"", "s", "hello", "x.K"}))}
	case cat == idlast.CatEnum:
		var e *Sym
		if s := g.tsym[t]; s != nil {
			e = s.Enum
		}
		if e != nil && g.r.Chance(4, 5) {
			if o := g.identFor(f, e); o != nil {
				g.identStat(o)
				return ident(o)
			}
		}
		return intVal(int64(g.r.Intn(3)))
	case cat == idlast.CatList || cat == idlast.CatSet:
		out := &idlast.ConstValue{Kind: idlast.ConstList, List: []*idlast.ConstValue{}}
		if t.ValueType != nil && depth < 2 {
			for i, n := 0, g.r.Intn(3); i < n; i++ {
				out.List = append(out.List, g.genValue(f, t.ValueType, depth+1))
			}
		}
		return out
	case cat == idlast.CatMap:
		out := &idlast.ConstValue{Kind: idlast.ConstMap, Map: []idlast.MapEntry{}}
		if t.KeyType != nil && t.ValueType != nil && depth < 2 {
			for i, n := 0, g.r.Intn(3); i < n; i++ {
				out.Map = append(out.Map, idlast.MapEntry{Key: g.genValue(f, t.KeyType, depth+1), Value: g.genValue(f, t.ValueType, depth+1)})
			}
		}
		return out
	default: // struct-like (or a typedef'd container): a struct literal with literal keys
		out := &idlast.ConstValue{Kind: idlast.ConstMap, Map: []idlast.MapEntry{}}
		if g.r.Chance(1, 2) && depth < 2 {
			v := intVal(1)
			if o := g.identFor(f, nil); o != nil {
				g.identStat(o)
				v = ident(o)
			}
			out.Map = append(out.Map, idlast.MapEntry{Key: &idlast.ConstValue{Kind: idlast.ConstLiteral, Literal: "a"}, Value: v})
		}
		return out
	}
}

func (g *gen) identStat(o *identTarget) {
	n := strings.Count(o.id, ".")
	switch {
	case !o.intent.IsEnum && n == 0:
		g.stat("ident.local_constant")
	case !o.intent.IsEnum:
		g.stat("ident.include_constant")
	case o.intent.IsEnum && o.intent.Index < 0:
		g.stat("ident.local_enum_value")
	default:
		g.stat("ident.enum_value_through_include")
	}
}

func (g *gen) genFields(f *File, n int, union, args bool, only func(*Sym) bool) []*idlast.Field {
	out := []*idlast.Field{}
	used := map[string]bool{}
	for i := 0; i < n; i++ {
		name := rng.Pick(g.r, fieldNames)
		for used[name] {
			name += "x"
		}
		used[name] = true
		fd := &idlast.Field{ID: int32(i + 1), Name: idlast.B(name), Requiredness: idlast.Requiredness(g.r.Intn(3))}
		if args {
			fd.Requiredness = idlast.Requiredness(g.r.Intn(2)) // "optional" on an argument is rewritten by the checker (FixWarnings)
		}
		if union {
			fd.Requiredness = idlast.ReqOptional // what the pass leaves behind
		}
		if only != nil {
			fd.Type = g.genTypeOnly(f, only)
		} else {
			fd.Type = g.genType(f, 0, nil)
		}
		if only == nil && g.r.Chance(2, 5) {
			fd.Default = g.genValue(f, fd.Type, 0)
			g.stat("field.default")
		}
		out = append(out, fd)
	}
	return out
}

// a named type restricted to some symbols (exceptions for throws); nil-safe fallback
func (g *gen) genTypeOnly(f *File, only func(*Sym) bool) *idlast.Type {
	vis := g.visibleTypes(f, only)
	for try := 0; try < 4 && len(vis) > 0; try++ {
		if t := g.nameType(f, rng.Pick(g.r, vis)); t != nil {
			return t
		}
	}
	return nil
}

func (g *gen) genFile(f *File, all []*File) {
	ast := NewFile(f.Path)
	ast.HasName2Cat = true
	f.AST = ast
	for _, x := range f.Incs {
		ref := idlast.B(x.Path)
		ast.Includes = append(ast.Includes, &idlast.Include{Path: idlast.B(x.Path), Ref: &ref})
	}
	n := g.r.Range(2, g.opt.Size+2)
	for i := 0; i < n; i++ {
		switch k := g.r.Intn(100); {
		case k < 30:
			g.genTypedef(f)
		case k < 45:
			g.genEnum(f)
		case k < 65:
			g.genStructLike(f)
		case k < 88:
			g.genConst(f)
		default:
			g.genService(f)
		}
	}
	// a definition generated later may have given an identifier a second explanation
	// (a typedef or enum named like an include prefix): such spellings are dropped
	ForEach(ast, func(*idlast.Type) {}, func(c *idlast.ConstValue) {
		if c.Kind == idlast.ConstIdentifier && c.Extra != nil && f.Explanations(string(c.Identifier)) != 1 {
			*c = idlast.ConstValue{Kind: idlast.ConstInt, Int: 0}
			g.stat("ident.ambiguous_spelling_avoided")
		}
	})
	// the textual order of each kind is random: forward references everywhere
	g.shuffleDefs(ast)
	// Name2Category
	for _, s := range f.Syms {
		c := s.Final
		switch s.Kind {
		case KTypedef:
			c = idlast.CatTypedef
		case KConst:
			c = idlast.CatConstant
		case KService:
			c = idlast.CatService
		}
		ast.Name2Cat = append(ast.Name2Cat, idlast.NameCat{Name: idlast.B(s.Name), Category: c})
	}
	sort.Slice(ast.Name2Cat, func(i, j int) bool { return ast.Name2Cat[i].Name < ast.Name2Cat[j].Name })
	SetUsed(ast)
}

func (g *gen) shuffleDefs(ast *idlast.File) {
	r := g.r
	shuffle(r, len(ast.Typedefs), func(i, j int) { ast.Typedefs[i], ast.Typedefs[j] = ast.Typedefs[j], ast.Typedefs[i] })
	shuffle(r, len(ast.Constants), func(i, j int) { ast.Constants[i], ast.Constants[j] = ast.Constants[j], ast.Constants[i] })
	shuffle(r, len(ast.Enums), func(i, j int) { ast.Enums[i], ast.Enums[j] = ast.Enums[j], ast.Enums[i] })
	shuffle(r, len(ast.Structs), func(i, j int) { ast.Structs[i], ast.Structs[j] = ast.Structs[j], ast.Structs[i] })
	shuffle(r, len(ast.Unions), func(i, j int) { ast.Unions[i], ast.Unions[j] = ast.Unions[j], ast.Unions[i] })
	shuffle(r, len(ast.Exceptions), func(i, j int) { ast.Exceptions[i], ast.Exceptions[j] = ast.Exceptions[j], ast.Exceptions[i] })
	shuffle(r, len(ast.Services), func(i, j int) { ast.Services[i], ast.Services[j] = ast.Services[j], ast.Services[i] })
}

func shuffle(r *rng.R, n int, swap func(i, j int)) {
	for k := n - 1; k > 0; k-- {
		swap(k, r.Intn(k+1))
	}
}

func (g *gen) genTypedef(f *File) {
	var t *idlast.Type
	if g.r.Chance(3, 5) { // lengthen a chain or alias an enum
		t = g.genTypeOnly(f, func(s *Sym) bool { return s.Kind == KTypedef || s.Kind == KEnum })
	}
	if t == nil {
		t = g.genType(f, 0, nil)
	}
	s := &Sym{Name: g.fresh(f, defNames), Kind: KTypedef, Final: t.Category, EnumIdx: -1}
	if tg := g.tsym[t]; tg != nil {
		s.Enum = tg.Enum
		if tg.Kind == KTypedef {
			s.Chain = tg.Chain + 1
			s.Cross = tg.Cross
		} else {
			s.Chain = 1
		}
		if tg.File == f {
			s.tdLocal = tg.Name
			s.EnumIdx = tg.EnumIdx
		} else {
			s.tdExt, s.tdIdx = tg, int(t.Reference.Index)
			s.EnumIdx = t.Reference.Index
			s.Cross = true
		}
		if s.Enum == nil {
			s.EnumIdx = -1
		}
	}
	g.add(f, s)
	f.AST.Typedefs = append(f.AST.Typedefs, &idlast.Typedef{Type: t, Alias: idlast.B(s.Name)})
	g.stat(fmt.Sprintf("typedef.chain_len=%d", min(s.Chain, 6)))
	if s.Cross {
		g.stat("typedef.chain_crosses_file")
	}
	if s.Enum != nil {
		g.stat("typedef.of_enum")
	}
}

func min(a, b int) int {
	if a < b {
		return a
	}
	return b
}

func (g *gen) genEnum(f *File) {
	s := &Sym{Name: g.fresh(f, defNames), Kind: KEnum, Final: idlast.CatEnum, EnumIdx: -1}
	s.Enum = s
	e := &idlast.Enum{Name: idlast.B(s.Name), Values: []*idlast.EnumValue{}}
	seen := map[string]bool{}
	for i, n := 0, g.r.Range(1, 4); i < n; i++ {
		v := rng.Pick(g.r, valNames)
		if seen[v] {
			continue
		}
		seen[v] = true
		s.Values = append(s.Values, v)
		e.Values = append(e.Values, &idlast.EnumValue{Name: idlast.B(v), Value: int64(len(e.Values))})
	}
	g.add(f, s)
	f.AST.Enums = append(f.AST.Enums, e)
	g.stat("def.enum")
}

func (g *gen) genStructLike(f *File) {
	k := rng.Pick(g.r, []Kind{KStruct, KStruct, KUnion, KException})
	s := &Sym{Name: g.fresh(f, defNames), Kind: k, EnumIdx: -1}
	sl := &idlast.StructLike{Name: idlast.B(s.Name)}
	switch k {
	case KStruct:
		s.Final, sl.Category = idlast.CatStruct, idlast.SKStruct
	case KUnion:
		s.Final, sl.Category = idlast.CatUnion, idlast.SKUnion
	default:
		s.Final, sl.Category = idlast.CatException, idlast.SKException
	}
	g.add(f, s) // before the fields: a struct may mention itself
	sl.Fields = g.genFields(f, g.r.Intn(4), k == KUnion, false, nil)
	switch k {
	case KStruct:
		f.AST.Structs = append(f.AST.Structs, sl)
	case KUnion:
		f.AST.Unions = append(f.AST.Unions, sl)
	default:
		f.AST.Exceptions = append(f.AST.Exceptions, sl)
	}
	g.stat("def." + sl.Category.Keyword())
}

func (g *gen) genConst(f *File) {
	t := g.genType(f, 0, nil)
	v := g.genValue(f, t, 0)
	s := &Sym{Name: g.fresh(f, constNames), Kind: KConst, Final: idlast.CatConstant, EnumIdx: -1}
	g.add(f, s) // after the value: a constant does not mention itself
	f.AST.Constants = append(f.AST.Constants, &idlast.Constant{Name: idlast.B(s.Name), Type: t, Value: v})
	g.stat("def.const")
}

func (g *gen) genService(f *File) {
	s := &Sym{Name: g.fresh(f, []string{"Svc", "Api", "Base", "Admin"}), Kind: KService, Final: idlast.CatService, EnumIdx: -1}
	sv := &idlast.Service{Name: idlast.B(s.Name), Functions: []*idlast.Function{}}
	if g.r.Chance(1, 2) {
		var opts []*Sym
		for _, x := range f.Syms {
			if x.Kind == KService {
				opts = append(opts, x)
			}
		}
		for _, inc := range f.Incs {
			for _, x := range inc.Syms {
				if x.Kind == KService {
					opts = append(opts, x)
				}
			}
		}
		if len(opts) > 0 {
			b := rng.Pick(g.r, opts)
			if b.File == f {
				sv.Extends = idlast.B(b.Name)
				g.stat("service.extends_local")
			} else if i, s2 := f.qual(b.File.Prefix, b.Name, func(k Kind) bool { return k == KService }); s2 == b {
				sv.Extends = idlast.B(b.File.Prefix + "." + b.Name)
				sv.Reference = &idlast.Reference{Name: idlast.B(b.Name), Index: int32(i)}
				g.stat("service.extends_included")
			}
		}
	}
	g.add(f, s)
	for i, n := 0, g.r.Intn(3); i < n; i++ {
		fn := &idlast.Function{Name: idlast.B(fmt.Sprintf("f%d", i)), Arguments: []*idlast.Field{}, Throws: []*idlast.Field{}}
		if g.r.Chance(1, 3) {
			fn.Void = true
			fn.FunctionType = &idlast.Type{Name: "void"}
			fn.Oneway = g.r.Chance(1, 4)
		} else {
			fn.FunctionType = g.genType(f, 0, nil)
		}
		fn.Arguments = g.genFields(f, g.r.Intn(3), false, true, nil)
		if !fn.Oneway && g.r.Chance(1, 2) {
			isExc := func(s *Sym) bool {
				return s.Kind == KException || (s.Kind == KTypedef && s.Final == idlast.CatException)
			}
			for _, fd := range g.genFields(f, g.r.Range(1, 2), false, false, isExc) {
				if fd.Type != nil {
					fd.Requiredness = idlast.ReqOptional // the parser forces throws fields to optional
					fn.Throws = append(fn.Throws, fd)
				}
			}
		}
		sv.Functions = append(sv.Functions, fn)
	}
	f.AST.Services = append(f.AST.Services, sv)
	g.stat("def.service")
}

// ---------------------------------------------------------------- Used, from the references of the file

func walkTypes(t *idlast.Type, fn func(*idlast.Type)) {
	if t == nil {
		return
	}
	fn(t)
	walkTypes(t.KeyType, fn)
	walkTypes(t.ValueType, fn)
}

func walkValues(c *idlast.ConstValue, fn func(*idlast.ConstValue)) {
	if c == nil {
		return
	}
	fn(c)
	for _, x := range c.List {
		walkValues(x, fn)
	}
	for _, e := range c.Map {
		walkValues(e.Key, fn)
		walkValues(e.Value, fn)
	}
}

// ForEach visits every type occurrence and every const value of a file.
func ForEach(f *idlast.File, ty func(*idlast.Type), cv func(*idlast.ConstValue)) {
	fields := func(fs []*idlast.Field) {
		for _, fd := range fs {
			walkTypes(fd.Type, ty)
			walkValues(fd.Default, cv)
		}
	}
	for _, t := range f.Typedefs {
		walkTypes(t.Type, ty)
	}
	for _, c := range f.Constants {
		walkTypes(c.Type, ty)
		walkValues(c.Value, cv)
	}
	for _, ss := range [][]*idlast.StructLike{f.Structs, f.Unions, f.Exceptions} {
		for _, s := range ss {
			fields(s.Fields)
		}
	}
	for _, s := range f.Services {
		for _, fn := range s.Functions {
			walkTypes(fn.FunctionType, ty)
			fields(fn.Arguments)
			fields(fn.Throws)
		}
	}
}

// SetUsed recomputes Include.Used: an include is used exactly when a Reference or an
// Extra of the file goes through it.
func SetUsed(f *idlast.File) {
	used := make([]bool, len(f.Includes))
	mark := func(i int32) {
		if i >= 0 && int(i) < len(used) {
			used[i] = true
		}
	}
	ForEach(f, func(t *idlast.Type) {
		if t.Reference != nil {
			mark(t.Reference.Index)
		}
	}, func(c *idlast.ConstValue) {
		if c.Extra != nil {
			mark(c.Extra.Index)
		}
	})
	for _, s := range f.Services {
		if s.Reference != nil {
			mark(s.Reference.Index)
		}
	}
	for i, inc := range f.Includes {
		inc.Used = nil
		if used[i] {
			inc.Used = bp(true)
		}
	}
}

// ---------------------------------------------------------------- views

// Expected returns the intended resolved program.
func (p *Program) Expected() idlast.Program {
	out := make(idlast.Program, len(p.Files))
	for i, f := range p.Files {
		out[i] = idlast.ProgramEntry{Filename: idlast.B(f.Path), File: f.AST}
	}
	return out
}

func Clone(p idlast.Program) idlast.Program {
	var q idlast.Program
	if err := json.Unmarshal(p.JSON(), &q); err != nil {
		panic(err)
	}
	return q
}

// Permute returns a copy of the program with every per-kind definition list of every
// file in a random order (includes and everything inside a definition stay).
func Permute(r *rng.R, p idlast.Program) idlast.Program {
	q := Clone(p)
	g := &gen{r: r}
	for _, e := range q {
		g.shuffleDefs(e.File)
	}
	return q
}

// Strip resets every field the semantic pass writes (in place).
func Strip(p idlast.Program) {
	for _, e := range p {
		f := e.File
		ForEach(f, func(t *idlast.Type) { t.Category, t.Reference, t.IsTypedef = 0, nil, nil },
			func(c *idlast.ConstValue) { c.Extra = nil })
		for _, s := range f.Services {
			s.Reference = nil
		}
		for _, i := range f.Includes {
			i.Used = nil
		}
		f.HasName2Cat, f.Name2Cat = false, nil
	}
}

// Input returns the parse-level program to render: the expected program without
// resolution info and with the requiredness of union fields as a user may write it
// (the semantic pass forces it to optional).
func (p *Program) Input(r *rng.R) idlast.Program {
	q := Clone(p.Expected())
	Strip(q)
	for _, e := range q {
		for _, u := range e.File.Unions {
			for _, fd := range u.Fields {
				fd.Requiredness = idlast.Requiredness(r.Intn(3))
			}
		}
	}
	return q
}

// NewFile is an empty file with every list present (as astdump produces them).
func NewFile(path string) *idlast.File {
	return &idlast.File{Filename: idlast.B(path), Includes: []*idlast.Include{}, CppIncludes: []idlast.B{}, Namespaces: []*idlast.Namespace{},
		Typedefs: []*idlast.Typedef{}, Constants: []*idlast.Constant{}, Enums: []*idlast.Enum{}, Structs: []*idlast.StructLike{},
		Unions: []*idlast.StructLike{}, Exceptions: []*idlast.StructLike{}, Services: []*idlast.Service{}}
}
