(* Corr/C08.v — correspondence record and oracles for property C08.

   A shard defines  E0 : env  (the user's struct-likes and enums),  SS : list service  and a list
   of cases.  A case is a sequence of calls made through the generated client of service [csvc]
   against the generated processor of service [psvc] on one connection (scripted handler outcome
   per call), with what was observed per call: request bytes, reply bytes, handler invocations,
   what the caller got, bytes left unread on either side.  CRaw feeds raw request bytes to the
   processor.

   [mismatches] returns (case index, code):
     1  model and implementation disagree                                   (correspondence)
     8  the case refers to a service / method the shard does not define     (correspondence)
     2  the handler did not see the argument values that were passed               (oracle)
     3  the caller did not get the handler's result                                (oracle)
     4  a declared exception did not arrive as that type with equal fields         (oracle)
     5  message shape: method name as written in the IDL, CALL / REPLY / EXCEPTION, sequence id,
        argument ids, success = 0, exception at its id                             (oracle)
     6  a oneway method produced a reply                                           (oracle)
     7  unknown method / other handler error did not arrive as the application exception (oracle)
    10  a message was not consumed completely (request by the processor, reply by the client)
                                                                                   (oracle)
    11  an inherited method was not dispatched                                     (oracle)
    12  the generated processor's map is not keyed by exactly the IDL names of the functions the
        service keeps (functions annotated streaming.mode are removed), own and inherited (oracle)   *)
From Coq Require Import List ZArith Bool NArith Lia.
From Verif Require Import Base.Bytes Base.BE Wire.TType Wire.WVal Wire.Codec Wire.Schema Wire.Value Wire.Std
  Wire.Rpc Corr.C02.
Import ListNotations.
Open Scope Z_scope.

Record call_in := mkci {
  ci_owner : bytes;                (* service that declares the method *)
  ci_name : bytes;                 (* IDL method name *)
  ci_args : list value;
  ci_out : outcome                 (* what the handler is scripted to return during this call *)
}.

Record call_out := mkco {
  co_req : bytes;
  co_reply : bytes;                (* empty = nothing written *)
  co_log : list (bytes * bytes * list value);    (* (declaring service, IDL name, arguments) *)
  co_got : creply;
  co_unread : Z;                   (* request bytes the processor left unread *)
  co_left : Z                      (* reply bytes the client left unread *)
}.

Inductive case :=
| CSeq (csvc psvc : bytes) (ins : list call_in) (outs : list call_out)
| CRaw (psvc : bytes) (req : bytes) (oc : outcome) (reply : bytes) (log : list (bytes * bytes * list value))
| CNames (psvc : bytes) (names : list bytes).     (* keys of the generated processor's map *)

(* ---- lookups ---- *)

Definition lookup_method (ss : list service) (owner name : bytes) : option method :=
  match find_service ss owner with
  | Some s => match find (fun f => beqb name (fn_name f)) (sv_funs s) with
              | Some f => Some (sv_name s, f) | None => None end
  | None => None
  end.

Definition table_of (ss : list service) (svc : bytes) : option (list method) :=
  method_table (S (length ss)) ss svc.

(* ---- comparisons that ignore what is not an observable ---- *)

Definition parse_msg (bs : bytes) : option (bytes * Z * Z * wval * bytes) :=
  match read_msg_begin bs with
  | Some (n, ty, seq, body) =>
      match dec_struct body with
      | Some (w, rest) => Some (n, ty, seq, w, rest)
      | None => None end
  | None => None
  end.

(* the message text of an application exception is not compared *)
Definition scrub (ty : Z) (w : wval) : wval :=
  if ty =? M_EXCEPTION then
    match w with
    | WStruct fs => WStruct (map (fun wf => match wf with
                                            | (t, 1, WStr _) => (t, 1, WStr [])
                                            | _ => wf end) fs)
    | _ => w end
  else w.

(* equal up to the order of map entries (Go map iteration) and exception message texts *)
Definition msg_eqv (a b : bytes) : bool :=
  match parse_msg a, parse_msg b with
  | Some (n, ty, seq, w, r), Some (n', ty', seq', w', r') =>
      beqb n n' && (ty =? ty') && (seq =? seq') && weq_mod false (scrub ty w) (scrub ty w') && beqb r r'
  | None, None => beqb a b
  | _, _ => false
  end.

Definition reply_eqv (model : option bytes) (obs : bytes) : bool :=
  match model with
  | None => match obs with [] => true | _ => false end
  | Some b => match obs with [] => false | _ => msg_eqv b obs end
  end.

Definition creply_eqv (a b : creply) : bool :=
  match a, b with
  | CRet x, CRet y => veq_mod x y
  | (CVoid | COneway), (CVoid | COneway) => true
  | CExc n x, CExc n' y => beqb n n' && veq_mod x y
  | CAppExc s, CAppExc t => s =? t
  | CFail, CFail => true
  | _, _ => false
  end.

Definition log_eqv (model : list log_entry) (obs : list (bytes * bytes * list value)) : bool :=
  all2 (fun (a : log_entry) (b : bytes * bytes * list value) =>
              beqb (fst (fst a)) (fst (fst b)) && beqb (fn_name (snd (fst a))) (snd (fst b)) &&
              list_eqb veq_mod (snd a) (snd b)) model obs.

(* ---- correspondence: recompute everything from (schema, call list, scripted outcomes) ---- *)

Definition script_of (ins : list call_in) (k : nat) : handler :=
  fun _ _ => match nth_error ins k with Some c => ci_out c | None => Void end.

Fixpoint calls_of (ss : list service) (ins : list call_in) : option (list call) :=
  match ins with
  | [] => Some []
  | c :: r => match lookup_method ss (ci_owner c) (ci_name c), calls_of ss r with
              | Some m, Some cs => Some (mkcall m (ci_args c) :: cs)
              | _, _ => None end
  end.

Definition obs_eqv (m : call_obs) (o : call_out) : bool :=
  msg_eqv (o_req m) (co_req o) && reply_eqv (o_reply m) (co_reply o) &&
  log_eqv (o_log m) (co_log o) && creply_eqv (o_got m) (co_got o).

(* ---- oracles on the observations ---- *)

Definition hdrs_of (w : wval) : list (ttype * Z) := match w with WStruct fs => hdrs fs | _ => [] end.

Definition arg_hdrs (f : function) : list (ttype * Z) := map (fun a => (spec_ttype (f_ty a), f_id a)) (fn_args f).

Definition app_exc_type (w : wval) : option Z :=
  match w with
  | WStruct fs => match filter (fun wf => snd (fst wf) =? 2) fs with
                  | [(T_I32, _, WI32 z)] => Some z | _ => None end
  | _ => None end.

Definition is_exception_reply (name : bytes) (seq tid : Z) (reply : bytes) : bool :=
  match parse_msg reply with
  | Some (n, ty, s, w, []) =>
      beqb n name && (ty =? M_EXCEPTION) && (s =? seq) &&
      match app_exc_type w with Some z => z =? tid | None => false end
  | _ => false end.

(* the reply a handler outcome must produce on the wire *)
Definition reply_shape_ok (E : env) (f : function) (seq : Z) (oc : outcome) (reply : bytes) : bool :=
  let is_reply (hs : list (ttype * Z)) :=
    match parse_msg reply with
    | Some (n, ty, s, w, []) => beqb n (fn_name f) && (ty =? M_REPLY) && (s =? seq) && list_eqb hdr_eqb hs (hdrs_of w)
    | _ => false end in
  match oc with
  | Ret v => match fn_ret f with
             | Some t => if is_nil v then is_reply [] else is_reply [(spec_ttype t, 0)]
             | None => is_reply [] end
  | Void => is_reply []
  | Throw n v => match find_throw n (fn_throws f) with
                 | Some g => is_reply [(T_STRUCT, f_id g)]
                 | None => is_exception_reply (fn_name f) seq INTERNAL_ERROR reply end
  | OtherError _ => is_exception_reply (fn_name f) seq INTERNAL_ERROR reply
  end.

Definition request_shape_ok (f : function) (seq : Z) (req : bytes) : bool :=
  match parse_msg req with
  | Some (n, ty, s, w, []) => beqb n (fn_name f) && (ty =? M_CALL) && (s =? seq) && list_eqb hdr_eqb (arg_hdrs f) (hdrs_of w)
  | _ => false end.

Definition check_call (E : env) (psvc : bytes) (ptbl ctbl : list method) (k : nat) (c : call_in) (o : call_out) : list N :=
  match find_method ctbl (ci_name c) with
  | None => [8%N]
  | Some m =>
    let f := snd m in
    let seq := Z.of_nat k + 1 in
    if negb (beqb (fst m) (ci_owner c)) then [8%N] else
    if negb (wt_args E m (ci_args c)) then [] else
    (if request_shape_ok f seq (co_req o) then [] else [5%N]) ++
    (* an unknown ONEWAY method is outside the property: the processor cannot know that the caller
       will not read, answers UNKNOWN_METHOD, and the answer stays unread on the connection *)
    (if (co_unread o =? 0) &&
        ((co_left o =? 0) || (fn_oneway f && match find_method ptbl (ci_name c) with None => true | Some _ => false end))
     then [] else [10%N]) ++
    match find_method ptbl (ci_name c) with
    | None =>
        (* the processor does not know the method *)
        (match co_log o with [] => [] | _ => [2%N] end) ++
        (if fn_oneway f then []
         else (if creply_eqv (co_got o) (CAppExc UNKNOWN_METHOD) &&
                  is_exception_reply (fn_name f) seq UNKNOWN_METHOD (co_reply o) then [] else [7%N]))
    | Some pm =>
        if negb (beqb (fst pm) (fst m)) then [8%N] else
        let inherited := negb (beqb (fst pm) psvc) in
        let dispatched := match co_log o with [(sv, mn, _)] => beqb sv (fst m) && beqb mn (fn_name f) | _ => false end in
        (if dispatched then
           match co_log o with
           | [(_, _, args)] => if list_eqb veq_mod (norm_args E f (ci_args c)) args then [] else [2%N]
           | _ => [2%N] end
         else if inherited then [11%N] else [2%N]) ++
        (if fn_oneway f then
           (match co_reply o with [] => [] | _ => [6%N] end) ++
           (if creply_eqv (co_got o) COneway then [] else [3%N])
         else if negb (outcome_ok E f (ci_out c)) then []
         else
           (if reply_shape_ok E f seq (ci_out c) (co_reply o) then [] else [5%N]) ++
           (if creply_eqv (co_got o) (image E f (ci_out c)) then []
            else match ci_out c with
                 | Throw n _ => match find_throw n (fn_throws f) with Some _ => [4%N] | None => [7%N] end
                 | OtherError _ => [7%N]
                 | _ => [3%N] end))
    end
  end.

Fixpoint check_calls (E : env) (psvc : bytes) (ptbl ctbl : list method) (k : nat) (ins : list call_in) (outs : list call_out) : list N :=
  match ins, outs with
  | c :: ri, o :: ro => check_call E psvc ptbl ctbl k c o ++ check_calls E psvc ptbl ctbl (S k) ri ro
  | _, _ => []
  end.

Definition check (E : env) (ss : list service) (c : case) : list N :=
  match c with
  | CSeq csvc psvc ins outs =>
      match table_of ss psvc, table_of ss csvc, calls_of ss ins with
      | Some ptbl, Some ctbl, Some calls =>
          let model := run_calls E ptbl (script_of ins) 0 0 calls in
          (if (length model =? length outs)%nat && (length ins =? length outs)%nat &&
              forallb (fun p => obs_eqv (fst p) (snd p)) (combine model outs) then [] else [1%N]) ++
          check_calls E psvc ptbl ctbl 0 ins outs
      | _, _, _ => [8%N]
      end
  | CRaw psvc req oc reply log =>
      match table_of ss psvc with
      | Some ptbl =>
          let pr := process E ptbl (fun _ _ => oc) req in
          (if reply_eqv (fst pr) reply && log_eqv (snd pr) log then [] else [1%N]) ++
          (* oneway: whatever the request looks like, nothing is written back *)
          match read_msg_begin req with
          | Some (name, _, _, _) =>
              match find_method ptbl name with
              | Some m => if fn_oneway (snd m) then match reply with [] => [] | _ => [6%N] end else []
              | None => [] end
          | None => [] end
      | None => [8%N]
      end
  | CNames psvc names =>
      (* 12: the processor's map is not keyed by exactly the IDL names of the functions the service
             keeps (streaming functions removed), own and inherited *)
      match table_of ss psvc with
      | Some ptbl =>
          let expect := map (fun m : method => fn_name (snd m)) ptbl in
          if forallb (fun n => existsb (beqb n) names) expect &&
             forallb (fun n => existsb (beqb n) expect) names then [] else [12%N]
      | None => [8%N]
      end
  end.

Fixpoint mismatches_from (E : env) (ss : list service) (i : N) (cs : list case) : list (N * N) :=
  match cs with
  | [] => []
  | c :: r => map (fun code => (i, code)) (check E ss c) ++ mismatches_from E ss (i + 1)%N r
  end.

(* entry point of a shard: the program must be inside the domain of the theorems (rpc_wf) *)
Definition mismatches_top (E0 : env) (ss : list service) (cs : list case) : list (N * N) :=
  (if rpc_wf E0 ss then [] else [(0%N, 8%N)]) ++ mismatches_from (rpc_env E0 ss) ss 0%N cs.
