package coqfmt

import (
	"fmt"
	"strings"
)

// Cheap literals (coq/Base/Lit.v): Coq interprets Z and string notations by reduction, which costs
// milliseconds per literal; primitive-integer literals are read natively. A file that uses these
// must contain
//
//	From Verif Require Import Base.Lit.
//	From Coq Require Import Uint63.
//	Open Scope uint63_scope.
const FastPreamble = "From Verif Require Import Base.Lit.\nFrom Coq Require Import Uint63.\nOpen Scope uint63_scope.\n"

// ZF prints an int64 as a Z term through a primitive-integer literal.
func ZF(v int64) string {
	switch {
	case v >= 0:
		return fmt.Sprintf("(zi %d)", v)
	case v > -(1 << 63):
		return fmt.Sprintf("(zn %d)", -v)
	}
	return "(zb true 2147483648 0)"
}

// ZFU prints a uint64 as a Z term.
func ZFU(v uint64) string {
	if v < 1<<63 {
		return fmt.Sprintf("(zi %d)", v)
	}
	return fmt.Sprintf("(zb false %d %d)", v>>32, v&0xffffffff)
}

// BytesF prints a byte string as (bl n [ints]) with 7 bytes per primitive integer.
func BytesF(s string) string {
	if len(s) == 0 {
		return "[]"
	}
	var b strings.Builder
	fmt.Fprintf(&b, "(bl %d [", len(s))
	for i := 0; i < len(s); i += 7 {
		if i > 0 {
			b.WriteString(";")
		}
		end := i + 7
		if end > len(s) {
			end = len(s)
		}
		b.WriteString("0x")
		for j := i; j < end; j++ {
			fmt.Fprintf(&b, "%02x", s[j])
		}
	}
	b.WriteString("])")
	return b.String()
}
