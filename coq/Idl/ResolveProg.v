(* Idl/ResolveProg.v — one file resolves to a good file; the depth-first driver keeps
   the invariant; what the resolved program says about every type occurrence. *)
From Coq Require Import List Bool Arith Lia NArith ZArith Permutation.
From Coq.Strings Require Import Byte.
From Verif Require Import Base.Bytes Idl.Ast Idl.AstUtil Idl.AstFacts Idl.Resolve Idl.ResolveSpec Idl.ResolveTd Idl.ResolveLemmas Idl.ResolveInv Idl.ResolveConst.
Import ListNotations.
Local Open Scope resolve_scope.

Lemma mark_includes_keys marks : forall incs idx,
  map (fun i => (in_path i, in_ref i)) (mark_includes marks incs idx) = map (fun i => (in_path i, in_ref i)) incs.
Proof. induction incs as [|i incs IH]; intros idx; cbn [mark_includes map in_path in_ref]; [reflexivity|]. rewrite IH. reflexivity. Qed.

Lemma flat_map'_app {A B} (g : A -> list B) l1 l2 : flat_map' g (l1 ++ l2) = flat_map' g l1 ++ flat_map' g l2.
Proof. unfold flat_map'. rewrite map_app, concat_app. reflexivity. Qed.

Lemma flat_map'_fields (Q : ty -> Prop) sls :
  (forall s, In s sls -> Forall Q (flat_map' ty_occs (map fd_type (sl_fields s)))) ->
  Forall Q (flat_map' ty_occs (map fd_type (flat_map' sl_fields sls))).
Proof.
  induction sls as [|s sls IH]; intros H; [constructor|].
  unfold flat_map' at 2. cbn [map concat]. rewrite map_app, flat_map'_app. apply Forall_app. split.
  - apply H. left. reflexivity.
  - apply IH. intros s' Hs. apply H. right. exact Hs.
Qed.

Lemma flat_map'_flat {A} (Q : ty -> Prop) (g : A -> list ty) l :
  (forall s, In s l -> Forall Q (flat_map' ty_occs (g s))) ->
  Forall Q (flat_map' ty_occs (flat_map' g l)).
Proof.
  induction l as [|s l IH]; intros H; [constructor|].
  unfold flat_map' at 2. cbn [map concat]. rewrite flat_map'_app. apply Forall_app. split.
  - apply H. left. reflexivity.
  - apply IH. intros s' Hs. apply H. right. exact Hs.
Qed.

Lemma flat_map'_3 {A B C D} (Q : D -> Prop) (h : C -> list D) (g2 : B -> list C) (g1 : A -> list B) l :
  (forall s, In s l -> Forall Q (flat_map' h (flat_map' g2 (g1 s)))) ->
  Forall Q (flat_map' h (flat_map' g2 (flat_map' g1 l))).
Proof.
  induction l as [|s l IH]; intros H; [constructor|].
  unfold flat_map' at 3. cbn [map concat]. rewrite !flat_map'_app. apply Forall_app. split.
  - apply H. left. reflexivity.
  - apply IH. intros s' Hs. apply H. right. exact Hs.
Qed.

Lemma two_mapM {A B C} (r : A -> result B) (fx : B -> result C) l l1 l2 :
  mapM r l = Ok l1 -> mapM fx l1 = Ok l2 ->
  Forall2 (fun x z => exists y, r x = Ok y /\ fx y = Ok z) l l2.
Proof. intros H1 H2. exact (Forall2_compose _ _ _ _ _ (mapM_Forall2 _ _ _ H1) (mapM_Forall2 _ _ _ H2)). Qed.

Lemma Forall2_In_r_ex {A B} (R : A -> B -> Prop) l l' y : Forall2 R l l' -> In y l' -> exists x, R x y.
Proof. intros H Hin. destruct (Forall2_In_r _ _ _ _ H Hin) as (x & _ & Hx). eauto. Qed.

Lemma resolve_file_good p done fn f f' :
  inv p done -> prog_file p fn = Some f ->
  (forall i, In i (f_includes f) -> exists hn, in_ref i = Some hn /\ lookup hn done <> None) ->
  resolve_file_in done f = Ok f' -> good p done fn f f'.
Proof.
  intros Hinv Hf Htg H. unfold resolve_file_in in H. inv_bind H. injection H as <-.
  rename x into n2c, x0 into tds1, x1 into cs1, x2 into ss1, x3 into us1, x4 into es1, x5 into sv1,
         x6 into st, x7 into tds2, x8 into cs2, x9 into ss2, x10 into us2, x11 into es2, x12 into sv2.
  pose proof (two_mapM _ _ _ _ _ E0 E7) as Htd.
  constructor.
  - exact (cur_nodup f n2c E).
  - intros n. exact (proj2 (register_file f n2c E) n).
  - cbn. discriminate.
  - cbn [with_includes f_includes]. apply mark_includes_keys.
  - exact Htg.
  - reflexivity.
  - cbn [with_includes f_typedefs]. eapply Forall2_impl'; [|exact Htd].
    intros td td2 (td1 & H1 & H2).
    destruct (typedef_good p done fn f Hinv Hf Htg n2c E tds1 E0 st E6 td td1 td2 H1 H2) as (? & ? & _). auto.
  - unfold file_occs, file_top_occs, struct_likes.
    cbn [with_includes f_typedefs f_constants f_structs f_unions f_exceptions f_services].
    rewrite !flat_map'_app. repeat (apply Forall_app; split).
    + change (map td_type tds2) with (flat_map' (fun td => [td_type td]) tds2) || idtac.
      assert (G : forall td2, In td2 tds2 -> Forall (occ_good p fn f) (ty_occs (td_type td2))).
      { intros td2 Hin. destruct (Forall2_In_r_ex _ _ _ _ Htd Hin) as (td & td1 & H1 & H2).
        exact (proj2 (proj2 (typedef_good p done fn f Hinv Hf Htg n2c E tds1 E0 st E6 td td1 td2 H1 H2))). }
      clear -G. unfold flat_map'. induction tds2 as [|td l IH]; cbn [map concat]; [constructor|].
      apply Forall_app. split; [apply G; left; reflexivity | apply IH; intros x Hx; apply G; right; exact Hx].
    + assert (G : forall c2, In c2 cs2 -> Forall (occ_good p fn f) (ty_occs (co_type c2))).
      { intros c2 Hin. destruct (Forall2_In_r_ex _ _ _ _ (two_mapM _ _ _ _ _ E1 E8) Hin) as (c & c1 & H1 & H2).
        exact (constant_good p done fn f Hinv Hf Htg n2c E tds1 E0 st E6 _ c c1 c2 H1 H2). }
      clear -G. unfold flat_map'. induction cs2 as [|td l IH]; cbn [map concat]; [constructor|].
      apply Forall_app. split; [apply G; left; reflexivity | apply IH; intros x Hx; apply G; right; exact Hx].
    + rewrite <- !flat_map'_app. apply flat_map'_fields. intros s2 Hin.
      apply in_app_or in Hin. destruct Hin as [Hin|Hin]; [|apply in_app_or in Hin; destruct Hin as [Hin|Hin]].
      * destruct (Forall2_In_r_ex _ _ _ _ (two_mapM _ _ _ _ _ E2 E9) Hin) as (s & s1 & H1 & H2).
        exact (struct_good p done fn f Hinv Hf Htg n2c E tds1 E0 st E6 _ s s1 s2 H1 H2).
      * destruct (Forall2_In_r_ex _ _ _ _ (two_mapM _ _ _ _ _ E3 E10) Hin) as (s & s1 & H1 & H2).
        exact (struct_good p done fn f Hinv Hf Htg n2c E tds1 E0 st E6 _ s s1 s2 H1 H2).
      * destruct (Forall2_In_r_ex _ _ _ _ (two_mapM _ _ _ _ _ E4 E11) Hin) as (s & s1 & H1 & H2).
        exact (struct_good p done fn f Hinv Hf Htg n2c E tds1 E0 st E6 _ s s1 s2 H1 H2).
    + apply flat_map'_flat. intros s2 Hin.
      destruct (Forall2_In_r_ex _ _ _ _ (two_mapM _ _ _ _ _ E5 E12) Hin) as (s & s1 & H1 & H2).
      exact (service_good p done fn f Hinv Hf Htg n2c E tds1 E0 st E6 _ s s1 s2 H1 H2).
  - reflexivity.
  - intros Hplain.
    pose proof (cur_ectx p done fn f n2c tds1 Hinv Hf Htg E E0) as Hctx.
    unfold file_const_values, file_top_const_values, file_fields, struct_likes.
    cbn [with_includes f_constants f_structs f_unions f_exceptions f_services].
    change (fun fd : field => match fd_default fd with Some c => [c] | None => [] end) with default_values.
    rewrite !flat_map'_app. repeat (apply Forall_app; split).
    + assert (G : forall c2, In c2 cs2 -> Forall (cv_bound p fn) (cv_subvalues (co_value c2))).
      { intros c2 Hin. destruct (Forall2_In_r_ex _ _ _ _ (two_mapM _ _ _ _ _ E1 E8) Hin) as (c & c1 & H1 & H2).
        exact (constant_cv p done fn f _ Hinv Hplain Hctx eq_refl Htg st _ c c1 c2 H1 H2). }
      clear -G. unfold flat_map'. induction cs2 as [|td l IH]; cbn [map concat]; [constructor|].
      apply Forall_app. split; [apply G; left; reflexivity | apply IH; intros x Hx; apply G; right; exact Hx].
    + apply flat_map'_3. intros s2 Hin.
      destruct (Forall2_In_r_ex _ _ _ _ (two_mapM _ _ _ _ _ E2 E9) Hin) as (s & s1 & H1 & H2).
      exact (struct_cv p done fn f _ Hinv Hplain Hctx eq_refl Htg st _ s s1 s2 H1 H2).
    + apply flat_map'_3. intros s2 Hin.
      destruct (Forall2_In_r_ex _ _ _ _ (two_mapM _ _ _ _ _ E3 E10) Hin) as (s & s1 & H1 & H2).
      exact (struct_cv p done fn f _ Hinv Hplain Hctx eq_refl Htg st _ s s1 s2 H1 H2).
    + apply flat_map'_3. intros s2 Hin.
      destruct (Forall2_In_r_ex _ _ _ _ (two_mapM _ _ _ _ _ E4 E11) Hin) as (s & s1 & H1 & H2).
      exact (struct_cv p done fn f _ Hinv Hplain Hctx eq_refl Htg st _ s s1 s2 H1 H2).
    + apply flat_map'_3. intros s2 Hin.
      destruct (Forall2_In_r_ex _ _ _ _ (two_mapM _ _ _ _ _ E5 E12) Hin) as (s & s1 & H1 & H2).
      exact (service_cv p done fn f _ Hinv Hplain Hctx eq_refl Htg st _ s s1 s2 H1 H2).
Qed.

(* ---------------------------------------------------------------- the driver *)

Definition extends (d d1 : program) : Prop := forall k v, lookup k d = Some v -> lookup k d1 = Some v.

Lemma extends_refl d : extends d d. Proof. intros k v H. exact H. Qed.
Lemma extends_trans a b c : extends a b -> extends b c -> extends a c.
Proof. intros H1 H2 k v H. auto. Qed.
Lemma extends_some d d1 k : extends d d1 -> lookup k d <> None -> lookup k d1 <> None.
Proof. intros He H. destruct (lookup k d) as [v|] eqn:L; [|congruence]. rewrite (He k v L). discriminate. Qed.

Lemma good_mono p done done' gn g g' : extends done done' -> good p done gn g g' -> good p done' gn g g'.
Proof.
  intros He [H1 H2 H3 H4 H5 H6 H7 H8 H9 H10]. constructor; auto.
  intros i Hi. destruct (H5 i Hi) as (hn & Hr & Hl). exists hn. split; [exact Hr|]. eapply extends_some; eauto.
Qed.

Lemma inv_cons p done fn f f' :
  inv p done -> lookup fn done = None -> prog_file p fn = Some f -> good p done fn f f' ->
  inv p ((fn, f') :: done) /\ extends done ((fn, f') :: done).
Proof.
  intros Hinv Hn Hf Gd.
  assert (He : extends done ((fn, f') :: done)).
  { intros k v H. cbn [lookup]. destruct (beqb k fn) eqn:E; [|exact H]. apply beqb_true in E. subst. congruence. }
  split; [|exact He]. intros gn g' H. cbn [lookup] in H. destruct (beqb gn fn) eqn:E.
  - apply beqb_true in E. subst. injection H as <-. exists f. split; [exact Hf|]. eapply good_mono; eauto.
  - destruct (Hinv gn g' H) as (g & Hg & Gg). exists g. split; [exact Hg|]. eapply good_mono; eauto.
Qed.

Lemma resolve_rec_inv p : forall fuel done fn done',
  inv p done -> resolve_rec fuel p done fn = Ok done' ->
  inv p done' /\ extends done done' /\ lookup fn done' <> None.
Proof.
  induction fuel as [|k IH]; intros done fn done' Hinv H; cbn [resolve_rec] in H.
  - destruct (lookup fn done) eqn:L; [|discriminate]. injection H as <-.
    split; [exact Hinv|]. split; [apply extends_refl | congruence].
  - destruct (lookup fn done) eqn:L.
    { injection H as <-. split; [exact Hinv|]. split; [apply extends_refl | congruence]. }
    destruct (prog_file p fn) as [f|] eqn:Pf; [|discriminate].
    inv_bind H. rename x into done1.
    assert (Hgo : forall incs d d1, inv p d ->
      (fix go (incs : list include) (d : program) {struct incs} : result program :=
         match incs with
         | [] => Ok d
         | i :: r => match in_ref i with
                     | Some g => d' <- resolve_rec k p d g;; go r d'
                     | None => Error ErrNotParsed
                     end
         end) incs d = Ok d1 ->
      inv p d1 /\ extends d d1 /\ forall i, In i incs -> exists hn, in_ref i = Some hn /\ lookup hn d1 <> None).
    { induction incs as [|i incs IHi]; intros d d1 Hd Hgo.
      - injection Hgo as <-. split; [exact Hd|]. split; [apply extends_refl | intros i []].
      - destruct (in_ref i) as [g|] eqn:Ri; [|discriminate]. inv_bind Hgo.
        destruct (IH _ _ _ Hd E0) as (I1 & X1 & L1). destruct (IHi _ _ I1 Hgo) as (I2 & X2 & L2).
        split; [exact I2|]. split; [eapply extends_trans; eauto|].
        intros j [<-|Hj]; [|apply L2; exact Hj]. exists g. split; [exact Ri|]. eapply extends_some; eauto. }
    destruct (Hgo _ _ _ Hinv E) as (I1 & X1 & T1). clear Hgo E.
    destruct (lookup fn done1) eqn:L1; [discriminate|]. inv_bind H. injection H as <-.
    pose proof (resolve_file_good p done1 fn f x I1 Pf T1 E) as Gd.
    destruct (inv_cons p done1 fn f x I1 L1 Pf Gd) as (I2 & X2).
    split; [exact I2|]. split; [eapply extends_trans; eauto|]. cbn [lookup]. rewrite beqb_refl. discriminate.
Qed.

Lemma inv_nil p : inv p [].
Proof. intros gn g' H. discriminate. Qed.

Lemma lookup_map_done (done p : program) fn :
  lookup fn (map (fun e => (fst e, match lookup (fst e) done with Some f' => f' | None => snd e end)) p) =
  match lookup fn p with
  | Some f => Some (match lookup fn done with Some f' => f' | None => f end)
  | None => None
  end.
Proof.
  induction p as [|[k f] p IH]; cbn [map lookup fst snd]; [reflexivity|].
  destruct (beqb fn k) eqn:E; [|exact IH]. apply beqb_true in E. subst. reflexivity.
Qed.

Lemma parsed_file p fn f : parsed_program p = true -> prog_file p fn = Some f -> unresolved_file f = true.
Proof.
  unfold parsed_program, prog_file. intros H L. apply lookup_In in L. rewrite forallb_forall in H.
  exact (H (fn, f) L).
Qed.

(* every file of the result that carries a name table is a good image of its source *)
Theorem resolve_program_good p r :
  parsed_program p = true -> resolve_program p = Ok r ->
  exists done, inv p done /\
    forall fn f', prog_file r fn = Some f' -> f_name2cat f' <> None ->
      exists f, prog_file p fn = Some f /\ good p done fn f f'.
Proof.
  intros Hp H. unfold resolve_program in H. destruct p as [|[mainfn mf] p'] eqn:Ep.
  - injection H as <-. exists []. split; [apply inv_nil|]. intros fn f' Hf. discriminate.
  - rewrite <- Ep in *. inv_bind H. injection H as <-. rename x into done.
    destruct (resolve_rec_inv p _ _ _ _ (inv_nil p) E) as (Hinv & _ & _).
    exists done. split; [exact Hinv|]. intros fn f' Hf Hn. unfold prog_file in Hf. rewrite lookup_map_done in Hf.
    destruct (lookup fn p) as [f|] eqn:Lf; [|discriminate]. injection Hf as Hf.
    destruct (lookup fn done) as [f2|] eqn:Ld.
    + subst f2. destruct (Hinv fn f' Ld) as (g & Hg & Gd). exists g. auto.
    + subst f'. pose proof (parsed_file p fn f Hp Lf) as Hu. unfold unresolved_file in Hu.
      destruct (f_name2cat f); [discriminate | congruence].
Qed.

(* the accumulator of finished files behind the result *)
Theorem resolve_program_done p r :
  parsed_program p = true -> resolve_program p = Ok r ->
  exists done, inv p done /\
    (forall fn f', prog_file r fn = Some f' -> f_name2cat f' <> None -> lookup fn done = Some f') /\
    (forall gn g', lookup gn done = Some g' -> prog_file r gn = Some g').
Proof.
  intros Hp H. unfold resolve_program in H. destruct p as [|[mainfn mf] p'] eqn:Ep.
  - injection H as <-. exists []. split; [apply inv_nil|]. split; intros ? ? Hf; discriminate.
  - rewrite <- Ep in *. inv_bind H. injection H as <-. rename x into done.
    destruct (resolve_rec_inv p _ _ _ _ (inv_nil p) E) as (Hinv & _ & _).
    exists done. split; [exact Hinv|]. split.
    + intros fn f' Hf Hn. unfold prog_file in Hf. rewrite lookup_map_done in Hf.
      destruct (lookup fn p) as [f|] eqn:Lf; [|discriminate]. injection Hf as Hf.
      destruct (lookup fn done) as [f2|] eqn:Ld; [congruence|].
      subst f'. pose proof (parsed_file p fn f Hp Lf) as Hu. unfold unresolved_file in Hu.
      destruct (f_name2cat f); [discriminate | congruence].
    + intros gn g' Hl. destruct (Hinv gn g' Hl) as (g & Hg & _). unfold prog_file in *.
      rewrite lookup_map_done, Hg, Hl. reflexivity.
Qed.
