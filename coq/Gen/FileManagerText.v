(* Gen/FileManagerText.v — text level specification of BuildResponse for histories without patch
   items: every output text is the submitted text of that file with exactly the insertion-point
   markers removed (strip_markers: the declarative scanner also used by the check's oracle 6). *)
From Coq Require Import List Arith Bool Lia NArith.
From Coq.Strings Require Import Byte.
From Verif Require Import Base.Bytes Gen.FileManager Gen.FileManagerFacts Gen.Determinism Gen.FileManagerOrder Corr.C12.
Import ListNotations.

Lemma span_fst_all (p : byte -> bool) s : forallb p (fst (span p s)) = true.
Proof.
  induction s as [|c s IH]; cbn [span]; [reflexivity|].
  destruct (p c) eqn:E; [|reflexivity]. destruct (span p s) as [a b]. cbn in *. rewrite E. exact IH.
Qed.

Lemma span_app_eq (p : byte -> bool) s : s = fst (span p s) ++ snd (span p s).
Proof.
  induction s as [|c s IH]; cbn [span]; [reflexivity|].
  destruct (p c); [|reflexivity]. destruct (span p s) as [a b]. cbn in *. f_equal. exact IH.
Qed.

Lemma span_stop (p : byte -> bool) nm c rest :
  forallb p nm = true -> p c = false -> span p (nm ++ c :: rest) = (nm, c :: rest).
Proof.
  induction nm as [|x nm IH]; cbn [app span forallb]; intros Hn Hc.
  - rewrite Hc. reflexivity.
  - apply andb_true_iff in Hn. destruct Hn as [Hx Hn]. rewrite Hx, (IH Hn Hc). reflexivity.
Qed.

Lemma strip_prefix_some p : forall s r, strip_prefix p s = Some r -> s = p ++ r.
Proof.
  induction p as [|a p IH]; intros s r; cbn [strip_prefix].
  - intros [= ->]. reflexivity.
  - destruct s as [|b s]; [discriminate|]. destruct (Byte.eqb a b) eqn:E; [|discriminate].
    apply byte_eqb_eq in E. subst b. intro H. apply IH in H. subst s. reflexivity.
Qed.

Lemma strip_prefix_app p r : strip_prefix p (p ++ r) = Some r.
Proof.
  induction p as [|a p IH]; cbn [app strip_prefix]; [reflexivity|].
  assert (Byte.eqb a a = true) as -> by (apply byte_eqb_eq; reflexivity). exact IH.
Qed.

Lemma ip_char_rparen : ip_char x29 = false.
Proof. vm_compute. reflexivity. Qed.

(* what the regexp matches at the head of s *)
Lemma marker_at_some s mk : marker_at s = Some mk ->
  exists nm rest, mk = marker nm /\ forallb ip_char nm = true /\ s = mk ++ rest.
Proof.
  unfold marker_at. destruct (strip_prefix ip_prefix s) as [r|] eqn:E; [|discriminate].
  apply strip_prefix_some in E.
  pose proof (span_fst_all ip_char r) as Hall. pose proof (span_app_eq ip_char r) as Happ.
  destruct (span ip_char r) as [nm r']. cbn [fst snd] in *.
  destruct r' as [|c r'']; [discriminate|]. destruct (Byte.eqb c x29) eqn:Ec; [|discriminate].
  apply byte_eqb_eq in Ec. subst c. intros [= <-]. exists nm, r''. split; [reflexivity|]. split; [exact Hall|].
  rewrite E, Happ. unfold marker. rewrite <- !app_assoc. reflexivity.
Qed.

Lemma marker_at_of_prefix nm s :
  forallb ip_char nm = true -> is_prefix (marker nm) s = true -> marker_at s = Some (marker nm).
Proof.
  intros Hn Hp. apply is_prefix_spec in Hp. destruct Hp as [rest ->].
  unfold marker_at, marker. rewrite <- !app_assoc, strip_prefix_app. cbn [app].
  rewrite (span_stop ip_char nm x29 rest Hn ip_char_rparen).
  assert (Byte.eqb x29 x29 = true) as -> by (apply byte_eqb_eq; reflexivity). reflexivity.
Qed.

(* pairs whose keys are well-formed markers, all mapped to the empty text *)
Definition marker_pairs (P : list (bytes * bytes)) : Prop :=
  forall k v, In (k, v) P -> v = [] /\ exists nm, k = marker nm /\ forallb ip_char nm = true.

Lemma first_match_marker P s k v : marker_pairs P ->
  first_match P s = Some (k, v) -> v = [] /\ marker_at s = Some k.
Proof.
  intros HP Hm. apply first_match_In in Hm. destruct Hm as [Hin Hp].
  destruct (HP _ _ Hin) as [-> [nm [-> Hn]]]. split; [reflexivity|]. apply marker_at_of_prefix; assumption.
Qed.

Lemma replace_is_strip P : marker_pairs P -> forall s skip,
  (forall mk, In mk (find_markers_go skip s) -> lookup mk P <> None) ->
  replace_go P skip s = strip_markers skip s.
Proof.
  intros HP. induction s as [|c s IH]; intros skip Hall; cbn [replace_go strip_markers]; [reflexivity|].
  destruct skip as [|k]; [|apply IH; exact Hall].
  cbn [find_markers_go] in Hall.
  destruct (marker_at (c :: s)) as [mk|] eqn:Em.
  - (* a marker starts here: it is a key, and the only key matching here *)
    assert (Hk : lookup mk P <> None) by (apply Hall; left; reflexivity).
    destruct (lookup mk P) as [v|] eqn:El; [|congruence]. apply lookup_In in El.
    destruct (marker_at_some _ _ Em) as [nm [rest [Hmk [Hn Hs]]]].
    assert (Hpre : is_prefix mk (c :: s) = true) by (apply is_prefix_spec; exists rest; exact Hs).
    destruct (first_match_some_of_In P (c :: s) mk v El Hpre) as [k' [v' Hfm]].
    destruct (first_match_marker _ _ _ _ HP Hfm) as [-> Hk'].
    rewrite Em in Hk'. injection Hk' as <-. rewrite Hfm. cbn [app].
    apply IH. intros mk' Hin. apply Hall. right. exact Hin.
  - destruct (first_match P (c :: s)) as [[k' v']|] eqn:Hfm.
    + destruct (first_match_marker _ _ _ _ HP Hfm) as [_ Hk']. congruence.
    + f_equal. apply IH. exact Hall.
Qed.

Lemma In_update {A} k (v : A) m x w : In (x, w) (update k v m) -> (x = k /\ w = v) \/ In (x, w) m.
Proof.
  induction m as [|[k' v'] m IH]; cbn [update].
  - intros [[= <- <-]|[]]. left; split; reflexivity.
  - destruct (beqb k k') eqn:E.
    + intros [[= <- <-]|H]; [left; split; reflexivity | right; right; exact H].
    + intros [H|H]; [right; left; exact H|]. destruct (IH H) as [H'|H']; [left; exact H' | right; right; exact H'].
Qed.

Lemma found_markers_wf skip : forall s mk, In mk (find_markers_go skip s) ->
  exists nm, mk = marker nm /\ forallb ip_char nm = true.
Proof.
  intros s. revert skip. induction s as [|c s IH]; intros skip mk; cbn [find_markers_go]; [intros []|].
  destruct skip as [|k]; [|apply IH].
  destruct (marker_at (c :: s)) as [m0|] eqn:Em; [|apply IH].
  intros [<-|Hin]; [|eapply IH; exact Hin].
  destruct (marker_at_some _ _ Em) as [nm [rest [H1 [H2 _]]]]. exists nm. split; assumption.
Qed.

Lemma init_pairs_marker_pairs content : marker_pairs (init_pairs content).
Proof.
  unfold init_pairs.
  assert (G : forall ks acc, (forall mk, In mk ks -> exists nm, mk = marker nm /\ forallb ip_char nm = true) ->
              marker_pairs acc -> marker_pairs (fold_left (fun a x => update x [] a) ks acc)).
  { induction ks as [|x ks IH]; intros acc Hks Hacc; cbn [fold_left]; [exact Hacc|].
    apply IH; [intros mk Hin; apply Hks; right; exact Hin|].
    intros k v Hin. apply In_update in Hin. destruct Hin as [[-> ->]|Hin]; [|apply Hacc; exact Hin].
    split; [reflexivity | apply Hks; left; reflexivity]. }
  apply G; [intros mk Hin; eapply found_markers_wf; exact Hin | intros k v []].
Qed.

Lemma marker_pairs_listed P : marker_pairs P -> marker_pairs (listed_pairs P).
Proof. intros H k v Hin. apply H, In_listed, Hin. Qed.

(* one file without patches: markers removed, everything else unchanged *)
Theorem build_one_no_patches m name content :
  patches_of m name = [] -> build_one m (name, content) = (name, strip_markers 0 content).
Proof.
  intro Hp. unfold build_one. rewrite Hp. cbn [fold_left]. f_equal. unfold replace.
  apply replace_is_strip; [apply marker_pairs_listed, init_pairs_marker_pairs|].
  intros mk Hin. rewrite lookup_listed. apply found_marker_is_key. exact Hin.
Qed.

(* histories without patch items never record a patch *)
Definition no_patch_items (items : list gen) : bool :=
  forallb (fun g => match g_name g with None => false | Some _ => beqb (g_ip g) [] end) items.

Lemma drop_unnamed_no_patch items : no_patch_items items = true -> no_patch_items (drop_unnamed items) = true.
Proof.
  induction items as [|g r IH]; [reflexivity|].
  unfold no_patch_items at 1. cbn [forallb drop_unnamed]. destruct (g_name g) eqn:E.
  - intro H. unfold no_patch_items. cbn [forallb]. rewrite E. exact H.
  - discriminate.
Qed.

Lemma feed_items_no_patch fuel : forall m last items m',
  no_patch_items items = true -> feed_items fuel m last items = Ok m' -> patch m' = patch m.
Proof.
  induction fuel as [|f IH]; intros m last items m' Hnp; cbn [feed_items]; [discriminate|].
  destruct items as [|g rest]; [intros [= <-]; reflexivity|].
  cbn [no_patch_items forallb] in Hnp. apply andb_true_iff in Hnp. destruct Hnp as [Hg Hrest].
  destruct (g_name g) as [n|]; [|discriminate]. rewrite Hg. cbn [negb].
  destruct (lookup n (index m)) as [idx|].
  - destruct (probe _ m n (g_content g) idx 1 (get_count m n)) as [|rn k'|]; [| |discriminate].
    + intro H. apply IH in H; [exact H | apply drop_unnamed_no_patch; exact Hrest].
    + intro H. apply IH in H; [exact H | exact Hrest].
  - intro H. apply IH in H; [exact H | exact Hrest].
Qed.

Lemma feeds_no_patch h : forall m m',
  forallb no_patch_items h = true -> feeds m h = Ok m' -> patch m' = patch m.
Proof.
  induction h as [|x h IH]; intros m m' Hnp; cbn [feeds]; [intros [= <-]; reflexivity|].
  cbn [forallb] in Hnp. apply andb_true_iff in Hnp. destruct Hnp as [Hx Hh].
  destruct (feed m x) as [m1| |] eqn:E; [|discriminate|discriminate]. intro H.
  unfold feed in E. apply feed_items_no_patch in E; [|exact Hx]. apply IH in H; [|exact Hh]. congruence.
Qed.

(* For every history without patch items: the response is the list of kept files, each with its
   submitted text minus the insertion-point markers. *)
Theorem no_patch_history_texts h m :
  forallb no_patch_items h = true -> feeds fm0 h = Ok m ->
  build m = map (fun f => (fst f, strip_markers 0 (snd f))) (files m).
Proof.
  intros Hnp Hf. apply feeds_no_patch in Hf; [|exact Hnp]. cbn [patch fm0] in Hf.
  unfold build. apply map_ext. intros [n c]. apply build_one_no_patches.
  unfold patches_of. rewrite Hf. reflexivity.
Qed.
