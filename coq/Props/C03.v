(* Props/C03.v — property C03 "The parser is total and the AST is faithful to the source
   text", stated about the model Idl/Lex.v + Idl/Parse.v of /repo/parser (thrift.peg,
   parser.go).  Statements only; every proof is [exact lemma] and is followed by
   Print Assumptions.  The model is tied to /repo on every run by Corr/C03.v. *)
From Coq Require Import List Bool NArith ZArith.
From Coq.Strings Require Import Byte String.
From Verif Require Import Base.Bytes Idl.Ast Idl.Lex Idl.LexFacts Idl.Parse Idl.ParseFacts Idl.Print Idl.PrintFacts.
From Verif Require Import Idl.Peg Idl.PegGrammar Idl.PegFacts Idl.PegTotal Idl.PrintOrderFacts.
Import ListNotations.
Local Open Scope string_scope.

(* ---------------------------------------------------------------- the AST is faithful to the text *)

(* lex_render: printing any admissible sequence of tokens with the blanks and comments in
   front of each and lexing the bytes gives the sequence back, trivia included.
   Admissible ([lts_wf], decided by [lts_wfb]): every token text and every comment is well
   formed, a line comment is followed by a line break, and two word-like tokens (word,
   integer, double) are separated by at least one blank or comment. *)
Theorem C03_lex_render :
  forall lts fin, lts_wf lts fin -> lex (ltoks_bytes lts fin) = Some (lts, fin).
Proof. exact lex_ltoks_bytes. Qed.
Print Assumptions C03_lex_render.

(* parse_print: for every well-formed file a and EVERY way of writing its abstract token
   sequence as concrete tokens ([conc]: any spelling of each number with the right value,
   either quote character and any raw text that unescapes to the literal, each optional
   list separator written as ',' or ';' or left out, implicit field ids / enum values
   written or left out, "()" for an empty annotation list, any requiredness keyword on a
   throws field) with ANY blanks and comments between the tokens, the token parser returns
   a up to the comments it records. *)
Theorem C03_parse_print :
  forall a lts fin, wf_file a = true -> conc (protos_file a) (map snd lts) ->
  exists a', parse_tokens (f_filename a) lts fin = Some a' /\ strip_comments a' = strip_comments a.
Proof. exact parse_tokens_conc. Qed.
Print Assumptions C03_parse_print.

(* parse_print for ANY source order: header lines (include / cpp_include / namespace) in any
   interleaving and definitions of different kinds in any interleaving, written in any of
   the ways [conc] allows with any blanks and comments: the parser returns [file_of n hs ds],
   the file whose per-kind lists hold exactly the definitions written, in source order per
   kind (duplicate / empty include paths dropped as parser.go does), up to recorded comments. *)
Theorem C03_parse_print_any_order :
  forall n hs ds lts fin,
  forallb wf_header hs = true -> forallb wf_def ds = true ->
  conc (flat_map protos_header hs ++ flat_map protos_def ds) (map snd lts) ->
  exists a', parse_tokens n lts fin = Some a' /\ strip_comments a' = strip_comments (file_of n hs ds).
Proof. exact parse_tokens_any_order. Qed.
Print Assumptions C03_parse_print_any_order.

Example C03_any_order_example :
  let ds := [DEnum (Enum (B "E") [] [] []); DTypedef (Typedef (ty_named (B "i32")) (B "T") [] []);
             DEnum (Enum (B "F") [] [] []); DStructLike (StructLike SKUnion (B "U") [] [] [])] in
  forallb wf_def ds = true /\
  map en_name (f_enums (file_of (B "m") [] ds)) = [B "E"; B "F"] /\
  map sl_name (f_unions (file_of (B "m") [] ds)) = [B "U"] /\ f_structs (file_of (B "m") [] ds) = [].
Proof. vm_compute. repeat split. Qed.

(* parse_render: the composition on bytes, for the executable printer [render]. *)
Theorem C03_parse_render :
  forall l a, wf_file a = true -> layout_ok l a ->
  exists a', parse (f_filename a) (render l a) = Some a' /\ strip_comments a' = strip_comments a.
Proof. exact parse_render. Qed.
Print Assumptions C03_parse_render.

(* layout_independent: two admissible layouts of one file give the same AST except for
   recorded comments. *)
Theorem C03_layout_independent :
  forall l1 l2 a, wf_file a = true -> layout_ok l1 a -> layout_ok l2 a ->
  exists a1 a2, parse (f_filename a) (render l1 a) = Some a1 /\ parse (f_filename a) (render l2 a) = Some a2 /\
                strip_comments a1 = strip_comments a2.
Proof. exact layout_independent. Qed.
Print Assumptions C03_layout_independent.

(* the side condition on layouts is decidable ... *)
Theorem C03_layout_ok_decidable : forall l a, layout_okb l a = true -> layout_ok l a.
Proof. exact layout_okb_ok. Qed.
Print Assumptions C03_layout_ok_decidable.

(* ... and satisfiable: a file with every kind of definition under a plain layout and under
   a layout with all three comment styles, both separators, both quotes, hex numbers,
   written-out implicit ids and "()" lists. *)
Definition t_i32 := ty_named (B "i32").
Definition example_file : file :=
  File (B "main.thrift")
    [Include (B "a/b.thrift") None None] [B "x.h"]
    [Namespace (B "go") (B "a.b") [Anno (B "k") [B "v"]]; Namespace (B "*") (B "x") []]
    [Typedef (ty_plain (B "map") (Some (ty_named (B "string")))
                (Some (ty_plain (B "list") None (Some t_i32) (B "vec") [Anno (B "t") [B "1"; B "2"]])) [] [])
             (B "M") [] []]
    [Constant (B "c") (ty_named (B "double")) (CDouble 4681608360884174848) [] [];
     Constant (B "d") (ty_named (B "M"))
              (CMap [(CLiteral (B "a""b\\c"), CList [CInt 1; CInt (-2); CIdent (B "c") None])])
              [Anno (B "q") [B ""]] []]
    [Enum (B "E") [EnumValue (B "A") 0 [] []; EnumValue (B "B") 5 [Anno (B "x") [B "y"]] [];
                   EnumValue (B "C") 6 [] []] [] []]
    [StructLike SKStruct (B "S")
       [Field 1 (B "a") ReqDefault t_i32 (Some (CInt 16)) [] [];
        Field 2 (B "b") ReqOptional (ty_named (B "S")) None [Anno (B "p") [B "q"]] [];
        Field (-3) (B "list") ReqRequired (ty_named (B "string")) (Some (CLiteral (B "it's"))) [] []]
       [Anno (B "k") [B "v"; B "w"]] []]
    [] [StructLike SKException (B "X") [] [] []]
    [Service (B "Svc") (B "base.Svc")
       [Function (B "f") true true (ty_named (B "void")) [Field 1 (B "x") ReqDefault t_i32 None [] []] [] [] [];
        Function (B "g") false false (ty_named (B "S")) []
                 [Field 1 (B "e") ReqOptional (ty_named (B "X")) None [] [];
                  Field 2 (B "e2") ReqOptional (ty_named (B "X")) None [] []] [Anno (B "api") [B "g"]] []]
       [] None []]
    None.

Example C03_example_in_domain :
  wf_file example_file = true /\ layout_okb plain_layout example_file = true /\
  layout_okb busy_layout example_file = true.
Proof. vm_compute. repeat split. Qed.

(* the empty file is in the domain, also printed as zero bytes (an error before the repair
   proposed_fixes/C03-empty-document) *)
Example C03_empty_document :
  wf_file (empty_file (B "e.thrift")) = true /\
  layout_okb (Layout (fun _ => []) (fun _ => []) (fun _ => SepNone) (fun _ => c_dq) (fun _ s => s)
                     (fun _ _ => []) (fun _ _ => []) (fun _ => false) (fun _ => None) []) (empty_file (B "e.thrift")) = true /\
  parse (B "e.thrift") [] = Some (empty_file (B "e.thrift")) /\ parse_unrepaired (B "e.thrift") [] = None.
Proof. vm_compute. repeat split. Qed.

Example C03_example_round_trip :
  option_map (fun a => file_eqb a example_file) (parse (B "main.thrift") (render plain_layout example_file)) = Some true /\
  option_map (fun a => (file_eqb_nc a example_file, file_eqb a example_file))
             (parse (B "main.thrift") (render busy_layout example_file)) = Some (true, false).
Proof. vm_compute. split; reflexivity. Qed.

(* ---------------------------------------------------------------- literal text *)

(* Only the enclosing quote is unescaped: a text s printed between quotes q (a backslash
   in front of every q) is read back as s.  Domain (exact, in the statement): no backslash
   of s stands directly in front of a q, and s does not end with a backslash — such texts
   cannot be written as one literal at all. *)
Theorem C03_unescape_spec :
  forall q s, q <> c_bs -> lit_text_ok q s = true -> unescape q (escape q s) = s.
Proof. exact unescape_escape. Qed.
Print Assumptions C03_unescape_spec.

(* The other quote character needs no escape and gets none removed: text escaped for q'
   and enclosed in q comes back byte for byte (backslash pairs included). *)
Theorem C03_unescape_other_quote_untouched :
  forall q q' s, q <> q' -> q <> c_bs -> lit_text_ok q s = true ->
  unescape q (escape q' s) = escape q' s.
Proof. exact unescape_other_quote_untouched. Qed.
Print Assumptions C03_unescape_other_quote_untouched.

Example C03_unescape_example :
  lit_text_ok c_dq (B "say ""hi"" \\ 'there'") = true /\
  escape c_dq (B "say ""hi"" \\ 'there'") = B "say \""hi\"" \\ 'there'" /\
  unescape c_dq (B "say \""hi\"" \\ 'there'") = B "say ""hi"" \\ 'there'".
Proof. vm_compute. repeat split. Qed.

(* ---------------------------------------------------------------- field ids *)

(* Explicit field ids are kept; the i-th field without a written id (NOTSET) gets
   previous + 1, the first one 1; nothing else of a field changes.  [assign_ids None] is
   what struct, union, exception, argument and throws lists go through. *)
Theorem C03_ids_spec :
  forall fs i f, nth_error fs i = Some f ->
  exists g, nth_error (assign_ids None fs) i = Some g /\
            field_sans_id g = field_sans_id f /\
            fd_id g = expected_id (fd_id f) (prev_id None (assign_ids None fs) i).
Proof. exact (assign_ids_nth None). Qed.
Print Assumptions C03_ids_spec.

Theorem C03_ids_length : forall fs, List.length (assign_ids None fs) = List.length fs.
Proof. exact (assign_ids_length None). Qed.
Print Assumptions C03_ids_length.

(* ---------------------------------------------------------------- enum values *)

(* Explicit enum values are kept; a value that is not written is previous + 1, the first
   one 0; names, annotations and comments are untouched. *)
Theorem C03_enum_values_spec :
  forall vs i v ov, nth_error vs i = Some (v, ov) ->
  exists w, nth_error (assign_enum_values None vs) i = Some w /\
            ev_name w = ev_name v /\ ev_annos w = ev_annos v /\ ev_comments w = ev_comments v /\
            ev_value w = expected_enum_value ov (prev_value None (assign_enum_values None vs) i).
Proof. exact (assign_enum_values_nth None). Qed.
Print Assumptions C03_enum_values_spec.

(* ---------------------------------------------------------------- annotations *)

(* Repeated keys accumulate in order: the annotation list built from the (key, value)
   pairs in source order has the keys in order of first occurrence, each with all its
   values in source order. *)
Theorem C03_annotations_accumulate : forall pairs, annos_of_pairs pairs = grouped pairs.
Proof. exact annos_of_pairs_grouped. Qed.
Print Assumptions C03_annotations_accumulate.

Example C03_annotations_example :
  annos_of_pairs [(B "a", B "1"); (B "b", B "2"); (B "a", B "3")] =
  [Anno (B "a") [B "1"; B "3"]; Anno (B "b") [B "2"]].
Proof. vm_compute. reflexivity. Qed.

(* ---------------------------------------------------------------- the grammar terminates *)

(* peg_total (generic, Ford 2004 section 3.6, mechanised in Idl/PegTotal.v): a grammar that
   passes the well-formedness check — no left recursion, no repetition over an expression
   that can succeed without consuming input — terminates on every input: the fuelled
   interpreter never runs out of (enough) fuel. *)
Theorem C03_peg_total :
  forall g, wf_peg g = true -> forall s, exists n, run n g (PNT 0) s <> RFuel.
Proof. exact peg_total. Qed.
Print Assumptions C03_peg_total.

(* thrift_peg_wf: the grammar of /repo/parser/thrift.peg, as translated by
   harness/cmd/translate-peg on THIS run, is well formed (and the translation is not
   degenerate) ... *)
Theorem C03_thrift_peg_wf : wf_peg thrift_grammar = true /\ Nat.leb 60 (List.length thrift_grammar) = true.
Proof. exact (conj thrift_peg_wf thrift_grammar_size). Qed.
Print Assumptions C03_thrift_peg_wf.

(* ... hence matching any byte string against it terminates, with a match or a failure.
   (This is about the grammar as written; that the generated Go code implements it without
   panicking is observed by the totality stream, not proved.) *)
Theorem C03_thrift_grammar_total :
  forall s, exists n, run n thrift_grammar (PNT 0) s <> RFuel.
Proof. exact (peg_total thrift_grammar thrift_peg_wf). Qed.
Print Assumptions C03_thrift_grammar_total.

(* ---------------------------------------------------------------- known finding *)

(* FieldReq lacks the word-boundary guard: a field without requiredness keyword whose type
   name starts with "required" is read as a required field of the type named by the rest.
   The grammar's reading would be: default requiredness, type requiredThing. *)
Theorem C03_req_prefixed_type_refuted :
  exists src a s f,
    parse (B "main.thrift") src = Some a /\ f_structs a = [s] /\ sl_fields s = [f] /\
    src = B "struct S { 2: requiredThing t }" /\
    fd_req f = ReqRequired /\ ty_name (fd_type f) = B "Thing".
Proof.
  eexists _, _, _, _. repeat split; try (vm_compute; reflexivity).
Qed.
Print Assumptions C03_req_prefixed_type_refuted.
