(* Corr/C09.v — correspondence record and oracles for property C09 (schema evolution, unknown fields).

   A shard file defines  EO EN : env  (an old program and the program obtained from it by compatible
   edits) and a list of cases.  Every case carries what compiled generated code was observed to do.

   Observed objects: [h_dump] is the reflection dump of the object after Read, slots by thrift id in
   Go declaration order; objects of code generated with keep_unknown_fields have a leading pseudo-slot
   (unk_id, VBool c), c = what the public method CarryingUnknownFields() returned; every struct node has
   the pseudo-slot (isset_id, VStruct [(field id, VBool b) ...]), b = what IsSet<Field>() returned on that
   very object.  The private buffer is never observed directly: its content shows in the re-written bytes.

   [mismatches] returns (case index, code):
     1  model and implementation disagree                                         (correspondence)
     8  the case is outside what the harness may produce (pair is not an extension, ill-typed value,
        container header disagreeing with the schema)                             (correspondence)
     2  code of the OLD version failed to read what code of the NEW version wrote          (oracle)
     3  a field common to both versions did not keep its value (or its IsSet answer) when old
        read new, at any nesting position                                                   (oracle)
     4  with keep_unknown_fields: the bytes at the end of the chain do not decode, under the
        NEW schema, to the original value                                                   (oracle)
     5  CarryingUnknownFields() is not "the input had a field this version does not know"   (oracle)
     6  code of the NEW version failed to read what OLD code wrote, or an added field did
        not take its default (value and IsSet answer), at any nesting position              (oracle)
     7  old code generated with keep_unknown_fields refused to re-write what it had read    (oracle) *)
From Coq Require Import List ZArith Bool NArith Lia.
From Verif Require Import Base.Bytes Base.BE Wire.TType Wire.WVal Wire.Codec Wire.Schema Wire.Value Wire.Std
  Wire.Unknown Corr.C02.
Import ListNotations.
Open Scope Z_scope.

Inductive side := SOld | SNew.

(* one read + re-write by a fresh NewX() object.  When the read failed the remaining fields are
   VNil / OOk / [] and are not looked at; likewise the bytes when the re-write failed. *)
Record hop := mkhop { h_side : side; h_keep : bool; h_err : obs_err; h_dump : value;
                      h_werr : obs_err; h_out : bytes }.

Inductive case :=
| CPair                      (* the pair (EO, EN) itself: must satisfy extendsb *)
| CChain (start : side) (sname : bytes) (v : value) (werr : obs_err) (wbytes : bytes) (hops : list hop)
                             (* v written by plain code of [start], then the hops in order, each fed the previous output *)
| CHopB (sname : bytes) (inputs : list bytes) (h : hop).
                             (* harness-chosen bytes; Read is called once per input on the SAME object *)

Definition side_env (eo en : env) (sd : side) : env := match sd with SOld => eo | SNew => en end.

(* the observable view of a keep-aware object: the buffer shows only through CarryingUnknownFields *)
Fixpoint obs_view (x : value) : value :=
  match x with
  | VList l => VList (map obs_view l)
  | VMap kvs => VMap (map (fun kv => (obs_view (fst kv), obs_view (snd kv))) kvs)
  | VStruct fs => VStruct (map (fun p => if fst p =? unk_id
                                         then (fst p, match snd p with
                                                      | VBin b => VBool (negb (match b with [] => true | _ => false end))
                                                      | o => o end)
                                         else (fst p, obs_view (snd p))) fs)
  | VSome y => VSome (obs_view y)
  | _ => x
  end.

(* pseudo-slot holding what the public IsSet<Field>() methods of the object answered *)
Definition isset_id : Z := 32769.

(* the model's prediction of that pseudo-slot, at every struct node: (field id, isset f slot) for the
   fields that have the method, declaration order; it follows the carrying pseudo-slot when there is one *)
Fixpoint isset_view (e : env) (t : ty) (x : value) {struct x} : value :=
  match x with
  | VList l => match t with TList a | TSet a => VList (map (isset_view e a) l) | _ => x end
  | VMap kvs => match t with
                | TMap a b => VMap (map (fun kv => (isset_view e a (fst kv), isset_view e b (snd kv))) kvs)
                | _ => x end
  | VStruct fs =>
      match t with
      | TRef n =>
        match find_struct e n with
        | Some s =>
            let fs' := map (fun p => match find_field (fst p) (s_fields s) with
                                     | Some f => (fst p, isset_view e (f_ty f) (snd p))
                                     | None => p end) fs in
            let is := cat_somes (map (fun p => match find_field (fst p) (s_fields s) with
                                               | Some f => if supports_isset f then Some (fst p, VBool (isset f (snd p))) else None
                                               | None => None end) fs) in
            VStruct (filter (fun p => fst p =? unk_id) fs' ++ [(isset_id, VStruct is)] ++
                     filter (fun p => negb (fst p =? unk_id)) fs')
        | None => x end
      | _ => x end
  | VSome y => VSome (isset_view e t y)
  | _ => x
  end.

(* forgetting pseudo-slots of an observed dump: all of them / only the carrying flags *)
Fixpoint strip_ids (drop : Z -> bool) (v : value) : value :=
  match v with
  | VList l => VList (map (strip_ids drop) l)
  | VMap kvs => VMap (map (fun kv => (strip_ids drop (fst kv), strip_ids drop (snd kv))) kvs)
  | VStruct fs => VStruct (filter (fun p => negb (drop (fst p))) (map (fun p => (fst p, strip_ids drop (snd p))) fs))
  | VSome x => VSome (strip_ids drop x)
  | _ => v
  end.
Definition strip_obs : value -> value := strip_ids (fun i => (i =? unk_id) || (i =? isset_id)).
Definition strip_unk : value -> value := strip_ids (fun i => i =? unk_id).

(* no two keys of a map in v fall together when written (enum keys beyond int32 are truncated): when they
   do, which entry survives depends on the writer's Go map iteration order, so an oracle that predicts
   the reader's value from the SOURCE value would be wrong (the hop correspondence reads the observed
   bytes and is not affected) *)
Fixpoint keys_distinct (e : env) (t : ty) (v : value) {struct v} : bool :=
  match v with
  | VList l => match t with TList a | TSet a => forallb (keys_distinct e a) l | _ => true end
  | VMap kvs =>
      match t with
      | TMap a b => forallb (fun kv => keys_distinct e a (fst kv) && keys_distinct e b (snd kv)) kvs &&
                    negb (has_dup go_key_eq (map (fun kv => norm e a (fst kv)) kvs))
      | _ => true end
  | VStruct fs =>
      match t with
      | TRef n =>
        match find_struct e n with
        | Some s => forallb (fun p => match find_field (fst p) (s_fields s) with
                                      | Some f => keys_distinct e (f_ty f) (snd p)
                                      | None => true end) fs
        | None => true end
      | _ => true end
  | VSome x => keys_distinct e t x
  | _ => true
  end.

Fixpoint decode_all (inputs : list bytes) : option (list wval) :=
  match inputs with
  | [] => Some []
  | b :: r => match dec_struct b with
              | Some (w, _) => match decode_all r with Some ws => Some (w :: ws) | None => None end
              | None => None end
  end.

(* what the model predicts for one object that reads ws in order: the object's observable view and
   what its Write yields *)
Definition hop_model (e : env) (s : sschema) (keep : bool) (ws : list wval) : kres (value * kres wval) :=
  if keep then
    kbind (kfoldM (fun x w => from_wire_keep e s x w) ws (new_struct_keep s))
          (fun x => KOk (obs_view (isset_view e (TRef (s_name s)) x), to_wire_keep e s x))
  else
    kbind (lift (foldM (fun x w => from_wire e s x w) ws (new_struct e s)))
          (fun x => KOk (isset_view e (TRef (s_name s)) x, lift (to_wire e s x))).

Definition bytes_match (w : wval) (obytes : bytes) : bool :=
  match dec_struct obytes with
  | Some (w', []) => weq_mod false w w'
  | _ => false end.

Definition check_hop (e : env) (s : sschema) (inputs : list bytes) (h : hop) : list N :=
  match decode_all inputs with
  | None => if is_err (h_err h) then [] else [1%N]
  | Some ws =>
      match hop_model e s (h_keep h) ws with
      | KOk (view, rw) =>
          match h_err h with
          | OOk =>
              (if veq_mod view (h_dump h) then [] else [1%N]) ++
              match rw with
              | KOk w' => match h_werr h with
                          | OOk => if bytes_match w' (h_out h) then [] else [1%N]
                          | _ => [1%N] end
              | KErr (KStd (EUnionCount _)) | KErr (KStd ESetDup) => if is_err (h_werr h) then [] else [1%N]
              | KErr (KStd ENilUnion) => match h_werr h with OPanic => [] | _ => [1%N] end
              | KErr _ => [8%N]
              end
          | _ => [1%N] end
      | KErr (KStd (ERequiredMissing _)) => match h_err h with OInvalidData => [] | _ => [1%N] end
      | KErr (KStd EDecode) | KErr KDepth => if is_err (h_err h) then [] else [1%N]
      | KErr _ => [8%N]
      end
  end.

(* ---- oracles ---- *)

Definition top_flag (dump : value) : option bool :=
  match dump with
  | VStruct ((id, VBool c) :: _) => if id =? unk_id then Some c else None
  | _ => None end.

Definition has_unknown_field (s : sschema) (w : wval) : bool :=
  match w with
  | WStruct wfs => existsb (fun wf => match find_field (snd (fst wf)) (s_fields s) with Some _ => false | None => true end) wfs
  | _ => false end.

Definition carrying_oracle (s : sschema) (input : bytes) (h : hop) : list N :=
  match h_err h, h_keep h, dec_struct input with
  | OOk, true, Some (w, _) =>
      match top_flag (h_dump h) with
      | Some c => if Bool.eqb c (has_unknown_field s w) then [] else [5%N]
      | None => [5%N] end
  | _, _, _ => []
  end.

Fixpoint count_new (hs : list hop) : nat :=
  match hs with [] => O | h :: r => (match h_side h with SNew => 1 | SOld => 0 end + count_new r)%nat end.

Definition hop_ok (h : hop) : bool :=
  match h_err h, h_werr h with OOk, OOk => true | _, _ => false end.

Definition last_out (wbytes : bytes) (hs : list hop) : bytes :=
  fold_left (fun _ h => h_out h) hs wbytes.

(* walk the chain: every hop gets the previous output as input *)
Fixpoint chain_checks (eo en : env) (sname : bytes) (input : bytes) (hs : list hop) : list N :=
  match hs with
  | [] => []
  | h :: r =>
      let e := side_env eo en (h_side h) in
      match find_struct e sname with
      | None => [8%N]
      | Some s =>
          check_hop e s [input] h ++ carrying_oracle s input h ++
          (match h_side h, h_keep h, h_err h with
           | SOld, true, OOk =>
               match h_werr h with
               | OOk => []
               | _ => (* a refusal is legitimate only when plain old code could not write the known part either
                         (set elements that are equal after the read) *)
                      match to_wire e s (strip_obs (h_dump h)) with
                      | Err ESetDup => []
                      | _ => [7%N] end
               end
           | _, _, _ => [] end) ++
          (if hop_ok h then chain_checks eo en sname (h_out h) r else [])
      end
  end.

Definition check (eo en : env) (c : case) : list N :=
  match c with
  | CPair => if extendsb eo en && wf_env eo && wf_env en && closed_env en then [] else [8%N]
  | CChain start sname v werr wbytes hops =>
      let e0 := side_env eo en start in
      match find_struct e0 sname, find_struct eo sname, find_struct en sname with
      | Some s0, Some so, Some sn =>
          (* the first write: plain code, the C02 model *)
          compare_written e0 s0 (mkpopts false false false) v werr wbytes ++
          match werr with
          | OOk =>
              chain_checks eo en sname wbytes hops ++
              (if wt e0 s0 v && keys_distinct e0 (TRef sname) v then
                 match start, hops with
                 | SNew, h1 :: _ =>
                     (match h_side h1 with
                      | SOld =>
                          match h_err h1 with
                          | OOk => if veq_mod (strip_unk (h_dump h1)) (isset_view eo (TRef sname) (adapt_struct eo so (norm_struct en sn v))) then [] else [3%N]
                          | _ => [2%N] end
                      | SNew => [] end) ++
                     (* the domain of C09_keep_roundtrip / C09_chain: see Props/C09.v *)
                     (if forallb (fun h => match h_side h with SOld => h_keep h | SNew => true end) hops
                         && forallb hop_ok hops && keepable en (TRef sname) v then
                        match dec_struct (last_out wbytes hops) with
                        | Some (w, []) =>
                            match read_new en sn w with
                            | Ok vf => if veq_mod vf (iter_norm en sn (S (count_new hops)) v) then [] else [4%N]
                            | Err _ => [4%N] end
                        | _ => [4%N] end
                      else [])
                 | SOld, h1 :: _ =>
                     (match h_side h1 with
                      | SNew =>
                          match h_err h1 with
                          | OOk => if veq_mod (strip_unk (h_dump h1)) (isset_view en (TRef sname) (adapt_struct en sn (norm_struct eo so v))) then [] else [6%N]
                          | _ => [6%N] end
                      | SOld => [] end)
                 | _, [] => []
                 end
               else [])
          | _ => [] end
      | _, _, _ => [8%N]
      end
  | CHopB sname inputs h =>
      let e := side_env eo en (h_side h) in
      match find_struct e sname with
      | None => [8%N]
      | Some s => check_hop e s inputs h ++
                  match inputs with [i] => carrying_oracle s i h | _ => [] end
      end
  end.

Fixpoint mismatches_from (eo en : env) (i : N) (cs : list case) : list (N * N) :=
  match cs with
  | [] => []
  | c :: r => map (fun code => (i, code)) (check eo en c) ++ mismatches_from eo en (i + 1)%N r
  end.
