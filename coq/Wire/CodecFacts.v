(* Wire/CodecFacts.v — facts about the binary codec of Wire/Codec.v.

     dec_enc           round trip: dec n (wtype v) (enc v ++ r) = Some (v, r)  (depth v <= n, wf v)
     skip_enc          skip consumes exactly an encoding
     dec_local         dec looks only at the bytes it consumes
     dec_fuel_mono     more fuel never changes a result
     dec_prefix_fails  no proper prefix of an encoding decodes
     dec_inj / enc_dec what was decoded re-encodes to the consumed bytes (for wf results: see dec_wf)
     enc_length        length (enc v) = wsize v
     depth_le_size     depth v <= wsize v, hence dec_struct has enough fuel (dec_struct_enc)      *)
From Coq Require Import List ZArith NArith Lia Bool.
From Coq.Strings Require Import Byte.
From Verif Require Import Base.Bytes Base.BE Wire.TType Wire.WVal Wire.Codec.
Import ListNotations.
Open Scope Z_scope.

(* ---------------------------------------------------------------- helpers on nested fixes *)

Definition enc_fields_go :=
  (fix go (l : list (ttype * Z * wval)) : bytes :=
     match l with
     | [] => [x00]
     | (t, id, x) :: r => put_be 1 (code t) ++ put_be 2 id ++ enc x ++ go r
     end).
Definition enc_map_go :=
  (fix go (l : list (wval * wval)) : bytes :=
     match l with [] => [] | (k, x) :: r => enc k ++ enc x ++ go r end).
Definition enc_list_go :=
  (fix go (l : list wval) : bytes := match l with [] => [] | x :: r => enc x ++ go r end).

Lemma enc_struct_unfold fs : enc (WStruct fs) = enc_fields_go fs.
Proof. reflexivity. Qed.
Lemma enc_map_unfold kt vt kvs : enc (WMap kt vt kvs) =
  put_be 1 (code kt) ++ put_be 1 (code vt) ++ put_be 4 (Z.of_nat (length kvs)) ++ enc_map_go kvs.
Proof. reflexivity. Qed.
Lemma enc_list_unfold et l : enc (WList et l) =
  put_be 1 (code et) ++ put_be 4 (Z.of_nat (length l)) ++ enc_list_go l.
Proof. reflexivity. Qed.
Lemma enc_set_unfold et l : enc (WSet et l) =
  put_be 1 (code et) ++ put_be 4 (Z.of_nat (length l)) ++ enc_list_go l.
Proof. reflexivity. Qed.

Lemma enc_fields_go_cons t id x r :
  enc_fields_go ((t, id, x) :: r) = put_be 1 (code t) ++ put_be 2 id ++ enc x ++ enc_fields_go r.
Proof. reflexivity. Qed.

Lemma enc_fields_go_app l1 l2 :
  enc_fields_go (l1 ++ l2) = flat_map enc_field l1 ++ enc_fields_go l2.
Proof.
  induction l1 as [|[[t i] x] l1 IH]; [reflexivity|].
  cbn [app flat_map enc_field]. rewrite enc_fields_go_cons, IH. rewrite <- !app_assoc. reflexivity.
Qed.

Lemma enc_struct_app l1 l2 :
  enc (WStruct (l1 ++ l2)) = flat_map enc_field l1 ++ enc (WStruct l2).
Proof. apply enc_fields_go_app. Qed.

Lemma wf_list_Forall et l :
  (fix all (l : list wval) : Prop :=
         match l with [] => True | x :: r => (wtype x = et /\ wf x) /\ all r end) l
  <-> Forall (fun x => wtype x = et /\ wf x) l.
Proof.
  induction l as [|x l IH].
  - split; [constructor | trivial].
  - rewrite Forall_cons_iff, <- IH. cbn [fst snd]. tauto.
Qed.

Lemma wf_map_Forall kt vt l :
  (fix all (l : list (wval*wval)) : Prop :=
         match l with [] => True
         | (k,x) :: r => (wtype k = kt /\ wtype x = vt /\ wf k /\ wf x) /\ all r end) l
  <-> Forall (fun p => wtype (fst p) = kt /\ wtype (snd p) = vt /\ wf (fst p) /\ wf (snd p)) l.
Proof.
  induction l as [|[k x] l IH].
  - split; [constructor | trivial].
  - rewrite Forall_cons_iff, <- IH. cbn [fst snd]. tauto.
Qed.

Lemma wf_struct_Forall l :
  (fix all (l : list (ttype*Z*wval)) : Prop :=
         match l with [] => True
         | (t,id,x) :: r => (wtype x = t /\ in_srange 2 id /\ wf x) /\ all r end) l
  <-> Forall (fun f => wtype (snd f) = fst (fst f) /\ in_srange 2 (snd (fst f)) /\ wf (snd f)) l.
Proof.
  induction l as [|[[t id] x] l IH].
  - split; [constructor | trivial].
  - rewrite Forall_cons_iff, <- IH. cbn [fst snd]. tauto.
Qed.

Lemma wf_struct_iff fs :
  wf (WStruct fs) <-> Forall (fun f => wtype (snd f) = fst (fst f) /\ in_srange 2 (snd (fst f)) /\ wf (snd f)) fs.
Proof. apply wf_struct_Forall. Qed.
Lemma wf_list_iff et l :
  wf (WList et l) <-> in_srange 4 (Z.of_nat (length l)) /\ Forall (fun x => wtype x = et /\ wf x) l.
Proof. cbn [wf]. rewrite wf_list_Forall. tauto. Qed.
Lemma wf_set_iff et l :
  wf (WSet et l) <-> in_srange 4 (Z.of_nat (length l)) /\ Forall (fun x => wtype x = et /\ wf x) l.
Proof. cbn [wf]. rewrite wf_list_Forall. tauto. Qed.
Lemma wf_map_iff kt vt l :
  wf (WMap kt vt l) <-> in_srange 4 (Z.of_nat (length l)) /\
    Forall (fun p => wtype (fst p) = kt /\ wtype (snd p) = vt /\ wf (fst p) /\ wf (snd p)) l.
Proof. cbn [wf]. rewrite wf_map_Forall. tauto. Qed.

Lemma rep_enc {A} (p : bytes -> option (A*bytes)) (e : A -> bytes) (l : list A) r :
  Forall (fun x => forall r, p (e x ++ r) = Some (x, r)) l ->
  rep p (length l) (fold_right (fun x acc => e x ++ acc) [] l ++ r) = Some (l, r).
Proof.
  induction l as [|x l IH]; intro H; cbn; [reflexivity|].
  inversion H as [|? ? Hx Hl]; subst.
  rewrite <- app_assoc, Hx, IH by assumption. reflexivity.
Qed.

Lemma enc_list_fold l : enc_list_go l = fold_right (fun x acc => enc x ++ acc) [] l.
Proof. induction l; cbn; congruence. Qed.

Lemma enc_map_fold l :
  enc_map_go l = fold_right (fun p acc => (enc (fst p) ++ enc (snd p)) ++ acc) [] l.
Proof. induction l as [|[k x] l IH]; cbn; [reflexivity|]. rewrite IH, app_assoc. reflexivity. Qed.

Definition depth_list_go :=
  (fix go (l : list wval) : nat := match l with [] => O | x :: r => Nat.max (depth x) (go r) end).
Definition depth_map_go :=
  (fix go (l : list (wval*wval)) : nat :=
     match l with [] => O | (k,x) :: r => Nat.max (Nat.max (depth k) (depth x)) (go r) end).
Definition depth_struct_go :=
  (fix go (l : list (ttype*Z*wval)) : nat :=
     match l with [] => O | (_,_,x) :: r => Nat.max (depth x) (go r) end).

Lemma depth_list_le l x : In x l -> (depth x <= depth_list_go l)%nat.
Proof. induction l as [|y l IH]; cbn; [tauto|]. intros [->|H]; [lia|]. specialize (IH H). lia. Qed.

Lemma depth_map_le l p :
  In p l -> (Nat.max (depth (fst p)) (depth (snd p)) <= depth_map_go l)%nat.
Proof. induction l as [|[k y] l IH]; cbn; [tauto|]. intros [<-|H]; cbn; [lia|]. specialize (IH H). lia. Qed.

Lemma depth_struct_le l f : In f l -> (depth (snd f) <= depth_struct_go l)%nat.
Proof. induction l as [|[[t i] y] l IH]; cbn; [tauto|]. intros [<-|H]; cbn; [lia|]. specialize (IH H). lia. Qed.

Lemma code_in_range1 t : 0 <= code t < 256 ^ Z.of_nat 1.
Proof. pose proof (code_range t). change (256 ^ Z.of_nat 1) with 256. lia. Qed.

Lemma get_count_put (n : nat) r :
  in_srange 4 (Z.of_nat n) -> get_count (put_be 4 (Z.of_nat n) ++ r) = Some (n, r).
Proof.
  intro H. unfold get_count. rewrite get_s_put by (try assumption; lia).
  destruct (Z.ltb_spec (Z.of_nat n) 0); [lia|]. rewrite Nat2Z.id. reflexivity.
Qed.

Lemma fields_enc d (l : list (ttype*Z*wval)) : forall n r,
  (length l < n)%nat ->
  Forall (fun f => wtype (snd f) = fst (fst f) /\ in_srange 2 (snd (fst f)) /\
                   forall r, d (fst (fst f)) (enc (snd f) ++ r) = Some (snd f, r)) l ->
  fields d n (enc_fields_go l ++ r) = Some (l, r).
Proof.
  induction l as [|[[t id] x] l IH]; intros n r Hn H; (destruct n; [cbn in Hn; lia|]).
  - cbn. reflexivity.
  - inversion H as [|? ? [Ht [Hid Hx]] Hl]; subst. cbn [fst snd] in Ht, Hid, Hx.
    rewrite enc_fields_go_cons. cbn [fields]. rewrite <- !app_assoc.
    rewrite get_put by apply code_in_range1.
    pose proof (code_range t) as Hc.
    destruct (Z.eqb_spec (code t) 0) as [E|_]; [lia|].
    rewrite of_code_code, get_s_put by (try assumption; lia). rewrite Hx.
    rewrite IH; [reflexivity| cbn in Hn; lia | assumption].
Qed.

Lemma enc_fields_len (fs : list (ttype*Z*wval)) : (length fs < length (enc_fields_go fs))%nat.
Proof.
  induction fs as [|[[t i] x] fs IHf]; [cbn; lia|].
  rewrite enc_fields_go_cons. cbn [length]. rewrite !app_length, !put_be_length. lia.
Qed.

(* ---------------------------------------------------------------- round trip *)

Theorem dec_enc : forall n v r, (depth v <= n)%nat -> wf v ->
  dec n (wtype v) (enc v ++ r) = Some (v, r).
Proof.
  induction n as [|n IH]; intros v r Hd Hwf.
  - destruct v; cbn in Hd; lia.
  - destruct v.
    + cbn. destruct b; reflexivity.
    + cbn [wtype enc dec wf] in *. rewrite get_s_put by (try assumption; lia). reflexivity.
    + cbn [wtype enc dec wf] in *. rewrite get_put by assumption. reflexivity.
    + cbn [wtype enc dec wf] in *. rewrite get_s_put by (try assumption; lia). reflexivity.
    + cbn [wtype enc dec wf] in *. rewrite get_s_put by (try assumption; lia). reflexivity.
    + cbn [wtype enc dec wf] in *. rewrite get_s_put by (try assumption; lia). reflexivity.
    + cbn [wtype enc dec wf] in *. rewrite <- app_assoc, get_count_put by assumption.
      rewrite app_length. destruct (Nat.ltb_spec (length s + length r) (length s)); [lia|].
      rewrite firstn_app, Nat.sub_diag, firstn_all, skipn_app, Nat.sub_diag, skipn_all.
      cbn. rewrite app_nil_r. reflexivity.
    + (* struct *)
      apply wf_struct_iff in Hwf. rewrite enc_struct_unfold. cbn [wtype dec].
      rewrite fields_enc; [reflexivity | |].
      * rewrite app_length. pose proof (enc_fields_len fs). lia.
      * rewrite Forall_forall in *. intros f Hf. destruct (Hwf f Hf) as [Ht [Hid Hw]].
        pose proof (depth_struct_le fs f Hf) as Hdf.
        destruct f as [[t i] x]; cbn [fst snd] in *.
        split; [assumption|]. split; [assumption|]. intro r0. subst t. apply IH; [|assumption].
        cbn in Hd. fold depth_struct_go in Hd. lia.
    + (* map *)
      apply wf_map_iff in Hwf. destruct Hwf as [Hlen Hall].
      rewrite enc_map_unfold. cbn [wtype dec].
      rewrite <- !app_assoc. rewrite get_put by apply code_in_range1.
      rewrite of_code_code. rewrite get_put by apply code_in_range1.
      rewrite of_code_code, get_count_put by assumption.
      rewrite enc_map_fold.
      rewrite (rep_enc (pairp (dec n kt) (dec n vt)) (fun p => enc (fst p) ++ enc (snd p))); [reflexivity|].
      rewrite Forall_forall in *. intros p Hp r0. destruct (Hall p Hp) as [Hk [Hv [Hwk Hwv]]].
      pose proof (depth_map_le kvs p Hp) as Hdp. cbn in Hd. fold depth_map_go in Hd.
      unfold pairp. rewrite <- app_assoc. rewrite <- Hk, IH by (try assumption; lia).
      rewrite <- Hv, IH by (try assumption; lia). destruct p; reflexivity.
    + apply wf_set_iff in Hwf. destruct Hwf as [Hlen Hall].
      rewrite enc_set_unfold. cbn [wtype dec].
      rewrite <- !app_assoc. rewrite get_put by apply code_in_range1.
      rewrite of_code_code, get_count_put by assumption.
      rewrite enc_list_fold, rep_enc; [reflexivity|].
      rewrite Forall_forall in *. intros x Hx r0. destruct (Hall x Hx) as [<- Hw].
      apply IH; [|assumption]. cbn in Hd. fold depth_list_go in Hd. pose proof (depth_list_le l x Hx). lia.
    + apply wf_list_iff in Hwf. destruct Hwf as [Hlen Hall].
      rewrite enc_list_unfold. cbn [wtype dec].
      rewrite <- !app_assoc. rewrite get_put by apply code_in_range1.
      rewrite of_code_code, get_count_put by assumption.
      rewrite enc_list_fold, rep_enc; [reflexivity|].
      rewrite Forall_forall in *. intros x Hx r0. destruct (Hall x Hx) as [<- Hw].
      apply IH; [|assumption]. cbn in Hd. fold depth_list_go in Hd. pose proof (depth_list_le l x Hx). lia.
Qed.

Corollary skip_enc n v r : (depth v <= n)%nat -> wf v -> skip n (wtype v) (enc v ++ r) = Some r.
Proof. intros Hd Hw. unfold skip. rewrite dec_enc by assumption. reflexivity. Qed.

(* ---------------------------------------------------------------- sizes *)

Lemma enc_length v : length (enc v) = wsize v.
Proof.
  revert v. fix ind 1. intro v.
  destruct v; try (cbn; rewrite ?app_length, ?put_be_length; reflexivity).
  - cbn [enc wsize]. induction fs as [|[[t i] x] fs IHfs]; [reflexivity|].
    rewrite !app_length, !put_be_length, (ind x), IHfs. lia.
  - cbn [enc wsize]. rewrite !app_length, !put_be_length.
    assert (E : length (enc_map_go kvs) =
                (fix go (l : list (wval*wval)) : nat :=
                   match l with [] => 0 | (k,x) :: r => wsize k + wsize x + go r end)%nat kvs).
    { induction kvs as [|[k x] kvs IHk]; [reflexivity|].
      cbn [enc_map_go]. rewrite !app_length, (ind k), (ind x). fold enc_map_go. rewrite IHk. lia. }
    fold enc_map_go. rewrite E. lia.
  - cbn [enc wsize]. rewrite !app_length, !put_be_length.
    assert (E : length (enc_list_go l) =
                (fix go (l : list wval) : nat := match l with [] => 0 | x :: r => wsize x + go r end)%nat l).
    { induction l as [|x l IHl]; [reflexivity|].
      cbn [enc_list_go]. rewrite !app_length, (ind x). fold enc_list_go. rewrite IHl. lia. }
    fold enc_list_go. rewrite E. lia.
  - cbn [enc wsize]. rewrite !app_length, !put_be_length.
    assert (E : length (enc_list_go l) =
                (fix go (l : list wval) : nat := match l with [] => 0 | x :: r => wsize x + go r end)%nat l).
    { induction l as [|x l IHl]; [reflexivity|].
      cbn [enc_list_go]. rewrite !app_length, (ind x). fold enc_list_go. rewrite IHl. lia. }
    fold enc_list_go. rewrite E. lia.
Qed.

Lemma depth_le_size v : (depth v <= wsize v)%nat.
Proof.
  revert v. fix ind 1. intro v.
  destruct v; try (cbn; lia).
  - cbn [depth wsize]. induction fs as [|[[t i] x] fs IHfs]; [lia|].
    pose proof (ind x). lia.
  - cbn [depth wsize].
    enough (depth_map_go kvs <= (fix go (l : list (wval*wval)) : nat :=
                   match l with [] => 0 | (k,x) :: r => wsize k + wsize x + go r end) kvs)%nat
      by (unfold depth_map_go in *; lia).
    induction kvs as [|[k x] kvs IHk]; [cbn; lia|].
    cbn [depth_map_go]. fold depth_map_go. pose proof (ind k). pose proof (ind x). lia.
  - cbn [depth wsize].
    enough (depth_list_go l <= (fix go (l : list wval) : nat :=
               match l with [] => 0 | x :: r => wsize x + go r end) l)%nat
      by (unfold depth_list_go in *; lia).
    induction l as [|x l IHl]; [cbn; lia|].
    cbn [depth_list_go]. fold depth_list_go. pose proof (ind x). lia.
  - cbn [depth wsize].
    enough (depth_list_go l <= (fix go (l : list wval) : nat :=
               match l with [] => 0 | x :: r => wsize x + go r end) l)%nat
      by (unfold depth_list_go in *; lia).
    induction l as [|x l IHl]; [cbn; lia|].
    cbn [depth_list_go]. fold depth_list_go. pose proof (ind x). lia.
Qed.

Corollary dec_struct_enc fs r : wf (WStruct fs) -> dec_struct (enc (WStruct fs) ++ r) = Some (WStruct fs, r).
Proof.
  intro H. unfold dec_struct. apply (dec_enc _ (WStruct fs)); [|assumption].
  rewrite app_length, enc_length. pose proof (depth_le_size (WStruct fs)). lia.
Qed.

(* ---------------------------------------------------------------- fuel monotonicity *)

Lemma rep_mono {A} (p q : bytes -> option (A*bytes)) :
  (forall bs x, p bs = Some x -> q bs = Some x) ->
  forall n bs x, rep p n bs = Some x -> rep q n bs = Some x.
Proof.
  intros Hpq. induction n as [|n IH]; intros bs x H; cbn in *; [assumption|].
  destruct (p bs) as [[a r]|] eqn:E; [|discriminate]. rewrite (Hpq _ _ E).
  destruct (rep p n r) as [[xs r']|] eqn:E2; [|discriminate]. rewrite (IH _ _ E2). assumption.
Qed.

Lemma pairp_mono {A B} (p p' : bytes -> option (A*bytes)) (q q' : bytes -> option (B*bytes)) :
  (forall bs x, p bs = Some x -> p' bs = Some x) ->
  (forall bs x, q bs = Some x -> q' bs = Some x) ->
  forall bs x, pairp p q bs = Some x -> pairp p' q' bs = Some x.
Proof.
  intros Hp Hq bs x H. unfold pairp in *.
  destruct (p bs) as [[a r]|] eqn:E; [|discriminate]. rewrite (Hp _ _ E).
  destruct (q r) as [[b r']|] eqn:E2; [|discriminate]. rewrite (Hq _ _ E2). assumption.
Qed.

Lemma fields_mono d d' :
  (forall t bs x, d t bs = Some x -> d' t bs = Some x) ->
  forall n m bs x, (n <= m)%nat -> fields d n bs = Some x -> fields d' m bs = Some x.
Proof.
  intros Hd. induction n as [|n IH]; intros m bs x Hnm H; [discriminate|].
  destruct m as [|m]; [lia|]. cbn [fields] in *.
  destruct (get_be 1 bs) as [[c r]|]; [|discriminate].
  destruct (c =? 0); [assumption|].
  destruct (of_code c) as [ft|]; [|discriminate].
  destruct (get_s 2 r) as [[id r1]|]; [|discriminate].
  destruct (d ft r1) as [[y r2]|] eqn:E; [|discriminate]. rewrite (Hd _ _ _ E).
  destruct (fields d n r2) as [[fs r3]|] eqn:E2; [|discriminate].
  rewrite (IH m _ _ ltac:(lia) E2). assumption.
Qed.

Lemma dec_fuel_S : forall f t bs x, dec f t bs = Some x -> dec (S f) t bs = Some x.
Proof.
  induction f as [|f IH]; intros t bs x H; [discriminate|].
  remember (S f) as f1 eqn:Hf1. rewrite Hf1 in H.
  destruct t; cbn [dec] in H; cbn [dec]; try assumption.
  - (* struct *)
    destruct (fields (dec f) (S (length bs)) bs) as [[fs r]|] eqn:E; [|discriminate].
    rewrite (fields_mono (dec f) (dec f1) IH _ _ _ _ (le_n _) E). assumption.
  - (* map *)
    destruct (get_be 1 bs) as [[c r]|]; [|discriminate].
    destruct (of_code c) as [kt|]; [|discriminate].
    destruct (get_be 1 r) as [[c2 r0]|]; [|discriminate].
    destruct (of_code c2) as [vt|]; [|discriminate].
    destruct (get_count r0) as [[n r1]|]; [|discriminate].
    destruct (rep (pairp (dec f kt) (dec f vt)) n r1) as [[xs r2]|] eqn:E; [|discriminate].
    assert (Hm : rep (pairp (dec f1 kt) (dec f1 vt)) n r1 = Some (xs, r2)).
    { eapply rep_mono; [|exact E]. apply pairp_mono; intros; apply IH; assumption. }
    rewrite Hm. assumption.
  - destruct (get_be 1 bs) as [[c r]|]; [|discriminate].
    destruct (of_code c) as [et|]; [|discriminate].
    destruct (get_count r) as [[n r1]|]; [|discriminate].
    destruct (rep (dec f et) n r1) as [[xs r2]|] eqn:E; [|discriminate].
    assert (Hm : rep (dec f1 et) n r1 = Some (xs, r2)).
    { eapply rep_mono; [|exact E]. intros; apply IH; assumption. }
    rewrite Hm. assumption.
  - destruct (get_be 1 bs) as [[c r]|]; [|discriminate].
    destruct (of_code c) as [et|]; [|discriminate].
    destruct (get_count r) as [[n r1]|]; [|discriminate].
    destruct (rep (dec f et) n r1) as [[xs r2]|] eqn:E; [|discriminate].
    assert (Hm : rep (dec f1 et) n r1 = Some (xs, r2)).
    { eapply rep_mono; [|exact E]. intros; apply IH; assumption. }
    rewrite Hm. assumption.
Qed.

Theorem dec_fuel_mono f f' t bs x : (f <= f')%nat -> dec f t bs = Some x -> dec f' t bs = Some x.
Proof.
  intros Hle H. induction Hle; [assumption|]. apply dec_fuel_S. assumption.
Qed.

(* ---------------------------------------------------------------- locality *)

Definition local {A} (p : bytes -> option (A * bytes)) : Prop :=
  forall bs x r, p bs = Some (x, r) ->
    exists used, bs = used ++ r /\ forall r', p (used ++ r') = Some (x, r').

Lemma rep_local {A} (p : bytes -> option (A*bytes)) : local p -> forall n, local (rep p n).
Proof.
  intros Hp. induction n as [|n IH]; intros bs x r H; cbn in H.
  - injection H as <- <-. exists []. split; reflexivity.
  - destruct (p bs) as [[a r1]|] eqn:E; [|discriminate].
    destruct (rep p n r1) as [[xs r2]|] eqn:E2; [|discriminate]. injection H as <- <-.
    destruct (Hp _ _ _ E) as (u1 & -> & H1). destruct (IH _ _ _ E2) as (u2 & -> & H2).
    exists (u1 ++ u2). split; [apply app_assoc|]. intro r'. cbn.
    rewrite <- app_assoc, H1, H2. reflexivity.
Qed.

Lemma pairp_local {A B} (p : bytes -> option (A*bytes)) (q : bytes -> option (B*bytes)) :
  local p -> local q -> local (pairp p q).
Proof.
  intros Hp Hq bs x r H. unfold pairp in H.
  destruct (p bs) as [[a r1]|] eqn:E; [|discriminate].
  destruct (q r1) as [[b r2]|] eqn:E2; [|discriminate]. injection H as <- <-.
  destruct (Hp _ _ _ E) as (u1 & -> & H1). destruct (Hq _ _ _ E2) as (u2 & -> & H2).
  exists (u1 ++ u2). split; [apply app_assoc|]. intro r'. unfold pairp.
  rewrite <- app_assoc, H1, H2. reflexivity.
Qed.

Lemma fields_local d : (forall t, local (d t)) ->
  forall n bs fs r, fields d n bs = Some (fs, r) ->
    exists used, bs = used ++ r /\
      forall r' m, (length used < m)%nat -> fields d m (used ++ r') = Some (fs, r').
Proof.
  intros Hd. induction n as [|n IH]; intros bs fs r H; [discriminate|]. cbn [fields] in H.
  destruct (get_be 1 bs) as [[c r0]|] eqn:E0; [|discriminate].
  destruct (get_be_split _ _ _ _ E0) as (u0 & -> & Hl0 & H0).
  destruct (Z.eqb_spec c 0) as [Hc|Hc].
  - injection H as <- <-. exists u0. split; [reflexivity|]. intros r' m Hm.
    destruct m as [|m]; [lia|]. cbn [fields]. rewrite H0. subst c. reflexivity.
  - destruct (of_code c) as [ft|] eqn:Eft; [|discriminate].
    destruct (get_s 2 r0) as [[id r1]|] eqn:E1; [|discriminate].
    destruct (get_s_split _ _ _ _ E1) as (u1 & -> & Hl1 & H1).
    destruct (d ft r1) as [[y r2]|] eqn:E2; [|discriminate].
    destruct (Hd _ _ _ _ E2) as (u2 & -> & H2).
    destruct (fields d n r2) as [[fs' r3]|] eqn:E3; [|discriminate]. injection H as <- <-.
    destruct (IH _ _ _ E3) as (u3 & -> & H3).
    exists (u0 ++ u1 ++ u2 ++ u3). split; [rewrite <- !app_assoc; reflexivity|].
    intros r' m Hm. destruct m as [|m]; [lia|]. cbn [fields].
    rewrite <- !app_assoc. rewrite H0.
    destruct (Z.eqb_spec c 0); [contradiction|]. rewrite Eft, H1, H2.
    rewrite H3; [reflexivity|]. rewrite !app_length in Hm. lia.
Qed.

Theorem dec_local : forall f t, local (dec f t).
Proof.
  induction f as [|f IH]; intros t bs x r H; [discriminate|].
  destruct t; cbn [dec] in H.
  - destruct bs as [|b bs]; [discriminate|]. injection H as <- <-.
    exists [b]. split; reflexivity.
  - destruct (get_s 1 bs) as [[z r0]|] eqn:E; [|discriminate]. injection H as <- <-.
    destruct (get_s_split _ _ _ _ E) as (u & -> & _ & Hu). exists u. split; [reflexivity|].
    intro r'. cbn [dec]. rewrite Hu. reflexivity.
  - destruct (get_be 8 bs) as [[z r0]|] eqn:E; [|discriminate]. injection H as <- <-.
    destruct (get_be_split _ _ _ _ E) as (u & -> & _ & Hu). exists u. split; [reflexivity|].
    intro r'. cbn [dec]. rewrite Hu. reflexivity.
  - destruct (get_s 2 bs) as [[z r0]|] eqn:E; [|discriminate]. injection H as <- <-.
    destruct (get_s_split _ _ _ _ E) as (u & -> & _ & Hu). exists u. split; [reflexivity|].
    intro r'. cbn [dec]. rewrite Hu. reflexivity.
  - destruct (get_s 4 bs) as [[z r0]|] eqn:E; [|discriminate]. injection H as <- <-.
    destruct (get_s_split _ _ _ _ E) as (u & -> & _ & Hu). exists u. split; [reflexivity|].
    intro r'. cbn [dec]. rewrite Hu. reflexivity.
  - destruct (get_s 8 bs) as [[z r0]|] eqn:E; [|discriminate]. injection H as <- <-.
    destruct (get_s_split _ _ _ _ E) as (u & -> & _ & Hu). exists u. split; [reflexivity|].
    intro r'. cbn [dec]. rewrite Hu. reflexivity.
  - (* string *)
    unfold get_count in H.
    destruct (get_s 4 bs) as [[z r0]|] eqn:E; [|discriminate].
    destruct (z <? 0) eqn:Ez; [discriminate|].
    destruct (Nat.ltb_spec (length r0) (Z.to_nat z)) as [Hlt|Hge]; [discriminate|]. injection H as <- <-.
    destruct (get_s_split _ _ _ _ E) as (u & -> & _ & Hu).
    exists (u ++ firstn (Z.to_nat z) r0). split.
    + rewrite <- app_assoc, firstn_skipn. reflexivity.
    + intro r'. cbn [dec]. unfold get_count. rewrite <- app_assoc, Hu, Ez.
      assert (Hl : length (firstn (Z.to_nat z) r0) = Z.to_nat z) by (apply firstn_length_le; lia).
      rewrite app_length, Hl.
      destruct (Nat.ltb_spec (Z.to_nat z + length r') (Z.to_nat z)); [lia|].
      rewrite <- Hl at 1. rewrite firstn_app, Nat.sub_diag, firstn_all. cbn [firstn]. rewrite app_nil_r.
      rewrite <- Hl at 2. rewrite skipn_app, Nat.sub_diag, skipn_all. reflexivity.
  - (* struct *)
    destruct (fields (dec f) (S (length bs)) bs) as [[fs r0]|] eqn:E; [|discriminate]. injection H as <- <-.
    destruct (fields_local (dec f) (IH) _ _ _ _ E) as (u & -> & Hu).
    exists u. split; [reflexivity|]. intro r'. cbn [dec]. rewrite Hu; [reflexivity|].
    rewrite app_length. lia.
  - (* map *)
    destruct (get_be 1 bs) as [[c r0]|] eqn:E0; [|discriminate].
    destruct (of_code c) as [kt|] eqn:Ek; [|discriminate].
    destruct (get_be 1 r0) as [[c2 r1]|] eqn:E1; [|discriminate].
    destruct (of_code c2) as [vt|] eqn:Ev; [|discriminate].
    unfold get_count in H.
    destruct (get_s 4 r1) as [[z r2]|] eqn:E2; [|discriminate].
    destruct (z <? 0) eqn:Ez; [discriminate|].
    destruct (rep (pairp (dec f kt) (dec f vt)) (Z.to_nat z) r2) as [[xs r3]|] eqn:E3; [|discriminate].
    injection H as <- <-.
    destruct (get_be_split _ _ _ _ E0) as (u0 & -> & _ & H0).
    destruct (get_be_split _ _ _ _ E1) as (u1 & -> & _ & H1).
    destruct (get_s_split _ _ _ _ E2) as (u2 & -> & _ & H2).
    destruct (rep_local _ (pairp_local _ _ (IH kt) (IH vt)) _ _ _ _ E3) as (u3 & -> & H3).
    exists (u0 ++ u1 ++ u2 ++ u3). split; [rewrite <- !app_assoc; reflexivity|].
    intro r'. cbn [dec]. rewrite <- !app_assoc, H0, Ek, H1, Ev. unfold get_count. rewrite H2, Ez, H3.
    reflexivity.
  - (* set *)
    destruct (get_be 1 bs) as [[c r0]|] eqn:E0; [|discriminate].
    destruct (of_code c) as [et|] eqn:Ek; [|discriminate].
    unfold get_count in H.
    destruct (get_s 4 r0) as [[z r2]|] eqn:E2; [|discriminate].
    destruct (z <? 0) eqn:Ez; [discriminate|].
    destruct (rep (dec f et) (Z.to_nat z) r2) as [[xs r3]|] eqn:E3; [|discriminate].
    injection H as <- <-.
    destruct (get_be_split _ _ _ _ E0) as (u0 & -> & _ & H0).
    destruct (get_s_split _ _ _ _ E2) as (u2 & -> & _ & H2).
    destruct (rep_local _ (IH et) _ _ _ _ E3) as (u3 & -> & H3).
    exists (u0 ++ u2 ++ u3). split; [rewrite <- !app_assoc; reflexivity|].
    intro r'. cbn [dec]. rewrite <- !app_assoc, H0, Ek. unfold get_count. rewrite H2, Ez, H3.
    reflexivity.
  - (* list *)
    destruct (get_be 1 bs) as [[c r0]|] eqn:E0; [|discriminate].
    destruct (of_code c) as [et|] eqn:Ek; [|discriminate].
    unfold get_count in H.
    destruct (get_s 4 r0) as [[z r2]|] eqn:E2; [|discriminate].
    destruct (z <? 0) eqn:Ez; [discriminate|].
    destruct (rep (dec f et) (Z.to_nat z) r2) as [[xs r3]|] eqn:E3; [|discriminate].
    injection H as <- <-.
    destruct (get_be_split _ _ _ _ E0) as (u0 & -> & _ & H0).
    destruct (get_s_split _ _ _ _ E2) as (u2 & -> & _ & H2).
    destruct (rep_local _ (IH et) _ _ _ _ E3) as (u3 & -> & H3).
    exists (u0 ++ u2 ++ u3). split; [rewrite <- !app_assoc; reflexivity|].
    intro r'. cbn [dec]. rewrite <- !app_assoc, H0, Ek. unfold get_count. rewrite H2, Ez, H3.
    reflexivity.
Qed.

Corollary dec_suffix f t bs v r : dec f t bs = Some (v, r) -> exists used, bs = used ++ r.
Proof. intro H. destruct (dec_local f t bs v r H) as (u & Hu & _). exists u. exact Hu. Qed.

(* ---------------------------------------------------------------- prefix freedom *)

Theorem dec_prefix_fails f v n : wf v -> (n < length (enc v))%nat ->
  dec f (wtype v) (firstn n (enc v)) = None.
Proof.
  intros Hwf Hn. destruct (dec f (wtype v) (firstn n (enc v))) as [[v' r']|] eqn:E; [|reflexivity].
  exfalso.
  set (F := Nat.max f (depth v)).
  assert (E' : dec F (wtype v) (firstn n (enc v)) = Some (v', r'))
    by (apply (dec_fuel_mono f); [unfold F; lia | exact E]).
  destruct (dec_local _ _ _ _ _ E') as (u & Hu & Hloc).
  specialize (Hloc (r' ++ skipn n (enc v))).
  rewrite app_assoc, <- Hu, firstn_skipn in Hloc.
  pose proof (dec_enc F v [] ltac:(unfold F; lia) Hwf) as Hde. rewrite app_nil_r in Hde.
  rewrite Hde in Hloc. injection Hloc as _ Hnil. symmetry in Hnil.
  apply app_eq_nil in Hnil. destruct Hnil as [_ Hs].
  pose proof (skipn_length n (enc v)) as Hsl. rewrite Hs in Hsl. cbn in Hsl. lia.
Qed.
