(* Idl/ResolveFacts.v — the facts behind Props/C05.v. *)
From Coq Require Import List Bool Arith Lia NArith ZArith Permutation.
From Coq.Strings Require Import Byte String.
From Verif Require Import Base.Bytes Idl.Ast Idl.AstUtil Idl.AstFacts Idl.Resolve Idl.ResolveSpec Idl.ResolveTd
     Idl.ResolveLemmas Idl.ResolveInv Idl.ResolveProg Idl.ResolveDeref.
Import ListNotations.
Local Open Scope resolve_scope.

(* ---------------------------------------------------------------- laws of the specification *)

Lemma spec_include_first p ok pre m : forall incs idx i gn,
  spec_include p ok pre m incs idx = Some (i, gn) ->
  forall j gn' k', idx <= j -> j < i -> nth_error incs (j - idx) = Some (pre, Some gn') ->
                   def_of p gn' m = Some k' -> ok k' = false.
Proof.
  induction incs as [|[pre' ref] incs IH]; intros idx i gn H j gn' k' Hle Hlt Hn Hd; cbn [spec_include] in H; [discriminate|].
  destruct (Nat.eq_dec j idx) as [->|Hne].
  - rewrite Nat.sub_diag in Hn. cbn in Hn. injection Hn as -> ->. rewrite beqb_refl, Hd in H.
    destruct (ok k'); [|reflexivity]. injection H as <- _. lia.
  - assert (Hn' : nth_error incs (j - S idx) = Some (pre, Some gn')).
    { replace (j - idx) with (S (j - S idx)) in Hn by lia. exact Hn. }
    assert (Hnext : spec_include p ok pre m incs (S idx) = Some (i, gn) -> ok k' = false)
      by (intros Hs; eapply (IH (S idx) i gn Hs j gn' k'); eauto; lia).
    destruct (beqb pre' pre); [|auto]. destruct ref as [hn|]; [|auto].
    destruct (def_of p hn m) as [k|]; [|auto]. destruct (ok k); [|auto].
    injection H as <- _. lia.
Qed.

(* ---------------------------------------------------------------- type occurrences *)

Lemma resolved_occ p r :
  parsed_program p = true -> resolve_program p = Ok r ->
  forall fn f' t, prog_file r fn = Some f' -> f_name2cat f' <> None -> In t (file_occs f') ->
  exists f, prog_file p fn = Some f /\ occ_good p fn f t.
Proof.
  intros Hp Hr fn f' t Hf Hn Ht. destruct (resolve_program_good p r Hp Hr) as (done & _ & H).
  destruct (H fn f' Hf Hn) as (f & Hpf & Gd). exists f. split; [exact Hpf|].
  pose proof (gd_occs _ _ _ _ _ Gd) as Ho. rewrite Forall_forall in Ho. auto.
Qed.

Theorem resolve_category p r :
  parsed_program p = true -> resolve_program p = Ok r ->
  forall fn f' t, prog_file r fn = Some f' -> f_name2cat f' <> None -> In t (file_occs f') ->
  exists d, name_denotes p fn (ty_name t) d /\ ty_category t = kind d.
Proof.
  intros Hp Hr fn f' t Hf Hn Ht. destruct (resolved_occ p r Hp Hr fn f' t Hf Hn Ht) as (f & Hpf & Ho).
  exact (occ_good_denotes p fn f t Hpf Ho).
Qed.

Lemma typedef_flag_true k : typedef_flag (dkind_cat k) = Some true <-> exists tgt, k = DkTypedef tgt.
Proof.
  split.
  - destruct k as [t| |vs|s|]; cbn; try discriminate; [eauto | destruct s; discriminate].
  - intros (tgt & ->). reflexivity.
Qed.

Lemma typedef_flag_cases c : typedef_flag c = Some true \/ typedef_flag c = None.
Proof. unfold typedef_flag. destruct (is_typedef_cat c); auto. Qed.

Theorem resolve_is_typedef_iff p r :
  parsed_program p = true -> resolve_program p = Ok r ->
  forall fn f' t, prog_file r fn = Some f' -> f_name2cat f' <> None -> In t (file_occs f') ->
  (ty_is_typedef t = Some true <-> names_typedef p fn (ty_name t)) /\
  (ty_is_typedef t = Some true \/ ty_is_typedef t = None).
Proof.
  intros Hp Hr fn f' t Hf Hn Ht. destruct (resolved_occ p r Hp Hr fn f' t Hf Hn Ht) as (f & Hpf & Ho).
  unfold occ_good in Ho. unfold names_typedef.
  destruct (builtin_category (ty_name t)) as [c|] eqn:Bn.
  - destruct Ho as (_ & _ & ->). split; [|auto]. split; [discriminate | intros (? & _); discriminate].
  - destruct (split_type (ty_name t)) as [|a [|m [|? ?]]] eqn:Sn; try contradiction.
    + destruct Ho as (k & d & Hk & _ & _ & _ & _ & ->). split; [|apply typedef_flag_cases].
      rewrite typedef_flag_true. split.
      * intros (tgt & ->). split; [reflexivity|]. left. eauto.
      * intros (_ & [(a' & tgt & [= <-] & Hd)|(? & ? & ? & ? & ? & ? & Hs & _)]); [|discriminate].
        rewrite Hk in Hd. injection Hd as ->. eauto.
    + destruct Ho as (i & gn & k & d & Hs & Hk & _ & _ & _ & ->). split; [|apply typedef_flag_cases].
      rewrite typedef_flag_true. split.
      * intros (tgt & ->). split; [reflexivity|]. right. exists f, a, m, i, gn, tgt. auto.
      * intros (_ & [(a' & tgt & Hs' & _)|(f2 & pre2 & m2 & i2 & gn2 & tgt & [= <- <-] & Hf2 & Hs2 & Hd)]); [discriminate|].
        rewrite Hpf in Hf2. injection Hf2 as <-. rewrite Hs in Hs2. injection Hs2 as <- <-.
        rewrite Hk in Hd. injection Hd as ->. eauto.
Qed.

Theorem resolve_reference_index p r :
  parsed_program p = true -> resolve_program p = Ok r ->
  forall fn f' t, prog_file r fn = Some f' -> f_name2cat f' <> None -> In t (file_occs f') ->
  match builtin_category (ty_name t), split_type (ty_name t) with
  | None, [pre; m] =>
    exists f i gn k,
      prog_file p fn = Some f /\ ty_ref t = Some (Ref m (Z.of_nat i)) /\
      nth_error (file_incs f) i = Some (pre, Some gn) /\
      def_of p gn m = Some k /\ is_type_kind k = true /\
      forall j gn' k', j < i -> nth_error (file_incs f) j = Some (pre, Some gn') ->
                       def_of p gn' m = Some k' -> is_type_kind k' = false
  | _, _ => ty_ref t = None
  end.
Proof.
  intros Hp Hr fn f' t Hf Hn Ht. destruct (resolved_occ p r Hp Hr fn f' t Hf Hn Ht) as (f & Hpf & Ho).
  unfold occ_good in Ho. destruct (builtin_category (ty_name t)) as [c|] eqn:Bn.
  - destruct Ho as (_ & Hr0 & _). exact Hr0.
  - destruct (split_type (ty_name t)) as [|a [|m [|? ?]]] eqn:Sn; try contradiction.
    + destruct Ho as (k & d & _ & _ & _ & _ & Hr0 & _). exact Hr0.
    + destruct Ho as (i & gn & k & d & Hs & Hk & _ & _ & Hr0 & _).
      destruct (spec_include_nth _ _ _ _ _ _ _ _ Hs) as (_ & Hnth & (k' & Hk' & Tk)).
      rewrite Nat.sub_0_r in Hnth. rewrite Hk in Hk'. injection Hk' as <-.
      exists f, i, gn, k. repeat split; auto.
      intros j gn' k2 Hlt Hnj Hd. eapply (spec_include_first _ _ _ _ _ _ _ _ Hs j gn' k2); eauto; [lia|].
      rewrite Nat.sub_0_r. exact Hnj.
Qed.

(* ---------------------------------------------------------------- Include.Used *)

Lemma in_flat_map' {A B} (g : A -> list B) l y : In y (flat_map' g l) <-> exists x, In x l /\ In y (g x).
Proof.
  unfold flat_map'. rewrite in_concat. split.
  - intros (ys & Hys & Hy). apply in_map_iff in Hys. destruct Hys as (x & <- & Hx). eauto.
  - intros (x & Hx & Hy). exists (g x). split; [apply in_map; exact Hx | exact Hy].
Qed.

Lemma file_marks_spec f z : (0 <= z)%Z -> In z (file_marks f) <-> refers_through f z.
Proof.
  intros Hz. unfold file_marks, refers_through. rewrite !in_app_iff, !in_flat_map'. split.
  - intros [(t & Ht & Hm)|[(c & Hc & Hm)|(sv & Hs & Hm)]].
    + left. unfold ty_mark in Hm. destruct (ty_ref t) as [r|] eqn:R; [|destruct Hm].
      destruct Hm as [<-|[]]. eauto.
    + right. left. unfold cv_mark in Hm. destruct c as [| | |s [e|]| |]; try destruct Hm.
      destruct (0 <=? ex_index e)%Z; [|destruct Hm]. destruct Hm as [<-|[]]. eauto 6.
    + right. right. unfold sv_mark in Hm. destruct (sv_ref sv) as [r|] eqn:R; [|destruct Hm].
      destruct Hm as [<-|[]]. eauto.
  - intros [(t & r & Ht & Hr & <-)|[(c & s & e & Hc & -> & <-)|(sv & r & Hs & Hr & <-)]].
    + left. exists t. split; [exact Ht|]. unfold ty_mark. rewrite Hr. left. reflexivity.
    + right. left. exists (CIdent s (Some e)). split; [exact Hc|]. unfold cv_mark.
      apply Z.leb_le in Hz. rewrite Hz. left. reflexivity.
    + right. right. exists sv. split; [exact Hs|]. unfold sv_mark. rewrite Hr. left. reflexivity.
Qed.

Lemma mark_includes_nth marks : forall incs base idx i,
  nth_error (mark_includes marks incs base) idx = Some i ->
  exists i0, nth_error incs idx = Some i0 /\
    in_used i = if existsb (Z.eqb (Z.of_nat (base + idx))) marks then Some true else in_used i0.
Proof.
  induction incs as [|x incs IH]; intros base idx i H; cbn [mark_includes] in H; [destruct idx; discriminate|].
  destruct idx as [|idx]; cbn [nth_error] in *.
  - injection H as <-. exists x. split; [reflexivity|]. cbn [in_used]. rewrite Nat.add_0_r. reflexivity.
  - destruct (IH _ _ _ H) as (i0 & H0 & Hu). exists i0. split; [exact H0|].
    replace (base + S idx) with (S base + idx) by lia. exact Hu.
Qed.

Lemma existsb_Zeqb z l : existsb (Z.eqb z) l = true <-> In z l.
Proof.
  rewrite existsb_exists. split.
  - intros (x & Hx & E). apply Z.eqb_eq in E. subst. exact Hx.
  - intros H. exists z. split; [exact H | apply Z.eqb_refl].
Qed.

Theorem used_iff p r :
  parsed_program p = true -> resolve_program p = Ok r ->
  forall fn f', prog_file r fn = Some f' -> f_name2cat f' <> None ->
  forall idx i, nth_error (f_includes f') idx = Some i ->
    (in_used i = Some true <-> refers_through f' (Z.of_nat idx)) /\
    (in_used i = Some true \/ in_used i = None).
Proof.
  intros Hp Hr fn f' Hf Hn idx i Hi. destruct (resolve_program_good p r Hp Hr) as (done & _ & H).
  destruct (H fn f' Hf Hn) as (f & Hpf & Gd). rewrite (gd_used _ _ _ _ _ Gd) in Hi.
  destruct (mark_includes_nth _ _ _ _ _ Hi) as (i0 & Hi0 & Hu). cbn [plus] in Hu.
  assert (U0 : in_used i0 = None).
  { pose proof (parsed_file p fn f Hp Hpf) as Hpar. unfold unresolved_file in Hpar.
    apply andb_true_iff in Hpar. destruct Hpar as (_ & Hall). rewrite forallb_forall in Hall.
    specialize (Hall i0 (nth_error_In _ _ Hi0)). destruct (in_used i0); [discriminate | reflexivity]. }
  rewrite U0 in Hu. rewrite <- (file_marks_spec f' (Z.of_nat idx) (Nat2Z.is_nonneg idx)), <- existsb_Zeqb.
  rewrite Hu. destruct (existsb (Z.eqb (Z.of_nat idx)) (file_marks f')); split; auto; split; congruence.
Qed.

(* ---------------------------------------------------------------- Deref *)

Theorem deref_spec p r :
  parsed_program p = true -> resolve_program p = Ok r ->
  forall fn f' t, prog_file r fn = Some f' -> f_name2cat f' <> None -> In t (file_occs f') ->
  exists d, name_denotes p fn (ty_name t) d /\ deref_to r f' t d.
Proof.
  intros Hp Hr fn f' t Hf Hn Ht. destruct (resolve_program_done p r Hp Hr) as (done & Hinv & Hd1 & Hd2).
  pose proof (Hd1 fn f' Hf Hn) as Hl. destruct (Hinv fn f' Hl) as (f & Hpf & Gd).
  pose proof (gd_occs _ _ _ _ _ Gd) as Ho. rewrite Forall_forall in Ho. specialize (Ho t Ht).
  destruct (occ_good_denotes p fn f t Hpf Ho) as (d & Hden & _). exists d. split; [exact Hden|].
  exact (proj2 (deref_denotes p done r Hinv Hd2) fn (ty_name t) d Hden f f' t Hpf Hl Gd Ho eq_refl).
Qed.

(* ---------------------------------------------------------------- identifiers used as values *)

Theorem resolve_const_unique p r :
  parsed_program p = true -> plain_names p = true -> resolve_program p = Ok r ->
  forall fn f' c s e, prog_file r fn = Some f' -> f_name2cat f' <> None ->
  In c (file_const_values f') -> c = CIdent s (Some e) ->
  const_denotes p fn s e /\ forall e', const_denotes p fn s e' -> e' = e.
Proof.
  intros Hp Hpl Hr fn f' c s e Hf Hn Hc ->. destruct (resolve_program_good p r Hp Hr) as (done & _ & H).
  destruct (H fn f' Hf Hn) as (f & Hpf & Gd).
  pose proof (gd_consts _ _ _ _ _ Gd Hpl) as Hall. rewrite Forall_forall in Hall. exact (Hall _ Hc).
Qed.

Local Open Scope string_scope.
(* ---------------------------------------------------------------- outside [plain_names] *)

(* enum i32 { A }   typedef i32 T   const T c = T.A
   The parser of thriftgo accepts an enum called like a base type; getEnum then looks
   the target "i32" of the typedef T up as a LOCAL name and binds T.A to the value A
   of that enum, although T is a typedef of the base type i32. *)
Definition refute_file : file :=
  File (B "main.thrift") [] [] []
       [Typedef (ty_named (B "i32")) (B "T") [] []]
       [Constant (B "c") (ty_named (B "T")) (CIdent (B "T.A") None) [] []]
       [Enum (B "i32") [EnumValue (B "A") 0 [] []] [] []] [] [] [] [] None.
Definition refute_p : program := [(B "main.thrift", refute_file)].
Definition refute_extra : const_extra := Extra true (-1) (B "A") (B "T").

Theorem resolve_const_unique_refuted :
  exists p r fn f' s e,
    parsed_program p = true /\ plain_names p = false /\ resolve_program p = Ok r /\
    prog_file r fn = Some f' /\ f_name2cat f' <> None /\
    In (CIdent s (Some e)) (file_const_values f') /\ ~ const_denotes p fn s e.
Proof.
  destruct (resolve_program refute_p) as [r|] eqn:E; vm_compute in E; [|discriminate]. injection E as <-.
  eexists refute_p, _, (B "main.thrift"), _, (B "T.A"), refute_extra.
  split; [vm_compute; reflexivity|]. split; [vm_compute; reflexivity|]. split; [reflexivity|].
  split; [vm_compute; reflexivity|]. split; [vm_compute; discriminate|]. split; [vm_compute; left; reflexivity|].
  intros H.
  assert (Hsv : split_value (B "T.A") = [[B "T"; B "A"]]) by (vm_compute; reflexivity).
  inversion H; subst.
  - match goal with He : enum_denotes _ _ _ _ _ _ |- _ => inversion He; subst end;
      match goal with Hd : def_of _ _ _ = Some _ |- _ => vm_compute in Hd; try discriminate; injection Hd as <- end;
      match goal with Hb : builtin_category _ = None |- _ => vm_compute in Hb; discriminate end.
  - match goal with Hz : Z.of_nat _ = _ |- _ => lia end.
Qed.
