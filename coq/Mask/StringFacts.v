(* Mask/StringFacts.v — the theorems of C14 on path STRINGS: the strings are the printed paths
   (Mask/Print.v, the printer the harness uses), and the tokenizer reads them back. *)
From Coq Require Import List Bool ZArith.
From Coq.Strings Require Import Byte.
From Verif Require Import Base.Bytes Mask.Path Mask.Desc Mask.Trie Mask.Spec Mask.Json Mask.TrieFacts Mask.C14Facts
     Mask.JsonFacts Mask.AllFacts Mask.PimFacts Mask.Print Mask.PrintFacts.
Import ListNotations.

Lemma well_typed_wf env d ps : well_typed env d ps = true -> forallb wf_path ps = true.
Proof. intro H. destruct (well_typed_parts _ _ _ H) as [_ [X _]]. exact X. Qed.

Theorem build_sound_strings env d black ps gs m :
  well_typed env d ps = true -> elab_all env d ps = Some gs -> in_domain black gs = true ->
  new_mask env d black (map print_path ps) = Ok m ->
  forall q, walk (Some m) q = spec_pass black (path_set gs) q.
Proof.
  intros Hw He Hd Hm. eapply build_sound; eauto. apply tokenize_print_paths. apply (well_typed_wf _ _ _ Hw).
Qed.

Theorem build_total_strings env d black ps gs :
  well_typed env d ps = true -> elab_all env d ps = Some gs -> no_conflict gs = true ->
  exists m, new_mask env d black (map print_path ps) = Ok m.
Proof.
  intros Hw He Hn. eexists. eapply build_total_on_D; eauto. apply tokenize_print_paths. apply (well_typed_wf _ _ _ Hw).
Qed.

Theorem all_sound_strings env d black ps gs m :
  well_typed env d ps = true -> elab_all env d ps = Some gs -> in_domain black gs = true ->
  (black = true -> no_root_path gs = true) ->
  new_mask env d black (map print_path ps) = Ok m ->
  forall q, walk (Some m) q = true -> all_q (fst (walk_to (Some m) q)) = spec_all black (path_set gs) q.
Proof.
  intros Hw He Hd Hn Hm. eapply all_sound; eauto. apply tokenize_print_paths. apply (well_typed_wf _ _ _ Hw).
Qed.

Theorem path_in_mask_strings env d black ps gs m p g :
  env_ok env = true ->
  well_typed env d ps = true -> elab_all env d ps = Some gs -> in_domain black gs = true ->
  gs <> [] -> forallb no_starf ps = true -> (black = true -> no_root_path gs = true) ->
  new_mask env d black (map print_path ps) = Ok m ->
  forallb simple_seg p = true -> wf_path p = true -> elab env d p = Some g ->
  exists a, path_in_mask env d m (print_path p) = Some (spec_pass black (path_set gs) (qkeys g), a).
Proof.
  intros Henv Hw He Hd Hne Hns Hn Hm Hs Hwf Hg.
  eapply (path_in_mask_sound env d black (map print_path ps) ps gs m p g); eauto.
  - apply tokenize_print_paths. apply (well_typed_wf _ _ _ Hw).
  - apply tokenize_print_path. exact Hwf.
Qed.

(* the JSON round trip and the independence of order / grouping, on printed path strings *)
Theorem json_roundtrip_strings env d black ps gs m :
  well_typed env d ps = true -> elab_all env d ps = Some gs -> no_conflict gs = true -> gs <> [] ->
  forallb (json_ok (switch_ft env d)) gs = true ->
  new_mask env d black (map print_path ps) = Ok m ->
  exists m', of_json (to_json m) = Ok m' /\
    (forall q, observe (Some m') q = observe (Some m) q) /\
    (forall q, walk (Some m') q = walk (Some m) q) /\
    to_json m' = to_json m.
Proof.
  intros Hw He Hn Hne Hj Hm. eapply json_roundtrip; eauto. apply tokenize_print_paths. apply (well_typed_wf _ _ _ Hw).
Qed.

Theorem order_irrelevant_strings env d black ps gs m ps' gs' :
  well_typed env d ps = true -> well_typed env d ps' = true ->
  elab_all env d ps = Some gs -> elab_all env d ps' = Some gs' ->
  in_domain black gs = true -> in_domain black gs' = true ->
  same_set (path_set gs) (path_set gs') = true ->
  new_mask env d black (map print_path ps) = Ok m ->
  exists m', new_mask env d black (map print_path ps') = Ok m' /\ forall q, walk (Some m) q = walk (Some m') q.
Proof.
  intros Hw Hw' He He' Hd Hd' Hs Hm.
  eapply (order_irrelevant env d black (map print_path ps) ps gs m (map print_path ps') ps' gs'); eauto.
  - apply tokenize_print_paths. apply (well_typed_wf _ _ _ Hw).
  - apply tokenize_print_paths. apply (well_typed_wf _ _ _ Hw').
  - apply same_set_in. exact Hs.
Qed.
