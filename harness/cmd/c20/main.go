// c20: translator and case producer for property C20 (go backend options).
//
//	c20 -translate -coq DIR -thriftgo BIN     regenerate Gen/OptionsTable.v and Gen/OptionsDoc.v
//	c20 -seed N -tier quick|thorough -out DIR [-thriftgo BIN]   produce correspondence cases
//	c20 -one 'a,b,c'                           run one option list and print what was observed
//
// Cases drive the real code of the repository under test:
//
//	H  golang.NewCodeUtils + CodeUtils.HandleOptions in-process;
//	T  args.Arguments.Targets (ParseCompactArguments + checkOptions) in-process, then
//	   HandleOptions(plugin.Pack(options)) as generator.Generate does;
//	P  the thriftgo binary on a one-struct IDL (exit status, generated identifier).
package main

import (
	"encoding/json"
	"flag"
	"fmt"
	"io"
	"log"
	"math/big"
	"os"
	"os/exec"
	"path/filepath"
	"reflect"
	"sort"
	"strings"

	"github.com/cloudwego/thriftgo/args"
	"github.com/cloudwego/thriftgo/generator/backend"
	"github.com/cloudwego/thriftgo/generator/golang"
	"github.com/cloudwego/thriftgo/plugin"

	"verif/harness/casefile"
	"verif/harness/coqfmt"
	"verif/harness/opttable"
	"verif/harness/rng"
)

type Obs struct {
	Feats    string      `json:"feats"` // one '0'/'1' per Features field, field order
	Style    string      `json:"style"`
	Init     bool        `json:"initialisms"`
	Prefix   string      `json:"package_prefix"`
	Template string      `json:"template"`
	Imports  [][2]string `json:"imports"` // sorted by path
}

type Case struct {
	Kind   string      `json:"kind"` // H | T | P
	Gen    string      `json:"gen"`
	Args   []string    `json:"args"`
	Err    bool        `json:"err"`
	ErrMsg string      `json:"err_msg,omitempty"`
	Panic  string      `json:"panic,omitempty"`
	Obs    *Obs        `json:"obs,omitempty"`
	Out    [][2]string `json:"options_after_check,omitempty"`
	PInit  *bool       `json:"generated_identifier_has_initialism,omitempty"`
	// settings whose observed value is not the documented default although no option names them,
	// and (single option cases) the named boolean option whose value was not taken
	Unexplained []string `json:"unexplained_settings,omitempty"`
	Missing     []string `json:"named_but_not_set,omitempty"`
}

var fresh map[string]bool

// importReplace reads the (unexported) import replacement map of a CodeUtils: the
// only field of type map[string]string.
func importReplace(cu *golang.CodeUtils) ([][2]string, error) {
	v := reflect.ValueOf(cu).Elem()
	t := v.Type()
	idx := -1
	for i := 0; i < t.NumField(); i++ {
		ft := t.Field(i).Type
		if ft.Kind() == reflect.Map && ft.Key().Kind() == reflect.String && ft.Elem().Kind() == reflect.String {
			if idx >= 0 {
				return nil, fmt.Errorf("CodeUtils has more than one map[string]string field")
			}
			idx = i
		}
	}
	if idx < 0 {
		return nil, fmt.Errorf("CodeUtils has no map[string]string field")
	}
	var out [][2]string
	it := v.Field(idx).MapRange()
	for it.Next() {
		out = append(out, [2]string{it.Key().String(), it.Value().String()})
	}
	sort.Slice(out, func(i, j int) bool { return out[i][0] < out[j][0] })
	return out, nil
}

func observe(cu *golang.CodeUtils) *Obs {
	o := &Obs{Style: cu.NamingStyle().Name(), Init: opttable.InitOn(cu), Prefix: cu.GetPackagePrefix(), Template: cu.Template()}
	fv := reflect.ValueOf(cu.Features())
	var b strings.Builder
	for i := 0; i < fv.NumField(); i++ {
		if fv.Field(i).Bool() {
			b.WriteByte('1')
		} else {
			b.WriteByte('0')
		}
	}
	o.Feats = b.String()
	imp, err := importReplace(cu)
	if err != nil {
		panic(err)
	}
	o.Imports = imp
	return o
}

func runH(argv []string) (c Case) {
	c.Kind, c.Args = "H", argv
	defer func() {
		if r := recover(); r != nil {
			c.Panic, c.Err, c.Obs = fmt.Sprint(r), true, nil
		}
	}()
	opttable.ResetStyles(fresh)
	cu := golang.NewCodeUtils(backend.DummyLogFunc())
	if err := cu.HandleOptions(argv); err != nil {
		c.Err, c.ErrMsg = true, err.Error()
		return
	}
	c.Obs = observe(cu)
	return
}

func runT(argv []string) (c Case) {
	c.Kind, c.Args = "T", argv
	defer func() {
		if r := recover(); r != nil {
			c.Panic, c.Err, c.Obs = fmt.Sprint(r), true, nil
		}
	}()
	opttable.ResetStyles(fresh)
	g := "go"
	if argv != nil {
		g = "go:" + strings.Join(argv, ",")
	}
	a := &args.Arguments{Langs: args.StringSlice{g}}
	specs, err := a.Targets()
	if err != nil || len(specs) != 1 {
		c.Err, c.ErrMsg = true, fmt.Sprint("Targets: ", err)
		return
	}
	c.Out = [][2]string{}
	for _, o := range specs[0].Options {
		c.Out = append(c.Out, [2]string{o.Name, o.Desc})
	}
	// generator.Generate packs the options and the backend hands them to HandleOptions, in the
	// same process as checkOptions (naming style objects are not reset in between)
	cu := golang.NewCodeUtils(backend.DummyLogFunc())
	if err := cu.HandleOptions(plugin.Pack(specs[0].Options)); err != nil {
		c.Err, c.ErrMsg = true, err.Error()
		return
	}
	c.Obs = observe(cu)
	return
}

const idl = "namespace go c20\nstruct S {\n  1: string user_url\n}\n"

func runP(bin, work string, n int, argv []string) (c Case) {
	c.Kind, c.Args = "P", argv
	dir := filepath.Join(work, fmt.Sprintf("p%d", n))
	os.MkdirAll(dir, 0o755)
	defer os.RemoveAll(dir)
	os.WriteFile(filepath.Join(dir, "a.thrift"), []byte(idl), 0o644)
	g := "go"
	if argv != nil {
		g = "go:" + strings.Join(argv, ",")
	}
	cmd := exec.Command(bin, "-g", g, "-o", filepath.Join(dir, "out"), "a.thrift")
	cmd.Dir = dir
	outb, err := cmd.CombinedOutput()
	if err != nil {
		c.Err = true
		c.ErrMsg = strings.TrimSpace(string(outb))
		if len(c.ErrMsg) > 300 {
			c.ErrMsg = c.ErrMsg[:300]
		}
		return
	}
	if strings.Contains(string(outb), "Recovered from panic") || strings.Contains(string(outb), "goroutine ") {
		c.Panic = "thriftgo printed a panic trace and exited 0"
	}
	src, err := os.ReadFile(filepath.Join(dir, "out", "c20", "a.go"))
	if err == nil {
		has := strings.Contains(string(src), "UserURL ")
		hasNot := strings.Contains(string(src), "UserUrl ")
		if has != hasNot {
			c.PInit = &has
		}
	}
	return
}

func coqObs(o *Obs, in func(string) int) string {
	if o == nil {
		return "None"
	}
	var imps []string
	for _, kv := range o.Imports {
		imps = append(imps, fmt.Sprintf("(%d, %d)", in(kv[0]), in(kv[1])))
	}
	bits := new(big.Int)
	for i, ch := range o.Feats {
		if ch == '1' {
			bits.SetBit(bits, i, 1)
		}
	}
	return fmt.Sprintf("(Some (mkro %s %d %s %d %d %s))", bits.String(), in(o.Style), coqfmt.Bool(o.Init),
		in(o.Prefix), in(o.Template), coqfmt.List(imps))
}

// coqCase prints the case in the compact encoding of Corr/C20.v (rcase): strings are pool positions.
func coqCase(c Case, in func(string) int) string {
	kind := map[string]int{"H": 0, "T": 1, "P": 2}[c.Kind]
	var as []string
	for _, a := range c.Args {
		as = append(as, fmt.Sprint(in(a)))
	}
	var outs []string
	for _, kv := range c.Out {
		outs = append(outs, fmt.Sprintf("(%d, %d)", in(kv[0]), in(kv[1])))
	}
	pinit := "None"
	if c.PInit != nil {
		pinit = "(Some " + coqfmt.Bool(*c.PInit) + ")"
	}
	return fmt.Sprintf("mkr %d %s %s %s %s %s %s %s", kind, coqfmt.Bool(c.Args != nil), coqfmt.List(as), coqfmt.Bool(c.Err), coqObs(c.Obs, in),
		coqfmt.List(outs), pinit, coqfmt.Bool(c.Panic != ""))
}

// ---------------------------------------------------------------- forms

var garbage = []string{"garbage", "yes", "no", "1", "0", "TRUE", "True", "False", "on", "off", "t", "true ", " true", "false=", "=true", "nil"}

// forms of one table entry: [bare, valid1, valid2, garbage_k]
func forms(t *opttable.Table, e opttable.Entry, k int) [4]string {
	n := e.Name
	g := garbage[k%len(garbage)]
	switch e.Action {
	case opttable.ANamingStyle:
		s := t.NamingStyles
		return [4]string{n, n + "=" + s[k%len(s)], n + "=" + s[(k+1)%len(s)], n + "=" + g}
	case opttable.ATemplate:
		s := t.Templates
		return [4]string{n, n + "=" + s[k%len(s)], n + "=" + t.DefaultTemplate, n + "=" + g}
	case opttable.AUsePackage:
		return [4]string{n, n + "=database/sql/driver=example.com/my/driver", n + "=" + t.DefaultThrift + "=example.com/thrift", n + "=" + g}
	case opttable.AImportPath:
		return [4]string{n, n + "=example.com/lib/thrift", n + "=example.com/other", n + "=" + g}
	case opttable.APackagePrefix:
		return [4]string{n, n + "=example.com/gen", n + "=p2", n + "=" + g}
	}
	return [4]string{n, n + "=true", n + "=false", n + "=" + g}
}

type stats struct {
	Evaluations        int            `json:"evaluations"`
	DistinctNontrivial int            `json:"distinct_nontrivial"`
	Rule               string         `json:"rule"`
	Kinds              map[string]int `json:"cases_by_kind"`
	Gens               map[string]int `json:"cases_by_generator"`
	LenHist            map[int]int    `json:"options_per_list"`
	ImplErrors         int            `json:"impl_errors"`
	ImplPanics         int            `json:"impl_panics"`
	Options            int            `json:"table_entries"`
	SinglesExhaustive  bool           `json:"singles_exhaustive"`
	PairsExhaustive    bool           `json:"pairs_exhaustive"`
	PairSpace          int            `json:"pair_space"`
	PairsRun           int            `json:"pairs_run"`
	Exhaustive         string         `json:"exhaustive_space"`
	ErrClasses         map[string]int `json:"impl_error_kinds"`
	Disagreements      []string       `json:"source_vs_package_disagreements,omitempty"`
	Samples            []Case         `json:"samples"`
}

func errClass(msg string) string {
	switch {
	case strings.Contains(msg, "bool"):
		return "not-a-bool"
	case strings.Contains(msg, "naming style"):
		return "naming-style"
	case strings.Contains(msg, "template"):
		return "template"
	case strings.Contains(msg, "use_package"):
		return "use-package"
	case msg == "":
		return "none"
	}
	return "combination-or-other"
}

func translate(coqDir, thriftgo, repo string) error {
	t, err := opttable.Extract(repo)
	if err != nil {
		return fmt.Errorf("option table: %v", err)
	}
	d, err := opttable.ParseReadme(repo)
	if err != nil {
		return err
	}
	cmd := exec.Command(thriftgo, "-h")
	helpText, _ := cmd.CombinedOutput() // -h exits 2 by design
	if err := opttable.ParseHelp(string(helpText), d); err != nil {
		return err
	}
	res := map[string]interface{}{"entries": len(t.Entries), "readme_options": len(d.Readme), "help_options": len(d.Help)}
	if len(t.Disagreements) > 0 {
		res["source_vs_package_disagreements"] = t.Disagreements
	}
	for _, f := range []struct{ name, text string }{
		{"Gen/OptionsTable.v", opttable.RenderTable(t)},
		{"Gen/OptionsDoc.v", opttable.RenderDoc(d)},
	} {
		p := filepath.Join(coqDir, f.name)
		old, err := os.ReadFile(p)
		changed := err != nil || string(old) != f.text
		if changed {
			if err := os.WriteFile(p, []byte(f.text), 0o644); err != nil {
				return err
			}
		}
		res[f.name+" rewritten"] = changed
	}
	b, _ := json.Marshal(res)
	fmt.Println(string(b))
	return nil
}

func main() {
	seed := flag.Uint64("seed", 1, "seed")
	tier := flag.String("tier", "quick", "quick|thorough")
	out := flag.String("out", ".", "output directory")
	doTranslate := flag.Bool("translate", false, "regenerate Gen/OptionsTable.v and Gen/OptionsDoc.v")
	coqDir := flag.String("coq", "/verif/coq", "Coq project directory (translate mode)")
	thriftgo := flag.String("thriftgo", "", "thriftgo binary built from the repository under test")
	one := flag.String("one", "", "run one comma separated option list (H and T) and print the observation")
	flag.Parse()
	repo := os.Getenv("VERIF_REPO")
	if repo == "" {
		repo = "/repo"
	}
	log.SetOutput(io.Discard) // args.checkOptions logs its adaptation

	fresh = opttable.FreshStyles()
	if *doTranslate {
		if err := translate(*coqDir, *thriftgo, repo); err != nil {
			fmt.Fprintln(os.Stderr, "translate:", err)
			os.Exit(3)
		}
		return
	}
	if flag.Lookup("one") != nil && isSet("one") {
		var argv []string
		if *one != "" {
			argv = strings.Split(*one, ",")
		}
		for _, c := range []Case{runH(argv), runT(argv)} {
			b, _ := json.MarshalIndent(c, "", " ")
			fmt.Println(string(b))
		}
		return
	}

	t, err := opttable.Extract(repo)
	if err != nil {
		fmt.Fprintln(os.Stderr, "option table:", err)
		os.Exit(3)
	}
	opttable.ResetStyles(fresh)

	w := newShardWriter(*out, "From Verif Require Import Base.Bytes Gen.OptionsSyntax Gen.OptionsTable Gen.OptionsDoc Gen.Options Corr.C20.", 2500)
	// documented defaults (README, else the -h/code default) for the classification of failures
	docDefault := map[string]bool{}
	for i, n := range t.FeatureTags {
		docDefault[n] = t.FeatureDefaults[i]
	}
	if d, err := opttable.ParseReadme(repo); err == nil {
		for _, o := range d.Readme {
			if o.Default.Kind == "bool" {
				docDefault[o.Name] = o.Default.Bool
			}
		}
	}
	explain := func(c *Case) {
		if c.Obs == nil {
			return
		}
		named := map[string]string{}
		for _, a := range c.Args {
			kv := strings.SplitN(a, "=", 2)
			v := ""
			if len(kv) == 2 {
				v = kv[1]
			}
			named[kv[0]] = v
		}
		for _, kv := range c.Out {
			named[kv[0]] = kv[1]
		}
		for i, n := range t.FeatureTags {
			on := i < len(c.Obs.Feats) && c.Obs.Feats[i] == '1'
			if _, ok := named[n]; !ok && on != docDefault[n] {
				c.Unexplained = append(c.Unexplained, n)
			}
			if v, ok := named[n]; ok && len(named) == 1 && len(c.Args) == 1 {
				if (v == "" || v == "true") && !on || v == "false" && on {
					c.Missing = append(c.Missing, n)
				}
			}
		}
		if _, ok := named["naming_style"]; !ok && c.Obs.Style != t.DefaultStyle {
			c.Unexplained = append(c.Unexplained, "naming_style")
		}
		if _, ok := named["ignore_initialisms"]; !ok && !c.Obs.Init {
			c.Unexplained = append(c.Unexplained, "ignore_initialisms")
		}
		if _, ok := named["template"]; !ok && c.Obs.Template != t.DefaultTemplate {
			c.Unexplained = append(c.Unexplained, "template")
		}
		if _, ok := named["package_prefix"]; !ok && c.Obs.Prefix != "" {
			c.Unexplained = append(c.Unexplained, "package_prefix")
		}
	}
	st := &stats{Kinds: map[string]int{}, Gens: map[string]int{}, LenHist: map[int]int{}, ErrClasses: map[string]int{}, Options: len(t.Entries), Disagreements: t.Disagreements}
	seen := map[string]bool{}
	known := map[string]bool{}
	for _, e := range t.Entries {
		known[e.Name] = true
	}
	add := func(gen string, c Case) {
		c.Gen = gen
		st.Evaluations++
		st.Kinds[c.Kind]++
		st.Gens[gen]++
		st.LenHist[len(c.Args)]++
		if c.Err {
			st.ImplErrors++
		}
		st.ErrClasses[errClass(c.ErrMsg)]++
		if c.Panic != "" {
			st.ImplPanics++
		}
		recognised := false
		for _, a := range c.Args {
			if known[strings.SplitN(a, "=", 2)[0]] {
				recognised = true
			}
		}
		key := c.Kind + "\x00" + strings.Join(c.Args, "\x00")
		if recognised && !seen[key] {
			seen[key] = true
			st.DistinctNontrivial++
		}
		if len(st.Samples) < 6 && len(c.Args) >= 2 && st.Evaluations%211 == 0 {
			st.Samples = append(st.Samples, c)
		}
		explain(&c)
		if err := w.Add(func(in func(string) int) string { return coqCase(c, in) }, c); err != nil {
			fmt.Fprintln(os.Stderr, err)
			os.Exit(2)
		}
	}

	// ---- corpus: pinned triggers (fixed defects, documented implications and rejections) ----
	corpusH := [][]string{
		nil,
		{"naming_style=golint"}, {"naming_style=thriftgo"}, {"naming_style=apache"},
		{"naming_style=golint", "ignore_initialisms=false"}, {"ignore_initialisms", "naming_style=apache"},
		{"ignore_initialisms=false", "naming_style=apache"}, {"naming_style=apache", "ignore_initialisms"},
		{"code_ref_slim"}, {"code_ref"}, {"code_ref", "code_ref_slim=false"}, {"code_ref_slim", "code_ref=false"},
		{"template=slim", "gen_deep_equal"}, {"gen_deep_equal", "template=slim"}, {"gen_deep_equal", "template=raw_struct"},
		{"with_field_mask"}, {"with_field_mask", "with_reflection"}, {"with_reflection", "with_field_mask"},
		{"apache_warning", "apache_adaptor"}, {"apache_adaptor", "apache_warning"}, {"apache_adaptor", "apache_warning", "apache_adaptor=false"},
		{"snake_style_json_tag", "lower_camel_style_json_tag"}, {"gen_json_tag=false", "always_gen_json_tag"}, {"always_gen_json_tag"},
		{"streamx"}, {"field_mask_halfway"},
		{"gen_setter=yes"}, {"gen_setter=1"}, {"gen_setter=TRUE"}, {"ignore_initialisms=yes"},
		{"use_package"}, {"use_package=a"}, {"use_package=a=b"}, {"use_package=a=b=c"}, {"use_package=a=b", "use_package=a=c"},
		{"thrift_import_path"}, {"thrift_import_path=x", "use_package=" + t.DefaultThrift + "=y"},
		{"template"}, {"template="}, {"template=default"}, {"template=slim", "template=default", "gen_deep_equal"},
		{"naming_style"}, {"naming_style=GoLint"},
		{"templatefoo=slim"}, {"gen_setter_x"}, {"code_ref_slimmer"}, {"unknown_option"}, {""}, {"=x"}, {"gen_setter=true=x"},
	}
	for _, a := range corpusH {
		add("corpus", runH(a))
	}
	corpusT := [][]string{
		nil, {""},
		{"enable_nested_struct"}, {"enable_nested_struct", "template=raw_struct"}, {"enable_nested_struct", "template=default"},
		{"template=slim", "enable_nested_struct"}, {"enable_nested_struct=false"},
		{"enable_nested_struct", "gen_setter=garbage"}, {"gen_setter=garbage", "enable_nested_struct"},
		{"enable_nested_struct", "templatex=raw_struct"}, {"enable_nested_struct", "gen_deep_equal"},
		{"enable_nested_struct", "with_field_mask"},
		{"naming_style=golint"}, {"use_package=a=b"}, {"gen_setter", "gen_setter=false"},
	}
	for _, a := range corpusT {
		add("corpus", runT(a))
	}

	// ---- exhaustive singles: every option x {bare, =true, =false, =every garbage value} ----
	for _, e := range t.Entries {
		f := forms(t, e, 0)
		for k := 0; k < 3; k++ {
			add("single", runH([]string{f[k]}))
			add("single-targets", runT([]string{f[k]}))
		}
		if e.Action == opttable.ANamingStyle {
			for _, s := range t.NamingStyles {
				add("single", runH([]string{e.Name + "=" + s}))
			}
		}
		if e.Action == opttable.ATemplate {
			for _, s := range t.Templates {
				add("single", runH([]string{e.Name + "=" + s}))
			}
		}
		for k := range garbage {
			add("single", runH([]string{forms(t, e, k)[3]}))
		}
		add("single-targets", runT([]string{f[3]}))
	}
	st.SinglesExhaustive = true

	// ---- ordered pairs x 4 x 4 forms: exhaustive in thorough, stratified in quick ----
	interesting := map[string]bool{}
	for _, e := range t.Entries {
		if e.Action != opttable.AFeature {
			interesting[e.Name] = true
		}
		for _, e2 := range t.Entries {
			if e.Name != e2.Name && strings.HasPrefix(e2.Name, e.Name) {
				interesting[e.Name], interesting[e2.Name] = true, true
			}
		}
	}
	for _, n := range []string{"gen_deep_equal", "enable_nested_struct", "apache_warning", "apache_adaptor", "with_field_mask", "with_reflection",
		"snake_style_json_tag", "lower_camel_style_json_tag", "gen_json_tag", "always_gen_json_tag"} {
		interesting[n] = true
	}
	thorough := *tier == "thorough"
	for i, e1 := range t.Entries {
		for j, e2 := range t.Entries {
			f1, f2 := forms(t, e1, i+j), forms(t, e2, i+2*j+1)
			for a := 0; a < 4; a++ {
				for b := 0; b < 4; b++ {
					st.PairSpace++
					h := uint64(i)*1315423911 ^ uint64(j)*2654435761 ^ *seed*0x9e3779b97f4a7c15
					h ^= h >> 29
					h *= 0xbf58476d1ce4e5b9
					h ^= h >> 32
					// quick: every ordered pair in one form combination (rotating with the seed), the
					// interesting pairs (hand-written parameters, prefix-related names, options named in
					// validateOptions / implications) in all 16
					if !(thorough || (interesting[e1.Name] && interesting[e2.Name]) || uint64(a*4+b) == h%16) {
						continue
					}
					st.PairsRun++
					add("pair", runH([]string{f1[a], f2[b]}))
				}
			}
		}
	}
	st.PairsExhaustive = st.PairsRun == st.PairSpace
	st.Exhaustive = fmt.Sprintf("singles: %d options x {bare,=true,=false,=%d garbage values} complete; ordered pairs x 4 x 4 forms: %d of %d", len(t.Entries), len(garbage), st.PairsRun, st.PairSpace)

	// nested-struct adaptation against every other option (Targets path)
	for _, e := range t.Entries {
		f := forms(t, e, 1)
		for k := 0; k < 4; k++ {
			add("nested-pair", runT([]string{"enable_nested_struct", f[k]}))
			add("nested-pair", runT([]string{f[k], "enable_nested_struct"}))
		}
	}

	// ---- random longer lists ----
	r := rng.New(*seed)
	nrand, nrandT := 1500, 400
	if thorough {
		nrand, nrandT = 12000, 3000
	}
	odd := []string{"unknown_option", "", "=x", "gen", "templatefoo=slim", "code_ref_slimmer", "gen_setter_x=false", "naming_style_x=golint", "x=y=z"}
	randList := func() []string {
		n := r.Range(3, 12)
		var l []string
		// draw from a small pool so that repeated and conflicting settings are common
		pool := make([]opttable.Entry, r.Range(2, 8))
		for i := range pool {
			if r.Chance(1, 3) {
				pool[i] = t.Entries[r.Intn(6)%len(t.Entries)]
			} else {
				pool[i] = rng.Pick(r, t.Entries)
			}
		}
		for i := 0; i < n; i++ {
			if r.Chance(1, 15) {
				l = append(l, rng.Pick(r, odd))
				continue
			}
			e := rng.Pick(r, pool)
			f := forms(t, e, r.Intn(64))
			k := r.Intn(3)
			if r.Chance(1, 25) {
				k = 3
			}
			l = append(l, f[k])
		}
		return l
	}
	for i := 0; i < nrand; i++ {
		add("random", runH(randList()))
	}
	for i := 0; i < nrandT; i++ {
		l := randList()
		for _, a := range l {
			if strings.Contains(a, ",") {
				l = nil
			}
		}
		if r.Chance(1, 2) {
			l = append(l, "enable_nested_struct")
			r2 := r.Intn(len(l))
			l[r2], l[len(l)-1] = l[len(l)-1], l[r2]
		}
		add("random-targets", runT(l))
	}

	// ---- process level: exit status of the thriftgo binary, identifier in the generated file ----
	if *thriftgo != "" {
		work, err := os.MkdirTemp(*out, "proc")
		if err != nil {
			fmt.Fprintln(os.Stderr, err)
			os.Exit(2)
		}
		n := 0
		runp := func(gen string, a []string) {
			n++
			add(gen, runP(*thriftgo, work, n, a))
		}
		for _, a := range [][]string{nil, {"naming_style=golint"}, {"naming_style=thriftgo"}, {"ignore_initialisms"}, {"naming_style=apache", "ignore_initialisms=false"},
			{"apache_warning", "apache_adaptor"}, {"with_field_mask"}, {"with_field_mask", "with_reflection"}, {"snake_style_json_tag", "lower_camel_style_json_tag"},
			{"gen_json_tag=false", "always_gen_json_tag"}, {"use_package=a"}, {"template=nosuch"}, {"naming_style=nosuch"}, {"enable_nested_struct"}} {
			runp("process-corpus", a)
		}
		for i, e := range t.Entries {
			f := forms(t, e, i)
			// quick: the hand-written parameters and a rotating quarter of the feature switches
			if !thorough && e.Action == opttable.AFeature && (uint64(i)+*seed)%4 != 0 {
				continue
			}
			runp("process-single", []string{f[0]})
			runp("process-single", []string{f[3]})
			if thorough {
				runp("process-single", []string{f[1]})
				runp("process-single", []string{f[2]})
			}
		}
		os.RemoveAll(work)
	}

	if err := w.Close(); err != nil {
		fmt.Fprintln(os.Stderr, err)
		os.Exit(2)
	}
	st.Rule = "a case is an option list run on the real code (H: HandleOptions in-process, T: Arguments.Targets then HandleOptions, P: thriftgo binary); non-trivial = at least one argument whose name is exactly a table entry; distinct = distinct (kind, argument list)"
	if err := casefile.WriteMeta(*out, map[string]interface{}{"stats": st, "shards": w.Shards, "total": w.Total()}); err != nil {
		fmt.Fprintln(os.Stderr, err)
		os.Exit(2)
	}
}

func isSet(name string) bool {
	found := false
	flag.Visit(func(f *flag.Flag) {
		if f.Name == name {
			found = true
		}
	})
	return found
}
