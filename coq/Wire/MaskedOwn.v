(* Wire/MaskedOwn.v — field_mask_halfway: a mask the USER set on a non-root struct value.

   "field_mask_halfway: Support setting field-mask on non-root structs."  The root object x is
   written under its own mask m_root; one sub object, reached from the root through struct-typed
   fields with the ids [path], had Set_FieldMask(m_own) called on it before; everything else is
   fresh.  With field_mask_halfway the parent hands its sub mask over with Pass_FieldMask, which
   leaves a mask that is already set alone: the sub object is written under m_own (and passes ITS
   sub masks on).  Without the option the parent calls Set_FieldMask: m_own is overwritten.

   A struct value that works with its own mask m and whose sub objects are fresh is
   [to_wm_again cfg e m b] (Wire/MaskedHalfway.v): the sub masks it passes are those of m.
   No proofs in this file. *)
From Coq Require Import List ZArith Bool Lia.
From Verif Require Import Base.Bytes Base.BE Wire.TType Wire.WVal Wire.Codec Wire.Schema Wire.Value
  Wire.GenTables Wire.Std Wire.Masked Wire.MaskedHalfway.
Import ListNotations.
Open Scope Z_scope.

(* Write of the struct value v of type n under the mask st that arrives / is set on it; the sub
   object at [path] (relative to v) carries m_own.  [path] = [] : v itself carries m_own. *)
Fixpoint to_wm_own (cfg : mcfg) (e : env) (path : list Z) (m_own : option mask)
         (st : option mask) (n : bytes) (v : value) {struct path} : result rw :=
  match path with
  | [] =>
      if halfway cfg then to_wm_again cfg e m_own st (TRef n) v    (* Pass_FieldMask: m_own stays *)
      else to_wm_mask cfg e st (TRef n) v                          (* Set_FieldMask: replaced *)
  | id :: rest =>
      match v with
      | VStruct fs =>
          match find_struct e n with
          | Some s =>
              let c := count_set (s_fields s) fs in
              if is_union s && negb (c =? 1)%nat then Err (EUnionCount c) else
              bind (mapM (fun p =>
                      match find_field (fst p) (s_fields s) with
                      | None => Err EBadValue
                      | Some f =>
                          if present f (snd p) then
                            let k := QF (f_id f) in
                            let ex := snd (mquery st k) in
                            if ex || (is_required f && negb (zero_required cfg)) then
                              let b := if ex then fst (mquery st k) else None in
                              if base_ptr f then
                                match snd p with
                                | VSome x => bind (to_wm_mask cfg e b (f_ty f) x)
                                                  (fun x => Ok (Some (ttype_of e (f_ty f), f_id f, x)))
                                | _ => Err EBadValue end
                              else
                                bind (match f_ty f with
                                      | TRef n' => if f_id f =? id then to_wm_own cfg e rest m_own b n' (snd p)
                                                   else to_wm_mask cfg e b (f_ty f) (snd p)
                                      | _ => to_wm_mask cfg e b (f_ty f) (snd p) end)
                                     (fun x => Ok (Some (ttype_of e (f_ty f), f_id f, x)))
                            else if is_required f then
                              Ok (Some (ttype_of e (f_ty f), f_id f, RV (zero_w e (f_ty f))))
                            else Ok None
                          else Ok None
                      end) fs)
                   (fun ofs => Ok (RStruct (cat_somes ofs)))
          | None => Err EUnknownStruct end
      | _ => to_wm_mask cfg e st (TRef n) v      (* a nil pointer has no sub object *)
      end
  end.

(* x.Set_FieldMask(m_root); sub.Set_FieldMask(m_own); x.Write(..)   with sub at [path], path <> [] *)
Definition write_with_own (cfg : mcfg) (m_root : option mask) (path : list Z) (m_own : option mask)
           (e : env) (s : sschema) (v : value) : result rw :=
  to_wm_own cfg e path m_own m_root (s_name s) v.
