(* Mask/AllFacts.v — the answer of All() on the sub mask reached by a passing query walk,
   against the path-set specification spec_all (white and black lists). *)
From Coq Require Import List Bool ZArith Lia.
From Coq.Strings Require Import Byte.
From Verif Require Import Base.Bytes Mask.Path Mask.Desc Mask.Trie Mask.Spec Mask.TrieFacts Mask.SemFacts Mask.FrameFacts Mask.RefineFacts Mask.C14Facts.
Import ListNotations.

(* every query of the sequence passes and the sub mask reached says All() *)
Definition pall (m : option mask) (q : list qkey) : bool :=
  let (c, ok) := walk_to m q in ok && all_q c.

Lemma pall_nil m : pall m [] = all_q m.
Proof. reflexivity. Qed.

Lemma pall_cons m k r : pall m (k :: r) = snd (query m k) && pall (fst (query m k)) r.
Proof.
  unfold pall. cbn [walk_to]. destruct (query m k) as [c ok]. cbn [fst snd].
  destruct (walk_to c r) as [c' ok']. rewrite andb_assoc. reflexivity.
Qed.

Lemma pall_none q : pall None q = true.
Proof. induction q as [|k q IH]; [reflexivity|]. rewrite pall_cons. cbn. exact IH. Qed.

Lemma pall_walk m q : pall m q = true -> walk m q = true.
Proof. unfold pall, walk. destruct (walk_to m q) as [c ok]. cbn. rewrite andb_true_iff. tauto. Qed.

Definition container (t : ft) : bool :=
  match t with FtStruct | FtList | FtIntMap | FtStrMap => true | _ => false end.

(* explicit keys only below nodes of a container type (what typing against a descriptor gives) *)
Fixpoint gtyped (t : ft) (g : gpath) : bool :=
  match g with
  | [] => true
  | s :: r => (is_gstar s || container t) && gtyped (gft s) r
  end.

(* the path ends at the position or above it, or goes on from it with a star *)
Fixpoint allg (g : gpath) (q : list qkey) : bool :=
  match g, q with
  | [], _ => true
  | s :: _, [] => is_gstar s
  | s :: r, k :: q' => gmatch s k && allg r q'
  end.

(* the path runs through the position and goes on *)
Fixpoint touchg (g : gpath) (q : list qkey) : bool :=
  match g, q with
  | [], _ => false
  | _ :: _, [] => true
  | s :: r, k :: q' => gmatch s k && touchg r q'
  end.

(* ... and goes on with a star *)
Fixpoint starat (g : gpath) (q : list qkey) : bool :=
  match g, q with
  | [], _ => false
  | s :: _, [] => is_gstar s
  | s :: r, k :: q' => gmatch s k && starat r q'
  end.

Lemma all_of_eq a b : m_typ a = m_typ b -> m_isall a = m_isall b -> all_of a = all_of b.
Proof. unfold all_of. intros -> ->. reflexivity. Qed.

Lemma all_of_isall_true m : m_isall m = true -> all_of m = true.
Proof. unfold all_of. intros ->. destruct (m_typ m); reflexivity. Qed.

Lemma all_of_fresh t b : all_of (fresh t b) = negb (container t).
Proof. destruct t; reflexivity. Qed.

Lemma gtyped_allg_nil t r : gtyped t r = true -> container t = false -> allg r [] = true.
Proof. destruct r as [|s r]; [reflexivity|]. cbn [gtyped allg]. intros H Hc. rewrite Hc, orb_false_r, andb_true_iff in H. tauto. Qed.

Lemma ins_head_all s r cur :
  all_of (ins (s :: r) cur) = if is_gstar s then true else all_of cur.
Proof.
  cbn [ins]. destruct (is_gstar s).
  - apply all_of_isall_true. rewrite ins_keys_isall. reflexivity.
  - apply all_of_eq; [apply ins_keys_typ | apply ins_keys_isall].
Qed.

(* ------------------------------------------------------------------ white lists *)

Lemma pall_fresh_white t q : ok_ft t = true ->
  pall (Some (fresh t false)) q = match q with [] => negb (container t) | _ => false end.
Proof.
  intro Ht. destruct q as [|k q]; [rewrite pall_nil; apply all_of_fresh|].
  rewrite pall_cons, query_white; [|exact Ht|reflexivity]. reflexivity.
Qed.

Lemma pall_slot_white k t P cur q r :
  sub_ok k t P cur = true -> ok_ft t = true -> m_black cur = false -> gtyped t r = true ->
  pall (Some (slot k t cur)) q || allg r q =
  (match get k cur with Some c => pall (Some c) q | None => false end) || allg r q.
Proof.
  intros Hs Ht Hb Hg. unfold sub_ok in Hs. unfold slot, get.
  destruct (klookup k (m_kids cur)) as [c|].
  - rewrite !andb_true_iff in Hs. destruct Hs as [[H1 _] _]. rewrite H1. reflexivity.
  - rewrite Hb, pall_fresh_white by assumption. destruct q; [|reflexivity].
    destruct (container t) eqn:Ec; [reflexivity|]. rewrite (gtyped_allg_nil t r Hg Ec). reflexivity.
Qed.

Lemma ins_keys_pall_white ks t f r :
  (forall c, compat r c = true -> inv false c = true -> m_typ c = t ->
     (forall q, pall (Some (f c)) q = pall (Some c) q || allg r q) /\ inv false (f c) = true /\ done (f c) = true) ->
  (forall c, m_typ (f c) = m_typ c) ->
  ok_ft t = true -> gtyped t r = true ->
  forall cur, m_isall cur = false -> inv false cur = true ->
  nodupb key_eqb ks = true -> forallb (fun k => sub_ok k t (compat r) cur) ks = true ->
  forall k q, pall (Some (ins_keys ks t f cur)) (k :: q) =
              pall (Some cur) (k :: q) || (existsb (key_eqb (key_of k)) ks && allg r q).
Proof.
  intros Hf Hft Ht Hg. induction ks as [|k0 ks IH]; intros cur Ha Hi Hnd Hall k q.
  - cbn. rewrite orb_false_r. reflexivity.
  - cbn [forallb] in Hall. rewrite andb_true_iff in Hall. destruct Hall as [Hk Hrest].
    apply nodupb_cons in Hnd. destruct Hnd as [Hne Hnd].
    destruct (sub_ok_slot _ _ _ _ Hk Ht) as [HP [Hty Hlv]].
    pose proof (sub_ok_slot_inv false _ _ _ _ Hk Ht Hi) as Hsi.
    destruct (Hf _ HP Hsi Hty) as [Hw [Hfi Hfd]].
    set (cur1 := child_ins k0 t f cur).
    assert (inv false cur1 = true) as Hi1 by (apply inv_put; assumption).
    assert (forallb (fun k1 => sub_ok k1 t (compat r) cur1) ks = true) as Hrest1.
    { rewrite forallb_forall in *. intros k' Hin. unfold cur1, child_ins. rewrite sub_ok_put_other; auto. }
    assert (m_isall cur1 = false) as Ha1 by exact Ha.
    change (ins_keys (k0 :: ks) t f cur) with (ins_keys ks t f cur1).
    rewrite (IH cur1 Ha1 Hi1 Hnd Hrest1 k q).
    assert (pall (Some cur1) (k :: q) = pall (Some cur) (k :: q) || (key_eqb (key_of k) k0 && allg r q)) as Hstep.
    { rewrite !pall_cons.
      rewrite (query_white cur1), (query_white cur); try (apply (inv_live false); assumption); try (apply (inv_black false); assumption).
      rewrite Ha1, Ha. cbn [fst snd].
      destruct (key_eqb (key_of k) k0) eqn:E.
      - apply key_eqb_eq in E. subst k0. unfold cur1, child_ins. rewrite get_put_same.
        assert (live (f (slot (key_of k) t cur)) = true) as -> by (unfold live; rewrite Hft; exact Hlv).
        cbn [is_some andb]. rewrite Hw.
        rewrite (pall_slot_white _ _ _ _ _ r Hk Ht (inv_black _ _ Hi) Hg).
        destruct (get (key_of k) cur); reflexivity.
      - apply key_eqb_neq in E. unfold cur1, child_ins. rewrite get_put_other by congruence.
        rewrite andb_false_l, orb_false_r. reflexivity. }
    rewrite Hstep. cbn [existsb].
    destruct (pall (Some cur) (k :: q)), (key_eqb (key_of k) k0), (existsb (key_eqb (key_of k)) ks), (allg r q); reflexivity.
Qed.

Lemma compat_explicit_parts s r cur :
  compat (s :: r) cur = true -> is_gstar s = false ->
  ok_ft (gft s) = true /\ m_isall cur = false /\ nodupb key_eqb (gkeys s) = true /\
  forallb (fun k => sub_ok k (gft s) (compat r) cur) (gkeys s) = true.
Proof.
  intros Hc Hs. pose proof (compat_keys_nodup _ _ _ Hc) as Hnd.
  cbn [compat] in Hc. rewrite !andb_true_iff in Hc. destruct Hc as [[Ht Hst] Hall].
  repeat split; auto.
  destruct s; try discriminate; rewrite !andb_true_iff, negb_true_iff in Hst; tauto.
Qed.

Theorem ins_pall_white : forall g cur, compat g cur = true -> inv false cur = true ->
  gtyped (m_typ cur) g = true ->
  forall q, pall (Some (ins g cur)) q = pall (Some cur) q || allg g q.
Proof.
  induction g as [|s r IH]; intros cur Hc Hi Hg q.
  - cbn [ins allg]. rewrite orb_true_r. destruct q as [|k q].
    + rewrite pall_nil. apply all_of_isall_true. reflexivity.
    + rewrite pall_cons, query_white; [|exact (inv_live _ _ Hi)|exact (inv_black _ _ Hi)].
      cbn [set_isall m_isall m_kids fst snd andb].
      cbn [compat] in Hc. destruct (m_kids cur); [|discriminate]. cbn. apply pall_none.
  - cbn [gtyped] in Hg. rewrite andb_true_iff in Hg. destruct Hg as [Hg1 Hg2].
    destruct q as [|k q].
    + rewrite !pall_nil. cbn [all_q allg]. rewrite ins_head_all. destruct (is_gstar s) eqn:Hs; [rewrite orb_true_r; reflexivity|].
      rewrite orb_false_r. reflexivity.
    + assert (forall c, compat r c = true -> inv false c = true -> m_typ c = gft s ->
                (forall q, pall (Some (ins r c)) q = pall (Some c) q || allg r q) /\
                inv false (ins r c) = true /\ done (ins r c) = true) as Hf.
      { intros c H1 H2 H3. split; [apply IH; auto; rewrite H3; exact Hg2 | apply ins_inv; assumption]. }
      pose proof (compat_keys_nodup _ _ _ Hc) as Hnd.
      destruct (is_gstar s) eqn:Hs.
      * (* star *)
        destruct (star_node_state _ _ _ Hs Hc) as [[Ha Hk]|[Ha [a Hk]]];
        cbn [compat] in Hc; rewrite !andb_true_iff in Hc; destruct Hc as [[Ht _] Hall];
        rewrite (gstar_keys _ Hs) in Hall; cbn [forallb] in Hall; rewrite andb_true_r in Hall;
        cbn [ins allg]; unfold gmatch; rewrite Hs, (gstar_keys _ Hs); cbn [orb andb];
        unfold ins_keys; cbn [fold_left]; unfold child_ins;
        rewrite <- sub_ok_set_isall with (a := true) in Hall;
        destruct (sub_ok_slot _ _ _ _ Hall Ht) as [HP [Hty Hlv]];
        pose proof (sub_ok_slot_inv false _ _ _ (set_isall cur true) Hall Ht) as Hsi;
        rewrite inv_set_isall in Hsi; specialize (Hsi Hi);
        destruct (Hf _ HP Hsi Hty) as [Hw _];
        rewrite pall_cons, query_white; try (rewrite live_put; exact (inv_live _ _ Hi)); try (rewrite m_black_put; exact (inv_black _ _ Hi));
        rewrite m_isall_put; cbn [set_isall m_isall]; rewrite m_kids_put, klookup_kupsert_same; cbn [fst snd andb];
        rewrite Hw, pall_cons, (query_white cur) by (first [exact (inv_live _ _ Hi) | exact (inv_black _ _ Hi)]);
        rewrite Ha; cbn [fst snd].
        -- unfold slot, get. cbn [set_isall m_kids m_black]. rewrite Hk. cbn [klookup is_some andb orb].
           rewrite (inv_black _ _ Hi), pall_fresh_white by exact Ht.
           destruct q; [|reflexivity].
           destruct (container (gft s)) eqn:Ec; [reflexivity|]. rewrite (gtyped_allg_nil _ r Hg2 Ec). reflexivity.
        -- unfold sub_ok in Hall. cbn [set_isall m_kids] in Hall. unfold slot. cbn [set_isall m_kids m_black].
           rewrite Hk in *. cbn [klookup key_eqb] in *. rewrite !andb_true_iff in Hall. destruct Hall as [[Hl _] _].
           rewrite Hl. cbn [andb]. reflexivity.
      * destruct (compat_explicit_parts _ _ _ Hc Hs) as [Ht [Ha [_ Hall]]].
        cbn [ins allg]. rewrite Hs. unfold gmatch. rewrite Hs. cbn [orb].
        apply (ins_keys_pall_white (gkeys s) (gft s) (ins r) r Hf (fun c => ins_typ r c) Ht Hg2 cur Ha Hi Hnd Hall).
Qed.

(* ------------------------------------------------------------------ black lists *)

(* pc, wc: "passes and All" / "passes" before the insertion of g *)
Definition Fb (pc wc : bool) (g : gpath) (q : list qkey) : bool :=
  (pc && negb (rejg g q) && negb (touchg g q)) || (wc && starat g q).

Lemma pall_fresh_black t q : ok_ft t = true ->
  pall (Some (fresh t true)) q = match q with [] => negb (container t) | _ => true end.
Proof.
  intro Ht. destruct q as [|k q]; [rewrite pall_nil; apply all_of_fresh|].
  rewrite pall_cons, query_black; [|exact Ht|reflexivity]. cbn. apply pall_none.
Qed.

Lemma touchg_nil_r g : g <> [] -> touchg g [] = true.
Proof. destruct g; [congruence | reflexivity]. Qed.

Lemma all_of_container_false m : container (m_typ m) = true -> m_isall m = false -> all_of m = false.
Proof. unfold all_of, container. intros H ->. destruct (m_typ m); try discriminate; reflexivity. Qed.

Lemma ins_keys_pall_black ks t f r :
  (* what f does to walks (no typing needed) *)
  (forall c, compat r c = true -> inv true c = true ->
     (r <> [] -> forall q, walk (Some (f c)) q = walk (Some c) q && negb (rejg r q)) /\
     inv true (f c) = true /\ done (f c) = true /\
     has_child (f c) = (if nonempty r then true else has_child c)) ->
  (* what f does to "passes and All" *)
  (forall c, compat r c = true -> inv true c = true -> m_typ c = t -> r <> [] ->
     forall q, pall (Some (f c)) q = Fb (pall (Some c) q) (walk (Some c) q) r q) ->
  (forall c, m_typ (f c) = m_typ c) ->
  ok_ft t = true -> gtyped t r = true ->
  forall cur, m_isall cur = false -> inv true cur = true ->
  nodupb key_eqb ks = true -> forallb (fun k => sub_ok k t (compat r) cur) ks = true ->
  forall k q,
    pall (Some (ins_keys ks t f cur)) (k :: q) =
    (pall (Some cur) (k :: q) && negb (existsb (key_eqb (key_of k)) ks && rejg r q)
                              && negb (existsb (key_eqb (key_of k)) ks && touchg r q)) ||
    (walk (Some cur) (k :: q) && (existsb (key_eqb (key_of k)) ks && starat r q)).
Proof.
  intros HfW HfP Hft Ht Hg. induction ks as [|k0 ks IH]; intros cur Ha Hi Hnd Hall k q.
  - cbn [ins_keys fold_left existsb andb negb]. rewrite !andb_true_r, andb_false_r, orb_false_r. reflexivity.
  - pose proof Hnd as Hnd0. pose proof Hall as Hall0.
    cbn [forallb] in Hall. rewrite andb_true_iff in Hall. destruct Hall as [Hk Hrest].
    apply nodupb_cons in Hnd. destruct Hnd as [Hne Hnd].
    destruct (sub_ok_slot _ _ _ _ Hk Ht) as [HP [Hty Hlv]].
    pose proof (sub_ok_slot_inv true _ _ _ _ Hk Ht Hi) as Hsi.
    destruct (HfW _ HP Hsi) as [Hw [Hfi [Hfd Hhc]]].
    set (cur1 := child_ins k0 t f cur).
    assert (inv true cur1 = true) as Hi1 by (apply inv_put; assumption).
    assert (forallb (fun k1 => sub_ok k1 t (compat r) cur1) ks = true) as Hrest1.
    { rewrite forallb_forall in *. intros k' Hin. unfold cur1, child_ins. rewrite sub_ok_put_other; auto. }
    assert (m_isall cur1 = false) as Ha1 by exact Ha.
    change (ins_keys (k0 :: ks) t f cur) with (ins_keys ks t f cur1).
    rewrite (IH cur1 Ha1 Hi1 Hnd Hrest1 k q).
    (* the walk after the first key *)
    assert (walk (Some cur1) (k :: q) = walk (Some cur) (k :: q) && negb (key_eqb (key_of k) k0 && rejg r q)) as HstepW.
    { pose proof (ins_keys_walk_black [k0] t f r HfW Hft Ht cur Ha Hi) as X.
      assert (nodupb key_eqb [k0] = true) as N1 by reflexivity.
      assert (forallb (fun k1 => sub_ok k1 t (compat r) cur) [k0] = true) as N2 by (cbn [forallb]; rewrite Hk; reflexivity).
      specialize (X N1 N2 k q). cbn [existsb] in X. rewrite orb_false_r in X. exact X. }
    assert (pall (Some cur1) (k :: q) =
            (pall (Some cur) (k :: q) && negb (key_eqb (key_of k) k0 && rejg r q) && negb (key_eqb (key_of k) k0 && touchg r q)) ||
            (walk (Some cur) (k :: q) && (key_eqb (key_of k) k0 && starat r q))) as HstepP.
    { rewrite !pall_cons, !walk_cons.
      rewrite (query_black cur1), (query_black cur); try (apply (inv_live true); assumption); try (apply (inv_black true); assumption).
      rewrite Ha1, Ha. cbn [fst snd].
      destruct (key_eqb (key_of k) k0) eqn:E.
      - apply key_eqb_eq in E. subst k0. unfold cur1, child_ins. rewrite get_put_same.
        assert (live (f (slot (key_of k) t cur)) = true) as -> by (unfold live; rewrite Hft; exact Hlv).
        cbn [andb]. rewrite Hhc.
        destruct r as [|s r'].
        + cbn [nonempty rejg starat negb]. rewrite !andb_false_r. cbn [orb].
          cbn [compat] in HP. unfold has_child. destruct (m_kids (slot (key_of k) t cur)); [|discriminate].
          rewrite andb_false_r. reflexivity.
        + cbn [nonempty andb]. rewrite (HfP _ HP Hsi Hty) by discriminate.
          unfold sub_ok in Hk. unfold slot, get in *.
          destruct (klookup (key_of k) (m_kids cur)) as [c|] eqn:Ek.
          * rewrite !andb_true_iff in Hk. destruct Hk as [[Hl _] Hcr]. rewrite Hl in *.
            destruct (inv_child _ _ _ _ Hi Ek) as [_ Hdc].
            rewrite (compat_done_has_child (s :: r') c Hcr ltac:(discriminate) Hdc Hl). reflexivity.
          * rewrite (inv_black _ _ Hi), pall_fresh_black, walk_fresh_black by exact Ht. cbn [andb]. rewrite pall_none, walk_none.
            unfold Fb. destruct q as [|k2 q2]; [|reflexivity].
            rewrite (touchg_nil_r (s :: r')) by discriminate. cbn [negb]. rewrite !andb_false_r. reflexivity.
      - apply key_eqb_neq in E. unfold cur1, child_ins. rewrite get_put_other by congruence.
        cbn [andb negb]. rewrite !andb_true_r, andb_false_r, orb_false_r. reflexivity. }
    rewrite HstepP, HstepW. cbn [existsb].
    (* the first key and the others are different keys *)
    assert (key_eqb (key_of k) k0 && existsb (key_eqb (key_of k)) ks = false) as Hex.
    { destruct (key_eqb (key_of k) k0) eqn:E; [|reflexivity]. apply key_eqb_eq in E. subst k0. cbn [andb].
      destruct (existsb (key_eqb (key_of k)) ks) eqn:E2; [|reflexivity]. exfalso.
      apply existsb_exists in E2. destruct E2 as [k' [Hin E2]]. apply key_eqb_eq in E2. subst k'. exact (Hne _ Hin eq_refl). }
    destruct (key_eqb (key_of k) k0), (existsb (key_eqb (key_of k)) ks); try discriminate Hex;
    destruct (pall (Some cur) (k :: q)), (walk (Some cur) (k :: q)), (rejg r q), (touchg r q), (starat r q); reflexivity.
Qed.

Lemma starat_touchg g q : starat g q = true -> touchg g q = true.
Proof.
  revert q. induction g as [|s r IH]; intros q H; [discriminate|]. destruct q as [|k q]; [reflexivity|].
  cbn [starat touchg] in *. rewrite andb_true_iff in *. destruct H as [H1 H2]. split; auto.
Qed.

Lemma touchg_not_rejg g q : touchg g q = true -> rejg g q = false.
Proof.
  revert q. induction g as [|s r IH]; intros q H; [discriminate|]. destruct q as [|k q]; [reflexivity|].
  cbn [rejg touchg] in *. rewrite andb_true_iff in H. destruct H as [H1 H2]. rewrite H1, (IH _ H2). reflexivity.
Qed.

Theorem ins_pall_black : forall g cur, compat g cur = true -> inv true cur = true ->
  g <> [] -> ends_with_star g = false -> gtyped (m_typ cur) g = true ->
  forall q, pall (Some (ins g cur)) q = Fb (pall (Some cur) q) (walk (Some cur) q) g q.
Proof.
  induction g as [|s r IH]; intros cur Hc Hi Hne He Hg q; [congruence|].
  cbn [gtyped] in Hg. rewrite andb_true_iff in Hg. destruct Hg as [Hg1 Hg2].
  assert (forall c, compat r c = true -> inv true c = true ->
     (r <> [] -> forall q, walk (Some (ins r c)) q = walk (Some c) q && negb (rejg r q)) /\
     inv true (ins r c) = true /\ done (ins r c) = true /\
     has_child (ins r c) = (if nonempty r then true else has_child c)) as HfW.
  { intros c H1 H2. destruct (ins_inv true r c H1 H2) as [A B]. repeat split; auto.
    - intros Hr q0. apply ins_walk_black; auto. rewrite <- (ends_with_star_cons s r Hr). exact He.
    - destruct r as [|x r']; [reflexivity|]. cbn [nonempty]. apply has_child_ins; [exact H1 | discriminate | exact (inv_live _ _ H2)]. }
  assert (forall c, compat r c = true -> inv true c = true -> m_typ c = gft s -> r <> [] ->
     forall q, pall (Some (ins r c)) q = Fb (pall (Some c) q) (walk (Some c) q) r q) as HfP.
  { intros c H1 H2 H3 Hr q0. apply IH; auto.
    - rewrite <- (ends_with_star_cons s r Hr). exact He.
    - rewrite H3. exact Hg2. }
  destruct q as [|k q].
  - (* the node itself *)
    rewrite !pall_nil. cbn [all_q]. rewrite ins_head_all. unfold Fb. cbn [rejg touchg starat negb andb].
    rewrite andb_false_r. cbn [orb]. rewrite walk_nil. cbn [andb].
    destruct (is_gstar s) eqn:Hs; [reflexivity|].
    destruct (compat_explicit_parts _ _ _ Hc Hs) as [_ [Ha _]].
    cbn [orb] in Hg1. apply all_of_container_false; assumption.
  - pose proof (compat_keys_nodup _ _ _ Hc) as Hnd.
    destruct (is_gstar s) eqn:Hs.
    + assert (r <> []) as Hr.
      { intro E. subst r. rewrite ends_with_star_single in He. congruence. }
      destruct (star_node_state _ _ _ Hs Hc) as [[Ha Hk]|[Ha [a Hk]]];
      cbn [compat] in Hc; rewrite !andb_true_iff in Hc; destruct Hc as [[Ht _] Hall];
      rewrite (gstar_keys _ Hs) in Hall; cbn [forallb] in Hall; rewrite andb_true_r in Hall;
      unfold Fb; cbn [ins rejg touchg starat]; unfold gmatch; rewrite Hs, (gstar_keys _ Hs); cbn [orb andb];
      unfold ins_keys; cbn [fold_left]; unfold child_ins;
      rewrite <- sub_ok_set_isall with (a := true) in Hall;
      destruct (sub_ok_slot _ _ _ _ Hall Ht) as [HP [Hty Hlv]];
      pose proof (sub_ok_slot_inv true _ _ _ (set_isall cur true) Hall Ht) as Hsi;
      rewrite inv_set_isall in Hsi; specialize (Hsi Hi);
      pose proof (HfP _ HP Hsi Hty Hr) as Hw;
      rewrite pall_cons, query_black; try (rewrite live_put; exact (inv_live _ _ Hi)); try (rewrite m_black_put; exact (inv_black _ _ Hi));
      rewrite m_isall_put; cbn [set_isall m_isall]; rewrite m_kids_put, klookup_kupsert_same; cbn [fst snd];
      (assert (has_child (put KAll (ins r (slot KAll (gft s) (set_isall cur true))) (set_isall cur true)) = true) as ->
         by (unfold has_child; rewrite live_put; unfold live at 1; cbn [set_isall m_typ]; fold (live cur); rewrite (inv_live _ _ Hi), m_kids_put;
             destruct (kupsert _ _ _) eqn:E; [exfalso; eapply kupsert_not_nil; eauto | reflexivity]));
      cbn [andb]; rewrite Hw, pall_cons, walk_cons, (query_black cur) by (first [exact (inv_live _ _ Hi) | exact (inv_black _ _ Hi)]);
      rewrite Ha; cbn [fst snd]; unfold Fb.
      * unfold slot, get. cbn [set_isall m_kids m_black]. rewrite Hk. cbn [klookup andb].
        rewrite (inv_black _ _ Hi), pall_fresh_black, walk_fresh_black by exact Ht. rewrite pall_none, walk_none.
        destruct q as [|k2 q2]; [|reflexivity].
        rewrite (touchg_nil_r r Hr). cbn [negb]. rewrite !andb_false_r. reflexivity.
      * unfold sub_ok in Hall. cbn [set_isall m_kids] in Hall. unfold slot. cbn [set_isall m_kids m_black].
        assert (has_child cur = true) as -> by (unfold has_child; rewrite (inv_live _ _ Hi), Hk; reflexivity).
        rewrite Hk in *. cbn [klookup key_eqb] in *. rewrite !andb_true_iff in Hall. destruct Hall as [[Hl _] _].
        rewrite Hl. cbn [andb]. reflexivity.
    + destruct (compat_explicit_parts _ _ _ Hc Hs) as [Ht [Ha [_ Hall]]].
      unfold Fb. cbn [ins rejg touchg starat]. rewrite Hs. unfold gmatch. rewrite Hs. cbn [orb].
      apply (ins_keys_pall_black (gkeys s) (gft s) (ins r) r HfW HfP (fun c => ins_typ r c) Ht Hg2 cur Ha Hi Hnd Hall).
Qed.

(* ------------------------------------------------------------------ a list of paths *)

Lemma ins_all_typ gs : forall cur, m_typ (ins_all gs cur) = m_typ cur.
Proof. induction gs as [|g gs IH]; intro cur; [reflexivity|]. change (ins_all (g :: gs) cur) with (ins_all gs (ins g cur)). rewrite IH, ins_typ. reflexivity. Qed.

Lemma ins_all_pall_white : forall gs cur,
  no_conflict gs = true -> forallb (fun g => compat g cur) gs = true -> inv false cur = true ->
  forallb (gtyped (m_typ cur)) gs = true ->
  forall q, pall (Some (ins_all gs cur)) q = pall (Some cur) q || existsb (fun g => allg g q) gs.
Proof.
  induction gs as [|g gs IH]; intros cur Hnc Hall Hi Hty q.
  - cbn. rewrite orb_false_r. reflexivity.
  - cbn [no_conflict] in Hnc. rewrite andb_true_iff in Hnc. destruct Hnc as [Hg Hnc].
    cbn [forallb] in Hall, Hty. rewrite andb_true_iff in Hall, Hty. destruct Hall as [Hcg Hall]. destruct Hty as [Htg Hty].
    destruct (ins_inv false g cur Hcg Hi) as [Hi1 _].
    change (ins_all (g :: gs) cur) with (ins_all gs (ins g cur)).
    rewrite IH; auto.
    + rewrite (ins_pall_white g cur Hcg Hi Htg q). cbn [existsb]. rewrite orb_assoc. reflexivity.
    + rewrite forallb_forall in *. intros g' Hin. apply compat_frame; auto.
    + rewrite ins_typ. exact Hty.
Qed.

(* two paths that do not conflict: where one goes on with a star the other does too *)
Lemma gmatch_common s s2 k :
  same_kind s s2 = true -> gmatch s k = true -> gmatch s2 k = true -> disjointb key_eqb (gkeys s) (gkeys s2) = false.
Proof.
  intros Hk H1 H2. destruct (disjointb key_eqb (gkeys s) (gkeys s2)) eqn:E; [|reflexivity]. exfalso.
  unfold gmatch in *. destruct (is_gstar s) eqn:Hs.
  - assert (is_gstar s2 = true) by (destruct s, s2; try discriminate; reflexivity).
    rewrite (gstar_keys _ Hs), (gstar_keys _ H) in E. discriminate.
  - assert (is_gstar s2 = false) as Hs2 by (destruct s, s2; try discriminate; reflexivity).
    rewrite Hs2 in H2. cbn [orb] in *. apply existsb_exists in H1, H2.
    destruct H1 as [a [Ha Ea]]. destruct H2 as [b [Hb Eb]]. apply key_eqb_eq in Ea, Eb. subst.
    eapply disjointb_false_in; eauto.
Qed.

Lemma starat_compat2 : forall g g2 q,
  compat2 g g2 = true -> starat g q = true -> touchg g2 q = true -> starat g2 q = true.
Proof.
  induction g as [|s r IH]; intros g2 q Hc Hs Ht; [discriminate|].
  destruct g2 as [|s2 r2]; [discriminate|].
  rewrite compat2_keys, andb_true_iff in Hc. destruct Hc as [Hk Hd].
  destruct q as [|k q]; cbn [starat touchg] in *.
  - destruct s, s2; try discriminate; reflexivity.
  - rewrite andb_true_iff in *. destruct Hs as [Hm Hs]. destruct Ht as [Hm2 Ht]. split; [exact Hm2|].
    rewrite (gmatch_common s s2 k Hk Hm Hm2), andb_true_iff in Hd. eapply IH; eauto. tauto.
Qed.

Lemma ins_all_pall_black : forall gs cur,
  no_conflict gs = true -> forallb (fun g => compat g cur) gs = true -> inv true cur = true ->
  forallb (gtyped (m_typ cur)) gs = true ->
  forallb (fun g => nonempty g && negb (ends_with_star g)) gs = true ->
  forall q, pall (Some (ins_all gs cur)) q =
    (pall (Some cur) q && negb (existsb (fun g => rejg g q) gs) && negb (existsb (fun g => touchg g q) gs)) ||
    (walk (Some cur) q && negb (existsb (fun g => rejg g q) gs) && existsb (fun g => starat g q) gs).
Proof.
  induction gs as [|g gs IH]; intros cur Hnc Hall Hi Hty Hne q.
  - cbn [ins_all fold_left existsb negb]. rewrite !andb_true_r, andb_false_r, orb_false_r. reflexivity.
  - pose proof Hnc as Hnc0. cbn [no_conflict] in Hnc. rewrite andb_true_iff in Hnc. destruct Hnc as [Hg Hnc].
    cbn [forallb] in Hall, Hty, Hne. rewrite andb_true_iff in Hall, Hty, Hne.
    destruct Hall as [Hcg Hall]. destruct Hty as [Htg Hty]. destruct Hne as [Hn1 Hne].
    rewrite andb_true_iff, negb_true_iff in Hn1. destruct Hn1 as [Hgn Hge].
    assert (g <> []) as Hgne by (destruct g; [discriminate | congruence]).
    destruct (ins_inv true g cur Hcg Hi) as [Hi1 _].
    change (ins_all (g :: gs) cur) with (ins_all gs (ins g cur)).
    assert (forallb (fun g0 => compat g0 (ins g cur)) gs = true) as Hall1.
    { rewrite forallb_forall in *. intros g' Hin. apply compat_frame; auto. }
    rewrite IH; auto; [|rewrite ins_typ; exact Hty].
    rewrite (ins_pall_black g cur Hcg Hi Hgne Hge Htg q), (ins_walk_black g cur Hcg Hi Hgne Hge q).
    unfold Fb. cbn [existsb].
    (* where g goes on with a star, every other path that runs through q does too *)
    assert (starat g q = true -> existsb (fun g0 => touchg g0 q) gs = true -> existsb (fun g0 => starat g0 q) gs = true) as Hstar.
    { intros Hs Ht. apply existsb_exists in Ht. destruct Ht as [g' [Hin Ht]]. apply existsb_exists. exists g'. split; [exact Hin|].
      rewrite forallb_forall in Hg. eapply starat_compat2; eauto. }
    pose proof (starat_touchg g q) as H1. pose proof (touchg_not_rejg g q) as H2.
    destruct (starat g q) eqn:Es; destruct (touchg g q) eqn:Et; destruct (rejg g q) eqn:Er;
      try (specialize (H1 eq_refl); discriminate H1); try (specialize (H2 eq_refl); discriminate H2);
      destruct (existsb (fun g0 => touchg g0 q) gs) eqn:Ets;
      try (rewrite (Hstar eq_refl eq_refl));
      destruct (pall (Some cur) q), (walk (Some cur) q), (existsb (fun g0 => rejg g0 q) gs), (existsb (fun g0 => starat g0 q) gs); reflexivity.
Qed.

(* ------------------------------------------------------------------ typing gives gtyped *)

Theorem gtyped_elab : forall env p d g, elab env d p = Some g -> gtyped (switch_ft env d) g = true.
Proof.
  intros env. induction p as [|s p IH]; intros d g He.
  - cbn in He. injection He as <-. reflexivity.
  - destruct s as [n|id| |ids| |ids|ss| ]; cbn [elab] in He.
    + destruct (struct_fields env d) as [fs|] eqn:Esf; [|discriminate].
      destruct (field_by_name fs n) as [x|]; [|discriminate].
      destruct (ok_ft (switch_ft env (f_ty x))); [|discriminate].
      destruct (elab env (f_ty x) p) as [g'|] eqn:Eg; [|discriminate]. injection He as <-.
      cbn [gtyped gft is_gstar orb]. rewrite (struct_fields_ft _ _ _ Esf), (IH _ _ Eg). reflexivity.
    + destruct (struct_fields env d) as [fs|] eqn:Esf; [|discriminate].
      destruct (field_by_id fs id) as [x|]; [|discriminate].
      destruct (ok_ft (switch_ft env (f_ty x))); [|discriminate].
      destruct (elab env (f_ty x) p) as [g'|] eqn:Eg; [|discriminate]. injection He as <-.
      cbn [gtyped gft is_gstar orb]. rewrite (struct_fields_ft _ _ _ Esf), (IH _ _ Eg). reflexivity.
    + destruct (struct_fields env d) as [[|f0 fs]|]; try discriminate.
      destruct p; [|discriminate]. destruct (ok_ft (switch_ft env (f_ty f0))); [|discriminate]. injection He as <-. reflexivity.
    + destruct (list_elem d) as [e|] eqn:El; [|discriminate].
      destruct (ok_ft (switch_ft env e)); [|discriminate].
      destruct (elab env e p) as [g'|] eqn:Eg; [|discriminate]. injection He as <-.
      cbn [gtyped gft is_gstar orb]. rewrite (list_elem_ft env _ _ El), (IH _ _ Eg). reflexivity.
    + destruct (list_elem d) as [e|]; [|discriminate].
      destruct (ok_ft (switch_ft env e)); [|discriminate].
      destruct (elab env e p) as [g'|] eqn:Eg; [|discriminate]. injection He as <-.
      cbn [gtyped gft is_gstar orb]. rewrite (IH _ _ Eg). reflexivity.
    + destruct (map_kv d) as [[k v]|] eqn:Em; [|discriminate].
      destruct (ft_eqb (key_ft k) FtIntMap && ok_ft (switch_ft env v)) eqn:E; [|discriminate].
      rewrite andb_true_iff in E. destruct E as [Ek _]. apply ft_eqb_eq in Ek.
      destruct (elab env v p) as [g'|] eqn:Eg; [|discriminate]. injection He as <-.
      cbn [gtyped gft is_gstar orb]. rewrite (map_kv_ft env _ _ _ Em), Ek, (IH _ _ Eg). reflexivity.
    + destruct (map_kv d) as [[k v]|] eqn:Em; [|discriminate].
      destruct (ft_eqb (key_ft k) FtStrMap && ok_ft (switch_ft env v)) eqn:E; [|discriminate].
      rewrite andb_true_iff in E. destruct E as [Ek _]. apply ft_eqb_eq in Ek.
      destruct (elab env v p) as [g'|] eqn:Eg; [|discriminate]. injection He as <-.
      cbn [gtyped gft is_gstar orb]. rewrite (map_kv_ft env _ _ _ Em), Ek, (IH _ _ Eg). reflexivity.
    + destruct (map_kv d) as [[k v]|]; [|discriminate].
      destruct (ok_ft (switch_ft env v)); [|discriminate].
      destruct (elab env v p) as [g'|] eqn:Eg; [|discriminate]. injection He as <-.
      cbn [gtyped gft is_gstar orb]. rewrite (IH _ _ Eg). reflexivity.
Qed.

Lemma gtyped_elab_all env d : forall ps gs, elab_all env d ps = Some gs -> forallb (gtyped (switch_ft env d)) gs = true.
Proof.
  induction ps as [|p ps IH]; intros gs He.
  - cbn in He. injection He as <-. reflexivity.
  - destruct (elab_all_cons _ _ _ _ _ He) as [g [gs' [-> [Hg Hgs]]]]. cbn [forallb].
    rewrite (gtyped_elab _ _ _ _ Hg), (IH _ Hgs). reflexivity.
Qed.

(* ------------------------------------------------------------------ typed paths and their expansions *)

Lemma existsb_const {A} (f : A -> bool) c l : l <> [] -> (forall x, In x l -> f x = c) -> existsb f l = c.
Proof.
  intros Hne H. destruct l as [|x r]; [congruence|]. cbn [existsb]. rewrite (H x (or_introl eq_refl)).
  destruct c; [reflexivity|]. cbn [orb]. clear Hne. induction r as [|y r IH]; [reflexivity|].
  cbn [existsb]. rewrite (H y (or_intror (or_introl eq_refl))). cbn [orb]. apply IH. intros z [Hz|Hz]; apply H; [left|right; right]; assumption.
Qed.

Lemma expand_cons_shape s r p : In p (expand (s :: r)) -> exists sg p', p = sg :: p' /\ seg_is_star sg = is_gstar s.
Proof.
  destruct s; cbn [expand is_gstar]; intro Hin.
  - apply in_map_iff in Hin. destruct Hin as [x [<- _]]. eauto.
  - apply in_flat_map in Hin. destruct Hin as [i [_ Hin]]. apply in_map_iff in Hin. destruct Hin as [x [<- _]]. eauto.
  - apply in_flat_map in Hin. destruct Hin as [i [_ Hin]]. apply in_map_iff in Hin. destruct Hin as [x [<- _]]. eauto.
  - apply in_map_iff in Hin. destruct Hin as [x [<- _]]. eauto.
  - apply in_map_iff in Hin. destruct Hin as [x [<- _]]. eauto.
Qed.

Definition Fall (q : list qkey) (p : spath) : bool := covers p q || star_at p q.
Definition Fstar (q : list qkey) (p : spath) : bool := star_at p q.
Definition Ftouch (q : list qkey) (p : spath) : bool := touches p q.

Lemma Fall_cons sg p k q : Fall (k :: q) (sg :: p) = seg_matches sg k && Fall q p.
Proof. unfold Fall. cbn [covers star_at]. destruct (seg_matches sg k); reflexivity. Qed.
Lemma Fstar_cons sg p k q : Fstar (k :: q) (sg :: p) = seg_matches sg k && Fstar q p.
Proof. reflexivity. Qed.
Lemma Ftouch_cons sg p k q : Ftouch (k :: q) (sg :: p) = seg_matches sg k && Ftouch q p.
Proof. reflexivity. Qed.

Lemma allg_expand : forall g q, groups_nonempty g = true -> allg g q = existsb (Fall q) (expand g).
Proof.
  induction g as [|s r IH]; intros q Hne; [destruct q; reflexivity|].
  destruct q as [|k q].
  - cbn [allg]. symmetry. apply existsb_const; [apply expand_nonempty; exact Hne|].
    intros p Hin. destruct (expand_cons_shape _ _ _ Hin) as [sg [p' [-> E]]]. unfold Fall. cbn. exact E.
  - cbn [groups_nonempty] in Hne. rewrite andb_true_iff in Hne. destruct Hne as [_ Hr].
    cbn [allg]. rewrite (expand_head Fall s r k q (fun sg p => Fall_cons sg p k q)), IH by exact Hr. reflexivity.
Qed.

Lemma starat_expand : forall g q, groups_nonempty g = true -> starat g q = existsb (Fstar q) (expand g).
Proof.
  induction g as [|s r IH]; intros q Hne; [destruct q; reflexivity|].
  destruct q as [|k q].
  - cbn [starat]. symmetry. apply existsb_const; [apply expand_nonempty; exact Hne|].
    intros p Hin. destruct (expand_cons_shape _ _ _ Hin) as [sg [p' [-> E]]]. exact E.
  - cbn [groups_nonempty] in Hne. rewrite andb_true_iff in Hne. destruct Hne as [_ Hr].
    cbn [starat]. rewrite (expand_head Fstar s r k q (fun sg p => Fstar_cons sg p k q)), IH by exact Hr. reflexivity.
Qed.

(* the path runs through the position (it may end exactly there) *)
Fixpoint touchesg (g : gpath) (q : list qkey) : bool :=
  match q, g with
  | [], _ => true
  | _ :: _, [] => false
  | k :: q', s :: r => gmatch s k && touchesg r q'
  end.

Lemma touchesg_expand : forall g q, groups_nonempty g = true -> touchesg g q = existsb (Ftouch q) (expand g).
Proof.
  induction g as [|s r IH]; intros q Hne; [destruct q; reflexivity|].
  destruct q as [|k q].
  - cbn [touchesg]. symmetry. apply existsb_const; [apply expand_nonempty; exact Hne|]. intros p _. destruct p; reflexivity.
  - cbn [groups_nonempty] in Hne. rewrite andb_true_iff in Hne. destruct Hne as [_ Hr].
    cbn [touchesg]. rewrite (expand_head Ftouch s r k q (fun sg p => Ftouch_cons sg p k q)), IH by exact Hr. reflexivity.
Qed.

Lemma touchesg_touchg : forall g q, rejg g q = false -> touchesg g q = touchg g q.
Proof.
  induction g as [|s r IH]; intros q H; [discriminate|]. destruct q as [|k q]; [reflexivity|].
  cbn [rejg touchesg touchg] in *. destruct (gmatch s k); [cbn [andb] in *; apply IH; exact H | reflexivity].
Qed.

Lemma existsb_ext_in {A} (f g : A -> bool) l : (forall x, In x l -> f x = g x) -> existsb f l = existsb g l.
Proof.
  induction l as [|x r IH]; intro H; [reflexivity|]. cbn [existsb]. rewrite (H x (or_introl eq_refl)), IH; [reflexivity|].
  intros y Hy. apply H. right. exact Hy.
Qed.

(* ------------------------------------------------------------------ the theorems on built masks *)

Lemma pall_empty black q : pall (Some (empty_mask black)) q = true.
Proof. destruct q as [|k q]; [reflexivity|]. rewrite pall_cons. cbn. apply pall_none. Qed.

Lemma compat_all_groups cur gs : forallb (fun g => compat g cur) gs = true -> forall g, In g gs -> groups_nonempty g = true.
Proof. intros H g Hg. rewrite forallb_forall in H. eapply compat_groups_nonempty. apply H. exact Hg. Qed.

Theorem built_pall_white env d gs :
  ok_ft (switch_ft env d) = true ->
  forallb (fun g => compat g (fresh (switch_ft env d) false)) gs = true ->
  no_conflict gs = true -> forallb (gtyped (switch_ft env d)) gs = true ->
  forall q, pall (Some (built env d false gs)) q = spec_all false (path_set gs) q.
Proof.
  intros Hok Hall Hnc Hty q.
  destruct gs as [|g0 gs0] eqn:Egs; [cbn [built path_set flat_map spec_all]; apply pall_empty|].
  rewrite <- Egs in *.
  assert (built env d false gs = ins_all gs (fresh (switch_ft env d) false)) as -> by (rewrite Egs; reflexivity).
  pose proof (inv_fresh false _ Hok) as Hi.
  pose proof (compat_all_groups _ _ Hall) as Hgn.
  rewrite (ins_all_pall_white gs _ Hnc Hall Hi Hty q).
  assert (spec_all false (path_set gs) q = existsb (fun g => allg g q) gs) as ->.
  { unfold spec_all, path_set, complete, starred.
    assert (flat_map expand gs <> []) as Hps.
    { rewrite Egs. cbn [flat_map]. intro E. apply app_eq_nil in E. destruct E as [E _].
      revert E. apply expand_nonempty. apply Hgn. rewrite Egs. left; reflexivity. }
    destruct (flat_map expand gs) as [|p0 l0] eqn:Eps; [congruence|]. rewrite <- Eps.
    rewrite <- existsb_orb. change (fun x : spath => covers x q || star_at x q) with (Fall q).
    rewrite existsb_flat_map. apply existsb_ext_in. intros g Hg. symmetry. apply allg_expand. apply Hgn. exact Hg. }
  rewrite pall_fresh_white by exact Hok.
  destruct q as [|k q]; [|reflexivity].
  destruct (container (switch_ft env d)) eqn:Ec; [reflexivity|]. cbn [negb orb]. symmetry.
  rewrite Egs. cbn [existsb]. rewrite Egs in Hty. cbn [forallb] in Hty. rewrite andb_true_iff in Hty.
  rewrite (gtyped_allg_nil _ g0 (proj1 Hty) Ec). reflexivity.
Qed.

Theorem built_pall_black env d gs :
  ok_ft (switch_ft env d) = true ->
  forallb (fun g => compat g (fresh (switch_ft env d) true)) gs = true ->
  in_domain true gs = true -> forallb (gtyped (switch_ft env d)) gs = true ->
  forallb (fun g => nonempty g) gs = true ->
  forall q, walk (Some (built env d true gs)) q = true ->
  pall (Some (built env d true gs)) q = spec_all true (path_set gs) q.
Proof.
  intros Hok Hall Hdom Hty Hne q Hw.
  destruct gs as [|g0 gs0] eqn:Egs; [cbn [built path_set flat_map spec_all]; rewrite pall_empty; reflexivity|].
  rewrite <- Egs in *.
  assert (built env d true gs = ins_all gs (fresh (switch_ft env d) true)) as Eb by (rewrite Egs; reflexivity).
  rewrite Eb in *.
  unfold in_domain in Hdom. rewrite andb_true_iff in Hdom. destruct Hdom as [Hnc Hts].
  pose proof (inv_fresh true _ Hok) as Hi.
  pose proof (compat_all_groups _ _ Hall) as Hgn.
  assert (forallb (fun g => nonempty g && negb (ends_with_star g)) gs = true) as Hne2.
  { rewrite forallb_forall in *. intros g Hg. rewrite (Hne g Hg). unfold no_tail_star in Hts. rewrite forallb_forall in Hts. apply Hts. exact Hg. }
  (* the walk passes: no path ends at q or above *)
  destruct (ins_all_step true gs _ Hnc Hall Hi) as [_ [_ B]].
  rewrite (B eq_refl Hne2 q), walk_fresh_black in Hw by exact Hok. cbn [andb] in Hw. rewrite negb_true_iff in Hw.
  rewrite (ins_all_pall_black gs _ Hnc Hall Hi Hty Hne2 q), Hw, walk_fresh_black by exact Hok. cbn [negb andb].
  rewrite !andb_true_r.
  assert (starred (path_set gs) q = existsb (fun g => starat g q) gs) as Hs.
  { unfold starred, path_set. change (fun p : spath => star_at p q) with (Fstar q). rewrite existsb_flat_map.
    apply existsb_ext_in. intros g Hg. symmetry. apply starat_expand. apply Hgn. exact Hg. }
  assert (touched (path_set gs) q = existsb (fun g => touchg g q) gs) as Ht.
  { unfold touched, path_set. change (fun p : spath => touches p q) with (Ftouch q). rewrite existsb_flat_map.
    apply existsb_ext_in. intros g Hg. rewrite <- touchesg_expand by (apply Hgn; exact Hg).
    apply touchesg_touchg. destruct (rejg g q) eqn:E; [|reflexivity].
    assert (existsb (fun g1 => rejg g1 q) gs = true) by (apply existsb_exists; exists g; auto). congruence. }
  unfold spec_all. rewrite Hs, Ht. rewrite pall_fresh_black by exact Hok.
  destruct q as [|k q]; [|cbn [andb]; apply orb_comm].
  (* at the root: some path runs through it *)
  assert (existsb (fun g => touchg g []) gs = true) as ->.
  { rewrite Egs. cbn [existsb]. rewrite Egs in Hne. cbn [forallb] in Hne. rewrite andb_true_iff in Hne.
    destruct g0; [destruct Hne; discriminate | reflexivity]. }
  cbn [negb]. rewrite andb_false_r, orb_false_r. reflexivity.
Qed.

Lemma pall_split m q : pall m q = walk m q && all_q (fst (walk_to m q)).
Proof. unfold pall, walk. destruct (walk_to m q) as [c ok]. reflexivity. Qed.

(* All() of the sub mask a passing walk reaches is what the path set prescribes *)
Theorem all_sound env d black strs ps gs m :
  map tokenize strs = map tokens_of ps ->
  well_typed env d ps = true -> elab_all env d ps = Some gs -> in_domain black gs = true ->
  (black = true -> forallb (fun g => nonempty g) gs = true) ->
  new_mask env d black strs = Ok m ->
  forall q, walk (Some m) q = true -> all_q (fst (walk_to (Some m) q)) = spec_all black (path_set gs) q.
Proof.
  intros Htok Hwt He Hdom Hne Hm q Hw. destruct (well_typed_parts _ _ _ Hwt) as [Hok [Hwf _]].
  assert (no_conflict gs = true) as Hnc by (unfold in_domain in Hdom; rewrite andb_true_iff in Hdom; tauto).
  rewrite (build_total_on_D env d black strs ps gs Htok Hwt He Hnc) in Hm. injection Hm as <-.
  pose proof (elab_all_compat_fresh _ _ _ _ He Hwf (switch_ft env d) black) as Hall.
  pose proof (gtyped_elab_all _ _ _ _ He) as Hty.
  assert (pall (Some (built env d black gs)) q = spec_all black (path_set gs) q) as Hp.
  { destruct black; [apply built_pall_black; auto | apply built_pall_white; auto]. }
  rewrite pall_split, Hw in Hp. exact Hp.
Qed.
