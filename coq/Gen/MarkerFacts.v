(* Gen/MarkerFacts.v — the marker syntax of the model (Gen/FileManager.v: ip_prefix, marker,
   ip_char) is what the translator read from plugin/plugin.go and generator/file_manager.go on
   this run (Gen/MarkerTable.v). *)
From Coq Require Import List Bool NArith.
From Coq.Strings Require Import Byte.
From Verif Require Import Base.Bytes Gen.FileManager Gen.MarkerTable.
Import ListNotations.

Definition in_class (cls : list (byte * byte)) (c : byte) : bool :=
  existsb (fun r => (Byte.to_N (fst r) <=? Byte.to_N c)%N && (Byte.to_N c <=? Byte.to_N (snd r))%N) cls.

(* fmt.Sprintf(InsertionPointFormat, ip) *)
Theorem marker_is_source ip : marker ip = src_marker_head ++ [x28] ++ ip ++ [x29].
Proof.
  unfold marker. assert (H : ip_prefix = src_marker_head ++ [x28]) by (vm_compute; reflexivity).
  rewrite H, <- app_assoc. reflexivity.
Qed.

(* the character class of insertReg: a case analysis over all 256 bytes *)
Theorem ip_char_is_source c : ip_char c = in_class src_ip_class c.
Proof. destruct c; vm_compute; reflexivity. Qed.
