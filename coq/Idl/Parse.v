(* Idl/Parse.v — tree layer of the parser model (property C03): recursive descent over
   the tokens of Idl/Lex.v for the productions of /repo/parser/thrift.peg, building
   Idl/Ast.v values the way /repo/parser/parser.go does.

   Whether a word is a keyword is decided by the position, as the PEG's ordered choice
   does: [struct string { 1: i32 list }] is fine.  Mirrored behaviour of the code:
     - per-kind definition lists in source order; duplicate / empty include paths dropped;
     - Annotations.Append groups repeated keys ([anno_append]);
     - implicit field ids: previous + 1, or 1 ([assign_ids]); the sentinel NOTSET =
       -999999 written explicitly counts as "not set"; int32 wrap-around;
     - implicit enum values: previous + 1, or 0 ([assign_enum_values]); int64 wrap-around;
     - fields of a throws list are forced to optional;
     - comments: leading comments of definitions, fields, enum values and functions, and
       for fields and enum values the end-of-line comment when there is no leading one;
       a comment on the line of the previous item belongs to that item (SkipLine);
     - FieldReq has no word-boundary guard (known finding): a word at that position
       that merely STARTS with required / optional is split ([split_req]);
     - a base-type keyword followed by a dot is taken as the base type and the rest
       makes the production fail ([kw_dot]);
     - the empty document (zero bytes) is an empty file (an error before the repair, see
       [parse_unrepaired]).
   Recursion is on explicit fuel (the number of tokens is always enough); running out
   of fuel yields None like a syntax error and is excluded by the theorems' hypotheses.
   Definitions only; the facts are in Idl/ParseFacts.v. *)
From Coq Require Import List Bool NArith ZArith.
From Coq.Strings Require Import Byte String.
From Verif Require Import Base.Bytes Idl.Ast Idl.Lex.
Import ListNotations.

Notation toks := (list (trivia * token)) (only parsing).

(* ---------------------------------------------------------------- vocabulary *)

Definition p_lwing : byte := x7b.  Definition p_rwing : byte := x7d.
Definition p_lpar : byte := x28.   Definition p_rpar : byte := x29.
Definition p_lbrk : byte := x5b.   Definition p_rbrk : byte := x5d.
Definition p_lpoint : byte := x3c. Definition p_rpoint : byte := x3e.
Definition p_comma : byte := x2c.  Definition p_semi : byte := x3b.
Definition p_colon : byte := x3a.  Definition p_eq : byte := x3d.
Definition p_star : byte := x2a.

Definition is_sepc (c : byte) : bool := Byte.eqb c p_comma || Byte.eqb c p_semi.

Definition kw_include := B "include".     Definition kw_cpp_include := B "cpp_include".
Definition kw_namespace := B "namespace". Definition kw_const := B "const".
Definition kw_typedef := B "typedef".     Definition kw_enum := B "enum".
Definition kw_service := B "service".     Definition kw_struct := B "struct".
Definition kw_union := B "union".         Definition kw_exception := B "exception".
Definition kw_extends := B "extends".     Definition kw_oneway := B "oneway".
Definition kw_void := B "void".           Definition kw_throws := B "throws".
Definition kw_map := B "map".             Definition kw_set := B "set".
Definition kw_list := B "list".           Definition kw_cpp_type := B "cpp_type".
Definition kw_required := B "required".   Definition kw_optional := B "optional".

Definition base_kws : list bytes :=
  map B ["bool"; "byte"; "i8"; "i16"; "i32"; "i64"; "double"; "string"; "binary"]%string.

(* every word the grammar treats as a keyword somewhere *)
Definition all_kws : list bytes :=
  [kw_include; kw_cpp_include; kw_namespace; kw_const; kw_typedef; kw_enum; kw_service; kw_struct;
   kw_union; kw_exception; kw_extends; kw_oneway; kw_void; kw_throws; kw_map; kw_set; kw_list;
   kw_cpp_type; kw_required; kw_optional] ++ base_kws.

(* [kw_dot k w]: w is k followed by a dot and more: the PEG terminal for k matches
   (a dot is no LetterOrDigit) and leaves text no production can continue with *)
Definition kw_dot (k w : bytes) : bool := is_prefix (k ++ [c_dot]) w.

(* NOTSET of parser.go *)
Definition NOTSET : Z := (-999999)%Z.

Definition wrap32 (z : Z) : Z := ((z + 2147483648) mod 4294967296 - 2147483648)%Z.
Definition wrap64 (z : Z) : Z := ((z + 9223372036854775808) mod 18446744073709551616 - 9223372036854775808)%Z.

(* ---------------------------------------------------------------- small helpers *)

(* the trivia in front of the next token *)
Definition lead_trivia (ts : toks) (fin : trivia) : trivia :=
  match ts with (tr, _) :: _ => tr | [] => fin end.

(* ReservedComments of an item: everything before it, minus what the SkipLine of the
   previous item consumed (when there is a previous item) *)
Definition lead_comments (first : bool) (tr : trivia) : bytes :=
  comments_of (if first then tr else after_line tr).
(* ReservedEndLineComments: comments up to the end of the line after an item *)
Definition endline_comments (tr : trivia) : bytes := comments_of (same_line tr).
(* end-of-line comment has lower priority than the leading one *)
Definition pick_comments (lead endl : bytes) : bytes :=
  match lead with [] => endl | _ => lead end.

(* ListSeparator? *)
Definition skip_sep (ts : toks) : toks :=
  match ts with
  | (_, TPunct c) :: rest => if is_sepc c then rest else ts
  | _ => ts
  end.

Definition expect_punct (c : byte) (ts : toks) : option toks :=
  match ts with
  | (_, TPunct d) :: rest => if Byte.eqb d c then Some rest else None
  | _ => None
  end.

(* ---------------------------------------------------------------- annotations *)

(* Annotations.Append *)
Fixpoint anno_append (a : annotations) (k v : bytes) : annotations :=
  match a with
  | [] => [Anno k [v]]
  | x :: r => if beqb (an_key x) k then Anno (an_key x) (an_values x ++ [v]) :: r
              else x :: anno_append r k v
  end.

(* the (key, value) pairs of an annotation list in source order, folded by Append *)
Definition annos_of_pairs (l : list (bytes * bytes)) : annotations :=
  fold_left (fun acc kv => anno_append acc (fst kv) (snd kv)) l [].

(* Annotation* RPAR, after LPAR: (Identifier EQUAL Literal ListSeparator?)* *)
Fixpoint parse_anno_pairs (sep_ok : bool) (ts : toks) : option (list (bytes * bytes) * toks) :=
  match ts with
  | (_, TPunct c) :: rest =>
    if Byte.eqb c p_rpar then Some ([], rest)
    else if sep_ok && is_sepc c then parse_anno_pairs false rest
    else None
  | (_, TWord k) :: (_, TPunct e) :: (_, TLit q raw) :: rest =>
    if Byte.eqb e p_eq then
      match parse_anno_pairs true rest with
      | Some (l, rest') => Some ((k, unescape q raw) :: l, rest')
      | None => None
      end
    else None
  | _ => None
  end.

(* Annotations? *)
Definition parse_annos_opt (ts : toks) : option (annotations * toks) :=
  match ts with
  | (_, TPunct c) :: rest =>
    if Byte.eqb c p_lpar then
      match parse_anno_pairs false rest with
      | Some (l, rest') => Some (annos_of_pairs l, rest')
      | None => None
      end
    else Some ([], ts)
  | _ => Some ([], ts)
  end.

(* ---------------------------------------------------------------- types *)

(* after MAP / SET: CppType? LPOINT *)
Definition container_head (ts : toks) : option (bytes * toks) :=
  match ts with
  | (_, TPunct c) :: rest => if Byte.eqb c p_lpoint then Some ([], rest) else None
  | (_, TWord w) :: (_, TLit q raw) :: (_, TPunct c) :: rest =>
    if beqb w kw_cpp_type && Byte.eqb c p_lpoint then Some (unescape q raw, rest) else None
  | _ => None
  end.

(* after the RPOINT of a list: CppType? *)
Definition cpp_type_opt (ts : toks) : bytes * toks :=
  match ts with
  | (_, TWord w) :: (_, TLit q raw) :: rest =>
    if beqb w kw_cpp_type then (unescape q raw, rest) else ([], ts)
  | _ => ([], ts)
  end.

Definition with_annos (mk : annotations -> ty) (ts : toks) : option (ty * toks) :=
  match parse_annos_opt ts with
  | Some (an, rest) => Some (mk an, rest)
  | None => None
  end.

(* FieldType = (ContainerType / BaseType / Identifier) Annotations? *)
Fixpoint parse_type (fuel : nat) (ts : toks) : option (ty * toks) :=
  match fuel with
  | O => None
  | S f =>
    match ts with
    | (_, TWord w) :: rest =>
      let ident :=
        if existsb (fun k => kw_dot k w) base_kws then None
        else with_annos (fun an => ty_plain w None None [] an) rest in
      if beqb w kw_map then
        match container_head rest with
        | Some (cpp, r1) =>
          match parse_type f r1 with
          | Some (k, r2) =>
            match expect_punct p_comma r2 with
            | Some r3 =>
              match parse_type f r3 with
              | Some (v, r4) =>
                match expect_punct p_rpoint r4 with
                | Some r5 => with_annos (fun an => ty_plain kw_map (Some k) (Some v) cpp an) r5
                | None => None
                end
              | None => None
              end
            | None => None
            end
          | None => None
          end
        | None => ident
        end
      else if beqb w kw_set then
        match container_head rest with
        | Some (cpp, r1) =>
          match parse_type f r1 with
          | Some (v, r2) =>
            match expect_punct p_rpoint r2 with
            | Some r3 => with_annos (fun an => ty_plain kw_set None (Some v) cpp an) r3
            | None => None
            end
          | None => None
          end
        | None => ident
        end
      else if beqb w kw_list then
        match expect_punct p_lpoint rest with
        | Some r1 =>
          match parse_type f r1 with
          | Some (v, r2) =>
            match expect_punct p_rpoint r2 with
            | Some r3 =>
              let (cpp, r4) := cpp_type_opt r3 in
              with_annos (fun an => ty_plain kw_list None (Some v) cpp an) r4
            | None => None
            end
          | None => None
          end
        | None => ident
        end
      else ident
    | _ => None
    end
  end.

(* ---------------------------------------------------------------- constant values *)

(* ConstValue = Double / Int / Literal / Identifier / ConstList / ConstMap *)
Fixpoint parse_cv (fuel : nat) (ts : toks) : option (const_value * toks) :=
  match fuel with
  | O => None
  | S f =>
    match ts with
    | (_, TDouble s) :: rest => Some (CDouble (double_value s), rest)
    | (_, TInt s) :: rest =>
      match int_value s with Some z => Some (CInt z, rest) | None => None end
    | (_, TLit q raw) :: rest => Some (CLiteral (unescape q raw), rest)
    | (_, TWord w) :: rest => Some (CIdent w None, rest)
    | (_, TPunct c) :: rest =>
      if Byte.eqb c p_lbrk then
        match parse_cv_list f rest with Some (l, rest') => Some (CList l, rest') | None => None end
      else if Byte.eqb c p_lwing then
        match parse_cv_map f rest with Some (l, rest') => Some (CMap l, rest') | None => None end
      else None
    | [] => None
    end
  end
(* (ConstValue ListSeparator?)* RBRK *)
with parse_cv_list (fuel : nat) (ts : toks) : option (list const_value * toks) :=
  match fuel with
  | O => None
  | S f =>
    match expect_punct p_rbrk ts with
    | Some rest => Some ([], rest)
    | None =>
      match parse_cv f ts with
      | Some (v, rest) =>
        match parse_cv_list f (skip_sep rest) with
        | Some (l, rest') => Some (v :: l, rest')
        | None => None
        end
      | None => None
      end
    end
  end
(* (ConstValue COLON ConstValue ListSeparator?)* RWING *)
with parse_cv_map (fuel : nat) (ts : toks) : option (list (const_value * const_value) * toks) :=
  match fuel with
  | O => None
  | S f =>
    match expect_punct p_rwing ts with
    | Some rest => Some ([], rest)
    | None =>
      match parse_cv f ts with
      | Some (k, r1) =>
        match expect_punct p_colon r1 with
        | Some r2 =>
          match parse_cv f r2 with
          | Some (v, r3) =>
            match parse_cv_map f (skip_sep r3) with
            | Some (l, rest') => Some ((k, v) :: l, rest')
            | None => None
            end
          | None => None
          end
        | None => None
        end
      | None => None
      end
    end
  end.

(* ---------------------------------------------------------------- fields *)

(* FieldReq = Skip <'required' / 'optional'> Indent*  — no word-boundary guard: the rest
   of the word, if any, is read as the next identifier *)
Definition split_req (ts : toks) : option (requiredness * toks) :=
  let push (r : bytes) (rest : toks) : option toks :=
    match r with
    | [] => Some rest
    | c :: _ => if is_letter c then Some (([], TWord r) :: rest) else None
    end in
  match ts with
  | (_, TWord w) :: rest =>
    if is_prefix kw_required w then
      match push (skipn (List.length kw_required) w) rest with
      | Some ts' => Some (ReqRequired, ts') | None => None end
    else if is_prefix kw_optional w then
      match push (skipn (List.length kw_optional) w) rest with
      | Some ts' => Some (ReqOptional, ts') | None => None end
    else Some (ReqDefault, ts)
  | _ => Some (ReqDefault, ts)
  end.

(* Field = ReservedComments Skip FieldId? FieldReq? FieldType Identifier (EQUAL ConstValue)?
           Annotations? ListSeparator? ReservedEndLineComments SkipLine
   [first]: no item of the same list precedes.  The id is NOTSET when not written. *)
Definition parse_field (fuel : nat) (first : bool) (ts : toks) (fin : trivia) : option (field * toks) :=
  let lead := lead_comments first (lead_trivia ts fin) in
  let '(id, ts1) :=
    match ts with
    | (_, TInt s) :: (_, TPunct c) :: rest =>
      if Byte.eqb c p_colon then (field_id_value s, rest) else (NOTSET, ts)
    | _ => (NOTSET, ts)
    end in
  match split_req ts1 with
  | None => None
  | Some (req, ts2) =>
    match parse_type fuel ts2 with
    | Some (t, (_, TWord name) :: ts3) =>
      let dflt :=
        match ts3 with
        | (_, TPunct c) :: rest =>
          if Byte.eqb c p_eq then
            match parse_cv fuel rest with
            | Some (v, rest') => Some (Some v, rest')
            | None => None
            end
          else Some (None, ts3)
        | _ => Some (None, ts3)
        end in
      match dflt with
      | None => None
      | Some (d, ts4) =>
        match parse_annos_opt ts4 with
        | None => None
        | Some (an, ts5) =>
          let ts6 := skip_sep ts5 in
          let endl := endline_comments (lead_trivia ts6 fin) in
          Some (Field id name req t d an (pick_comments lead endl), ts6)
        end
      end
    | _ => None
    end
  end.

(* Field* up to the closing token *)
Fixpoint parse_fields (fuel : nat) (first : bool) (closer : byte) (ts : toks) (fin : trivia)
  : option (list field * toks) :=
  match fuel with
  | O => None
  | S f =>
    match expect_punct closer ts with
    | Some rest => Some ([], rest)
    | None =>
      match parse_field f first ts fin with
      | Some (fd, rest) =>
        match parse_fields f false closer rest fin with
        | Some (l, rest') => Some (fd :: l, rest')
        | None => None
        end
      | None => None
      end
    end
  end.

Definition set_id (f : field) (id : Z) : field :=
  Field id (fd_name f) (fd_req f) (fd_type f) (fd_default f) (fd_annos f) (fd_comments f).
Definition set_req (f : field) (r : requiredness) : field :=
  Field (fd_id f) (fd_name f) r (fd_type f) (fd_default f) (fd_annos f) (fd_comments f).

(* implicit ids: previous + 1, or 1 for the first field (parseStruct/Union/Exception,
   addField); [prev] is the id of the previous field *)
Fixpoint assign_ids (prev : option Z) (l : list field) : list field :=
  match l with
  | [] => []
  | f :: r =>
    let id := if Z.eqb (fd_id f) NOTSET
              then match prev with Some p => wrap32 (p + 1) | None => 1%Z end
              else fd_id f in
    set_id f id :: assign_ids (Some id) r
  end.

(* ---------------------------------------------------------------- enums *)

(* one entry: ReservedComments Identifier (EQUAL IntConstant)? Annotations? ListSeparator?
   ReservedEndLineComments SkipLine; the value is None when not written *)
Definition parse_enum_value (first : bool) (ts : toks) (fin : trivia)
  : option ((enum_value * option Z) * toks) :=
  let lead := lead_comments first (lead_trivia ts fin) in
  match ts with
  | (_, TWord name) :: ts1 =>
    let '(val, ts2) :=
      match ts1 with
      | (_, TPunct c) :: (_, TInt s) :: rest =>
        if Byte.eqb c p_eq then (Some (enum_int_value s), rest) else (None, ts1)
      | _ => (None, ts1)
      end in
    match parse_annos_opt ts2 with
    | None => None
    | Some (an, ts3) =>
      let ts4 := skip_sep ts3 in
      let endl := endline_comments (lead_trivia ts4 fin) in
      Some ((EnumValue name 0%Z an (pick_comments lead endl), val), ts4)
    end
  | _ => None
  end.

Fixpoint parse_enum_values (fuel : nat) (first : bool) (ts : toks) (fin : trivia)
  : option (list (enum_value * option Z) * toks) :=
  match fuel with
  | O => None
  | S f =>
    match expect_punct p_rwing ts with
    | Some rest => Some ([], rest)
    | None =>
      match parse_enum_value first ts fin with
      | Some (v, rest) =>
        match parse_enum_values f false rest fin with
        | Some (l, rest') => Some (v :: l, rest')
        | None => None
        end
      | None => None
      end
    end
  end.

(* implicit enum values: previous + 1, or 0 for the first value *)
Fixpoint assign_enum_values (prev : option Z) (l : list (enum_value * option Z)) : list enum_value :=
  match l with
  | [] => []
  | (v, ov) :: r =>
    let x := match ov with
             | Some x => x
             | None => match prev with Some p => wrap64 (p + 1) | None => 0%Z end
             end in
    EnumValue (ev_name v) x (ev_annos v) (ev_comments v) :: assign_enum_values (Some x) r
  end.

(* ---------------------------------------------------------------- functions and services *)

(* Function = ReservedComments Skip ONEWAY? FunctionType Identifier LPAR Field* RPAR Throws?
              Annotations? ListSeparator? SkipLine *)
Definition parse_function (fuel : nat) (first : bool) (ts : toks) (fin : trivia) : option (function * toks) :=
  let lead := lead_comments first (lead_trivia ts fin) in
  let oneway_r :=
    match ts with
    | (_, TWord w) :: rest =>
      if beqb w kw_oneway then Some (true, rest)
      else if kw_dot kw_oneway w then None
      else Some (false, ts)
    | _ => Some (false, ts)
    end in
  match oneway_r with
  | None => None
  | Some (oneway, ts1) =>
    let ftype :=
      match ts1 with
      | (_, TWord w) :: rest =>
        if beqb w kw_void then Some (true, ty_named kw_void, rest)
        else if kw_dot kw_void w then None
        else match parse_type fuel ts1 with
             | Some (t, rest') => Some (false, t, rest')
             | None => None
             end
      | _ => None
      end in
    match ftype with
    | Some (void, t, (_, TWord name) :: ts2) =>
      match expect_punct p_lpar ts2 with
      | None => None
      | Some ts3 =>
        match parse_fields fuel true p_rpar ts3 fin with
        | None => None
        | Some (args, ts4) =>
          let throws_r :=
            match ts4 with
            | (_, TWord w) :: (_, TPunct c) :: rest =>
              if beqb w kw_throws && Byte.eqb c p_lpar then
                match parse_fields fuel true p_rpar rest fin with
                | Some (l, rest') => Some (map (fun f => set_req f ReqOptional) l, rest')
                | None => None
                end
              else Some ([], ts4)
            | _ => Some ([], ts4)
            end in
          match throws_r with
          | None => None
          | Some (throws, ts5) =>
            match parse_annos_opt ts5 with
            | None => None
            | Some (an, ts6) =>
              Some (Function name oneway void t (assign_ids None args) (assign_ids None throws) an lead,
                    skip_sep ts6)
            end
          end
        end
      end
    | _ => None
    end
  end.

Fixpoint parse_functions (fuel : nat) (first : bool) (ts : toks) (fin : trivia)
  : option (list function * toks) :=
  match fuel with
  | O => None
  | S f =>
    match expect_punct p_rwing ts with
    | Some rest => Some ([], rest)
    | None =>
      match parse_function f first ts fin with
      | Some (fn, rest) =>
        match parse_functions f false rest fin with
        | Some (l, rest') => Some (fn :: l, rest')
        | None => None
        end
      | None => None
      end
    end
  end.

(* ---------------------------------------------------------------- definitions *)

Inductive def :=
| DConst (c : constant)
| DTypedef (t : typedef)
| DEnum (e : enum)
| DService (s : service)
| DStructLike (s : struct_like).     (* struct / union / exception by sl_category *)

Definition def_set_annos (d : def) (an : annotations) : def :=
  match d with
  | DConst c => DConst (Constant (co_name c) (co_type c) (co_value c) an (co_comments c))
  | DTypedef t => DTypedef (Typedef (td_type t) (td_alias t) an (td_comments t))
  | DEnum e => DEnum (Enum (en_name e) (en_values e) an (en_comments e))
  | DService s => DService (Service (sv_name s) (sv_extends s) (sv_functions s) an (sv_ref s) (sv_comments s))
  | DStructLike s => DStructLike (StructLike (sl_category s) (sl_name s) (sl_fields s) an (sl_comments s))
  end.

Definition parse_struct_like (fuel : nat) (k : sl_kind) (cm : bytes) (ts : toks) (fin : trivia)
  : option (def * toks) :=
  match ts with
  | (_, TWord name) :: ts1 =>
    match expect_punct p_lwing ts1 with
    | Some ts2 =>
      match parse_fields fuel true p_rwing ts2 fin with
      | Some (fs, ts3) => Some (DStructLike (StructLike k name (assign_ids None fs) [] cm), ts3)
      | None => None
      end
    | None => None
    end
  | _ => None
  end.

(* the body of a definition, after its leading comments were taken; annotations are added
   by the caller (Definition = ... Annotations? SkipLine) *)
Definition parse_def_body (fuel : nat) (cm : bytes) (ts : toks) (fin : trivia) : option (def * toks) :=
  match ts with
  | (_, TWord w) :: ts1 =>
    if beqb w kw_const then
      (* CONST FieldType Identifier EQUAL ConstValue ListSeparator? *)
      match parse_type fuel ts1 with
      | Some (t, (_, TWord name) :: ts2) =>
        match expect_punct p_eq ts2 with
        | Some ts3 =>
          match parse_cv fuel ts3 with
          | Some (v, ts4) => Some (DConst (Constant name t v [] cm), skip_sep ts4)
          | None => None
          end
        | None => None
        end
      | _ => None
      end
    else if beqb w kw_typedef then
      (* TYPEDEF FieldType Identifier *)
      match parse_type fuel ts1 with
      | Some (t, (_, TWord name) :: ts2) => Some (DTypedef (Typedef t name [] cm), ts2)
      | _ => None
      end
    else if beqb w kw_enum then
      (* ENUM Identifier LWING (...)* RWING *)
      match ts1 with
      | (_, TWord name) :: ts2 =>
        match expect_punct p_lwing ts2 with
        | Some ts3 =>
          match parse_enum_values fuel true ts3 fin with
          | Some (vs, ts4) => Some (DEnum (Enum name (assign_enum_values None vs) [] cm), ts4)
          | None => None
          end
        | None => None
        end
      | _ => None
      end
    else if beqb w kw_service then
      (* SERVICE Identifier ( EXTENDS Identifier )? LWING Function* RWING *)
      match ts1 with
      | (_, TWord name) :: ts2 =>
        let ext :=
          match ts2 with
          | (_, TWord e) :: rest =>
            if beqb e kw_extends then
              match rest with
              | (_, TWord base) :: rest' => Some (base, rest')
              | _ => None
              end
            else Some ([], ts2)
          | _ => Some ([], ts2)
          end in
        match ext with
        | Some (base, ts3) =>
          match expect_punct p_lwing ts3 with
          | Some ts4 =>
            match parse_functions fuel true ts4 fin with
            | Some (fns, ts5) => Some (DService (Service name base fns [] None cm), ts5)
            | None => None
            end
          | None => None
          end
        | None => None
        end
      | _ => None
      end
    else if beqb w kw_struct then parse_struct_like fuel SKStruct cm ts1 fin
    else if beqb w kw_union then parse_struct_like fuel SKUnion cm ts1 fin
    else if beqb w kw_exception then parse_struct_like fuel SKException cm ts1 fin
    else None
  | _ => None
  end.

(* Definition = ReservedComments Skip (Const / ... / Exception) Annotations? SkipLine *)
Definition parse_def (fuel : nat) (first : bool) (ts : toks) (fin : trivia) : option (def * toks) :=
  let cm := lead_comments first (lead_trivia ts fin) in
  match parse_def_body fuel cm ts fin with
  | Some (d, ts1) =>
    match ts1 with
    | (_, TPunct c) :: _ =>
      if Byte.eqb c p_lpar then
        match parse_annos_opt ts1 with
        | Some (an, ts2) => Some (def_set_annos d an, ts2)
        | None => None
        end
      else Some (d, ts1)
    | _ => Some (d, ts1)
    end
  | None => None
  end.

(* Definition* up to the end of the input *)
Fixpoint parse_defs (fuel : nat) (first : bool) (ts : toks) (fin : trivia) : option (list def) :=
  match fuel with
  | O => None
  | S f =>
    match ts with
    | [] => Some []
    | _ =>
      match parse_def f first ts fin with
      | Some (d, rest) =>
        match parse_defs f false rest fin with
        | Some l => Some (d :: l)
        | None => None
        end
      | None => None
      end
    end
  end.

(* ---------------------------------------------------------------- headers *)

Inductive header :=
| HInclude (path : bytes)
| HCppInclude (path : bytes)
| HNamespace (n : namespace).

(* Header = Skip (Include / CppInclude / Namespace) SkipLine; None = the next tokens are
   no header (Header* stops), Some None = malformed *)
Definition parse_header (ts : toks) : option (option (header * toks)) :=
  match ts with
  | (_, TWord w) :: ts1 =>
    if beqb w kw_include then
      match ts1 with
      | (_, TLit q raw) :: rest => Some (Some (HInclude (unescape q raw), rest))
      | _ => Some None
      end
    else if beqb w kw_cpp_include then
      match ts1 with
      | (_, TLit q raw) :: rest => Some (Some (HCppInclude (unescape q raw), rest))
      | _ => Some None
      end
    else if beqb w kw_namespace then
      let scope :=
        match ts1 with
        | (_, TPunct c) :: rest => if Byte.eqb c p_star then Some ([p_star], rest) else None
        | (_, TWord l) :: rest => Some (l, rest)
        | _ => None
        end in
      match scope with
      | Some (lang, (_, TWord name) :: ts2) =>
        match parse_annos_opt ts2 with
        | Some (an, ts3) => Some (Some (HNamespace (Namespace lang name an), ts3))
        | None => Some None
        end
      | _ => Some None
      end
    else None
  | _ => None
  end.

Fixpoint parse_headers (fuel : nat) (ts : toks) : option (list header * toks) :=
  match fuel with
  | O => None
  | S f =>
    match parse_header ts with
    | None => Some ([], ts)
    | Some None => None
    | Some (Some (h, rest)) =>
      match parse_headers f rest with
      | Some (l, rest') => Some (h :: l, rest')
      | None => None
      end
    end
  end.

(* ---------------------------------------------------------------- the file *)

(* parseInclude: an empty path is ignored, a repeated path is dropped *)
Fixpoint add_includes (acc : list include) (hs : list header) : list include :=
  match hs with
  | [] => acc
  | HInclude p :: r =>
    if beqb p [] || existsb (fun i => beqb (in_path i) p) acc then add_includes acc r
    else add_includes (acc ++ [Include p None None]) r
  | _ :: r => add_includes acc r
  end.

Definition file_of (filename : bytes) (hs : list header) (ds : list def) : file :=
  File filename
       (add_includes [] hs)
       (flat_map (fun h => match h with HCppInclude p => [p] | _ => [] end) hs)
       (flat_map (fun h => match h with HNamespace n => [n] | _ => [] end) hs)
       (flat_map (fun d => match d with DTypedef t => [t] | _ => [] end) ds)
       (flat_map (fun d => match d with DConst c => [c] | _ => [] end) ds)
       (flat_map (fun d => match d with DEnum e => [e] | _ => [] end) ds)
       (flat_map (fun d => match d with
                           | DStructLike s => match sl_category s with SKStruct => [s] | _ => [] end
                           | _ => [] end) ds)
       (flat_map (fun d => match d with
                           | DStructLike s => match sl_category s with SKUnion => [s] | _ => [] end
                           | _ => [] end) ds)
       (flat_map (fun d => match d with
                           | DStructLike s => match sl_category s with SKException => [s] | _ => [] end
                           | _ => [] end) ds)
       (flat_map (fun d => match d with DService s => [s] | _ => [] end) ds)
       None.

(* Document = Header* Definition* Skip !. over the tokens of the whole input *)
Definition parse_tokens (filename : bytes) (ts : toks) (fin : trivia) : option file :=
  let fuel := S (List.length ts) in
  match parse_headers fuel ts with
  | Some (hs, rest) =>
    match parse_defs fuel (match hs with [] => true | _ => false end) rest fin with
    | Some ds => Some (file_of filename hs ds)
    | None => None
    end
  | None => None
  end.

(* parser.ParseString: None = the parser returns an error *)
Definition parse (filename : bytes) (s : bytes) : option file :=
  match lex s with
  | Some (ts, fin) => parse_tokens filename ts fin
  | None => None
  end.

(* before the repair proposed_fixes/C03-empty-document the zero-byte document was an error *)
Definition parse_unrepaired (filename : bytes) (s : bytes) : option file :=
  match s with
  | [] => None                                   (* "not document" *)
  | _ => parse filename s
  end.
