(* Props/C09.v — property C09: schema evolution — unknown fields are tolerated, and preserved when asked.
   Statements only; proofs are in Wire/UnknownCodecFacts.v, Wire/UnknownEvoFacts.v, Wire/UnknownFacts.v.

   Vocabulary (Wire/Unknown.v): o / n = old / new schema program (Wire.Schema.env); extendsb o n = n is o
   after compatible edits; adapt e t v = the value v seen under schema e (slots e does not have are
   dropped: "restrict"; slots v does not have are what NewX() holds: "with defaults");
   to_wire / read_new = Write / Read of plain generated code (Wire/Std.v); to_wire_keep / read_new_keep =
   the same of code generated with keep_unknown_fields; norm = a value after one Write + Read. *)
From Coq Require Import List ZArith Bool Lia.
From Verif Require Import Base.Bytes Base.BE Wire.TType Wire.WVal Wire.Codec Wire.Schema Wire.Value Wire.Std Wire.StdFacts
  Wire.Unknown Wire.UnknownDomain Wire.UnknownCodecFacts Wire.UnknownEvoFacts Wire.UnknownReadFacts Wire.UnknownFacts
  Wire.UnknownWriteFacts.
Import ListNotations.
Open Scope Z_scope.

(* ---- old code reads new data: no error, every common field keeps its value ---- *)

Theorem C09_old_reads_new : forall o n,
  extendsb o n = true -> wf_env o = true -> wf_env n = true ->
  forall so sn v,
  find_struct o (s_name sn) = Some so -> find_struct n (s_name sn) = Some sn -> wt n sn v = true ->
  exists wfs, to_wire n sn v = Ok (WStruct wfs) /\
              read_new o so (WStruct wfs) = Ok (adapt_struct o so (norm_struct n sn v)).
Proof. exact old_reads_new. Qed.
Print Assumptions C09_old_reads_new.

(* stronger, reader against reader: ANY wire value the new schema can read (fields in any order,
   duplicates, fields neither version knows) is read by the old schema, as the restriction *)
Theorem C09_reads_agree_old : forall o n,
  extendsb o n = true -> wf_env o = true ->
  forall w t v', closed_ty o t = true -> from_w n t w = Ok v' -> from_w o t w = Ok (adapt o t v').
Proof. exact reads_agree_old. Qed.
Print Assumptions C09_reads_agree_old.

(* ---- new code reads old data: added fields take what NewX() gives them (defaults) ---- *)

Theorem C09_new_reads_old : forall o n,
  extendsb o n = true -> wf_env o = true -> wf_env n = true ->
  forall so sn v,
  find_struct o (s_name so) = Some so -> find_struct n (s_name so) = Some sn -> wt o so v = true ->
  exists wfs, to_wire o so v = Ok (WStruct wfs) /\
              read_new n sn (WStruct wfs) = Ok (adapt_struct n sn (norm_struct o so v)).
Proof. exact new_reads_old. Qed.
Print Assumptions C09_new_reads_old.

Theorem C09_reads_agree_new : forall o n,
  extendsb o n = true -> wf_env n = true ->
  forall w t v', closed_ty o t = true -> conforms o t w = true ->
                 from_w o t w = Ok v' -> from_w n t w = Ok (adapt n t v').
Proof. exact reads_agree_new. Qed.
Print Assumptions C09_reads_agree_new.

(* ---- the re-encoder of the unknown-fields extension (unknown.go / binary.go) ---- *)

(* binary.go's reader accepts exactly what the TBinaryProtocol model accepts, with the same result *)
Theorem C09_uwrite_dec : forall f t bs, uwrite f t bs = dec f t bs.
Proof. exact uwrite_dec. Qed.
Print Assumptions C09_uwrite_dec.

(* unknown.read: the protocol encoding when the nesting fits, the depth error exactly otherwise *)
Theorem C09_append_val_spec : forall w d,
  append_val d w = if (depth w <=? d)%nat then Some (enc w) else None.
Proof. exact append_val_spec. Qed.
Print Assumptions C09_append_val_spec.

(* within the limit the kept bytes re-encode to exactly the original field *)
Theorem C09_unknown_reencode_id : forall f,
  wf_field f -> (depth (snd f) <= limit)%nat ->
  exists b, append_field limit f = Some b /\ unknown_fields b = Some [f].
Proof. exact unknown_reencode_id. Qed.
Print Assumptions C09_unknown_reencode_id.

(* a whole buffer: arrival order, nothing dropped, duplicated or reordered *)
Theorem C09_unknown_reencode_many : forall fs,
  Forall wf_field fs -> Forall (fun f => (depth (snd f) <= limit)%nat) fs ->
  exists b, append_all [] fs = Some b /\ unknown_fields b = Some fs.
Proof. exact unknown_reencode_many. Qed.
Print Assumptions C09_unknown_reencode_many.

(* beyond the limit Append fails (the Read fails): nothing is cut off silently *)
Theorem C09_unknown_append_limit : forall f, (limit < depth (snd f))%nat -> append_field limit f = None.
Proof. exact unknown_append_limit. Qed.
Print Assumptions C09_unknown_append_limit.

(* ---- keep_unknown_fields: new -> old -> new ----

   Full statement the property asks for:
       read_new n sn (to_wire_keep o so (read_new_keep o so (to_wire n sn v))) = Ok (norm_struct n sn v)
   for every well-typed v.  The unchanged code does not satisfy it: the old code's Write can refuse
   (C09_keep_roundtrip_refuted below: a union whose only set member is unknown to the old code).
   Proved: whenever the old code's Write does not refuse — which is decided by keep_accepts o n so sn v,
   see C09_keep_write_iff / C09_keep_roundtrip_total below — the bytes decode under the new schema to the
   value — for every pair of programs related by extendsb and every value in the domain
       opt_defaults_ok o n   (Wire/UnknownDomain.v) an optional field of the old program that is already
                          "set" in a fresh NewX() object (a container default) is written by the old code
                          although the new code never sent it: the declared default must read back, under
                          the new schema, as that default (checked by running the models on the default;
                          trivially true when no such field exists: C09_opt_init_unset_defaults_ok),
       keepable n t v     no nil struct pointer in a position where Thrift writes one anyway (such a
                          value is not a fixpoint of write/read even without evolution) and no two map
                          keys that fall together when written (enum keys beyond int32). *)
Theorem C09_keep_roundtrip : forall o n so sn v w x w',
  extendsb o n = true -> wf_env o = true -> wf_env n = true -> opt_defaults_ok o n = true ->
  find_struct o (s_name sn) = Some so -> find_struct n (s_name sn) = Some sn ->
  wt n sn v = true -> keepable n (TRef (s_name sn)) v = true ->
  to_wire n sn v = Ok w -> read_new_keep o so w = KOk x -> to_wire_keep o so x = KOk w' ->
  read_new n sn w' = Ok (norm_struct n sn v).
Proof. exact keep_roundtrip. Qed.
Print Assumptions C09_keep_roundtrip.

(* the same for a value of any type at any nesting depth (list element, map key or value, field) *)
Theorem C09_keep_roundtrip_w : forall o n,
  extendsb o n = true -> wf_env o = true -> wf_env n = true -> opt_defaults_ok o n = true ->
  forall v t key w x,
    wt_val n key t v = true -> keepable n t v = true -> closed_ty o t = true ->
    to_w n t v = Ok w -> from_wk o t w = KOk x ->
    keyrep x = keyrep (norm n t v) /\
    forall w', to_wk o t x = KOk w' -> from_w n t w' = Ok (norm n t v).
Proof. exact keep_roundtrip_w. Qed.
Print Assumptions C09_keep_roundtrip_w.

Theorem C09_keep_roundtrip_refuted :
  exists o n so sn v w x,
    extendsb o n = true /\ wf_env o = true /\ wf_env n = true /\ opt_defaults_ok o n = true /\
    find_struct o (s_name sn) = Some so /\ find_struct n (s_name sn) = Some sn /\
    wt n sn v = true /\ keepable n (TRef (s_name sn)) v = true /\
    to_wire n sn v = Ok w /\ read_new_keep o so w = KOk x /\
    (exists u, assoc_slot 1 (match x with VStruct (_ :: slots) => slots | _ => [] end) = Some u /\ carrying u = true) /\
    to_wire_keep o so x = KErr (KStd (EUnionCount 0)).
Proof. exact keep_union_refuted. Qed.
Print Assumptions C09_keep_roundtrip_refuted.

Theorem C09_opt_init_unset_defaults_ok : forall o n, opt_init_unset o = true -> opt_defaults_ok o n = true.
Proof. exact opt_init_unset_defaults_ok. Qed.
Print Assumptions C09_opt_init_unset_defaults_ok.

(* ---- when does the old code's Write accept what it read?  (Wire/UnknownDomain.v)
   writable e t x: everywhere inside x, every union has exactly one DECLARED member set (members kept
   in the unknown buffer do not count) and no set has two elements that reflect.DeepEqual makes equal;
   slots Write does not emit are not looked at.  These are the two data-dependent refusals of X.Write. ---- *)

(* Write succeeds only on writable objects (any object, any schema) *)
Theorem C09_write_ok_writable : forall e x t w', to_wk e t x = KOk w' -> writable e t x = true.
Proof. exact write_ok_writable. Qed.
Print Assumptions C09_write_ok_writable.

(* the classification: for the object the old code holds after reading what the new code wrote, Write
   succeeds EXACTLY when the object is writable *)
Theorem C09_keep_write_iff : forall o n,
  extendsb o n = true -> wf_env o = true -> wf_env n = true -> opt_defaults_ok o n = true ->
  forall v t key w x,
    wt_val n key t v = true -> keepable n t v = true -> closed_ty o t = true ->
    to_w n t v = Ok w -> from_wk o t w = KOk x ->
    ((exists w', to_wk o t x = KOk w') <-> writable o t x = true).
Proof. exact keep_write_iff. Qed.
Print Assumptions C09_keep_write_iff.

(* and when it refuses, the error is the set check or the union count, never anything else (no
   malformed buffer, no ill-formed object): write_refusal e := e = KStd ESetDup \/ exists c, e = KStd (EUnionCount c) *)
Theorem C09_keep_rewrite_errors : forall o n,
  extendsb o n = true -> wf_env o = true -> wf_env n = true -> opt_defaults_ok o n = true ->
  forall v t key w x e,
    wt_val n key t v = true -> keepable n t v = true -> closed_ty o t = true ->
    to_w n t v = Ok w -> from_wk o t w = KOk x -> to_wk o t x = KErr e -> write_refusal e.
Proof. exact keep_rewrite_errors_w. Qed.
Print Assumptions C09_keep_rewrite_errors.

(* the round trip with decidable hypotheses only: keep_accepts o n so sn v = the object the old code
   holds after reading what the new code wrote for v is writable.  (C09_keep_roundtrip_refuted is the
   case keep_accepts = false: C09_keep_accepts_examples.) *)
Theorem C09_keep_roundtrip_total : forall o n so sn v,
  extendsb o n = true -> wf_env o = true -> wf_env n = true -> opt_defaults_ok o n = true ->
  find_struct o (s_name sn) = Some so -> find_struct n (s_name sn) = Some sn ->
  wt n sn v = true -> keepable n (TRef (s_name sn)) v = true ->
  keep_accepts o n so sn v = true ->
  exists w x w', to_wire n sn v = Ok w /\ read_new_keep o so w = KOk x /\ to_wire_keep o so x = KOk w' /\
                 read_new n sn w' = Ok (norm_struct n sn v).
Proof. exact keep_roundtrip_total. Qed.
Print Assumptions C09_keep_roundtrip_total.

(* chains of any length, decidable hypotheses only, no assumption about any outcome *)
Theorem C09_chain_total : forall o n so sn,
  extendsb o n = true -> wf_env o = true -> wf_env n = true -> opt_defaults_ok o n = true ->
  find_struct o (s_name sn) = Some so -> find_struct n (s_name sn) = Some sn ->
  forall k v, chain_dom_total o n so sn k v -> chain o n so sn k v = KOk (iter_norm n sn k v).
Proof. exact chain_total. Qed.
Print Assumptions C09_chain_total.

Example C09_keep_accepts_examples :
  keep_accepts ex_old ex_new ex_s ex_s ex_v = false /\
  chain_dom_total ex2_old ex2_new ex2_so ex2_sn 3 ex2_v.
Proof. exact keep_accepts_examples. Qed.

(* Read of keep-aware code succeeds whenever plain Read does and the nesting stays within the limit
   (beyond it: C09_unknown_append_limit) *)
Theorem C09_keep_read_total : forall e w t y,
  from_w e t w = Ok y -> (depth w <= limit)%nat -> exists x, from_wk e t w = KOk x.
Proof. exact keep_read_total. Qed.
Print Assumptions C09_keep_read_total.

Theorem C09_keep_reads_new : forall o n so sn v,
  extendsb o n = true -> wf_env o = true -> wf_env n = true ->
  find_struct o (s_name sn) = Some so -> find_struct n (s_name sn) = Some sn -> wt n sn v = true ->
  exists wfs, to_wire n sn v = Ok (WStruct wfs) /\
              ((depth (WStruct wfs) <= limit)%nat -> exists x, read_new_keep o so (WStruct wfs) = KOk x).
Proof. exact keep_reads_new. Qed.
Print Assumptions C09_keep_reads_new.

(* ---- chains new -> old(keep) -> new -> old(keep) -> new ... of ANY length (the property asks for 3) ---- *)
Theorem C09_chain : forall o n so sn,
  extendsb o n = true -> wf_env o = true -> wf_env n = true -> opt_defaults_ok o n = true ->
  find_struct o (s_name sn) = Some so -> find_struct n (s_name sn) = Some sn ->
  forall k v x, chain_dom n sn k v -> chain o n so sn k v = KOk x -> x = iter_norm n sn k v.
Proof. exact chain_any_length. Qed.
Print Assumptions C09_chain.

(* ---- CarryingUnknownFields ---- *)

Theorem C09_carrying_iff : forall x, carrying x = true <-> unknown_of x <> [].
Proof. exact carrying_iff. Qed.
Print Assumptions C09_carrying_iff.

(* after Read into a fresh object: exactly when the input had a field id the schema does not declare *)
Theorem C09_carrying_after_read : forall e s wfs x,
  read_new_keep e s (WStruct wfs) = KOk x -> carrying x = existsb (unknown_to s) wfs.
Proof. exact carrying_after_read. Qed.
Print Assumptions C09_carrying_after_read.

(* ---- the hypotheses are satisfiable, and the chain of length 3 runs on a concrete pair ---- *)

Example C09_domain_inhabited :
  extendsb ex2_old ex2_new = true /\ wf_env ex2_old = true /\ wf_env ex2_new = true /\ opt_defaults_ok ex2_old ex2_new = true /\
  find_struct ex2_old (s_name ex2_sn) = Some ex2_so /\ find_struct ex2_new (s_name ex2_sn) = Some ex2_sn /\
  chain_dom ex2_new ex2_sn 3 ex2_v.
Proof. exact keep_example_domain. Qed.

Example C09_chain3_runs :
  chain ex2_old ex2_new ex2_so ex2_sn 3 ex2_v = KOk (iter_norm ex2_new ex2_sn 3 ex2_v) /\
  (exists w x, to_wire ex2_new ex2_sn ex2_v = Ok w /\ read_new_keep ex2_old ex2_so w = KOk x /\ carrying x = true).
Proof. exact keep_example_chain. Qed.

(* the widened schema condition is met by an optional field with a container default, which the
   earlier condition opt_init_unset excluded *)
Example C09_widened_domain_example :
  opt_init_unset ex3_old = false /\ opt_defaults_ok ex3_old ex3_new = true /\
  extendsb ex3_old ex3_new = true /\ wf_env ex3_old = true /\ wf_env ex3_new = true /\
  chain_dom_total ex3_old ex3_new ex3_so ex3_sn 2 ex3_v /\
  chain ex3_old ex3_new ex3_so ex3_sn 2 ex3_v = KOk (iter_norm ex3_new ex3_sn 2 ex3_v).
Proof. exact widened_domain_example. Qed.
