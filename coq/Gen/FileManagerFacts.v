(* Gen/FileManagerFacts.v — proofs about the model of generator/file_manager.go. *)
From Coq Require Import List Arith Bool Lia NArith.
From Coq.Strings Require Import Byte String.
From Verif Require Import Base.Bytes Gen.FileManager.
Import ListNotations.

(* ---------- the invariant: index domain = file names, names pairwise distinct ---------- *)

Definition Inv (m : fm) : Prop :=
  NoDup (map fst (files m)) /\
  (forall n, lookup n (index m) = None <-> ~ In n (map fst (files m))).

Lemma NoDup_app_single {A} (l : list A) x : NoDup l -> ~ In x l -> NoDup (l ++ [x]).
Proof.
  induction l as [|y l IH]; cbn; intros Hn Hi.
  - constructor; [intros [] | constructor].
  - inversion Hn as [|? ? Hy Hl]; subst. constructor.
    + rewrite in_app_iff. cbn. intros [H|[H|[]]]; [tauto | subst; tauto].
    + apply IH; tauto.
Qed.

Lemma Inv_fm0 : Inv fm0.
Proof. split; cbn; [constructor | intros n; split; auto]. Qed.

Lemma Inv_add_patch m t g : Inv m -> Inv (add_patch m t g).
Proof. intros [H1 H2]; split; cbn; assumption. Qed.

Lemma Inv_add_file m name c : Inv m -> lookup name (index m) = None -> Inv (add_file m name c).
Proof.
  intros [H1 H2] Hn. split; cbn.
  - rewrite map_app. cbn. apply NoDup_app_single; [assumption | apply H2; assumption].
  - intros n. rewrite map_app, in_app_iff. cbn.
    destruct (list_eq_dec Byte.byte_eq_dec name n) as [->|Hne].
    + rewrite lookup_update_same. split; [discriminate | tauto].
    + rewrite lookup_update_other by assumption. rewrite H2. split; [intros H [H'|[H'|[]]]; congruence | tauto].
Qed.

Lemma Inv_set_count_origin m c o :
  Inv m -> Inv (mkfm (files m) (patch m) (index m) c o).
Proof. intros [H1 H2]; split; assumption. Qed.

(* the rename walk only ever answers with a name that is free *)
Lemma probe_fresh fuel : forall m name content idx cnt k rn k',
  probe fuel m name content idx cnt k = Fresh rn k' -> lookup rn (index m) = None.
Proof.
  induction fuel as [|f IH]; intros m name content idx cnt k rn k'; cbn [probe]; [discriminate|].
  destruct (beqb (content_at m idx) content); [discriminate|].
  destruct (k <? cnt).
  - destruct (lookup (renamed name cnt) (index m)) eqn:E.
    + apply IH.
    + intros [= <- _]. exact E.
  - apply IH.
Qed.

(* files only ever grow at the end: nothing is overwritten or merged *)
Definition extends (m m' : fm) : Prop := exists extra, files m' = files m ++ extra.

Lemma extends_refl m : extends m m. Proof. exists []. symmetry; apply app_nil_r. Qed.
Lemma extends_trans a b c : extends a b -> extends b c -> extends a c.
Proof. intros [x Hx] [y Hy]. exists (x ++ y). rewrite Hy, Hx, app_assoc. reflexivity. Qed.

Lemma feed_items_inv fuel : forall m last items m',
  Inv m -> feed_items fuel m last items = Ok m' -> Inv m' /\ extends m m'.
Proof.
  induction fuel as [|f IH]; intros m last items m' HI; cbn; [discriminate|].
  destruct items as [|g rest]; [intros [= <-]; split; [assumption | apply extends_refl]|].
  destruct (g_name g) as [name|].
  - destruct (lookup name (index m)) as [idx|] eqn:El.
    + destruct (negb (beqb (g_ip g) [])).
      * intro H. apply IH in H; [|apply Inv_add_patch; assumption].
        destruct H as [H1 H2]. split; [assumption|].
        eapply extends_trans; [|exact H2]. exists []. cbn. symmetry; apply app_nil_r.
      * destruct (probe _ m name (g_content g) idx 1 (get_count m name)) as [|rn k'|] eqn:Ep; [| |discriminate].
        -- intro H. apply IH in H; assumption.
        -- intro H. apply probe_fresh in Ep.
           apply IH in H.
           ++ destruct H as [H1 H2]. split; [assumption|].
              eapply extends_trans; [|exact H2]. exists [(rn, g_content g)]. reflexivity.
           ++ apply (Inv_set_count_origin (add_file m rn (g_content g))).
              apply Inv_add_file; assumption.
    + destruct (negb (beqb (g_ip g) [])); [discriminate|].
      intro H. apply IH in H; [|apply Inv_add_file; assumption].
      destruct H as [H1 H2]. split; [assumption|].
      eapply extends_trans; [|exact H2]. exists [(name, g_content g)]. reflexivity.
  - destruct (beqb last []); [discriminate|].
    intro H. apply IH in H; [|apply Inv_add_patch; assumption].
    destruct H as [H1 H2]. split; [assumption|].
    eapply extends_trans; [|exact H2]. exists []. cbn. symmetry; apply app_nil_r.
Qed.

Lemma feeds_inv h : forall m m', Inv m -> feeds m h = Ok m' -> Inv m' /\ extends m m'.
Proof.
  induction h as [|x h IH]; intros m m' HI; cbn [feeds].
  - intros [= <-]. split; [assumption | apply extends_refl].
  - destruct (feed m x) as [m1| |] eqn:E; [|discriminate|discriminate].
    unfold feed in E. apply feed_items_inv in E; [|assumption]. destruct E as [E1 E2].
    intro H. apply IH in H; [|assumption]. destruct H as [H1 H2].
    split; [assumption | eapply extends_trans; eassumption].
Qed.

Lemma build_names m : map fst (build m) = map fst (files m).
Proof.
  unfold build. rewrite map_map. apply map_ext. intros [n c]. reflexivity.
Qed.

Lemma output_names_unique h outs : run h = Ok outs -> NoDup (map fst outs).
Proof.
  unfold run. destruct (feeds fm0 h) as [m| |] eqn:E; [|discriminate|discriminate].
  intros [= <-]. rewrite build_names. apply feeds_inv in E; [|apply Inv_fm0]. apply E.
Qed.

(* every file present after some prefix of the history is still there, under the same name,
   at the same position, built from the same submitted content *)
Lemma never_overwritten h1 h2 m1 m2 :
  feeds fm0 h1 = Ok m1 -> feeds m1 h2 = Ok m2 ->
  forall i f, nth_error (files m1) i = Some f -> nth_error (files m2) i = Some f.
Proof.
  intros E1 E2 i f Hn.
  apply feeds_inv in E1; [|apply Inv_fm0]. destruct E1 as [HI _].
  apply feeds_inv in E2; [|assumption]. destruct E2 as [_ [extra ->]].
  rewrite nth_error_app1; [assumption|]. apply nth_error_Some. congruence.
Qed.

Lemma feeds_app h1 : forall h2 m, feeds m (h1 ++ h2) =
  match feeds m h1 with Ok m1 => feeds m1 h2 | Err => Err | Fuel => Fuel end.
Proof.
  induction h1 as [|x h1 IH]; intros h2 m; cbn [feeds app]; [reflexivity|].
  destruct (feed m x); [apply IH | reflexivity | reflexivity].
Qed.

(* ---------- single-step rules (what Feed does with one item) ---------- *)

(* an unnamed item with nothing before it in the same Feed call is an error *)
Lemma unnamed_first_is_error m g rest :
  g_name g = None -> feed m (g :: rest) = Err.
Proof. intro H. unfold feed. cbn. rewrite H. reflexivity. Qed.

(* a named patch whose file does not exist is an error *)
Lemma named_patch_without_target_is_error m n ip c rest :
  ip <> [] -> lookup n (index m) = None -> feed m (Np n ip c :: rest) = Err.
Proof.
  intros Hip Hl. unfold feed. cbn. rewrite Hl.
  assert (beqb ip [] = false) as -> by (apply beqb_false; assumption). reflexivity.
Qed.

(* a file with a new name is appended with exactly its content *)
Lemma new_name_appended f m n c rest last :
  lookup n (index m) = None ->
  feed_items (S f) m last (Fl n c :: rest) = feed_items f (add_file m n c) n rest.
Proof. intro Hl. cbn. rewrite Hl. reflexivity. Qed.

(* a later file with an existing name and identical content is dropped together with the
   unnamed patches that follow it: the state does not change *)
Lemma identical_resubmission_dropped f m n c rest last idx :
  lookup n (index m) = Some idx -> content_at m idx = c ->
  feed_items (S f) m last (Fl n c :: rest) = feed_items f m last (drop_unnamed rest).
Proof.
  intros Hl Hc. cbn. rewrite Hl. cbn.
  replace (get_count m n + List.length (files m) + 2) with (S (get_count m n + List.length (files m) + 1)) by lia.
  cbn. rewrite Hc, beqb_refl. reflexivity.
Qed.

(* with different content it is kept, under a name that no file has yet, with its own content *)
Lemma conflicting_resubmission_kept f m n c rest last idx rn k' :
  lookup n (index m) = Some idx ->
  probe (get_count m n + List.length (files m) + 2) m n c idx 1 (get_count m n) = Fresh rn k' ->
  lookup rn (index m) = None /\
  feed_items (S f) m last (Fl n c :: rest) =
    feed_items f (mkfm (files m ++ [(rn, c)]) (patch m) (update rn (List.length (files m)) (index m))
                       (update n k' (count m)) (update rn n (origin m))) rn rest.
Proof.
  intros Hl Hp. split; [eapply probe_fresh; eassumption|].
  cbn. rewrite Hl. cbn. rewrite Hp. reflexivity.
Qed.

(* ---------- BuildResponse: patches of one point are concatenated in submission order ---------- *)

Definition patch_text (k : bytes) (ps : list gen) : bytes :=
  List.concat (map g_content (filter (fun p => beqb (marker (g_ip p)) k) ps)).

Lemma lookup_add_pair_same pairs k v :
  lookup k (add_pair pairs k v) =
    Some (match lookup k pairs with Some old => old ++ v | None => v end).
Proof. unfold add_pair. destruct (lookup k pairs); apply lookup_update_same. Qed.

Lemma lookup_add_pair_other pairs k k' v :
  k <> k' -> lookup k' (add_pair pairs k v) = lookup k' pairs.
Proof. intro H. unfold add_pair. destruct (lookup k pairs); apply lookup_update_other; assumption. Qed.

Lemma patch_text_cons k p ps :
  patch_text k (p :: ps) =
  (if beqb (marker (g_ip p)) k then g_content p else []) ++ patch_text k ps.
Proof.
  unfold patch_text. cbn [filter]. destruct (beqb (marker (g_ip p)) k); reflexivity.
Qed.

Lemma patch_fold_lookup ps : forall pairs k,
  lookup k (fold_left (fun acc p => add_pair acc (marker (g_ip p)) (g_content p)) ps pairs) =
  match lookup k pairs with
  | Some old => Some (old ++ patch_text k ps)
  | None => if existsb (fun p => beqb (marker (g_ip p)) k) ps then Some (patch_text k ps) else None
  end.
Proof.
  induction ps as [|p ps IH]; intros pairs k; cbn [fold_left existsb].
  - unfold patch_text; cbn [filter map List.concat]. destruct (lookup k pairs); [rewrite app_nil_r|]; reflexivity.
  - rewrite IH, patch_text_cons.
    destruct (beqb (marker (g_ip p)) k) eqn:E.
    + apply beqb_true in E. subst k. rewrite lookup_add_pair_same. cbn [orb].
      destruct (lookup (marker (g_ip p)) pairs); rewrite ?app_assoc; reflexivity.
    + apply beqb_false in E. rewrite lookup_add_pair_other by assumption. cbn [orb app].
      destruct (lookup k pairs); reflexivity.
Qed.

(* ---------- the replacer: text without any key is unchanged ---------- *)

Fixpoint no_key_anywhere (pairs : list (bytes * bytes)) (s : bytes) : Prop :=
  match s with
  | [] => True
  | _ :: r => first_match pairs s = None /\ no_key_anywhere pairs r
  end.

Lemma replace_no_key pairs s : no_key_anywhere pairs s -> replace pairs s = s.
Proof.
  unfold replace. induction s as [|c s IH]; cbn; [reflexivity|].
  intros [H1 H2]. rewrite H1. f_equal. apply IH; assumption.
Qed.

Lemma replace_go_skip pairs : forall n s, replace_go pairs n s = replace_go pairs 0 (skipn n s).
Proof.
  induction n as [|n IH]; intros s; [reflexivity|].
  destruct s as [|c s]; [reflexivity|]. cbn. apply IH.
Qed.

Lemma first_match_prefix pairs s k v : first_match pairs s = Some (k, v) -> exists r, s = k ++ r.
Proof.
  induction pairs as [|[k' v'] pairs IH]; cbn; [discriminate|].
  destruct (is_prefix k' s) eqn:E; [|apply IH].
  intros [= -> ->]. apply is_prefix_spec; assumption.
Qed.

(* text t (free of keys at every position, when followed by k ++ rest) then a key k then rest *)
Lemma replace_step pairs k v rest :
  k <> [] -> first_match pairs (k ++ rest) = Some (k, v) ->
  replace pairs (k ++ rest) = v ++ replace pairs rest.
Proof.
  intros Hk Hm. unfold replace. destruct k as [|c k]; [congruence|].
  cbn [app replace_go]. cbn [app] in Hm. rewrite Hm. f_equal.
  rewrite replace_go_skip. cbn [List.length]. rewrite Nat.sub_succ, Nat.sub_0_r.
  rewrite skipn_app, skipn_all, Nat.sub_diag. reflexivity.
Qed.

Lemma replace_cons_nomatch pairs c s :
  first_match pairs (c :: s) = None -> replace pairs (c :: s) = c :: replace pairs s.
Proof. unfold replace. cbn. intros ->. reflexivity. Qed.

(* a marker found by the scanner is a key of init_pairs, hence every one is replaced *)
Lemma lookup_fold_update_keys ks : forall (acc : list (bytes * bytes)) k,
  In k ks \/ lookup k acc <> None ->
  lookup k (fold_left (fun a x => update x [] a) ks acc) <> None.
Proof.
  induction ks as [|x ks IH]; intros acc k; cbn.
  - intros [[]|H]; assumption.
  - intros H. apply IH.
    destruct (list_eq_dec Byte.byte_eq_dec x k) as [->|Hne].
    + right. rewrite lookup_update_same. discriminate.
    + destruct H as [[H|H]|H]; [congruence | left; assumption | right].
      rewrite lookup_update_other by assumption. assumption.
Qed.

Lemma found_marker_is_key content k :
  In k (find_markers content) -> lookup k (init_pairs content) <> None.
Proof. intro H. unfold init_pairs. apply lookup_fold_update_keys. left; assumption. Qed.
