"""C05 — symbol resolution binds every reference to the definition the IDL names
(semantic/semantic.go, semantic/split.go)."""
import json
import vlib


class S(vlib.Spec):
    prop = "C05"
    design_ref = "DESIGN.md section 3 / C05"
    coq_targets = ["Props/C05.vo", "Corr/C05.vo"]
    props_file = "Props/C05.v"
    harness_pkg = "./cmd/c05"
    harness_name = "c05"
    corr_codes = {1, 9, 11}
    code_names = {
        1: "model and implementation disagree (resolved AST field, error class, or Deref result)",
        2: "a reference is bound to something else than the generator intended",
        3: "permuting the definitions of the files changed the outcome",
        4: "a program broken on purpose (undefined / ambiguous / cyclic ...) was accepted",
        5: "a program that is valid by construction was rejected by resolution",
        7: "Include.Used does not say whether something refers through the include",
        8: "the decidable specification (resolvable, theorem resolve_complete) says the program resolves but the implementation rejected it",
        9: "model out of fuel",
        11: "valid-by-construction program accepted by the implementation although resolvable says no (specification stricter than the code)",
    }
    modelled = ("semantic/semantic.go: ResolveSymbols, resolver.ResolveAST, RegisterNames/AddName, ResolveType, getEnum, "
                "ResolveConstValue, ResolveStructField, ResolveFunction, ResolveBaseService, ResolveTypedefs/ResolveTypedef, Deref; "
                "semantic/split.go: SplitType, SplitValue, IDLPrefix (through Idl/AstUtil.v) -> coq/Idl/Resolve.v; hand-written, tied by "
                "correspondence on every run: every resolution field of every node of every file, error classes, Deref on every type occurrence")
    trusted_base = [
        "hand-written model coq/Idl/Resolve.v (mirrors semantic.go statement by statement; the three deliberate differences — typedef pairs "
        "reduced to the local typedefs, Used computed from the recorded references, include cycles rejected — are listed at the top of the file)",
        "specification coq/Idl/ResolveSpec.v (name_denotes / def_denotes / spec_include / const_denotes / refers_through / te_chain)",
        "harness/astdump (real parser.Thrift -> Idl.Ast term, every field), harness/idlast (Coq printer), harness/resgen (program generator with "
        "intended bindings, mutations), harness/idlgen (renderer, second generator), harness/cmd/c05, harness/casefile, lib/vlib.py",
        "the mapping of Go error texts to 10 error classes (harness/cmd/c05 classOf)",
        "Go front end run as sdk/invoke.go runs it: parser.ParseFile(recursive), parser.CircleDetect, CheckAll (FixWarnings on or off), ResolveSymbols",
    ]
    assumptions = [
        "input of the pass = output of the parser: resolution fields at their zero value (theorem hypothesis parsed_program)",
        "include graphs are acyclic when the pass runs (every thriftgo pipeline calls parser.CircleDetect first); the model answers "
        "ErrIncludeCycle/ErrOutOfFuel on cycles where Go would see an empty name table through the back edge",
        "resolve_complete / enum_fuel_suffices / resolve_const_unique need plain_names (no definition named like a builtin type or containing a dot)",
    ]

    def classify(self, code, case):
        case = case or {}
        if code == 4:
            if case.get("kind") == "corpus":
                return "C05-accepted-" + "-".join(str(case.get("what", "")).lower().split())
            return "C05-broken-program-accepted-class-%s" % case.get("expect")
        if code == 5:
            obs = (case.get("run") or {}).get("obs") or {}
            return "C05-valid-program-rejected-class-%s" % obs.get("class")
        return {2: "C05-binding-differs-from-intent", 3: "C05-outcome-depends-on-definition-order",
                7: "C05-used-mark-wrong", 8: "C05-resolvable-program-rejected"}.get(code, "C05-code-%d" % code)

    def search(self, ctx):
        return None


def run(tier):
    return vlib.standard_run(S(), tier)


def replay(path):
    obj = json.load(open(path))
    print(json.dumps(obj, indent=1)[:6000])
    return 0
