(* Gen/FileManagerSpec.v — the declarative bookkeeping of kept files (the property oracle of
   Corr/C12.v, written without reference to index / count / alias or the rename walk) holds of
   the model on EVERY history:  run h = Ok outs  ->  bookkeeping (file_items h) outs [] = true.
   Walking the submitted file items in order, an item (n, c) is dropped iff an earlier kept item
   has content c and was submitted as n or ended up named n; otherwise it is the next output
   file, named n when no earlier output has that name and under a name no earlier output has. *)
From Coq Require Import List Arith Bool Lia.
From Coq.Strings Require Import Byte.
From Verif Require Import Base.Bytes Gen.FileManager Gen.FileManagerFacts Corr.C12.
Import ListNotations.

Definition kent := (bytes * bytes * bytes)%type.   (* submitted name, final name, content *)
Definition k_sub (k : kent) := fst (fst k).
Definition k_fin (k : kent) := snd (fst k).
Definition k_con (k : kent) := snd k.

Definition idx_of (m : fm) (rn : bytes) : nat :=
  match lookup rn (index m) with Some i => i | None => 0 end.

(* the invariant tying the model state to the declarative list of kept items *)
Record J (m : fm) (K : list kent) : Prop := mkJ {
  j_inv   : Inv m;
  j_files : files m = map (fun k => (k_fin k, k_con k)) (rev K);
  j_idx   : forall n i, lookup n (index m) = Some i -> exists c, nth_error (files m) i = Some (n, c);
  j_sub   : forall k, In k K -> lookup (k_sub k) (index m) <> None;
  j_sib   : forall k, In k K -> k_fin k <> k_sub k ->
              lookup (k_fin k) (origin m) = Some (k_sub k) /\
              exists j, 1 <= j <= get_count m (k_sub k) /\ k_fin k = renamed (k_sub k) j;
  j_alias : forall rn s, lookup rn (origin m) = Some s -> exists c, In (s, rn, c) K
}.

Lemma J_fm0 : J fm0 [].
Proof.
  constructor.
  - apply Inv_fm0.
  - reflexivity.
  - intros n i H. discriminate.
  - intros k [].
  - intros k [].
  - intros rn s H. discriminate.
Qed.

Lemma J_add_patch m K t g : J m K -> J (add_patch m t g) K.
Proof. intros [H1 H2 H3 H4 H5 H6]. constructor; [apply Inv_add_patch; assumption | assumption ..]. Qed.

(* names of files = final names of K *)
Lemma J_names m K : J m K -> map fst (files m) = map k_fin (rev K).
Proof. intros HJ. rewrite (j_files _ _ HJ), map_map. reflexivity. Qed.

Lemma J_fin_in m K k : J m K -> In k K -> lookup (k_fin k) (index m) <> None.
Proof.
  intros HJ Hk. destruct (j_inv _ _ HJ) as [_ H2]. intro Hn. apply H2 in Hn. apply Hn.
  rewrite (J_names _ _ HJ). apply in_map. apply in_rev in Hk. exact Hk.
Qed.

(* an entry of K sits in files at the position its final name is indexed at *)
Lemma J_entry_at m K k : J m K -> In k K ->
  nth_error (files m) (idx_of m (k_fin k)) = Some (k_fin k, k_con k).
Proof.
  intros HJ Hk. unfold idx_of.
  destruct (lookup (k_fin k) (index m)) as [i|] eqn:El; [|exfalso; eapply J_fin_in; eassumption].
  destruct (j_idx _ _ HJ _ _ El) as [c Hc]. rewrite Hc. f_equal. f_equal.
  (* the entry (k_fin k, k_con k) is in files; names are unique *)
  assert (Hin : In (k_fin k, k_con k) (files m)).
  { rewrite (j_files _ _ HJ). apply in_map_iff. exists k. split; [reflexivity | apply in_rev in Hk; exact Hk]. }
  assert (Hin2 : In (k_fin k, c) (files m)) by (eapply nth_error_In; exact Hc).
  destruct (j_inv _ _ HJ) as [Hnd _].
  clear - Hnd Hin Hin2. induction (files m) as [|[a b] l IH]; [destruct Hin|].
  cbn in Hnd. inversion Hnd as [|? ? Hn Hr]; subst.
  destruct Hin as [Hin|Hin], Hin2 as [Hin2|Hin2].
  - congruence.
  - injection Hin as -> ->. exfalso. apply Hn. apply in_map_iff. exists (k_fin k, c). auto.
  - injection Hin2 as -> ->. exfalso. apply Hn. apply in_map_iff. exists (k_fin k, k_con k). auto.
  - apply IH; assumption.
Qed.

Lemma content_at_entry m K k : J m K -> In k K -> content_at m (idx_of m (k_fin k)) = k_con k.
Proof. intros HJ Hk. unfold content_at. rewrite (J_entry_at _ _ _ HJ Hk). reflexivity. Qed.

(* the file indexed under n is an entry of K with final name n *)
Lemma J_entry_of_index m K n i : J m K -> lookup n (index m) = Some i ->
  exists k, In k K /\ k_fin k = n /\ content_at m i = k_con k.
Proof.
  intros HJ Hl. destruct (j_idx _ _ HJ _ _ Hl) as [c Hc].
  assert (Hin : In (n, c) (files m)) by (eapply nth_error_In; exact Hc).
  rewrite (j_files _ _ HJ) in Hin. apply in_map_iff in Hin. destruct Hin as [k [Hk Hin]].
  exists k. injection Hk as <- <-. split; [apply in_rev; exact Hin|]. split; [reflexivity|].
  unfold content_at. rewrite Hc. reflexivity.
Qed.

(* ---------- what the rename walk decides ---------- *)

Definition own_sibling (m : fm) (n rn : bytes) : bool :=
  match lookup rn (origin m) with Some o => beqb o n | None => false end.

Lemma probe_dup fuel : forall m n c idx cnt k,
  probe fuel m n c idx cnt k = Dup ->
  content_at m idx = c \/
  exists j, cnt <= j <= k /\ own_sibling m n (renamed n j) = true /\
            content_at m (idx_of m (renamed n j)) = c.
Proof.
  induction fuel as [|f IH]; intros m n c idx cnt k; cbn [probe]; [discriminate|].
  destruct (beqb (content_at m idx) c) eqn:Ec; [intros _; left; apply beqb_true; exact Ec|].
  destruct (Nat.ltb_spec k cnt) as [Hlt|Hge].
  - destruct (lookup (renamed n cnt) (index m)); [|discriminate].
    intro H. apply IH in H. destruct H as [H|[j [Hj _]]]; [apply beqb_false in Ec; congruence | lia].
  - intro H. apply IH in H. destruct H as [H|[j [Hj [Ho Hcj]]]].
    + (* the index the walk moved to *)
      destruct (lookup (renamed n cnt) (origin m)) as [o|] eqn:Eo.
      * destruct (beqb o n) eqn:Eb.
        -- right. exists cnt. split; [lia|]. split; [unfold own_sibling; rewrite Eo; exact Eb|].
           unfold idx_of. exact H.
        -- apply beqb_false in Ec. congruence.
      * apply beqb_false in Ec. congruence.
    + right. exists j. split; [lia|]. split; assumption.
Qed.

Lemma probe_fresh_facts fuel : forall m n c idx cnt k rn k',
  cnt <= S k ->
  probe fuel m n c idx cnt k = Fresh rn k' ->
  content_at m idx <> c /\
  (forall j, cnt <= j <= k -> own_sibling m n (renamed n j) = true ->
             content_at m (idx_of m (renamed n j)) <> c) /\
  rn = renamed n k' /\ k < k' /\ lookup rn (index m) = None.
Proof.
  induction fuel as [|f IH]; intros m n c idx cnt k rn k' Hck; cbn [probe]; [discriminate|].
  destruct (beqb (content_at m idx) c) eqn:Ec; [discriminate|]. apply beqb_false in Ec.
  destruct (Nat.ltb_spec k cnt) as [Hlt|Hge].
  - destruct (lookup (renamed n cnt) (index m)) eqn:El.
    + intro H. apply IH in H; [|lia]. destruct H as [_ [_ [H3 [H5 H6]]]].
      split; [exact Ec|]. split; [intros j Hj; lia|]. repeat split; try assumption; lia.
    + intros [= <- <-]. split; [exact Ec|]. split; [intros j Hj; lia|].
      assert (cnt = S k) as -> by lia. repeat split; try assumption; lia.
  - intro H. apply IH in H; [|lia]. destruct H as [H1 [H2 [H3 [H5 H6]]]].
    split; [exact Ec|]. split; [|repeat split; assumption].
    intros j Hj Ho. destruct (Nat.eq_dec j cnt) as [->|Hne]; [|apply H2; [lia | exact Ho]].
    (* at j = cnt the walk moved to that sibling and compared it on the next round *)
    unfold own_sibling in Ho. destruct (lookup (renamed n cnt) (origin m)) as [o|] eqn:Eo; [|discriminate].
    rewrite Ho in H1. unfold idx_of. exact H1.
Qed.

(* ---------- bookkeeping, one item at a time ---------- *)

Definition fitems (items : list gen) : list (bytes * bytes) :=
  flat_map (fun g => match g_name g with
                     | Some n => if beqb (g_ip g) [] then [(n, g_content g)] else []
                     | None => [] end) items.

Lemma fitems_drop_unnamed l : fitems (drop_unnamed l) = fitems l.
Proof.
  induction l as [|g r IH]; [reflexivity|]. cbn [drop_unnamed]. destruct (g_name g) eqn:E.
  - reflexivity.
  - rewrite IH. unfold fitems. cbn [flat_map]. rewrite E. reflexivity.
Qed.

Definition hit (n c : bytes) (k : kent) : bool :=
  let '(sub, fin, kc) := k in beqb kc c && (beqb sub n || beqb fin n).
Definition fin_is (x : bytes) (k : kent) : bool := let '(_, f, _) := k in beqb f x.

Lemma bookkeeping_cons n c rest outs K :
  bookkeeping ((n, c) :: rest) outs K =
  if existsb (hit n c) K then bookkeeping rest outs K
  else match outs with
       | [] => false
       | (fin, _) :: outs' =>
         if existsb (fin_is fin) K then false
         else if negb (existsb (fin_is n) K) && negb (beqb fin n) then false
         else bookkeeping rest outs' ((n, fin, c) :: K)
       end.
Proof. reflexivity. Qed.

Lemma hit_true n c K : existsb (hit n c) K = true <->
  exists k, In k K /\ k_con k = c /\ (k_sub k = n \/ k_fin k = n).
Proof.
  rewrite existsb_exists. split.
  - intros [[[s f] kc] [Hin H]]. exists (s, f, kc). split; [exact Hin|]. cbn in H.
    apply andb_true_iff in H. destruct H as [H1 H2]. apply beqb_true in H1. apply orb_true_iff in H2.
    cbn. split; [exact H1|]. destruct H2 as [H2|H2]; apply beqb_true in H2; auto.
  - intros [[[s f] kc] [Hin [H1 H2]]]. exists (s, f, kc). split; [exact Hin|]. cbn in *.
    apply andb_true_iff. split; [apply beqb_true; exact H1|]. apply orb_true_iff.
    destruct H2 as [H2|H2]; [left|right]; apply beqb_true; exact H2.
Qed.

Lemma fin_is_true x K : existsb (fin_is x) K = true <-> exists k, In k K /\ k_fin k = x.
Proof.
  rewrite existsb_exists. split.
  - intros [[[s f] kc] [Hin H]]. exists (s, f, kc). split; [exact Hin|]. cbn in *. apply beqb_true; exact H.
  - intros [[[s f] kc] [Hin H]]. exists (s, f, kc). split; [exact Hin|]. cbn in *. apply beqb_true; exact H.
Qed.

Lemma not_in_files_no_fin m K x : J m K -> lookup x (index m) = None -> existsb (fin_is x) K = false.
Proof.
  intros HJ Hl. destruct (existsb (fin_is x) K) eqn:E; [|reflexivity].
  apply fin_is_true in E. destruct E as [k [Hk Hf]]. exfalso.
  apply (J_fin_in _ _ _ HJ Hk). rewrite Hf. exact Hl.
Qed.

(* J after appending a file under a free name *)
Lemma J_add_new m K n c : J m K -> lookup n (index m) = None -> J (add_file m n c) ((n, n, c) :: K).
Proof.
  intros HJ Hl. destruct HJ as [H1 H2 H3 H4 H5 H6]. constructor; cbn [files index count origin add_file].
  - apply Inv_add_file; assumption.
  - cbn [rev]. rewrite map_app, <- H2. reflexivity.
  - intros x i Hx. destruct (list_eq_dec Byte.byte_eq_dec n x) as [->|Hne].
    + rewrite lookup_update_same in Hx. injection Hx as <-. exists c.
      rewrite nth_error_app2, Nat.sub_diag by lia. reflexivity.
    + rewrite lookup_update_other in Hx by assumption. destruct (H3 _ _ Hx) as [c' Hc'].
      exists c'. rewrite nth_error_app1; [exact Hc' | apply nth_error_Some; congruence].
  - intros k [<-|Hk]; cbn.
    + rewrite lookup_update_same. discriminate.
    + destruct (list_eq_dec Byte.byte_eq_dec n (k_sub k)) as [->|Hne];
        [rewrite lookup_update_same; discriminate | rewrite lookup_update_other by assumption; apply H4; exact Hk].
  - intros k [<-|Hk] Hne; [cbn in Hne; congruence|]. apply H5; assumption.
  - intros rn s Hrn. destruct (H6 _ _ Hrn) as [c' Hc']. exists c'. right. exact Hc'.
Qed.

(* J after keeping a conflicting file under the fresh name the walk chose *)
Lemma J_add_renamed m K n c rn k' :
  J m K -> lookup n (index m) <> None -> lookup rn (index m) = None ->
  rn = renamed n k' -> get_count m n < k' ->
  J (mkfm (files (add_file m rn c)) (patch (add_file m rn c)) (index (add_file m rn c))
          (update n k' (count (add_file m rn c))) (update rn n (origin (add_file m rn c))))
    ((n, rn, c) :: K).
Proof.
  intros HJ Hn Hrn Heq Hk. pose proof (J_add_new m K rn c HJ Hrn) as HA.
  destruct HJ as [H1 H2 H3 H4 H5 H6]. destruct HA as [A1 A2 A3 A4 A5 A6].
  constructor; cbn [files index count origin patch add_file] in *.
  - apply (Inv_set_count_origin (add_file m rn c)). exact A1.
  - cbn [rev]. rewrite map_app, <- H2. reflexivity.
  - exact A3.
  - intros k [<-|Hk']; cbn.
    + destruct (list_eq_dec Byte.byte_eq_dec rn n) as [->|Hne]; [rewrite lookup_update_same; discriminate|].
      rewrite lookup_update_other by assumption. exact Hn.
    + apply (A4 k). right. exact Hk'.
  - intros k [<-|Hk'] Hne; cbn [k_fin k_sub fst snd] in *.
    + split; [apply lookup_update_same|]. exists k'. unfold get_count. cbn [count].
      rewrite lookup_update_same. split; [lia | exact Heq].
    + destruct (H5 k Hk' Hne) as [Ho [j [Hj Hf]]].
      assert (Hfr : k_fin k <> rn).
      { intro E. apply (J_fin_in m K k (mkJ m K H1 H2 H3 H4 H5 H6) Hk'). rewrite E. exact Hrn. }
      split; [rewrite lookup_update_other by congruence; exact Ho|].
      exists j. split; [|exact Hf].
      destruct (list_eq_dec Byte.byte_eq_dec n (k_sub k)) as [E|Hns].
      * rewrite <- E in *. unfold get_count at 1. cbn [count]. rewrite lookup_update_same. lia.
      * unfold get_count. cbn [count]. rewrite lookup_update_other by assumption. exact Hj.
  - intros x s Hx. destruct (list_eq_dec Byte.byte_eq_dec rn x) as [<-|Hne].
    + rewrite lookup_update_same in Hx. injection Hx as <-. exists c. left. reflexivity.
    + rewrite lookup_update_other in Hx by assumption. destruct (H6 _ _ Hx) as [c' Hc']. exists c'. right. exact Hc'.
Qed.

(* one Feed call *)
Lemma feed_items_book fuel : forall m last items m' K,
  J m K -> feed_items fuel m last items = Ok m' ->
  exists K', J m' K' /\
    forall rest (new_outs tail : list (bytes * bytes)),
      map fst new_outs = map fst (skipn (List.length (files m)) (files m')) ->
      bookkeeping (fitems items ++ rest) (new_outs ++ tail) K = bookkeeping rest tail K'.
Proof.
  induction fuel as [|f IH]; intros m last items m' K HJ; cbn [feed_items]; [discriminate|].
  destruct items as [|g rest0].
  - intros [= <-]. exists K. split; [exact HJ|]. intros rest new_outs tail Hn.
    rewrite skipn_all in Hn. destruct new_outs; [reflexivity | discriminate].
  - unfold fitems at 1. cbn [flat_map]. fold (fitems rest0).
    destruct (g_name g) as [n|] eqn:En.
    + destruct (lookup n (index m)) as [idx|] eqn:El.
      * destruct (beqb (g_ip g) []) eqn:Eip; cbn [negb].
        -- (* a file with an existing name *)
           destruct (probe _ m n (g_content g) idx 1 (get_count m n)) as [|rn k'|] eqn:Ep; [| |discriminate].
           ++ (* dropped *)
              intro H. rewrite <- (fitems_drop_unnamed rest0).
              destruct (IH _ _ _ _ _ HJ H) as [K' [HJ' Hb]]. exists K'. split; [exact HJ'|].
              intros rest new_outs tail Hn. cbn [app]. rewrite bookkeeping_cons.
              assert (Hhit : existsb (hit n (g_content g)) K = true).
              { apply hit_true. apply probe_dup in Ep. destruct Ep as [Hc|[j [Hj [Ho Hc]]]].
                - destruct (J_entry_of_index _ _ _ _ HJ El) as [k [Hk [Hf Hcc]]].
                  exists k. split; [exact Hk|]. split; [congruence | right; exact Hf].
                - unfold own_sibling in Ho. destruct (lookup (renamed n j) (origin m)) as [o|] eqn:Eo; [|discriminate].
                  apply beqb_true in Ho. subst o. destruct (j_alias _ _ HJ _ _ Eo) as [c' Hc'].
                  exists (n, renamed n j, c'). split; [exact Hc'|]. split; [|left; reflexivity].
                  rewrite <- (content_at_entry _ _ _ HJ Hc'). exact Hc. }
              rewrite Hhit. apply Hb. exact Hn.
           ++ (* kept under a fresh name *)
              intro H.
              apply probe_fresh_facts in Ep; [|lia]. destruct Ep as [P1 [P2 [P3 [P4 P5]]]].
              assert (Hn0 : lookup n (index m) <> None) by congruence.
              pose proof (J_add_renamed m K n (g_content g) rn k' HJ Hn0 P5 P3 P4) as HJ2.
              destruct (IH _ _ _ _ _ HJ2 H) as [K' [HJ' Hb]]. exists K'. split; [exact HJ'|].
              intros rest new_outs tail Hn. cbn [app]. rewrite bookkeeping_cons.
              assert (Hat : forall k, In k K -> k_fin k = n -> content_at m idx = k_con k).
              { intros k Hk Hf. pose proof (content_at_entry _ _ _ HJ Hk) as E.
                rewrite Hf in E. unfold idx_of in E. rewrite El in E. exact E. }
              assert (Hhit : existsb (hit n (g_content g)) K = false).
              { destruct (existsb (hit n (g_content g)) K) eqn:E; [|reflexivity]. exfalso.
                apply hit_true in E. destruct E as [k [Hk [Hc [Hs|Hf]]]].
                - destruct (list_eq_dec Byte.byte_eq_dec (k_fin k) (k_sub k)) as [Hfs|Hfs].
                  + apply P1. rewrite (Hat k Hk); [exact Hc | congruence].
                  + destruct (j_sib _ _ HJ _ Hk Hfs) as [Ho [j [Hj Hfj]]]. rewrite Hs in *.
                    apply (P2 j); [lia | unfold own_sibling; rewrite <- Hfj, Ho; apply beqb_refl |].
                    rewrite <- Hfj, (content_at_entry _ _ _ HJ Hk). exact Hc.
                - apply P1. rewrite (Hat k Hk Hf). exact Hc. }
              rewrite Hhit.
              (* the next output is the renamed file *)
              assert (Hsk : exists o outs2, new_outs = o :: outs2 /\ fst o = rn /\
                        map fst outs2 = map fst (skipn (List.length (files m) + 1) (files m'))).
              { apply feed_items_inv in H; [|apply (j_inv _ _ HJ2)]. destruct H as [_ [extra He]].
                cbn [files add_file] in He. rewrite He in Hn.
                rewrite <- app_assoc, skipn_app, skipn_all, Nat.sub_diag in Hn. cbn [skipn app] in Hn.
                destruct new_outs as [|o outs2]; [discriminate|]. cbn [map] in Hn. injection Hn as Ho Ht.
                exists o, outs2. split; [reflexivity|]. split; [exact Ho|].
                rewrite He, <- app_assoc. replace (List.length (files m) + 1) with (List.length (files m ++ [(rn, g_content g)])) by (rewrite app_length; reflexivity).
                rewrite app_assoc, skipn_app, skipn_all, Nat.sub_diag. cbn [skipn app]. exact Ht. }
              destruct Hsk as [[on ot] [outs2 [-> [Hon Hrest]]]]. cbn in Hon. subst on. cbn [app].
              rewrite (not_in_files_no_fin _ _ _ HJ P5).
              assert (Hnf : existsb (fin_is n) K = true).
              { apply fin_is_true. destruct (J_entry_of_index _ _ _ _ HJ El) as [k2 [Hk2 [Hf2 _]]]. exists k2. auto. }
              rewrite Hnf. cbn [negb andb]. apply Hb.
              cbn [files add_file]. rewrite app_length. cbn [List.length]. exact Hrest.
        -- (* a named patch: no file item *)
           intro H. cbn [app]. destruct (IH _ _ _ _ _ (J_add_patch _ _ n g HJ) H) as [K' [HJ' Hb]].
           exists K'. split; [exact HJ'|]. exact Hb.
      * destruct (beqb (g_ip g) []) eqn:Eip; cbn [negb]; [|discriminate].
        (* a file with a new name *)
        intro H. pose proof (J_add_new m K n (g_content g) HJ El) as HJ2.
        destruct (IH _ _ _ _ _ HJ2 H) as [K' [HJ' Hb]]. exists K'. split; [exact HJ'|].
        intros rest new_outs tail Hn. cbn [app]. rewrite bookkeeping_cons.
        assert (Hhit : existsb (hit n (g_content g)) K = false).
        { destruct (existsb (hit n (g_content g)) K) eqn:E; [|reflexivity]. exfalso.
          apply hit_true in E. destruct E as [k [Hk [_ [Hs|Hf]]]].
          - apply (j_sub _ _ HJ k Hk). rewrite Hs. exact El.
          - apply (J_fin_in _ _ _ HJ Hk). rewrite Hf. exact El. }
        rewrite Hhit.
        assert (Hsk : exists o outs2, new_outs = o :: outs2 /\ fst o = n /\
                  map fst outs2 = map fst (skipn (List.length (files m) + 1) (files m'))).
        { apply feed_items_inv in H; [|apply (j_inv _ _ HJ2)]. destruct H as [_ [extra He]].
          cbn [files add_file] in He. rewrite He in Hn.
          rewrite <- app_assoc, skipn_app, skipn_all, Nat.sub_diag in Hn. cbn [skipn app] in Hn.
          destruct new_outs as [|o outs2]; [discriminate|]. cbn [map] in Hn. injection Hn as Ho Ht.
          exists o, outs2. split; [reflexivity|]. split; [exact Ho|].
          rewrite He, <- app_assoc. replace (List.length (files m) + 1) with (List.length (files m ++ [(n, g_content g)])) by (rewrite app_length; reflexivity).
          rewrite app_assoc, skipn_app, skipn_all, Nat.sub_diag. cbn [skipn app]. exact Ht. }
        destruct Hsk as [[on ot] [outs2 [-> [Hon Hrest]]]]. cbn in Hon. subst on. cbn [app].
        rewrite (not_in_files_no_fin _ _ _ HJ El). rewrite beqb_refl. cbn [negb andb].
        apply Hb.
        cbn [files add_file]. rewrite app_length. cbn [List.length]. exact Hrest.
    + (* an unnamed patch *)
      destruct (beqb last []); [discriminate|]. intro H. cbn [app].
      destruct (IH _ _ _ _ _ (J_add_patch _ _ last g HJ) H) as [K' [HJ' Hb]].
      exists K'. split; [exact HJ'|]. exact Hb.
Qed.

Lemma file_items_cons x h : file_items (x :: h) = fitems x ++ file_items h.
Proof. reflexivity. Qed.

Lemma feeds_book h : forall m m' K,
  J m K -> feeds m h = Ok m' ->
  exists K', J m' K' /\
    forall rest (new_outs tail : list (bytes * bytes)),
      map fst new_outs = map fst (skipn (List.length (files m)) (files m')) ->
      bookkeeping (file_items h ++ rest) (new_outs ++ tail) K = bookkeeping rest tail K'.
Proof.
  induction h as [|x h IH]; intros m m' K HJ; cbn [feeds].
  - intros [= <-]. exists K. split; [exact HJ|]. intros rest new_outs tail Hn.
    rewrite skipn_all in Hn. destruct new_outs; [reflexivity | discriminate].
  - destruct (feed m x) as [m1| |] eqn:E; [|discriminate|discriminate]. intro H.
    unfold feed in E.
    destruct (feed_items_book _ _ _ _ _ K HJ E) as [K1 [HJ1 Hb1]].
    destruct (IH _ _ _ HJ1 H) as [K' [HJ' Hb2]]. exists K'. split; [exact HJ'|].
    intros rest new_outs tail Hn.
    apply feed_items_inv in E; [|apply (j_inv _ _ HJ)]. destruct E as [_ [e1 He1]].
    apply feeds_inv in H; [|apply (j_inv _ _ HJ1)]. destruct H as [_ [e2 He2]].
    rewrite He2, He1, <- app_assoc, skipn_app, skipn_all, Nat.sub_diag in Hn. cbn [skipn app] in Hn.
    rewrite map_app in Hn.
    (* split the new outputs after the files of the first call *)
    assert (Hsplit : new_outs = firstn (List.length e1) new_outs ++ skipn (List.length e1) new_outs)
      by (symmetry; apply firstn_skipn).
    assert (H1 : map fst (firstn (List.length e1) new_outs) = map fst e1).
    { rewrite <- firstn_map, Hn, firstn_app, map_length, Nat.sub_diag, firstn_all2 by (rewrite map_length; lia).
      cbn. apply app_nil_r. }
    assert (H2 : map fst (skipn (List.length e1) new_outs) = map fst e2).
    { rewrite <- skipn_map, Hn, skipn_app, map_length, Nat.sub_diag, skipn_all2 by (rewrite map_length; lia).
      reflexivity. }
    rewrite Hsplit, file_items_cons, <- !app_assoc.
    rewrite (Hb1 (file_items h ++ rest) _ (skipn (List.length e1) new_outs ++ tail)).
    + apply Hb2. rewrite He2, skipn_app, skipn_all, Nat.sub_diag. cbn [skipn app]. exact H2.
    + rewrite He1, skipn_app, skipn_all, Nat.sub_diag. cbn [skipn app]. exact H1.
Qed.

(* The declarative bookkeeping holds of the model on every history. *)
Theorem model_satisfies_bookkeeping h outs :
  run h = Ok outs -> bookkeeping (file_items h) outs [] = true.
Proof.
  unfold run. destruct (feeds fm0 h) as [m| |] eqn:E; [|discriminate|discriminate].
  intros [= <-].
  destruct (feeds_book h fm0 m [] J_fm0 E) as [K' [_ Hb]].
  pose proof (Hb [] (build m) []) as Hb'. rewrite !app_nil_r in Hb'.
  transitivity (bookkeeping [] [] K'); [|reflexivity].
  apply Hb'. cbn [files fm0 List.length skipn]. apply build_names.
Qed.
