"""C11 — plugins see the compiler's AST and options, and their answers are honoured
(plugin/plugin.go, marshal.go, k-protocol.go, parser/k-AST.go, generator/generator.go Generate)."""
import json
import os
import vlib

RELEASED_GOMOD = """module verif/faultplugin042

go 1.18

require (
	github.com/cloudwego/thriftgo v0.4.2
	verif/harness v0.0.0
)

replace github.com/cloudwego/thriftgo => %s

replace verif/harness => %s
"""


class S(vlib.Spec):
    prop = "C11"
    design_ref = "DESIGN.md section 3 / C11"
    coq_targets = ["Props/C11.vo", "Corr/C11.vo"]
    props_file = "Props/C11.v"
    harness_pkg = "./cmd/c11"
    harness_name = "c11"
    needs_thriftgo = True
    corr_codes = {1, 9}
    code_names = {
        1: "model and implementation disagree", 9: "model out of fuel",
        2: "the request UnmarshalRequest decodes differs from the request that was marshalled",
        3: "the request decoded from compressed includes + trailer differs from the request that was marshalled",
        4: "bytes written by FastAppend do not conform to the schema regenerated from AST.thrift / protocol.thrift",
        5: "generator / plugin parameters or language differ from the command line",
        6: "a failing plugin (exit status, time limit, garbled output, Error) did not make thriftgo fail with non-zero status and no files",
        7: "contents of a good response did not reach the output",
        8: "a warning was not shown",
        10: "the plugin process outlived thriftgo after the time limit",
        11: "the AST thriftgo holds after a compressed send is not the one it had before",
        12: "hasDataTrailerFeature answers differently from 'all requested feature bits are set'",
    }
    modelled = ("plugin/plugin.go ParseCompactArguments, Pack, Lookup split, external.Execute error mapping, appendDataTrailer, hasDataTrailerFeature, "
                "compress/decompress/collectThriftInclude; plugin/marshal.go; Response/Generated.FastRead statement by statement; Request/AST FastAppend+FastRead as "
                "the binary encoding of the schema regenerated from protocol.thrift + AST.thrift; generator.Generate plugin loop -> coq/Gen/Plugin.v "
                "(hand-written, field ids and wire types read from the regenerated coq/Wire/SchemaPlugin.v), tied by correspondence on every run")
    trusted_base = [
        "translator T-thrift (harness/thriftschema + cmd/translate-thrift: real parser + semantic.ResolveSymbols -> Wire.Schema.env term), re-run on every check",
        "hand-written model coq/Gen/Plugin.v; wire codec model coq/Wire/Codec.v (Thrift binary protocol) shared with C02",
        "harness/cmd/c11 (drives MarshalRequest/UnmarshalRequest/UnmarshalResponse, the verif hook plugin/export_verif.go, args.Arguments, and the thriftgo binary), "
        "harness/cmd/faultplugin + harness/faultplug (fault-injecting plugin), harness/reqdump + harness/astdump (field-by-field dump of the Go request) "
        "and its reader parse_request_dump in coq/Corr/C11.v, harness/idlgen (programs), lib/vlib.py",
        "OS behaviour (a process killed at the deadline, exit status propagation, stderr capture) is observed, not proved",
        "github.com/cloudwego/gopkg v0.2.0 BinaryProtocol primitives (ReadString, Skip, ...) as modelled by Wire/Codec.v dec / skip; inputs nested deeper than its "
        "recursion limit (64) and list counts larger than the input are not generated",
    ]
    assumptions = ["out-of-fuel of decompress is excluded by hypothesis (height <= fuel); the check uses fuel = number of files + 1",
                   "checkOptions' nested-struct template rewrite (C20's subject) is not exercised: generated -g strings never enable it"]

    def translators(self, ctx):
        ok, log, b = vlib.go_build("./cmd/translate-thrift", "translate-thrift")
        if not ok:
            raise RuntimeError("translate-thrift build failed: " + log[-2000:])
        rc, out = vlib.sh([b, "-name", "schema_plugin", "-out", os.path.join(vlib.COQ, "Wire", "SchemaPlugin.v"),
                           os.path.join(vlib.REPO, "parser", "AST.thrift"), os.path.join(vlib.REPO, "plugin", "protocol.thrift")])
        if rc != 0:
            raise RuntimeError("T-thrift failed: " + out[-2000:])
        return ["T-thrift: parser/AST.thrift + plugin/protocol.thrift -> coq/Wire/SchemaPlugin.v (" + out.strip().splitlines()[-1] + ")"]

    def producer_args(self, ctx):
        ok, log, local = vlib.go_build("./cmd/faultplugin", "faultplugin-local")
        if not ok:
            raise RuntimeError("faultplugin build failed: " + log[-2000:])
        # the same plugin built in a module that requires thriftgo v0.4.2 (replaced by the tree under
        # test): only such a build is sent compressed includes + trailer
        d = os.path.join(ctx.scratch, "released")
        os.makedirs(d, exist_ok=True)
        open(os.path.join(d, "go.mod"), "w").write(RELEASED_GOMOD % (vlib.REPO, vlib.HARNESS))
        open(os.path.join(d, "main.go"), "w").write('package main\n\nimport "verif/harness/faultplug"\n\nfunc main() { faultplug.Main() }\n')
        released = os.path.join(vlib.BIN, "faultplugin-released")
        with vlib.Lock("go"):
            vlib.harness_prepare()
            open(os.path.join(d, "go.sum"), "w").write(open(os.path.join(vlib.HARNESS, "go.sum")).read())
            rc, out = vlib.sh(["go", "build", "-tags", "verif", "-o", released, "."], cwd=d, timeout=900)
        if rc != 0:
            raise RuntimeError("released faultplugin build failed: " + out[-2000:])
        return ["-seed", str(ctx.seed), "-tier", ctx.tier, "-out", ctx.out, "-thriftgo", ctx.thriftgo,
                "-plugin-released", released, "-plugin-local", local]

    def classify(self, code, case):
        files = (case or {}).get("files") or (case or {}).get("idl_files") or {}
        stublike = any(os.path.basename(n).startswith("THRIFGO_REF:") for n in files)
        if code in (3, 11) and stublike:
            return "C11-stub-like-filename"
        return {2: "C11-unmarshalled-request-differs", 3: "C11-compressed-request-differs",
                4: "C11-bytes-do-not-conform-to-schema", 5: "C11-parameters-differ-from-command-line",
                6: "C11-plugin-failure-not-reported", 7: "C11-contents-not-in-output", 8: "C11-warning-not-shown",
                10: "C11-plugin-outlives-thriftgo", 11: "C11-ast-not-restored-after-compressed-send",
                12: "C11-trailer-feature-test"}.get(code, "C11-code-%d" % code)

    def search(self, ctx):
        return None


def run(tier):
    return vlib.standard_run(S(), tier)


def replay(path):
    obj = json.load(open(path))
    print(json.dumps(obj, indent=1)[:6000])
    return 0
