(* Wire/Masked.v — the generated codec under a field mask (with_field_mask):
   generator/golang/templates/struct.go, the with_field_mask branches of StructLikeWriteField,
   FieldWriteStructLike / Map / Set / List, StructLikeReadField, FieldReadStructLike / Map / Set /
   List, and ZeroWriter of generator/golang/thrift.go — after the repairs C13-1 .. C13-6
   (proposed_fixes/), on top of the standard codec of Wire/Std.v.

   The code consults the mask only through Field(id) / Int(i) / Str(s) (sub mask + "passes")
   and Exist().  The model is therefore written over an abstract SELECTOR

       St, step : St -> qkey -> St * bool, live : St -> bool, top : St

   and instantiated twice: with the field-mask library model of property C14
   (S = option mask, step = Mask.Trie.query, live = exist_q, top = None: the nil mask) and with
   residual path sets (Section PathSets), which is the specification.

     to_wm cfg e st t v          FieldWrite of a value of type t under selector state st; the result
                                 is a RAW wire tree (rw): container headers carry the count the
                                 generated pre-count loop computes, separately from the elements the
                                 filtering loop writes
     to_wire_masked cfg m e s v  X.Write with p._fieldmask = m
     from_wm e st t w            FieldRead under a mask
     from_wire_masked cfg m e s init w   X.Read with p._fieldmask = m into the object init
     restrict rq e st t v        the SPECIFICATION: the value a peer sees, restricted to the
                                 selection (rq says what happens to filtered required fields)
     hdr_count / hdr_loop        the pre-count loop as generated now; old_hdr_count the loop of the
                                 pinned source (bound shrinks while scanning), selected by
                                 [pinned cfg = true] and kept only as the historical witness
   No proofs in this file. *)
From Coq Require Import List ZArith Bool Lia.
From Coq.Strings Require Import Byte.
From Verif Require Import Base.Bytes Base.BE Wire.TType Wire.WVal Wire.Codec Wire.Schema Wire.Value
  Wire.GenTables Wire.Std.
From Verif Require Mask.Path Mask.Desc Mask.Trie Mask.Spec.
Import ListNotations.
Open Scope Z_scope.

Notation mask := Mask.Trie.mask.
Notation qkey := Mask.Trie.qkey.
Notation QF := Mask.Trie.QF.
Notation QI := Mask.Trie.QI.
Notation QS := Mask.Trie.QS.

(* generator options that matter, plus the source version of the list / set pre-count loop *)
Record mcfg := mkcfg {
  halfway : bool;          (* field_mask_halfway: Pass_FieldMask instead of Set_FieldMask; the same
                              on objects whose sub objects carry no mask of their own *)
  zero_required : bool;    (* field_mask_zero_required *)
  pinned : bool            (* true: header count of lists and sets as in the pinned source *)
}.

(* what becomes of a required field that the mask filters *)
Inductive reqmode :=
| RqKeep      (* written with its current value (default) *)
| RqZero      (* written as a zero value (field_mask_zero_required) *)
| RqDrop.     (* reading: skipped, the object keeps what it had *)

Definition wmode (cfg : mcfg) : reqmode := if zero_required cfg then RqZero else RqKeep.

(* ------------------------------------------------------------------ raw wire trees *)

Inductive rw :=
| RV (w : wval)
| RStruct (fs : list (ttype * Z * rw))
| RMap (kt vt : ttype) (cnt : nat) (kvs : list (wval * rw))
| RSet (et : ttype) (cnt : nat) (l : list rw)
| RList (et : ttype) (cnt : nat) (l : list rw).

(* forget the header counts *)
Fixpoint cook (r : rw) : wval :=
  match r with
  | RV w => w
  | RStruct fs => WStruct (map (fun f => (fst f, cook (snd f))) fs)
  | RMap kt vt _ kvs => WMap kt vt (map (fun kv => (fst kv, cook (snd kv))) kvs)
  | RSet et _ l => WSet et (map cook l)
  | RList et _ l => WList et (map cook l)
  end.

(* every header count is the number of elements that follow *)
Fixpoint counts_ok (r : rw) : bool :=
  match r with
  | RV _ => true
  | RStruct fs => forallb (fun f => counts_ok (snd f)) fs
  | RMap _ _ c kvs => (c =? length kvs)%nat && forallb (fun kv => counts_ok (snd kv)) kvs
  | RSet _ c l | RList _ c l => (c =? length l)%nat && forallb counts_ok l
  end.

(* the bytes: WriteXBegin(.., cnt) then the elements *)
Fixpoint enc_r (r : rw) : bytes :=
  match r with
  | RV w => enc w
  | RStruct fs =>
      (fix go (l : list (ttype * Z * rw)) : bytes :=
         match l with
         | [] => [x00]
         | (t, id, x) :: r => put_be 1 (code t) ++ put_be 2 id ++ enc_r x ++ go r
         end) fs
  | RMap kt vt c kvs =>
      put_be 1 (code kt) ++ put_be 1 (code vt) ++ put_be 4 (Z.of_nat c) ++
      (fix go (l : list (wval * rw)) : bytes :=
         match l with [] => [] | (k, x) :: r => enc k ++ enc_r x ++ go r end) kvs
  | RSet et c l | RList et c l =>
      put_be 1 (code et) ++ put_be 4 (Z.of_nat c) ++
      (fix go (l : list rw) : bytes :=
         match l with [] => [] | x :: r => enc_r x ++ go r end) l
  end.

(* ------------------------------------------------------------------ keys *)

(* IsIntType / IsStrType of the map key type decide which query the generated code uses *)
Inductive kkind := KInt | KStr | KOther.
Definition kkind_of (kt : ty) : kkind :=
  match kt with
  | TByte | TI16 | TI32 | TI64 | TEnum _ => KInt
  | TString | TBinary => KStr
  | _ => KOther
  end.

(* Int(int(k)) / Str(string(k)) / Int(0) *)
Definition map_qkey (kt : ty) (k : value) : qkey :=
  match kkind_of kt with
  | KInt => match k with VInt z => QI z | _ => QI 0 end
  | KStr => match k with VStr s | VBin s => QS s | _ => QI 0 end
  | KOther => QI 0
  end.

Definition idx_key {A} (i : nat) (_ : A) : qkey := QI (Z.of_nat i).

(* ZeroWriter *)
Definition zero_w (e : env) (t : ty) : wval :=
  match t with
  | TBool => WBool false
  | TByte => WByte 0
  | TI16 => WI16 0
  | TI32 | TEnum _ => WI32 0
  | TI64 => WI64 0
  | TDouble => WDouble 0
  | TString | TBinary => WStr []
  | TRef _ => WStruct []
  | TList a => WList (ttype_of e a) []
  | TSet a => WSet (ttype_of e a) []
  | TMap a b => WMap (ttype_of e a) (ttype_of e b) []
  end.

(* what a zero value reads back as (into a fresh object) *)
Definition zero_read (e : env) (t : ty) : value :=
  match t with
  | TBinary => VBin []
  | TList _ | TSet _ => VList []
  | TMap _ _ => VMap []
  | TRef n => match find_struct e n with Some s => new_struct e s | None => VNil end
  | _ => zero_val t
  end.

(* field_mask_zero_required writes an empty struct for a filtered required field of struct type:
   a peer can read it only if that struct has no required field *)
Definition zero_okb (e : env) : bool :=
  forallb (fun s => forallb (fun f =>
     negb (is_required f) ||
     match f_ty f with
     | TRef n => match find_struct e n with
                 | Some s' => negb (existsb is_required (s_fields s'))
                 | None => false end
     | _ => true end) (s_fields s)) (structs e).

(* ------------------------------------------------------------------ the codec over a selector *)

Section Selector.
  Variable St : Type.
  Variable step : St -> qkey -> St * bool.   (* Field / Int / Str: sub mask, passes *)
  Variable live : St -> bool.               (* Exist() *)
  Variable top : St.                       (* the nil mask *)

  Section Sel.
    Context {A B : Type}.
    Variable key : nat -> A -> result qkey.
    Variable st : St.
    Variable f : St -> A -> result B.
    (* the filtering loop: ask, skip or handle with the sub mask *)
    Fixpoint mapM_sel (i : nat) (l : list A) : result (list B) :=
      match l with
      | [] => Ok []
      | x :: r =>
          match key i x with
          | Err er => Err er
          | Ok k =>
              if snd (step st k) then
                match f (fst (step st k)) x with
                | Err er => Err er
                | Ok y => match mapM_sel (S i) r with Err er => Err er | Ok ys => Ok (y :: ys) end
                end
              else mapM_sel (S i) r
          end
      end.
  End Sel.

  Section Pure.
    Context {A B : Type}.
    Variable key : nat -> A -> qkey.
    Variable st : St.
    Variable g : St -> A -> B.
    Fixpoint sel_map (i : nat) (l : list A) : list B :=
      match l with
      | [] => []
      | x :: r => if snd (step st (key i x)) then g (fst (step st (key i x))) x :: sel_map (S i) r
                  else sel_map (S i) r
      end.
    (* the pre-count loop as generated now:  l := len(x); for every element: if !ex { l-- } *)
    Fixpoint hdr_loop (i : nat) (l : list A) (c : nat) : nat :=
      match l with
      | [] => c
      | x :: r => hdr_loop (S i) r (if snd (step st (key i x)) then c else pred c)
      end.
    Definition hdr_count (l : list A) : nat :=
      if live st then hdr_loop 0 l (length l) else length l.
  End Pure.

  (* the pre-count loop of the pinned source, lists and sets:
       if !fm.All() { l := len(x); for i := 0; i < l; i++ { if !ex(i) { l-- } } }
     (the bound is the counter).  [all] is the answer of All(). *)
  Fixpoint old_loop (st : St) (fuel i l : nat) : nat :=
    match fuel with
    | O => l
    | S f =>
        if (i <? l)%nat
        then old_loop st f (S i) (if snd (step st (QI (Z.of_nat i))) then l else pred l)
        else l
    end.
  Definition old_hdr_count (all : bool) (st : St) (n : nat) : nat :=
    if all then n else old_loop st n 0 n.

  Variable all_q : St -> bool.              (* All(): only the pinned pre-count consults it *)

  Definition list_hdr (cfg : mcfg) (st : St) (l : list value) : nat :=
    if pinned cfg then old_hdr_count (all_q st) st (length l) else hdr_count idx_key st l.

  (* maps: integer and string keys are counted with the question the filter asks; the other key
     kinds are filtered through Int(0), the header is all or nothing *)
  Definition map_hdr (kt : ty) (st : St) (kvs : list (value * value)) : nat :=
    match kkind_of kt with
    | KOther => if snd (step st (QI 0)) then length kvs else O
    | _ => hdr_count (fun _ kv => map_qkey kt (fst kv)) st kvs
    end.

  Fixpoint to_wm (cfg : mcfg) (e : env) (st : St) (t : ty) (v : value) {struct v} : result rw :=
    match v with
    | VList l =>
        match t with
        | TList et =>
            bind (mapM_sel (fun i x => Ok (idx_key i x)) st (fun s x => to_wm cfg e s et x) 0 l)
                 (fun xs => Ok (RList (ttype_of e et) (list_hdr cfg st l) xs))
        | TSet et =>
            if set_has_dup l then Err ESetDup else
            bind (mapM_sel (fun i x => Ok (idx_key i x)) st (fun s x => to_wm cfg e s et x) 0 l)
                 (fun xs => Ok (RSet (ttype_of e et) (list_hdr cfg st l) xs))
        | _ => Err EBadValue end
    | VMap kvs =>
        match t with
        | TMap kt vt =>
            bind (mapM_sel (fun _ kv => Ok (map_qkey kt (fst kv))) st
                           (fun s kv => bind (to_w e kt (fst kv)) (fun k =>
                                        bind (to_wm cfg e s vt (snd kv)) (fun x => Ok (k, x)))) 0 kvs)
                 (fun xs => Ok (RMap (ttype_of e kt) (ttype_of e vt) (map_hdr kt st kvs) xs))
        | _ => Err EBadValue end
    | VStruct fs =>
        match t with
        | TRef n =>
          match find_struct e n with
          | Some s =>
              let c := count_set (s_fields s) fs in
              if is_union s && negb (c =? 1)%nat then Err (EUnionCount c) else
              bind (mapM (fun p =>
                      match find_field (fst p) (s_fields s) with
                      | None => Err EBadValue
                      | Some f =>
                          if present f (snd p) then              (* IsSet guard comes first *)
                            let sub := fst (step st (QF (f_id f))) in
                            let ex := snd (step st (QF (f_id f))) in
                            if ex || (is_required f && negb (zero_required cfg)) then
                              (* selected, or required and written anyway with its current value
                                 (the sub mask is dropped when the field is filtered) *)
                              let s' := if ex then sub else top in
                              if base_ptr f then
                                match snd p with
                                | VSome x => bind (to_wm cfg e s' (f_ty f) x)
                                                  (fun x => Ok (Some (ttype_of e (f_ty f), f_id f, x)))
                                | _ => Err EBadValue end
                              else bind (to_wm cfg e s' (f_ty f) (snd p))
                                        (fun x => Ok (Some (ttype_of e (f_ty f), f_id f, x)))
                            else if is_required f then
                              Ok (Some (ttype_of e (f_ty f), f_id f, RV (zero_w e (f_ty f))))
                            else Ok None
                          else Ok None
                      end) fs)
                   (fun ofs => Ok (RStruct (cat_somes ofs)))
          | None => Err EUnknownStruct end
        | _ => Err EBadValue end
    | _ => bind (to_w e t v) (fun w => Ok (RV w))
    end.

  (* FieldRead under a mask *)
  Fixpoint from_wm (e : env) (st : St) (t : ty) (w : wval) {struct w} : result value :=
    match w with
    | WList et l =>
        match t with
        | TList a => if ttype_eqb et (ttype_of e a) || (length l =? 0)%nat
                     then bind (mapM_sel (fun i x => Ok (idx_key i x)) st (fun s x => from_wm e s a x) 0 l)
                               (fun xs => Ok (VList xs))
                     else Err EHeader
        | _ => Err EHeader end
    | WSet et l =>
        match t with
        | TSet a => if ttype_eqb et (ttype_of e a) || (length l =? 0)%nat
                    then bind (mapM_sel (fun i x => Ok (idx_key i x)) st (fun s x => from_wm e s a x) 0 l)
                              (fun xs => Ok (VList xs))
                    else Err EHeader
        | _ => Err EHeader end
    | WMap kt vt kvs =>
        match t with
        | TMap a b =>
            if (ttype_eqb kt (ttype_of e a) && ttype_eqb vt (ttype_of e b)) || (length kvs =? 0)%nat then
              bind (mapM_sel (fun _ kv => bind (from_w e a (fst kv)) (fun k => Ok (map_qkey a k))) st
                             (fun s kv => bind (from_w e a (fst kv)) (fun k =>
                                          bind (from_wm e s b (snd kv)) (fun x => Ok (k, x)))) 0 kvs)
                   (fun xs => Ok (VMap (map_build xs)))
            else Err EHeader
        | _ => Err EHeader end
    | WStruct wfs =>
        match t with
        | TRef n =>
          match find_struct e n with
          | Some s =>
              bind (foldM (fun (rs : rstate) (wf : ttype * Z * wval) =>
                             match find_field (snd (fst wf)) (s_fields s) with
                             | Some f =>
                                 if ttype_eqb (fst (fst wf)) (ttype_of e (f_ty f)) then
                                   let seen := if is_required f then f_id f :: snd rs else snd rs in
                                   if snd (step st (QF (f_id f))) then
                                     bind (from_wm e (fst (step st (QF (f_id f)))) (f_ty f) (snd wf)) (fun v =>
                                       Ok (set_field (f_id f) (wrap_slot f v) (fst rs), seen))
                                   else Ok (fst rs, seen)       (* Skip; the caller still sets isset *)
                                 else Ok rs
                             | None => Ok rs
                             end) wfs (new_fields s, []))
                   (finish_read s)
          | None => Err EUnknownStruct end
        | _ => Err EHeader end
    | _ => from_w e t w
    end.

  Definition read_step_m (e : env) (s : sschema) (st : St) (rs : rstate) (wf : ttype * Z * wval) : result rstate :=
    match find_field (snd (fst wf)) (s_fields s) with
    | Some f =>
        if ttype_eqb (fst (fst wf)) (ttype_of e (f_ty f)) then
          let seen := if is_required f then f_id f :: snd rs else snd rs in
          if snd (step st (QF (f_id f))) then
            bind (from_wm e (fst (step st (QF (f_id f)))) (f_ty f) (snd wf)) (fun v =>
              Ok (set_field (f_id f) (wrap_slot f v) (fst rs), seen))
          else Ok (fst rs, seen)
        else Ok rs
    | None => Ok rs
    end.

  Definition from_wire_m (e : env) (s : sschema) (st : St) (init : value) (w : wval) : result value :=
    match init, w with
    | VStruct fs0, WStruct wfs => bind (foldM (read_step_m e s st) wfs (fs0, [])) (finish_read s)
    | _, WStruct _ => Err EBadValue
    | _, _ => Err EHeader
    end.

  (* ---------------------------------------------------------------- the specification

     [restrict rq e st t v]: what a peer holds after the exchange, for the sender's value v.
       - a selected part is what a plain round trip gives (Std.norm), restricted recursively
         with the sub selector;
       - a filtered element / entry is absent; a filtered optional or default field is as in a
         fresh object (init_slot), like a field that was never sent;
       - a filtered REQUIRED field: RqKeep - its current value, whole; RqZero - the zero value;
         RqDrop (reading) - as in a fresh object.
     Map entries are selected by the key the asking side holds: the sender's key when writing,
     the decoded key when reading (they differ only for enum keys outside int32). *)
  Fixpoint restrict (rq : reqmode) (e : env) (st : St) (t : ty) (v : value) {struct v} : value :=
    match v with
    | VInt z => match t with TEnum _ => VInt (wrap32 z) | _ => v end
    | VNil =>
        match t with
        | TBinary => VBin []
        | TList _ | TSet _ => VList []
        | TMap _ _ => VMap []
        | TRef n => match find_struct e n with Some s => new_struct e s | None => VNil end
        | _ => VNil end
    | VList l =>
        match t with
        | TList et | TSet et => VList (sel_map idx_key st (fun s x => restrict rq e s et x) 0 l)
        | _ => v end
    | VMap kvs =>
        match t with
        | TMap kt vt =>
            VMap (map_build (sel_map (fun _ kv => map_qkey kt (match rq with RqDrop => norm e kt (fst kv) | _ => fst kv end))
                                     st (fun s kv => (norm e kt (fst kv), restrict rq e s vt (snd kv))) 0 kvs))
        | _ => v end
    | VStruct fs =>
        match t with
        | TRef n =>
          match find_struct e n with
          | Some s =>
              VStruct (map (fun p =>
                 match find_field (fst p) (s_fields s) with
                 | Some f =>
                     if present f (snd p) then
                       let sub := fst (step st (QF (f_id f))) in
                       let ex := snd (step st (QF (f_id f))) in
                       if ex || (is_required f && match rq with RqKeep => true | _ => false end) then
                         let s' := if ex then sub else top in
                         (fst p, if base_ptr f
                                 then match snd p with VSome x => VSome (restrict rq e s' (f_ty f) x) | o => o end
                                 else restrict rq e s' (f_ty f) (snd p))
                       else if is_required f && match rq with RqZero => true | _ => false end then
                         (fst p, wrap_slot f (zero_read e (f_ty f)))
                       else (fst p, init_slot f)
                     else (fst p, init_slot f)
                 | None => p end) fs)
          | None => v end
        | _ => v end
    | _ => v
    end.

  (* conjunction of the answers along a key sequence *)
  Fixpoint gwalk (st : St) (q : list qkey) : bool :=
    match q with
    | [] => true
    | k :: r => snd (step st k) && gwalk (fst (step st k)) r
    end.
End Selector.

(* ------------------------------------------------------------------ instance: the field-mask library *)

Definition mquery : option mask -> qkey -> option mask * bool := Mask.Trie.query.
Definition mlive : option mask -> bool := Mask.Trie.exist_q.
Definition mall : option mask -> bool := Mask.Trie.all_q.

Definition to_wm_mask := to_wm (option mask) mquery mlive None mall.
Definition from_wm_mask := from_wm (option mask) mquery.
Definition restrict_mask := restrict (option mask) mquery None.

(* X.Write with p._fieldmask = m *)
Definition to_wire_masked (cfg : mcfg) (m : option mask) (e : env) (s : sschema) (v : value) : result rw :=
  to_wm_mask cfg e m (TRef (s_name s)) v.

(* X.Read with p._fieldmask = m into init *)
Definition from_wire_masked (cfg : mcfg) (m : option mask) (e : env) (s : sschema) (init : value) (w : wval)
  : result value := from_wire_m (option mask) mquery e s m init w.

Definition read_new_masked (cfg : mcfg) (m : option mask) (e : env) (s : sschema) (w : wval) : result value :=
  from_wire_masked cfg m e s (new_struct e s) w.

Definition write_bytes_masked (cfg : mcfg) (m : option mask) (e : env) (s : sschema) (v : value) : result bytes :=
  bind (to_wire_masked cfg m e s v) (fun r => Ok (enc_r r)).

Definition read_bytes_masked (cfg : mcfg) (m : option mask) (e : env) (s : sschema) (init : value) (bs : bytes)
  : result value :=
  match dec_struct bs with
  | Some (w, _) => from_wire_masked cfg m e s init w
  | None => Err EDecode
  end.

(* ------------------------------------------------------------------ the descriptor the library sees *)

(* TypeDescriptor after unwrapDesc, from the resolved schema: IsStruct holds for structs only
   (unions and exceptions have no FieldMaskType: switchFt gives FtInvalid) *)
From Coq Require Import String.
Definition base_name (t : ty) : bytes :=
  match t with
  | TBool => B "bool"%string | TByte => B "byte"%string | TI16 => B "i16"%string | TI32 => B "i32"%string | TI64 => B "i64"%string
  | TDouble => B "double"%string | TString => B "string"%string | TBinary => B "binary"%string | _ => []
  end.

Fixpoint dty_of (e : env) (t : ty) : Mask.Desc.ty :=
  match t with
  | TEnum _ => Mask.Desc.TyEnum
  | TRef n => match find_struct e n with
              | Some s => match s_kind s with KStruct => Mask.Desc.TyStruct n | _ => Mask.Desc.TyOther end
              | None => Mask.Desc.TyOther end
  | TList a => Mask.Desc.TyList (dty_of e a)
  | TSet a => Mask.Desc.TySet (dty_of e a)
  | TMap a b => Mask.Desc.TyMap (dty_of e a) (dty_of e b)
  | _ => Mask.Desc.TyBase (base_name t)
  end.

Definition senv_of (e : env) : Mask.Desc.senv :=
  map (fun s => (s_name s, map (fun f => Mask.Desc.mkfield (f_id f) (f_name f) (dty_of e (f_ty f))) (s_fields s)))
      (filter (fun s => match s_kind s with KStruct => true | _ => false end) (structs e)).

(* Options{BlackListMode: black}.NewFieldMask(x.GetTypeDescriptor(), paths...) *)
Definition mask_for (e : env) (s : sschema) (black : bool) (paths : list bytes) : Mask.Trie.res mask :=
  Mask.Trie.new_mask (senv_of e) (dty_of e (TRef (s_name s))) black paths.

(* ------------------------------------------------------------------ instance: residual path sets (the specification) *)

Section PathSets.
  Import Mask.Spec.
  Variable black : bool.

  Definition head_matches (k : qkey) (p : spath) : bool :=
    match p with [] => true | s :: _ => seg_matches s k end.

  (* the paths that go on below the element asked for; a path that ended stays ended *)
  Definition deriv (ps : list spath) (k : qkey) : list spath :=
    flat_map (fun p => match p with
                       | [] => [[]]
                       | s :: r => if seg_matches s k then [r] else [] end) ps.

  (* white list: a path covers the element or runs through it; no path at all selects everything.
     black list: no path ends at the element or above it. *)
  Definition ps_pass (ps : list spath) (k : qkey) : bool :=
    if black
    then negb (existsb (fun p => match p with [] => true | [s] => seg_matches s k | _ => false end) ps)
    else match ps with [] => true | _ => existsb (head_matches k) ps end.

  Definition ps_step (ps : list spath) (k : qkey) : list spath * bool := (deriv ps k, ps_pass ps k).

  Definition restrict_ps := restrict (list spath) ps_step [].
  Definition ps_walk := gwalk (list spath) ps_step.
End PathSets.
