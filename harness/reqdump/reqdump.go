// Package reqdump writes the harness's field-by-field dump of a plugin.Request (header fields by
// hand, the AST through harness/astdump -> harness/idlast) in a small binary format that
// coq/Corr/C11.v parses (parse_request_dump).  Coq 8.16 elaborates string literals and big list
// literals slowly (about 30 ms per `B "..."`), so the dump travels as bytes, not as a Coq term.
//
//	str   u32 length (big endian) + bytes        z64  8 bytes two's complement
//	u64   8 bytes                                 i32  4 bytes two's complement
//	bool  1 byte 0/1       u8  1 byte             opt X  0 | 1 X        list X  u32 count, X...
//
// The order of the parts is the constructor argument order of coq/Idl/Ast.v.
package reqdump

import (
	"encoding/binary"
	"fmt"

	"github.com/cloudwego/thriftgo/plugin"

	"verif/harness/astdump"
	"verif/harness/idlast"
)

type W struct{ b []byte }

func (w *W) Bytes() []byte { return w.b }
func (w *W) u8(v byte)     { w.b = append(w.b, v) }
func (w *W) u32(v int)     { w.b = binary.BigEndian.AppendUint32(w.b, uint32(v)) }
func (w *W) i32(v int32)   { w.b = binary.BigEndian.AppendUint32(w.b, uint32(v)) }
func (w *W) u64(v uint64)  { w.b = binary.BigEndian.AppendUint64(w.b, v) }
func (w *W) z64(v int64)   { w.b = binary.BigEndian.AppendUint64(w.b, uint64(v)) }
func (w *W) str(s string)  { w.u32(len(s)); w.b = append(w.b, s...) }
func (w *W) boolean(v bool) {
	if v {
		w.u8(1)
	} else {
		w.u8(0)
	}
}
func (w *W) optBool(v *bool) {
	if v == nil {
		w.u8(0)
		return
	}
	w.u8(1)
	w.boolean(*v)
}
func (w *W) strs(l []string) {
	w.u32(len(l))
	for _, s := range l {
		w.str(s)
	}
}
func (w *W) bs(l []idlast.B) {
	w.u32(len(l))
	for _, s := range l {
		w.str(string(s))
	}
}

func (w *W) reference(r *idlast.Reference) {
	if r == nil {
		w.u8(0)
		return
	}
	w.u8(1)
	w.str(string(r.Name))
	w.i32(r.Index)
}

func (w *W) annos(as idlast.Annotations) {
	w.u32(len(as))
	for _, a := range as {
		w.str(string(a.Key))
		w.bs(a.Values)
	}
}

func (w *W) optType(t *idlast.Type) {
	if t == nil {
		w.u8(0)
		return
	}
	w.u8(1)
	w.typ(t)
}

func (w *W) typ(t *idlast.Type) {
	w.str(string(t.Name))
	w.optType(t.KeyType)
	w.optType(t.ValueType)
	w.str(string(t.CppType))
	w.annos(t.Annotations)
	w.u8(byte(t.Category))
	w.reference(t.Reference)
	w.optBool(t.IsTypedef)
}

func (w *W) constValue(c *idlast.ConstValue) {
	w.u8(byte(c.Kind))
	switch c.Kind {
	case idlast.ConstDouble:
		w.u64(c.DoubleBits)
	case idlast.ConstInt:
		w.z64(c.Int)
	case idlast.ConstLiteral:
		w.str(string(c.Literal))
	case idlast.ConstIdentifier:
		w.str(string(c.Identifier))
		if e := c.Extra; e != nil {
			w.u8(1)
			w.boolean(e.IsEnum)
			w.i32(e.Index)
			w.str(string(e.Name))
			w.str(string(e.Sel))
		} else {
			w.u8(0)
		}
	case idlast.ConstList:
		w.u32(len(c.List))
		for _, x := range c.List {
			w.constValue(x)
		}
	case idlast.ConstMap:
		w.u32(len(c.Map))
		for _, kv := range c.Map {
			w.constValue(kv.Key)
			w.constValue(kv.Value)
		}
	}
}

func (w *W) fields(fs []*idlast.Field) {
	w.u32(len(fs))
	for _, f := range fs {
		w.i32(f.ID)
		w.str(string(f.Name))
		w.u8(byte(f.Requiredness))
		w.typ(f.Type)
		if f.Default != nil {
			w.u8(1)
			w.constValue(f.Default)
		} else {
			w.u8(0)
		}
		w.annos(f.Annotations)
		w.str(string(f.Comments))
	}
}

func (w *W) structLikes(ss []*idlast.StructLike) {
	w.u32(len(ss))
	for _, s := range ss {
		w.u8(byte(s.Category))
		w.str(string(s.Name))
		w.fields(s.Fields)
		w.annos(s.Annotations)
		w.str(string(s.Comments))
	}
}

// File writes one file of a program.
func (w *W) File(f *idlast.File) {
	w.str(string(f.Filename))
	w.u32(len(f.Includes))
	for _, i := range f.Includes {
		w.str(string(i.Path))
		if i.Ref != nil {
			w.u8(1)
			w.str(string(*i.Ref))
		} else {
			w.u8(0)
		}
		w.optBool(i.Used)
	}
	w.bs(f.CppIncludes)
	w.u32(len(f.Namespaces))
	for _, n := range f.Namespaces {
		w.str(string(n.Language))
		w.str(string(n.Name))
		w.annos(n.Annotations)
	}
	w.u32(len(f.Typedefs))
	for _, t := range f.Typedefs {
		w.typ(t.Type)
		w.str(string(t.Alias))
		w.annos(t.Annotations)
		w.str(string(t.Comments))
	}
	w.u32(len(f.Constants))
	for _, c := range f.Constants {
		w.str(string(c.Name))
		w.typ(c.Type)
		w.constValue(c.Value)
		w.annos(c.Annotations)
		w.str(string(c.Comments))
	}
	w.u32(len(f.Enums))
	for _, e := range f.Enums {
		w.str(string(e.Name))
		w.u32(len(e.Values))
		for _, v := range e.Values {
			w.str(string(v.Name))
			w.z64(v.Value)
			w.annos(v.Annotations)
			w.str(string(v.Comments))
		}
		w.annos(e.Annotations)
		w.str(string(e.Comments))
	}
	w.structLikes(f.Structs)
	w.structLikes(f.Unions)
	w.structLikes(f.Exceptions)
	w.u32(len(f.Services))
	for _, s := range f.Services {
		w.str(string(s.Name))
		w.str(string(s.Extends))
		w.u32(len(s.Functions))
		for _, fn := range s.Functions {
			w.str(string(fn.Name))
			w.boolean(fn.Oneway)
			w.boolean(fn.Void)
			w.typ(fn.FunctionType)
			w.fields(fn.Arguments)
			w.fields(fn.Throws)
			w.annos(fn.Annotations)
			w.str(string(fn.Comments))
		}
		w.annos(s.Annotations)
		w.reference(s.Reference)
		w.str(string(s.Comments))
	}
	if f.HasName2Cat {
		w.u8(1)
		w.u32(len(f.Name2Cat))
		for _, nc := range f.Name2Cat {
			w.str(string(nc.Name))
			w.u8(byte(nc.Category))
		}
	} else {
		w.u8(0)
	}
}

// Program writes a whole program (main file first).
func (w *W) Program(p idlast.Program) {
	w.u32(len(p))
	for _, e := range p {
		w.File(e.File)
	}
}

// Request dumps a request field by field. The AST goes through astdump.ProgramChecked, which
// refuses shapes coq/Idl/Ast.v cannot express (reported as an error, never guessed).
func Request(req *plugin.Request) (out []byte, err error) {
	defer func() {
		if r := recover(); r != nil {
			err = fmt.Errorf("reqdump: %v", r)
		}
	}()
	if req == nil || req.AST == nil {
		return nil, fmt.Errorf("reqdump: nil request or AST")
	}
	prog, err := astdump.ProgramChecked(req.AST)
	if err != nil {
		return nil, err
	}
	w := &W{}
	w.str(req.Version)
	w.strs(req.GeneratorParameters)
	w.strs(req.PluginParameters)
	w.str(req.Language)
	w.str(req.OutputPath)
	w.boolean(req.Recursive)
	w.Program(prog)
	return w.b, nil
}

// Response dumps a response: opt str error; opt list (str content, opt str name, opt str ip); opt list str.
func Response(res *plugin.Response) []byte {
	w := &W{}
	if res.Error != nil {
		w.u8(1)
		w.str(*res.Error)
	} else {
		w.u8(0)
	}
	if res.Contents != nil {
		w.u8(1)
		w.u32(len(res.Contents))
		for _, g := range res.Contents {
			if g == nil {
				g = &plugin.Generated{}
			}
			w.str(g.Content)
			for _, p := range []*string{g.Name, g.InsertionPoint} {
				if p != nil {
					w.u8(1)
					w.str(*p)
				} else {
					w.u8(0)
				}
			}
		}
	} else {
		w.u8(0)
	}
	if res.Warnings != nil {
		w.u8(1)
		w.strs(res.Warnings)
	} else {
		w.u8(0)
	}
	return w.b
}
