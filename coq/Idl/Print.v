(* Idl/Print.v — layout-parameterised printer of IDL files (property C03).

   Printing is split so that every layout choice is local to one token:

     protos_file : file -> list ptok      the ABSTRACT token sequence of a file; it
                                          contains no choice at all
     conc : list ptok -> list token -> Prop
                                          the concrete token sequences an abstract one
                                          may be written as: any spelling of an integer
                                          or double with the right value, either quote
                                          character and any raw text that unescapes to the
                                          literal, the optional list separator written
                                          as ',' ';' or not at all, an implicit field id /
                                          enum value written or left out, "()" for an
                                          empty annotation list, the requiredness keyword
                                          of a throws field
     render : layout -> file -> bytes     an executable instance: the layout chooses,
                                          for the i-th abstract token, the trivia
                                          (blanks and comments) in front of it and its
                                          concrete spelling

   [wf_file] is the domain: the files that are the parse of some document and that the
   token-level grammar can express (see Idl/PrintFacts.v for the facts).
   Definitions only. *)
From Coq Require Import List Bool NArith ZArith.
From Coq.Strings Require Import Byte String.
From Verif Require Import Base.Bytes Idl.Ast Idl.Lex Idl.Parse.
Import ListNotations.

(* ---------------------------------------------------------------- abstract tokens *)

Inductive ptok :=
| PW (w : bytes)          (* a word: keyword or identifier *)
| PI (z : Z)              (* an integer constant or enum value *)
| PD (bits : N)           (* a double constant *)
| PL (s : bytes)          (* a literal with value s *)
| PP (c : byte)           (* punctuation *)
| PSep                    (* ListSeparator? *)
| PFid (z : Z)            (* a field id that must be written: id ':' *)
| POptFid (z : Z)         (* a field id equal to the implicit one: id ':' or nothing *)
| POptEnumVal (z : Z)     (* an enum value equal to the implicit one: '=' value or nothing *)
| POptEmptyAnnos          (* an empty annotation list: "()" or nothing *)
| PThrowsReq.             (* requiredness keyword of a throws field: nothing, optional, required *)

Inductive conc1 : ptok -> list token -> Prop :=
| conc_w w : conc1 (PW w) [TWord w]
| conc_i z t : int_value t = Some z -> conc1 (PI z) [TInt t]
| conc_d b t : double_value t = b -> conc1 (PD b) [TDouble t]
| conc_l s q raw : unescape q raw = s -> conc1 (PL s) [TLit q raw]
| conc_p c : conc1 (PP c) [TPunct c]
| conc_sep0 : conc1 PSep []
| conc_sep1 c : is_sepc c = true -> conc1 PSep [TPunct c]
| conc_fid z t : field_id_value t = z -> conc1 (PFid z) [TInt t; TPunct p_colon]
| conc_ofid0 z : conc1 (POptFid z) []
| conc_ofid1 z t : field_id_value t = z -> conc1 (POptFid z) [TInt t; TPunct p_colon]
| conc_oev0 z : conc1 (POptEnumVal z) []
| conc_oev1 z t : int_value t = Some z -> conc1 (POptEnumVal z) [TPunct p_eq; TInt t]
| conc_oea0 : conc1 POptEmptyAnnos []
| conc_oea1 : conc1 POptEmptyAnnos [TPunct p_lpar; TPunct p_rpar]
| conc_thr0 : conc1 PThrowsReq []
| conc_thr1 : conc1 PThrowsReq [TWord kw_optional]
| conc_thr2 : conc1 PThrowsReq [TWord kw_required].

Inductive conc : list ptok -> list token -> Prop :=
| conc_nil : conc [] []
| conc_cons p ps t ts : conc1 p t -> conc ps ts -> conc (p :: ps) (t ++ ts).

(* ---------------------------------------------------------------- abstract token sequences *)

Definition protos_annos (a : annotations) : list ptok :=
  match a with
  | [] => [POptEmptyAnnos]
  | _ => PP p_lpar ::
         flat_map (fun an => flat_map (fun v => [PW (an_key an); PP p_eq; PL v; PSep]) (an_values an)) a
         ++ [PP p_rpar]
  end.

Definition protos_cpp (cpp : bytes) : list ptok :=
  match cpp with [] => [] | _ => [PW kw_cpp_type; PL cpp] end.

Fixpoint protos_type (t : ty) : list ptok :=
  match t with
  | Ty name k v cpp an _ _ _ =>
    (match k, v with
     | Some kt, Some vt =>
       [PW kw_map] ++ protos_cpp cpp ++ [PP p_lpoint] ++ protos_type kt ++ [PP p_comma] ++ protos_type vt ++ [PP p_rpoint]
     | None, Some vt =>
       if beqb name kw_list
       then [PW kw_list; PP p_lpoint] ++ protos_type vt ++ [PP p_rpoint] ++ protos_cpp cpp
       else [PW kw_set] ++ protos_cpp cpp ++ [PP p_lpoint] ++ protos_type vt ++ [PP p_rpoint]
     | _, None => [PW name]
     end) ++ protos_annos an
  end.

Fixpoint protos_cv (c : const_value) : list ptok :=
  match c with
  | CDouble b => [PD b]
  | CInt z => [PI z]
  | CLiteral s => [PL s]
  | CIdent w _ => [PW w]
  | CList l => PP p_lbrk :: flat_map (fun x => protos_cv x ++ [PSep]) l ++ [PP p_rbrk]
  | CMap l => PP p_lwing :: flat_map (fun kv => protos_cv (fst kv) ++ PP p_colon :: protos_cv (snd kv) ++ [PSep]) l
              ++ [PP p_rwing]
  end.

(* the id an unnumbered field would get after a field with id [prev] *)
Definition implicit_id (prev : option Z) : Z :=
  match prev with Some p => wrap32 (p + 1) | None => 1%Z end.
Definition implicit_enum_value (prev : option Z) : Z :=
  match prev with Some p => wrap64 (p + 1) | None => 0%Z end.

Definition protos_req (throws : bool) (r : requiredness) : list ptok :=
  if throws then [PThrowsReq]
  else match r with
       | ReqDefault => []
       | ReqRequired => [PW kw_required]
       | ReqOptional => [PW kw_optional]
       end.

Definition protos_field (throws : bool) (prev : option Z) (f : field) : list ptok :=
  (if Z.eqb (fd_id f) (implicit_id prev) then [POptFid (fd_id f)] else [PFid (fd_id f)])
  ++ protos_req throws (fd_req f)
  ++ protos_type (fd_type f)
  ++ [PW (fd_name f)]
  ++ (match fd_default f with Some c => PP p_eq :: protos_cv c | None => [] end)
  ++ protos_annos (fd_annos f)
  ++ [PSep].

Fixpoint protos_fields (throws : bool) (prev : option Z) (l : list field) : list ptok :=
  match l with
  | [] => []
  | f :: r => protos_field throws prev f ++ protos_fields throws (Some (fd_id f)) r
  end.

Definition protos_enum_value (prev : option Z) (v : enum_value) : list ptok :=
  [PW (ev_name v)]
  ++ (if Z.eqb (ev_value v) (implicit_enum_value prev) then [POptEnumVal (ev_value v)] else [PP p_eq; PI (ev_value v)])
  ++ protos_annos (ev_annos v)
  ++ [PSep].

Fixpoint protos_enum_values (prev : option Z) (l : list enum_value) : list ptok :=
  match l with
  | [] => []
  | v :: r => protos_enum_value prev v ++ protos_enum_values (Some (ev_value v)) r
  end.

Definition protos_function (f : function) : list ptok :=
  (if fn_oneway f then [PW kw_oneway] else [])
  ++ (if fn_void f then [PW kw_void] else protos_type (fn_type f))
  ++ [PW (fn_name f); PP p_lpar] ++ protos_fields false None (fn_args f) ++ [PP p_rpar]
  ++ (match fn_throws f with
      | [] => []
      | l => [PW kw_throws; PP p_lpar] ++ protos_fields true None l ++ [PP p_rpar]
      end)
  ++ protos_annos (fn_annos f)
  ++ [PSep].

Definition protos_struct_like (s : struct_like) : list ptok :=
  [PW (sl_kind_name (sl_category s)); PW (sl_name s); PP p_lwing]
  ++ protos_fields false None (sl_fields s) ++ [PP p_rwing] ++ protos_annos (sl_annos s).

Definition protos_typedef (t : typedef) : list ptok :=
  [PW kw_typedef] ++ protos_type (td_type t) ++ [PW (td_alias t)] ++ protos_annos (td_annos t).

Definition protos_constant (c : constant) : list ptok :=
  [PW kw_const] ++ protos_type (co_type c) ++ [PW (co_name c); PP p_eq] ++ protos_cv (co_value c)
  ++ [PSep] ++ protos_annos (co_annos c).

Definition protos_enum (e : enum) : list ptok :=
  [PW kw_enum; PW (en_name e); PP p_lwing] ++ protos_enum_values None (en_values e) ++ [PP p_rwing]
  ++ protos_annos (en_annos e).

Definition protos_service (s : service) : list ptok :=
  [PW kw_service; PW (sv_name s)]
  ++ (match sv_extends s with [] => [] | b => [PW kw_extends; PW b] end)
  ++ [PP p_lwing] ++ flat_map protos_function (sv_functions s) ++ [PP p_rwing]
  ++ protos_annos (sv_annos s).

Definition protos_namespace (n : namespace) : list ptok :=
  [PW kw_namespace; (if beqb (ns_language n) [p_star] then PP p_star else PW (ns_language n)); PW (ns_name n)]
  ++ protos_annos (ns_annos n).

(* the canonical order: headers (includes, cpp_includes, namespaces), then typedefs,
   constants, enums, structs, unions, exceptions, services *)
Definition protos_file (f : file) : list ptok :=
  flat_map (fun i => [PW kw_include; PL (in_path i)]) (f_includes f)
  ++ flat_map (fun p => [PW kw_cpp_include; PL p]) (f_cpp_includes f)
  ++ flat_map protos_namespace (f_namespaces f)
  ++ flat_map protos_typedef (f_typedefs f)
  ++ flat_map protos_constant (f_constants f)
  ++ flat_map protos_enum (f_enums f)
  ++ flat_map protos_struct_like (f_structs f)
  ++ flat_map protos_struct_like (f_unions f)
  ++ flat_map protos_struct_like (f_exceptions f)
  ++ flat_map protos_service (f_services f).

(* ---------------------------------------------------------------- the domain *)

(* a type name: a base type, or an identifier that no keyword position can mistake *)
Definition type_name_ok (w : bytes) : bool :=
  existsb (beqb w) base_kws ||
  (word_ok w && negb (existsb (beqb w) all_kws)
   && negb (is_prefix kw_required w) && negb (is_prefix kw_optional w)
   && negb (existsb (fun k => kw_dot k w) (kw_oneway :: kw_void :: base_kws))).

Definition nodup_keys (a : annotations) : bool :=
  (fix go (seen : list bytes) (a : annotations) : bool :=
     match a with
     | [] => true
     | x :: r => negb (existsb (beqb (an_key x)) seen) && go (an_key x :: seen) r
     end) [] a.

Definition wf_annos (a : annotations) : bool :=
  forallb (fun an => word_ok (an_key an) && match an_values an with [] => false | _ => true end) a
  && nodup_keys a.

Fixpoint wf_type (t : ty) : bool :=
  match t with
  | Ty name k v cpp an cat r td =>
    wf_annos an
    && match cat with CatConstant => true | _ => false end
    && match r with None => true | _ => false end
    && match td with None => true | _ => false end
    && match k, v with
       | Some kt, Some vt => beqb name kw_map && wf_type kt && wf_type vt
       | None, Some vt => (beqb name kw_set || beqb name kw_list) && wf_type vt
       | None, None => type_name_ok name && beqb cpp []
       | Some _, None => false
       end
  end.

Definition in_i64 (z : Z) : bool := (Z.leb (-9223372036854775808) z && Z.leb z 9223372036854775807)%Z.
Definition in_i32 (z : Z) : bool := (Z.leb (-2147483648) z && Z.leb z 2147483647)%Z.

Fixpoint wf_cv (c : const_value) : bool :=
  match c with
  | CDouble _ => true
  | CInt z => in_i64 z
  | CLiteral _ => true
  | CIdent w e => word_ok w && match e with None => true | _ => false end
  | CList l => forallb wf_cv l
  | CMap l => forallb (fun kv => wf_cv (fst kv) && wf_cv (snd kv)) l
  end.

Definition wf_field (throws : bool) (f : field) : bool :=
  negb (Z.eqb (fd_id f) NOTSET) && in_i32 (fd_id f)
  && word_ok (fd_name f)
  && (if throws then match fd_req f with ReqOptional => true | _ => false end else true)
  && wf_type (fd_type f)
  && match fd_default f with Some c => wf_cv c | None => true end
  && wf_annos (fd_annos f).

Definition wf_enum_value (v : enum_value) : bool :=
  word_ok (ev_name v) && in_i64 (ev_value v) && wf_annos (ev_annos v).

Definition wf_function (f : function) : bool :=
  word_ok (fn_name f)
  && (if fn_void f then ty_eqb (fn_type f) (ty_named kw_void)
      else wf_type (fn_type f))
  && forallb (wf_field false) (fn_args f) && forallb (wf_field true) (fn_throws f)
  && wf_annos (fn_annos f).

Definition wf_struct_like (k : sl_kind) (s : struct_like) : bool :=
  sl_kind_eqb (sl_category s) k && word_ok (sl_name s) && forallb (wf_field false) (sl_fields s)
  && wf_annos (sl_annos s).

Definition wf_namespace (n : namespace) : bool :=
  (beqb (ns_language n) [p_star] || word_ok (ns_language n)) && word_ok (ns_name n) && wf_annos (ns_annos n).

Definition nodup_bytes (l : list bytes) : bool :=
  (fix go (seen : list bytes) (l : list bytes) : bool :=
     match l with
     | [] => true
     | x :: r => negb (existsb (beqb x) seen) && go (x :: seen) r
     end) [] l.

Definition wf_file (f : file) : bool :=
  forallb (fun i => negb (beqb (in_path i) []) && match in_ref i with None => true | _ => false end
                    && match in_used i with None => true | _ => false end) (f_includes f)
  && nodup_bytes (map in_path (f_includes f))
  && forallb wf_namespace (f_namespaces f)
  && forallb (fun t => wf_type (td_type t) && word_ok (td_alias t) && wf_annos (td_annos t)) (f_typedefs f)
  && forallb (fun c => wf_type (co_type c) && word_ok (co_name c) && wf_cv (co_value c) && wf_annos (co_annos c))
             (f_constants f)
  && forallb (fun e => word_ok (en_name e) && forallb wf_enum_value (en_values e) && wf_annos (en_annos e)) (f_enums f)
  && forallb (wf_struct_like SKStruct) (f_structs f)
  && forallb (wf_struct_like SKUnion) (f_unions f)
  && forallb (wf_struct_like SKException) (f_exceptions f)
  && forallb (fun s => word_ok (sv_name s) && (beqb (sv_extends s) [] || word_ok (sv_extends s))
                       && forallb wf_function (sv_functions s) && wf_annos (sv_annos s)
                       && match sv_ref s with None => true | _ => false end) (f_services f)
  && match f_name2cat f with None => true | _ => false end.

(* ---------------------------------------------------------------- an executable layout *)

Inductive sep_choice := SepNone | SepComma | SepSemi.

(* the choices for the i-th abstract token of a file *)
Record layout := Layout {
  l_trivia : nat -> trivia;        (* blanks and comments in front of the token(s) of abstract token i *)
  l_inner : nat -> trivia;         (* in front of the second concrete token, when there are two *)
  l_sep : nat -> sep_choice;       (* PSep *)
  l_quote : nat -> byte;           (* PL: quote character *)
  l_raw : nat -> bytes -> bytes;   (* PL: the text between the quotes for a value *)
  l_int : nat -> Z -> bytes;       (* PI / PFid / POptFid / POptEnumVal: the spelling of a number *)
  l_double : nat -> N -> bytes;    (* PD: the spelling of a double *)
  l_opt : nat -> bool;             (* POpt*: write it? *)
  l_throws : nat -> option bool;   (* PThrowsReq: None nothing, Some false optional, Some true required *)
  l_final : trivia }.              (* before the end of the file *)

Definition realize1 (l : layout) (i : nat) (p : ptok) : list ltok :=
  let tr := l_trivia l i in
  match p with
  | PW w => [(tr, TWord w)]
  | PI z => [(tr, TInt (l_int l i z))]
  | PD b => [(tr, TDouble (l_double l i b))]
  | PL s => [(tr, TLit (l_quote l i) (l_raw l i s))]
  | PP c => [(tr, TPunct c)]
  | PSep => match l_sep l i with
            | SepNone => []
            | SepComma => [(tr, TPunct p_comma)]
            | SepSemi => [(tr, TPunct p_semi)]
            end
  | PFid z => [(tr, TInt (l_int l i z)); (l_inner l i, TPunct p_colon)]
  | POptFid z => if l_opt l i then [(tr, TInt (l_int l i z)); (l_inner l i, TPunct p_colon)] else []
  | POptEnumVal z => if l_opt l i then [(tr, TPunct p_eq); (l_inner l i, TInt (l_int l i z))] else []
  | POptEmptyAnnos => if l_opt l i then [(tr, TPunct p_lpar); (l_inner l i, TPunct p_rpar)] else []
  | PThrowsReq => match l_throws l i with
                  | None => []
                  | Some false => [(tr, TWord kw_optional)]
                  | Some true => [(tr, TWord kw_required)]
                  end
  end.

Fixpoint realize_from (l : layout) (i : nat) (ps : list ptok) : list ltok :=
  match ps with
  | [] => []
  | p :: r => realize1 l i p ++ realize_from l (S i) r
  end.

Definition render_tokens (l : layout) (a : file) : list ltok := realize_from l 0 (protos_file a).

(* render : layout -> file -> bytes *)
Definition render (l : layout) (a : file) : bytes := ltoks_bytes (render_tokens l a) (l_final l).

(* the spellings chosen by the layout denote the values of the file *)
Definition spelling_ok (l : layout) (i : nat) (p : ptok) : bool :=
  match p with
  | PI z | POptEnumVal z => match int_value (l_int l i z) with Some z' => Z.eqb z z' | None => false end
  | PFid z | POptFid z => Z.eqb (field_id_value (l_int l i z)) z
  | PD b => N.eqb (double_value (l_double l i b)) b
  | PL s => beqb (unescape (l_quote l i) (l_raw l i s)) s
  | _ => true
  end.

Fixpoint spellings_ok_from (l : layout) (i : nat) (ps : list ptok) : bool :=
  match ps with
  | [] => true
  | p :: r => spelling_ok l i p && spellings_ok_from l (S i) r
  end.

(* ---------------------------------------------------------------- sample spellings and layouts *)

Definition decimal_Z (z : Z) : bytes :=
  match z with
  | Z0 => [c_0]
  | Zpos p => digitsN (Npos p)
  | Zneg p => c_minus :: digitsN (Npos p)
  end.

Definition hex_digit (n : N) : byte :=
  match Byte.of_N (if (n <? 10)%N then 48 + n else 87 + n)%N with Some b => b | None => c_0 end.
Fixpoint hex_pos (fuel : nat) (n : N) (acc : bytes) : bytes :=
  match fuel with
  | O => acc
  | S f => let acc' := hex_digit (n mod 16)%N :: acc in
           if (n <? 16)%N then acc' else hex_pos f (n / 16)%N acc'
  end.
(* 0x spelling of a non-negative number, decimal otherwise *)
Definition hex_Z (z : Z) : bytes :=
  match z with
  | Zneg _ => decimal_Z z
  | _ => c_0 :: c_x :: hex_pos (S (N.to_nat (N.log2 (Z.to_N z)))) (Z.to_N z) []
  end.

(* the exact decimal expansion of a finite double (every finite binary64 has one) *)
Definition exact_double_text (bits : N) : bytes :=
  let neg := N.testbit bits 63 in
  let e := N.land (N.shiftr bits 52) 2047 in
  let f := N.land bits (2 ^ 52 - 1) in
  let '(m, ex) := if (e =? 0)%N then (Z.of_N f, (-1074)%Z)
                  else (Z.of_N (f + 2 ^ 52), (Z.of_N e - 1075)%Z) in
  let body :=
    if (0 <=? ex)%Z then decimal_Z (m * 2 ^ ex) ++ [c_dot; c_0]
    else
      let k := Z.to_nat (- ex) in
      let ds := decimal_Z (m * 5 ^ (- ex)) in
      let padded := repeat c_0 (S k - List.length ds) ++ ds in
      let n := List.length padded in
      firstn (n - k) padded ++ c_dot :: skipn (n - k) padded in
  if neg then c_minus :: body else body.

Definition sp : tritem := TrSp x20.
Definition nl : tritem := TrSp c_lf.

(* one blank in front of every token, no separators, double quotes, decimal numbers *)
Definition plain_layout : layout :=
  Layout (fun _ => [sp]) (fun _ => []) (fun _ => SepNone) (fun _ => c_dq) (fun _ s => escape c_dq s)
         (fun _ z => decimal_Z z) (fun _ b => exact_double_text b) (fun _ => false) (fun _ => None) [nl].

(* a busier one: comments of all three kinds, both separators, both quotes, hex numbers,
   implicit items written out, chosen by the position of the token *)
Definition busy_layout : layout :=
  Layout (fun i => match Nat.modulo i 5 with
                   | 0 => [nl; TrLine (B " line comment"); nl; sp]
                   | 1 => [sp; TrBlock (B " block "); sp]
                   | 2 => [TrSp x09]
                   | 3 => [nl; TrHash (B " hash"); TrSp c_cr; nl]
                   | _ => [sp]
                   end)
         (fun i => if Nat.even i then [] else [sp; TrBlock (B "x")])
         (fun i => match Nat.modulo i 3 with 0 => SepComma | 1 => SepSemi | _ => SepNone end)
         (fun i => if Nat.even i then c_sq else c_dq)
         (fun i s => escape (if Nat.even i then c_sq else c_dq) s)
         (fun i z => if Nat.even i then hex_Z z else decimal_Z z)
         (fun _ b => exact_double_text b)
         (fun i => Nat.even i)
         (fun i => match Nat.modulo i 3 with 0 => None | 1 => Some false | _ => Some true end)
         [sp; TrLine (B " the end")].
