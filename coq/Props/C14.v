(* Props/C14.v — property C14 "Field-mask library: queries and JSON transport agree with path
   semantics", stated about the models Mask/{Path,Desc,Trie,Json}.v of fieldmask/*.go and the
   path-set specification Mask/Spec.v.  Statements only; every proof is [exact lemma] and is
   followed by Print Assumptions.

   Reading guide.  [new_mask env d black strs] is Options{BlackListMode: black}.NewFieldMask
   on the descriptor (env, d) and the path strings; [walk (Some m) q] says whether every
   query of the sequence q (Field id / Int i / Str s, each on the sub mask the previous one
   returned) answered "pass"; [spec_pass black ps q] is the same answer computed from the
   SET ps of simple paths alone.  A list of syntactic paths [ps] (fields by name or id,
   grouped indices and keys, stars) is tied to the strings by [map tokenize strs = map
   tokens_of ps] (checked for every generated case by the correspondence run), typed against
   the descriptor by [elab_all], and expanded to its path set by [path_set].  The domain
   predicates [well_typed], [no_conflict], [in_domain] are decidable booleans. *)
From Coq Require Import List Bool ZArith Permutation.
From Coq.Strings Require Import Byte String.
From Verif Require Import Base.Bytes Mask.Path Mask.Desc Mask.Trie Mask.Json Mask.Spec.
From Verif Require Import Mask.Print Mask.TrieFacts Mask.FrameFacts Mask.C14Facts Mask.JsonFacts.
From Verif Require Import Mask.PrintFacts Mask.AllFacts Mask.PimFacts Mask.StringFacts.
Import ListNotations.

(* ---- build_sound: on the domain every query walk answers as the path set prescribes.
   white lists: no two paths conflict; black lists: moreover no path ends with a star. *)
Theorem C14_build_sound :
  forall env d black strs ps gs m,
  map tokenize strs = map tokens_of ps ->
  well_typed env d ps = true -> elab_all env d ps = Some gs -> in_domain black gs = true ->
  new_mask env d black strs = Ok m ->
  forall q, walk (Some m) q = spec_pass black (path_set gs) q.
Proof. exact build_sound. Qed.
Print Assumptions C14_build_sound.

(* ---- path STRINGS end to end.  [print_path] (Mask/Print.v) is the printer of the harness
   (maskkit.Path.Render: names, decimal ids and keys, quoted keys with the escapes backslash,
   quote, n, t, r, xHH); the correspondence run checks on every generated case that the strings
   given to the real library are exactly [map print_path ps].  The tokenizer reads back what
   the printer prints, so the hypothesis [map tokenize strs = map tokens_of ps] of the
   theorems below is discharged for printed paths. *)
Theorem C14_tokenize_print_path :
  forall p, wf_path p = true -> tokenize (print_path p) = tokens_of p.
Proof. exact tokenize_print_path. Qed.
Print Assumptions C14_tokenize_print_path.

Theorem C14_build_sound_strings :
  forall env d black ps gs m,
  well_typed env d ps = true -> elab_all env d ps = Some gs -> in_domain black gs = true ->
  new_mask env d black (map print_path ps) = Ok m ->
  forall q, walk (Some m) q = spec_pass black (path_set gs) q.
Proof. exact build_sound_strings. Qed.
Print Assumptions C14_build_sound_strings.

Theorem C14_build_total_strings :
  forall env d black ps gs,
  well_typed env d ps = true -> elab_all env d ps = Some gs -> no_conflict gs = true ->
  exists m, new_mask env d black (map print_path ps) = Ok m.
Proof. exact build_total_strings. Qed.
Print Assumptions C14_build_total_strings.

(* the JSON round trip and the independence of order and grouping, on printed path strings *)
Theorem C14_json_roundtrip_strings :
  forall env d black ps gs m,
  well_typed env d ps = true -> elab_all env d ps = Some gs -> no_conflict gs = true -> gs <> [] ->
  forallb (json_ok (switch_ft env d)) gs = true ->
  new_mask env d black (map print_path ps) = Ok m ->
  exists m', of_json (to_json m) = Ok m' /\
    (forall q, observe (Some m') q = observe (Some m) q) /\
    (forall q, walk (Some m') q = walk (Some m) q) /\
    to_json m' = to_json m.
Proof. exact json_roundtrip_strings. Qed.
Print Assumptions C14_json_roundtrip_strings.

Theorem C14_order_irrelevant_strings :
  forall env d black ps gs m ps' gs',
  well_typed env d ps = true -> well_typed env d ps' = true ->
  elab_all env d ps = Some gs -> elab_all env d ps' = Some gs' ->
  in_domain black gs = true -> in_domain black gs' = true ->
  same_set (path_set gs) (path_set gs') = true ->
  new_mask env d black (map print_path ps) = Ok m ->
  exists m', new_mask env d black (map print_path ps') = Ok m' /\ forall q, walk (Some m) q = walk (Some m') q.
Proof. exact order_irrelevant_strings. Qed.
Print Assumptions C14_order_irrelevant_strings.

(* ---- all_sound: the answer of All() on the sub mask a passing query walk reaches is what the
   path set prescribes (white and black lists; black: the list is not the root path "$") *)
Theorem C14_all_sound :
  forall env d black strs ps gs m,
  map tokenize strs = map tokens_of ps ->
  well_typed env d ps = true -> elab_all env d ps = Some gs -> in_domain black gs = true ->
  (black = true -> no_root_path gs = true) ->
  new_mask env d black strs = Ok m ->
  forall q, walk (Some m) q = true -> all_q (fst (walk_to (Some m) q)) = spec_all black (path_set gs) q.
Proof. exact all_sound. Qed.
Print Assumptions C14_all_sound.

Theorem C14_all_sound_strings :
  forall env d black ps gs m,
  well_typed env d ps = true -> elab_all env d ps = Some gs -> in_domain black gs = true ->
  (black = true -> no_root_path gs = true) ->
  new_mask env d black (map print_path ps) = Ok m ->
  forall q, walk (Some m) q = true -> all_q (fst (walk_to (Some m) q)) = spec_all black (path_set gs) q.
Proof. exact all_sound_strings. Qed.
Print Assumptions C14_all_sound_strings.

(* ---- path membership: PathInMask (the flag of GetPath) on a path without star and with single
   keys [p] (typed against the descriptor; [qkeys g] is its position) answers whether that
   position passes according to the path set -- for masks built on the domain from at least
   one path, without struct stars, on descriptors with unique field ids ([env_ok]). *)
Theorem C14_path_in_mask_sound :
  forall env d black ps gs m p g,
  env_ok env = true ->
  well_typed env d ps = true -> elab_all env d ps = Some gs -> in_domain black gs = true ->
  gs <> [] -> forallb no_starf ps = true -> (black = true -> no_root_path gs = true) ->
  new_mask env d black (map print_path ps) = Ok m ->
  forallb simple_seg p = true -> wf_path p = true -> elab env d p = Some g ->
  exists a, path_in_mask env d m (print_path p) = Some (spec_pass black (path_set gs) (qkeys g), a).
Proof. exact path_in_mask_strings. Qed.
Print Assumptions C14_path_in_mask_sound.

(* GetPath itself, on any mask typed by the descriptor: the flag is the query walk *)
Theorem C14_get_path_is_the_query_walk :
  forall env, env_ok env = true -> forall p d g,
  elab env d p = Some g -> forallb simple_seg p = true -> wf_path p = true ->
  forall f c last b, List.length (flat_map seg_tokens p) < f ->
  mtyped env c d = true -> SemFacts.inv b c = true -> allok b c = true -> okc c = true ->
  exists r, get_path f env (flat_map seg_tokens p) d (Some c) last = Some (r, walk (Some c) (qkeys g)).
Proof. exact get_path_walk. Qed.
Print Assumptions C14_get_path_is_the_query_walk.

Example C14_path_in_mask_example :
  env_ok wenv = true /\ forallb no_starf ex_ps = true /\ no_root_path (w_gs wroot ex_ps) = true /\
  forallb simple_seg [PName (B "li"); PIdx [2%Z]; PId 1] = true /\
  path_in_mask wenv wroot (w_mask wroot true ex_strs) (print_path [PName (B "li"); PIdx [2%Z]; PId 1]) = Some (false, true) /\
  path_in_mask wenv wroot (w_mask wroot false ex_strs) (print_path [PName (B "li"); PIdx [2%Z]; PId 1]) = Some (true, true).
Proof. repeat split; vm_compute; reflexivity. Qed.

(* ---- build_total_on_D: a well-typed conflict-free list always builds (and what it builds) *)
Theorem C14_build_total_on_D :
  forall env d black strs ps gs,
  map tokenize strs = map tokens_of ps ->
  well_typed env d ps = true -> elab_all env d ps = Some gs -> no_conflict gs = true ->
  exists m, new_mask env d black strs = Ok m.
Proof. intros. eexists. eapply build_total_on_D; eauto. Qed.
Print Assumptions C14_build_total_on_D.

(* ---- order_irrelevant: two lists in the domain that denote the same path set (any order,
   any grouping of indices/keys, fields by name or id) build masks with the same answers;
   for a permutation the second list is in the domain as soon as the first is. *)
Theorem C14_order_irrelevant :
  forall env d black strs ps gs m strs' ps' gs',
  map tokenize strs = map tokens_of ps -> map tokenize strs' = map tokens_of ps' ->
  well_typed env d ps = true -> well_typed env d ps' = true ->
  elab_all env d ps = Some gs -> elab_all env d ps' = Some gs' ->
  in_domain black gs = true -> in_domain black gs' = true ->
  same_set (path_set gs) (path_set gs') = true ->
  new_mask env d black strs = Ok m ->
  exists m', new_mask env d black strs' = Ok m' /\ forall q, walk (Some m) q = walk (Some m') q.
Proof.
  intros env d black strs ps gs m strs' ps' gs' H1 H2 H3 H4 H5 H6 H7 H8 H9 H10.
  eapply (order_irrelevant env d black strs ps gs m strs' ps' gs'); eauto. apply same_set_in. exact H9.
Qed.
Print Assumptions C14_order_irrelevant.

Theorem C14_order_irrelevant_permutation :
  forall env d black strs ps gs m strs' ps',
  map tokenize strs = map tokens_of ps -> map tokenize strs' = map tokens_of ps' ->
  Permutation ps ps' ->
  well_typed env d ps = true -> elab_all env d ps = Some gs -> in_domain black gs = true ->
  new_mask env d black strs = Ok m ->
  exists m', new_mask env d black strs' = Ok m' /\ forall q, walk (Some m) q = walk (Some m') q.
Proof. exact order_irrelevant_perm. Qed.
Print Assumptions C14_order_irrelevant_permutation.

(* the specification itself looks at the set only *)
Theorem C14_spec_depends_on_the_set_only :
  forall black ps ps' q, (forall p, In p ps <-> In p ps') ->
  spec_pass black ps q = spec_pass black ps' q /\ spec_all black ps q = spec_all black ps' q.
Proof. intros. split; [apply spec_pass_set | apply spec_all_set]; assumption. Qed.
Print Assumptions C14_spec_depends_on_the_set_only.

(* the domain is inhabited: 8 paths (names and ids, groups, a star, negative and > 63 ids),
   in both modes, and a regrouped / reordered list of 9 paths with the same path set *)
Example C14_domain_example :
  map tokenize ex_strs = map tokens_of ex_ps /\ well_typed wenv wroot ex_ps = true /\
  elab_all wenv wroot ex_ps = Some (w_gs wroot ex_ps) /\
  in_domain false (w_gs wroot ex_ps) = true /\ in_domain true (w_gs wroot ex_ps) = true /\
  List.length (path_set (w_gs wroot ex_ps)) = 9.
Proof. exact domain_example. Qed.

Example C14_regroup_example :
  map tokenize ex_strs' = map tokens_of ex_ps' /\ well_typed wenv wroot ex_ps' = true /\
  elab_all wenv wroot ex_ps' = Some (w_gs wroot ex_ps') /\ in_domain true (w_gs wroot ex_ps') = true /\
  same_set (path_set (w_gs wroot ex_ps)) (path_set (w_gs wroot ex_ps')) = true.
Proof. exact regroup_example. Qed.

(* ---- build_error_cases: one theorem per listed kind of error.  [add_path (S f) env toks d cur]
   is addPath on the remaining tokens at a node cur whose descriptor is d; an error there is
   the error of NewFieldMask ([C14_error_propagates]). *)
Theorem C14_error_propagates :
  forall env d p r cur e,
  add_path (path_fuel p) env p d cur = Err e -> add_tok_paths env d (p :: r) cur = Err e.
Proof. exact err_propagates. Qed.
Print Assumptions C14_error_propagates.

Theorem C14_error_malformed_path :
  (* a token that cannot start a segment (literal, quoted string, closing bracket, comma, star, error token) *)
  (forall f env t r d cur, stray_token t = true -> add_path (S f) env (t :: r) d cur = Err EMalformed) /\
  (* "." at the end, or followed by something that is no name, id or star *)
  (forall f env d cur fs, struct_fields env d = Some fs -> m_typ cur = FtStruct ->
     add_path (S f) env [TField] d cur = Err EMalformed) /\
  (forall f env t r d cur fs, struct_fields env d = Some fs -> m_typ cur = FtStruct -> all_of cur = false ->
     match t with TLitStr _ | TLitInt _ | TAny => false | _ => true end = true ->
     add_path (S f) env (TField :: t :: r) d cur = Err EMalformed) /\
  (* empty index and key sets *)
  (forall f env r d cur e, list_elem d = Some e -> m_typ cur = FtList -> ok_ft (switch_ft env e) = true ->
     add_path (S f) env (TIndexL :: TIndexR :: r) d cur = Err EMalformed) /\
  (forall f env r d cur k v, map_kv d = Some (k, v) ->
     (m_typ cur = FtIntMap \/ m_typ cur = FtStrMap \/ m_typ cur = FtScalar) -> ok_ft (switch_ft env v) = true ->
     add_path (S f) env (TMapL :: TMapR :: r) d cur = Err EMalformed) /\
  (* a field id beyond int32 (repair C14-3), and what the tokenizer turns into error tokens
     (repairs C14-2, C14-4, C14-8): a literal beyond int, an unterminated quote, a stray backslash *)
  (forall f env n r d cur fs, struct_fields env d = Some fs -> m_typ cur = FtStruct -> all_of cur = false ->
     (max_int32 < n)%Z -> add_path (S f) env (TField :: TLitInt n :: r) d cur = Err EMalformed) /\
  tokenize (B "$.99999999999999999999") = [TRoot; TField; TErr] /\
  tokenize (B "$.ms{""abc}") = [TRoot; TField; TLitStr (B "ms"); TMapL; TErr] /\
  tokenize (B "$.li[\") = [TRoot; TField; TLitStr (B "li"); TIndexL; TErr].
Proof.
  repeat split; try reflexivity.
  - exact err_malformed_stray.
  - exact err_malformed_dot_at_end.
  - exact err_malformed_field_token.
  - exact err_malformed_empty_index.
  - exact err_malformed_empty_keys.
  - exact err_malformed_field_id_range.
Qed.
Print Assumptions C14_error_malformed_path.

Theorem C14_error_unknown_field :
  (forall f env n r d cur fs, struct_fields env d = Some fs -> m_typ cur = FtStruct -> all_of cur = false ->
     field_by_name fs n = None -> add_path (S f) env (TField :: TLitStr n :: r) d cur = Err ENoField) /\
  (forall f env n r d cur fs, struct_fields env d = Some fs -> m_typ cur = FtStruct -> all_of cur = false ->
     field_by_id fs n = None ->
     add_path (S f) env (TField :: TLitInt n :: r) d cur = Err ENoField \/
     add_path (S f) env (TField :: TLitInt n :: r) d cur = Err EMalformed).
Proof. split; [exact err_unknown_field_name | exact err_unknown_field_id]. Qed.
Print Assumptions C14_error_unknown_field.

Theorem C14_error_wrong_container_kind :
  (forall f env r d cur, struct_fields env d = None -> add_path (S f) env (TField :: r) d cur = Err EKind) /\
  (forall f env r d cur, list_elem d = None -> add_path (S f) env (TIndexL :: r) d cur = Err EKind) /\
  (forall f env r d cur, map_kv d = None -> add_path (S f) env (TMapL :: r) d cur = Err EKind).
Proof. repeat split; [exact err_kind_not_struct | exact err_kind_not_list | exact err_kind_not_map]. Qed.
Print Assumptions C14_error_wrong_container_kind.

Theorem C14_error_key_kind_mismatch :
  (forall f env n r d cur k v, map_kv d = Some (k, v) -> m_typ cur = FtStrMap -> m_isall cur = false ->
     ok_ft (switch_ft env v) = true -> add_path (S f) env (TMapL :: TLitInt n :: r) d cur = Err EKeyKind) /\
  (forall f env s r d cur k v, map_kv d = Some (k, v) -> m_typ cur = FtIntMap -> m_isall cur = false ->
     ok_ft (switch_ft env v) = true -> add_path (S f) env (TMapL :: TStr s :: r) d cur = Err EKeyKind).
Proof. split; [exact err_key_kind_int_on_string_map | exact err_key_kind_string_on_int_map]. Qed.
Print Assumptions C14_error_key_kind_mismatch.

Theorem C14_error_conflict_with_star :
  (* a field below a struct node that is complete or starred *)
  (forall f env t r d cur fs, struct_fields env d = Some fs -> m_typ cur = FtStruct -> m_isall cur = true ->
     add_path (S f) env (TField :: t :: r) d cur = Err EConflict) /\
  (* an index / a key where a star (or a complete path) is settled, also inside one set *)
  (forall f env n r d cur e, list_elem d = Some e -> m_typ cur = FtList -> m_isall cur = true ->
     ok_ft (switch_ft env e) = true -> add_path (S f) env (TIndexL :: TLitInt n :: r) d cur = Err EConflict) /\
  (forall f env n r d cur e, list_elem d = Some e -> m_typ cur = FtList -> ok_ft (switch_ft env e) = true ->
     add_path (S f) env (TIndexL :: TAny :: TElem :: TLitInt n :: r) d cur = Err EConflict) /\
  (forall f env t r d cur k v, map_kv d = Some (k, v) -> (m_typ cur = FtIntMap \/ m_typ cur = FtStrMap) ->
     m_isall cur = true -> ok_ft (switch_ft env v) = true ->
     match t with TLitInt _ | TStr _ => true | _ => false end = true ->
     add_path (S f) env (TMapL :: t :: r) d cur = Err EConflict) /\
  (* a map keyed by neither integers nor strings takes the star only *)
  (forall f env t r d cur k v, map_kv d = Some (k, v) -> m_typ cur = FtScalar -> ok_ft (switch_ft env v) = true ->
     match t with TLitInt _ | TStr _ => true | _ => false end = true ->
     add_path (S f) env (TMapL :: t :: r) d cur = Err EConflict).
Proof.
  repeat split; [exact err_conflict_field | exact err_conflict_index | exact err_conflict_index_after_star_inside
                | exact err_conflict_key | exact err_conflict_other_keyed_map].
Qed.
Print Assumptions C14_error_conflict_with_star.

(* ---- JSON transport *)

(* the children of every node are emitted in ascending key order whatever the order of the
   stores (Go map iteration): the text is a function of the mask's content *)
Theorem C14_json_children_sorted : forall m, jsorted (to_json m) = true.
Proof. exact to_json_sorted. Qed.
Print Assumptions C14_json_children_sorted.

(* json_roundtrip: MarshalJSON then Unmarshal of a mask built on the domain (at least one path;
   keys the JSON form can carry: [json_ok] = ids within int32 / int, no string key "*") gives
   a mask that answers EVERY query sequence identically -- the flag of every step, All() and
   Exist() of the last sub mask ([observe]) -- and that prints to the same JSON again. *)
Theorem C14_json_roundtrip :
  forall env d black strs ps gs m,
  map tokenize strs = map tokens_of ps ->
  well_typed env d ps = true -> elab_all env d ps = Some gs -> no_conflict gs = true -> gs <> [] ->
  forallb (json_ok (switch_ft env d)) gs = true ->
  new_mask env d black strs = Ok m ->
  exists m', of_json (to_json m) = Ok m' /\
    (forall q, observe (Some m') q = observe (Some m) q) /\
    (forall q, walk (Some m') q = walk (Some m) q) /\
    to_json m' = to_json m.
Proof. exact json_roundtrip. Qed.
Print Assumptions C14_json_roundtrip.

(* the same for every canonical mask, however it was obtained ([canon] is decidable) *)
Theorem C14_json_roundtrip_canonical :
  forall m, canon m = true ->
  exists m', of_json (to_json m) = Ok m' /\
    (forall q, observe (Some m') q = observe (Some m) q) /\
    (forall q, walk (Some m') q = walk (Some m) q) /\
    to_json m' = to_json m.
Proof. exact json_roundtrip_canonical. Qed.
Print Assumptions C14_json_roundtrip_canonical.

(* json_stable: the text after a round trip is the text before it *)
Theorem C14_json_stable :
  forall m m', canon m = true -> of_json (to_json m) = Ok m' -> to_json_text m' = to_json_text m.
Proof.
  intros m m' Hc H. rewrite (of_json_to_json m Hc) in H. injection H as <-.
  unfold to_json_text. rewrite (to_json_norm m Hc). reflexivity.
Qed.
Print Assumptions C14_json_stable.

Example C14_json_domain_example :
  forallb (json_ok (switch_ft wenv wroot)) (w_gs wroot ex_ps) = true /\ w_gs wroot ex_ps <> [] /\
  canon (w_mask wroot true ex_strs) = true.
Proof. exact json_domain_example. Qed.

(* ---- what the unchanged code gets wrong outside the domain (known findings) *)

Theorem C14_star_resets_keys_refuted :
  exists env d strs ps gs m q,
  map tokenize strs = map tokens_of ps /\ well_typed env d ps = true /\ elab_all env d ps = Some gs /\
  no_conflict gs = false /\ new_mask env d false strs = Ok m /\
  walk (Some m) q = false /\ spec_pass false (path_set gs) q = true /\
  new_mask env d false (rev strs) = Err EConflict.
Proof.
  exists wenv, wroot, w1_strs, w1_ps, (w_gs wroot w1_ps), (w_mask wroot false w1_strs), w1_q.
  exact star_resets_keys_witness.
Qed.
Print Assumptions C14_star_resets_keys_refuted.

Theorem C14_black_tail_star_refuted :
  exists env d strs ps gs m q,
  map tokenize strs = map tokens_of ps /\ well_typed env d ps = true /\ elab_all env d ps = Some gs /\
  no_conflict gs = true /\ no_tail_star gs = false /\ new_mask env d true strs = Ok m /\
  walk (Some m) q = true /\ spec_pass true (path_set gs) q = false.
Proof.
  exists wenv, wroot, w2_strs, w2_ps, (w_gs wroot w2_ps), (w_mask wroot true w2_strs), w2_q.
  exact black_tail_star_witness.
Qed.
Print Assumptions C14_black_tail_star_refuted.

Theorem C14_black_prefix_refuted :
  exists env d strs ps gs m q,
  map tokenize strs = map tokens_of ps /\ well_typed env d ps = true /\ elab_all env d ps = Some gs /\
  no_conflict gs = false /\ new_mask env d true strs = Ok m /\
  walk (Some m) q = true /\ spec_pass true (path_set gs) q = false /\
  new_mask env d true (rev strs) = Err EConflict.
Proof.
  exists wenv, wroot, w3_strs, w3_ps, (w_gs wroot w3_ps), (w_mask wroot true w3_strs), w3_q.
  exact black_prefix_witness.
Qed.
Print Assumptions C14_black_prefix_refuted.

Theorem C14_malformed_path_accepted_refuted :
  exists env d,
  grammatical (tokenize (B "$.li[1")) = false /\ grammatical (tokenize (B "$.li[,]")) = false /\
  grammatical (tokenize []) = false /\
  (exists m, new_mask env d false [B "$.li[1"] = Ok m) /\
  (exists m, new_mask env d false [B "$.li[,]"] = Ok m) /\
  (exists m, new_mask env d false [[]] = Ok m).
Proof. exists wenv, wroot. exact malformed_accepted_witness. Qed.
Print Assumptions C14_malformed_path_accepted_refuted.

Theorem C14_untyped_field_refuted :
  exists env d m, well_typed env d [[PName (B "u")]] = false /\
  new_mask env d false [B "$.u"] = Ok m /\ walk (Some m) [QF 7] = false.
Proof. exists wenv, wroot, (w_mask wroot false [B "$.u"]). exact untyped_field_witness. Qed.
Print Assumptions C14_untyped_field_refuted.

Theorem C14_struct_star_continuation_refuted :
  exists env d m, well_typed env d [[PStarF; PName (B "b")]] = false /\
  new_mask env d false [B "$.*.b"] = Ok m /\
  walk (Some m) [QF 1; QF 2] = true /\ walk (Some m) [QF 1; QF 1] = false.
Proof. exists wenv, (TyStruct (B "F")), (w_mask (TyStruct (B "F")) false [B "$.*.b"]). exact struct_star_continuation_witness. Qed.
Print Assumptions C14_struct_star_continuation_refuted.

Theorem C14_struct_star_twice_refuted :
  exists env d, (exists m, new_mask env d false [B "$.*"] = Ok m) /\
  new_mask env d false [B "$.*"; B "$.*"] = Err EConflict.
Proof. exists wenv, wroot. exact struct_star_twice_witness. Qed.
Print Assumptions C14_struct_star_twice_refuted.

Theorem C14_json_star_key_refuted :
  exists env d strs m m', new_mask env d false strs = Ok m /\ of_json (to_json m) = Ok m' /\
  walk (Some m) [QF 6; QS (B "zz")] = false /\ walk (Some m') [QF 6; QS (B "zz")] = true.
Proof. destruct json_star_key_witness as [m [m' H]]. exists wenv, wroot, w4_strs, m, m'. exact H. Qed.
Print Assumptions C14_json_star_key_refuted.

Theorem C14_json_empty_mask_refuted : forall black, of_json (to_json (empty_mask black)) = Err EKind.
Proof. exact json_empty_mask_witness. Qed.
Print Assumptions C14_json_empty_mask_refuted.
