(* Props/C04.v — property C04: invalid input is diagnosed (non-zero exit, message, no
   output, no crash).  Statements only; proofs in Idl/CheckFacts.v, Idl/AcceptFacts.v,
   Idl/AcceptConst.v, Idl/AcceptBackend.v, Idl/AcceptSound.v.

   Model: Idl/Accept.v [accepts p b] = the accept / reject decision of sdk.InvokeThriftgo
   on a parsed multi-file program [p] for backend configuration [b] (go / fastgo, with or
   without -r): parser.CircleDetect ; Idl/Check.v (CheckAll) ; Idl/Resolve.v
   (ResolveSymbols, the model of C05) ; the constant-kind decisions of the Go backend.
   Specification: Idl/Rules.v, the catalogue [rule] with the declarative decidable
   predicate [violates r p]: SOME file reachable from the main file through include
   statements has SOME site with the defect.

   The theorems quantify over ALL programs, every position in the include graph and
   both backends; they speak about the decision (accept / reject).  That a rejection
   comes out of the real binary as exit status <> 0, a diagnostic, no file, no Go
   trace and no hang is observed on every run of ./check C04 (Corr/C04.v), as are the
   rules that leave no AST: SyntaxError, MissingInclude, BadCommandLine.

   The model mirrors the REPAIRED checker (proposed_fixes/C04-1 .. C04-4): second
   union default, duplicate ids / names in argument and throws lists, throws id 0 on
   a non-void function, getEnum on cyclic typedefs. *)
From Coq Require Import List Bool Arith NArith ZArith.
From Coq.Strings Require Import String.
From Verif Require Import Base.Bytes Idl.Ast Idl.AstUtil Idl.Resolve Idl.ResolveSpec
     Idl.Check Idl.Rules Idl.CheckFacts Idl.Accept Idl.AcceptFacts Idl.AcceptConst Idl.AcceptBackend Idl.AcceptSound
     Idl.ResolvableSpec Idl.ResolvableConst Idl.AcceptComplete Idl.RulesKinds Idl.AcceptKinds.
Import ListNotations.
Local Open Scope string_scope.

(* ---------------------------------------------------------------- diagnosed_<rule>: a violating program is not accepted *)

Theorem diagnosed_IncludeCycle : forall p b, violates IncludeCycle p = true -> accepts p b <> AOk.
Proof. intros p b. exact (diagnosed p b IncludeCycle eq_refl). Qed.
Print Assumptions diagnosed_IncludeCycle.

Theorem diagnosed_DupGlobal : forall p b, violates DupGlobal p = true -> accepts p b <> AOk.
Proof. intros p b. exact (diagnosed p b DupGlobal eq_refl). Qed.
Print Assumptions diagnosed_DupGlobal.

Theorem diagnosed_DupField : forall p b, violates DupField p = true -> accepts p b <> AOk.
Proof. intros p b. exact (diagnosed p b DupField eq_refl). Qed.
Print Assumptions diagnosed_DupField.

(* struct, union, exception, argument list, throws list; and the throws of a function
   that returns a value share their ids with the return value (field 0) *)
Theorem diagnosed_DupFieldId : forall p b, violates DupFieldId p = true -> accepts p b <> AOk.
Proof. intros p b. exact (diagnosed p b DupFieldId eq_refl). Qed.
Print Assumptions diagnosed_DupFieldId.

Theorem diagnosed_DupFunction : forall p b, violates DupFunction p = true -> accepts p b <> AOk.
Proof. intros p b. exact (diagnosed p b DupFunction eq_refl). Qed.
Print Assumptions diagnosed_DupFunction.

Theorem diagnosed_DupEnumName : forall p b, violates DupEnumName p = true -> accepts p b <> AOk.
Proof. intros p b. exact (diagnosed p b DupEnumName eq_refl). Qed.
Print Assumptions diagnosed_DupEnumName.

Theorem diagnosed_DupEnumNumber : forall p b, violates DupEnumNumber p = true -> accepts p b <> AOk.
Proof. intros p b. exact (diagnosed p b DupEnumNumber eq_refl). Qed.
Print Assumptions diagnosed_DupEnumNumber.

Theorem diagnosed_EnumOutOfInt32 : forall p b, violates EnumOutOfInt32 p = true -> accepts p b <> AOk.
Proof. intros p b. exact (diagnosed p b EnumOutOfInt32 eq_refl). Qed.
Print Assumptions diagnosed_EnumOutOfInt32.

Theorem diagnosed_UndefinedType : forall p b, violates UndefinedType p = true -> accepts p b <> AOk.
Proof. intros p b. exact (diagnosed p b UndefinedType eq_refl). Qed.
Print Assumptions diagnosed_UndefinedType.

Theorem diagnosed_NonTypeAsType : forall p b, violates NonTypeAsType p = true -> accepts p b <> AOk.
Proof. intros p b. exact (diagnosed p b NonTypeAsType eq_refl). Qed.
Print Assumptions diagnosed_NonTypeAsType.

Theorem diagnosed_TypedefCycle : forall p b, violates TypedefCycle p = true -> accepts p b <> AOk.
Proof. intros p b. exact (diagnosed p b TypedefCycle eq_refl). Qed.
Print Assumptions diagnosed_TypedefCycle.

Theorem diagnosed_OnewayReturns : forall p b, violates OnewayReturns p = true -> accepts p b <> AOk.
Proof. intros p b. exact (diagnosed p b OnewayReturns eq_refl). Qed.
Print Assumptions diagnosed_OnewayReturns.

Theorem diagnosed_OnewayThrows : forall p b, violates OnewayThrows p = true -> accepts p b <> AOk.
Proof. intros p b. exact (diagnosed p b OnewayThrows eq_refl). Qed.
Print Assumptions diagnosed_OnewayThrows.

Theorem diagnosed_UnknownBaseService : forall p b, violates UnknownBaseService p = true -> accepts p b <> AOk.
Proof. intros p b. exact (diagnosed p b UnknownBaseService eq_refl). Qed.
Print Assumptions diagnosed_UnknownBaseService.

Theorem diagnosed_SecondUnionDefault : forall p b, violates SecondUnionDefault p = true -> accepts p b <> AOk.
Proof. intros p b. exact (diagnosed p b SecondUnionDefault eq_refl). Qed.
Print Assumptions diagnosed_SecondUnionDefault.

(* Identifiers used as values.  Full statements:
     diagnosed_UndefinedConst : forall p b, violates UndefinedConst p = true -> accepts p b <> AOk
     diagnosed_AmbiguousConst : forall p b, violates AmbiguousConst p = true -> accepts p b <> AOk
   Proved for programs whose definition names are plain identifiers ([plain_names]: no
   definition is called like a builtin type or has a dot in its name) — the domain on
   which C05 proves that the model binds an identifier to what it denotes; outside it
   the unchanged code binds differently (C05: resolve_const_unique_refuted). *)
Theorem diagnosed_UndefinedConst_partial : forall p b,
  plain_names p = true -> violates UndefinedConst p = true -> accepts p b <> AOk.
Proof. intros p b Hp Hv Ha. rewrite (proj1 (accepts_sound_consts p b Ha Hp)) in Hv. discriminate. Qed.
Print Assumptions diagnosed_UndefinedConst_partial.

Theorem diagnosed_AmbiguousConst_partial : forall p b,
  plain_names p = true -> violates AmbiguousConst p = true -> accepts p b <> AOk.
Proof. intros p b Hp Hv Ha. rewrite (proj2 (accepts_sound_consts p b Ha Hp)) in Hv. discriminate. Qed.
Print Assumptions diagnosed_AmbiguousConst_partial.

(* the enumeration behind those two predicates lists, whenever it answers, exactly
   the explanations of the declarative relation of C05 *)
Theorem explanations_exact : forall p fn f s l,
  prog_file p fn = Some f -> Rules.explanations p fn f s = Some l ->
  forall x, In x l <-> const_denotes p fn s x.
Proof. exact explanations_spec. Qed.
Print Assumptions explanations_exact.

(* Kinds of constant and default values (checked by the Go backend).  Full statements:
     diagnosed_ConstKindMismatch   : forall p b, violates ConstKindMismatch p = true   -> accepts p b <> AOk
     diagnosed_StructLiteralBadKey : forall p b, violates StructLiteralBadKey p = true -> accepts p b <> AOk
   They hold with -r at every position of the include graph, and without -r when the
   defect sits in the main file; without -r a defect in an include that nothing refers
   through is still accepted by the code (witness below, known finding
   C04-ConstKindMismatch-accepted-unused-include). *)
Theorem diagnosed_ConstKindMismatch_recursive : forall p b,
  be_recursive b = true -> violates ConstKindMismatch p = true -> accepts p b <> AOk.
Proof. intros p b Hr Hv Ha. rewrite (proj1 (accepts_sound_kinds p b Ha Hr)) in Hv. discriminate. Qed.
Print Assumptions diagnosed_ConstKindMismatch_recursive.

Theorem diagnosed_StructLiteralBadKey_recursive : forall p b,
  be_recursive b = true -> violates StructLiteralBadKey p = true -> accepts p b <> AOk.
Proof. intros p b Hr Hv Ha. rewrite (proj2 (accepts_sound_kinds p b Ha Hr)) in Hv. discriminate. Qed.
Print Assumptions diagnosed_StructLiteralBadKey_recursive.

Theorem diagnosed_ConstKindMismatch_main : forall p b,
  main_file p (kind_mismatch p) = true -> accepts p b <> AOk.
Proof. intros p b Hv Ha. rewrite (proj1 (accepts_sound_kinds_main p b Ha)) in Hv. discriminate. Qed.
Print Assumptions diagnosed_ConstKindMismatch_main.

Theorem diagnosed_StructLiteralBadKey_main : forall p b,
  main_file p (struct_literal_bad_key p) = true -> accepts p b <> AOk.
Proof. intros p b Hv Ha. rewrite (proj2 (accepts_sound_kinds_main p b Ha)) in Hv. discriminate. Qed.
Print Assumptions diagnosed_StructLiteralBadKey_main.

Theorem diagnosed_ConstKindMismatch_refuted :
  exists p b, be_recursive b = false /\ violates ConstKindMismatch p = true /\ accepts p b = AOk.
Proof. exact AcceptSound.diagnosed_ConstKindMismatch_refuted. Qed.
Print Assumptions diagnosed_ConstKindMismatch_refuted.

(* The same two rules for EVERY way the declared type can be written (Idl/RulesKinds.v,
   [violates_deep] / [value_defect] / [spec_kind]): through typedef chains, include
   prefixes, for the elements / keys / values of containers named directly, and for the
   values inside a struct literal against the field types read in the file that defines
   the struct-like; what a name stands for is C05's executable denotation on the PARSED
   program.  Proof: the resolved image of a type has the category of what its name
   denotes (C05 resolve_category), Deref arrives at the denoted struct-like with the fuel
   the model uses (C05 deref_spec_fuel), resolution keeps the shape of types and values.
   [parsed_program]: the input is what the parser delivers (hypothesis of C05's theorems). *)
Theorem diagnosed_ConstKindMismatch_deep_recursive : forall p b, parsed_program p = true ->
  be_recursive b = true -> violates_deep ConstKindMismatch p = true -> accepts p b <> AOk.
Proof. intros p b Hp Hr Hv Ha. rewrite (proj1 (accepts_sound_kinds_deep p b Hp Ha Hr)) in Hv. discriminate. Qed.
Print Assumptions diagnosed_ConstKindMismatch_deep_recursive.

Theorem diagnosed_StructLiteralBadKey_deep_recursive : forall p b, parsed_program p = true ->
  be_recursive b = true -> violates_deep StructLiteralBadKey p = true -> accepts p b <> AOk.
Proof. intros p b Hp Hr Hv Ha. rewrite (proj2 (accepts_sound_kinds_deep p b Hp Ha Hr)) in Hv. discriminate. Qed.
Print Assumptions diagnosed_StructLiteralBadKey_deep_recursive.

(* without -r: the defect (of either kind) sits in the main file *)
Theorem diagnosed_value_defect_deep_main : forall p b d, parsed_program p = true ->
  main_file p (value_defect d p) = true -> accepts p b <> AOk.
Proof. intros p b d Hp Hv Ha. rewrite (accepts_sound_kinds_deep_main p b Hp Ha d) in Hv. discriminate. Qed.
Print Assumptions diagnosed_value_defect_deep_main.

(* ---------------------------------------------------------------- accepts_sound: what acceptance excludes *)

Theorem accepts_sound : forall p b, accepts p b = AOk ->
  forall r, always_excluded r = true -> violates r p = false.
Proof. exact AcceptSound.accepts_sound. Qed.
Print Assumptions accepts_sound.

Theorem accepts_sound_consts : forall p b, accepts p b = AOk -> plain_names p = true ->
  violates UndefinedConst p = false /\ violates AmbiguousConst p = false.
Proof. exact AcceptSound.accepts_sound_consts. Qed.
Print Assumptions accepts_sound_consts.

Theorem accepts_sound_kinds : forall p b, accepts p b = AOk -> be_recursive b = true ->
  violates ConstKindMismatch p = false /\ violates StructLiteralBadKey p = false.
Proof. exact AcceptSound.accepts_sound_kinds. Qed.
Print Assumptions accepts_sound_kinds.

(* the walk of CheckAll (DepthFirstSearch) reaches every file that is reachable
   through include statements: no position of the include graph escapes the checker *)
Theorem checker_visits_every_reachable_file : forall p order, dfs_order p = Some order ->
  forall fn, reach p fn -> prog_file p fn <> None -> In fn order.
Proof. exact dfs_order_complete. Qed.
Print Assumptions checker_visits_every_reachable_file.

(* ... and symbol resolution resolves every one of them *)
Theorem resolver_visits_every_reachable_file : forall p r, resolve_program p = Ok r ->
  forall fn f, reach p fn -> prog_file p fn = Some f ->
  exists d1 f', ResolveInv.inv p d1 /\
    (forall i, In i (f_includes f) -> exists hn, in_ref i = Some hn /\ lookup hn d1 <> None) /\
    resolve_file_in d1 f = Ok f'.
Proof. exact reachable_stepped. Qed.
Print Assumptions resolver_visits_every_reachable_file.

(* ---------------------------------------------------------------- completeness of the catalogue (converse direction) *)

(* The front end rejects nothing the catalogue does not list: on a program inside C05's
   [resolvable] (every include present and no include cycle, global names distinct, every
   type name denotes a definition or builtin — no undefined or non-type symbol, no typedef
   cycle —, base services exist, every identifier value has exactly one explanation,
   plain definition names) that violates none of the rules the checker enforces,
   CircleDetect, CheckAll and ResolveSymbols all succeed.  ([resolvable] is C05's
   decidable description of the programs on which [resolve_complete] holds; it plays the
   part of "violates none of IncludeCycle / UndefinedType / NonTypeAsType / TypedefCycle /
   UnknownBaseService / UndefinedConst / AmbiguousConst", with missing includes too.) *)
Theorem front_end_complete : forall p, resolvable p = true ->
  (forall r, In r checker_rules -> violates r p = false) ->
  exists r order, front_end p = FrontOk r order.
Proof. exact AcceptComplete.front_end_complete. Qed.
Print Assumptions front_end_complete.

(* Full statement:
     accepts_complete : forall p b, resolvable p = true ->
       (forall r, ast_level r = true -> violates r p = false) -> accepts p b = AOk
   Proved for programs without constant and default values ([no_values]): for those the
   Go backend has no kind decision to take and the front end decides alone.  With values
   the declarative predicates ConstKindMismatch / StructLiteralBadKey cover directly
   named types only, so "violates none" does not yet imply that [kind_check] passes. *)
Theorem accepts_complete_partial : forall p b, resolvable p = true -> no_values p = true ->
  (forall r, In r checker_rules -> violates r p = false) -> accepts p b = AOk.
Proof. exact AcceptComplete.accepts_complete_no_values. Qed.
Print Assumptions accepts_complete_partial.

(* ---------------------------------------------------------------- getEnum *)

(* getEnum terminates on every file whose typedef chains end — which ResolveTypedefs
   establishes only after the constants have been resolved *)
Theorem get_enum_terminates : forall done g, typedef_acyclic done g ->
  forall name, exists n, forall m, n <= m -> get_enum m done g name <> Error ErrOutOfFuel.
Proof. exact AcceptSound.get_enum_terminates. Qed.
Print Assumptions get_enum_terminates.

(* ... and on  typedef B A  typedef A B  no fuel is enough (the unrepaired Go function
   overflowed its stack; the repaired one stops at the revisited typedef) *)
Theorem get_enum_cycle_diverges : forall n,
  get_enum n [] cyc_file (B "A") = Error ErrOutOfFuel /\ get_enum n [] cyc_file (B "B") = Error ErrOutOfFuel.
Proof. exact AcceptSound.get_enum_cycle_diverges. Qed.
Print Assumptions get_enum_cycle_diverges.

(* ---------------------------------------------------------------- the command line *)

Theorem bad_cmdline_rejected : forall c p, cmdline_valid c = false -> exit0 (run_cmdline c p) = false.
Proof. exact AcceptSound.bad_cmdline_rejected. Qed.
Print Assumptions bad_cmdline_rejected.

Theorem rejected_program_no_output : forall c p why, front_end p = FrontRej why ->
  run_cmdline c p = Outcome false false.
Proof. exact AcceptSound.rejected_program_no_output. Qed.
Print Assumptions rejected_program_no_output.

Theorem single_language_no_partial_output : forall c p l,
  cl_langs c = [l] -> exit0 (run_cmdline c p) = false -> wrote (run_cmdline c p) = false.
Proof. exact AcceptSound.single_language_no_partial_output. Qed.
Print Assumptions single_language_no_partial_output.

(* with two -g the files of the first language are on disk when the second one is
   rejected (known finding C04-BadCommandLine-file-written-second-language) *)
Theorem bad_cmdline_no_output_refuted :
  exists c p, cmdline_valid c = false /\ run_cmdline c p = Outcome false true.
Proof. exact AcceptSound.bad_cmdline_no_output_refuted. Qed.
Print Assumptions bad_cmdline_no_output_refuted.

(* ---------------------------------------------------------------- the hypotheses are satisfiable *)

(* a valid two-file program: accepted by every backend configuration, no rule violated *)
Definition ex_inc : file :=
  File (B "x.thrift") [] [] []
       [Typedef (ty_named (B "E")) (B "TE") [] []]
       [Constant (B "K") (ty_named (B "i32")) (CInt 1) [] []]
       [Enum (B "E") [EnumValue (B "A") 0 [] []; EnumValue (B "Z") 1 [] []] [] []]
       [StructLike SKStruct (B "P") [Field 1 (B "a") ReqDefault (ty_named (B "i32")) (Some (CInt 3)) [] []] [] []]
       [] [] [Service (B "Base") [] [] [] None []] None.
Definition ex_main : file :=
  File (B "main.thrift") [Include (B "x.thrift") (Some (B "x.thrift")) None] [] []
       [Typedef (ty_named (B "x.TE")) (B "L") [] []]
       [Constant (B "c") (ty_named (B "x.P")) (CMap [(CLiteral (B "a"), CIdent (B "x.K") None)]) [] [];
        Constant (B "e") (ty_named (B "L")) (CIdent (B "x.E.Z") None) [] []]
       []
       [StructLike SKStruct (B "S") [Field 1 (B "p") ReqDefault (ty_named (B "x.P")) None [] []] [] []]
       [StructLike SKUnion (B "U") [Field 1 (B "a") ReqOptional (ty_named (B "i32")) (Some (CInt 1)) [] [];
                                    Field 2 (B "b") ReqOptional (ty_named (B "string")) None [] []] [] []]
       [StructLike SKException (B "X") [] [] []]
       [Service (B "Svc") (B "x.Base")
          [Function (B "f") false false (ty_named (B "i32"))
             [Field 1 (B "a") ReqDefault (ty_named (B "i32")) None [] []]
             [Field 1 (B "x") ReqOptional (ty_named (B "X")) None [] []] [] [];
           Function (B "g") true true (ty_named (B "void")) [] [] [] []] [] None []] None.
Definition ex_p : program := [(B "main.thrift", ex_main); (B "x.thrift", ex_inc)].

Example ex_accepted :
  forallb (fun b => match accepts ex_p b with AOk => true | ARej _ => false end)
          [Backend LGo false; Backend LFastGo false; Backend LGo true; Backend LFastGo true] = true.
Proof. vm_compute. reflexivity. Qed.
Example ex_violates_nothing : forallb (fun r => negb (violates r ex_p)) all_rules = true.
Proof. vm_compute. reflexivity. Qed.
Example ex_plain : plain_names ex_p = true.
Proof. vm_compute. reflexivity. Qed.
Example ex_resolvable : resolvable ex_p = true /\ forallb (fun r => negb (violates r ex_p)) checker_rules = true.
Proof. vm_compute. auto. Qed.
Example ex_no_values : resolvable wit_valid = true /\ no_values wit_valid = true /\
                       forallb (fun r => negb (violates r wit_valid)) checker_rules = true.
Proof. vm_compute. auto. Qed.
(* the deep predicates see what the direct ones do not: a string for a typedef of a typedef
   of i32, a string inside list<i32>, an unknown key for an include-qualified typedef of a
   struct, an integer inside the list<string> field of a struct of another file *)
Definition deep_inc : file :=
  File (B "x.thrift") [] [] [] [Typedef (ty_named (B "P")) (B "TP") [] []] [] []
       [StructLike SKStruct (B "P") [Field 1 (B "a") ReqDefault (ty_named (B "i32")) None [] []; Field 2 (B "l") ReqDefault (ty_plain (B "list") None (Some (ty_named (B "string"))) [] []) None [] []] [] []]
       [] [] [] None.
Definition deep_prog (c : constant) : program :=
  [(B "main.thrift", File (B "main.thrift") [Include (B "x.thrift") (Some (B "x.thrift")) None] [] []
      [Typedef (ty_named (B "i32")) (B "T") [] []; Typedef (ty_named (B "T")) (B "T2") [] []] [c] [] [] [] [] [] None);
   (B "x.thrift", deep_inc)].
Example ex_deep :
  forallb (fun rc => violates_deep (fst rc) (deep_prog (snd rc)) && negb (violates (fst rc) (deep_prog (snd rc))) &&
                     parsed_program (deep_prog (snd rc)) &&
                     match accepts (deep_prog (snd rc)) (Backend LGo false) with AOk => false | ARej _ => true end)
    [(ConstKindMismatch, Constant (B "c") (ty_named (B "T2")) (CLiteral (B "s")) [] []);
     (ConstKindMismatch, Constant (B "c") (ty_plain (B "list") None (Some (ty_named (B "i32"))) [] []) (CList [CInt 1; CLiteral (B "s")]) [] []);
     (StructLiteralBadKey, Constant (B "c") (ty_named (B "x.TP")) (CMap [(CLiteral (B "nope"), CInt 1)]) [] []);
     (ConstKindMismatch, Constant (B "c") (ty_named (B "x.P")) (CMap [(CLiteral (B "l"), CList [CInt 5])]) [] [])] = true.
Proof. vm_compute. reflexivity. Qed.
Example ex_acyclic : typedef_acyclic [] chain_file.
Proof. exact chain_file_acyclic. Qed.

(* every AST-level rule has a violating program that is rejected for it: one edit of
   the program above per rule (the same shapes the producer harness/cmd/c04 applies) *)
Definition with_main (f : file) : program := [(B "main.thrift", f); (B "x.thrift", ex_inc)].
Definition add_struct (s : struct_like) : program :=
  with_main (File (f_filename ex_main) (f_includes ex_main) [] [] (f_typedefs ex_main) (f_constants ex_main) []
                  (s :: f_structs ex_main) (f_unions ex_main) (f_exceptions ex_main) (f_services ex_main) None).
Definition add_const (c : constant) : program :=
  with_main (File (f_filename ex_main) (f_includes ex_main) [] [] (f_typedefs ex_main) (c :: f_constants ex_main) []
                  (f_structs ex_main) (f_unions ex_main) (f_exceptions ex_main) (f_services ex_main) None).
Definition fld (id : Z) (n : string) (t : string) : field := Field id (B n) ReqDefault (ty_named (B t)) None [] [].

Example ex_rejected_edits :
  forallb (fun rp => violates (fst rp) (snd rp) &&
                     match accepts (snd rp) (Backend LGo false) with AOk => false | ARej _ => true end)
    [(DupField, add_struct (StructLike SKStruct (B "M") [fld 1 "a" "i32"; fld 2 "a" "i32"] [] []));
     (DupFieldId, add_struct (StructLike SKStruct (B "M") [fld 1 "a" "i32"; fld 1 "b" "i32"] [] []));
     (DupGlobal, add_struct (StructLike SKStruct (B "S") [] [] []));
     (UndefinedType, add_struct (StructLike SKStruct (B "M") [fld 1 "a" "Nope"] [] []));
     (UndefinedType, add_struct (StructLike SKStruct (B "M") [fld 1 "a" "x.Nope"] [] []));
     (NonTypeAsType, add_struct (StructLike SKStruct (B "M") [fld 1 "a" "c"] [] []));
     (NonTypeAsType, add_struct (StructLike SKStruct (B "M") [fld 1 "a" "x.K"] [] []));
     (UndefinedConst, add_const (Constant (B "m") (ty_named (B "i32")) (CIdent (B "x.Nope") None) [] []));
     (ConstKindMismatch, add_const (Constant (B "m") (ty_named (B "i32")) (CLiteral (B "s")) [] []));
     (StructLiteralBadKey, add_const (Constant (B "m") (ty_named (B "S")) (CMap [(CLiteral (B "q"), CInt 1)]) [] []));
     (StructLiteralBadKey, add_const (Constant (B "m") (ty_named (B "S")) (CMap [(CInt 1, CInt 1)]) [] []))] = true.
Proof. vm_compute. reflexivity. Qed.
