(* Mask/Trie.v — model of fieldmask/mask.go (addPath, the queries Field / Int / Str / All,
   ForEachChild restricted to set children), fieldmask/storage.go (the three child stores,
   SetIfNotExist, Get, Reset, setAll) and GetPath / PathInMask of fieldmask/path.go, after
   the repairs C14-1 .. C14-9.

   A FieldMask node is [Node typ isAll isBlack kids].  The four child stores of the Go
   struct (fdMask, intMask, strMask, all) are one association list keyed by
   KF id / KI i / KS s / KAll: a store is non-nil in Go exactly when it holds an entry
   (every set* allocates and inserts at once, nothing is ever deleted), so
   hasChild() is "kids is not empty".  A child that was reset keeps its slot with typ
   FtInvalid (typ == 0), as in Go.
   No proofs in this file. *)
From Coq Require Import List Bool ZArith.
From Coq.Strings Require Import Byte.
From Verif Require Import Base.Bytes Mask.Path Mask.Desc.
Import ListNotations.

Inductive key := KF (id : Z) | KI (i : Z) | KS (s : bytes) | KAll.

Definition key_eqb (a b : key) : bool :=
  match a, b with
  | KF x, KF y => (x =? y)%Z
  | KI x, KI y => (x =? y)%Z
  | KS x, KS y => beqb x y
  | KAll, KAll => true
  | _, _ => false
  end.

Inductive mask := Node (typ : ft) (isall : bool) (black : bool) (kids : list (key * mask)).

Definition m_typ (m : mask) : ft := match m with Node t _ _ _ => t end.
Definition m_isall (m : mask) : bool := match m with Node _ a _ _ => a end.
Definition m_black (m : mask) : bool := match m with Node _ _ b _ => b end.
Definition m_kids (m : mask) : list (key * mask) := match m with Node _ _ _ k => k end.

Fixpoint klookup (k : key) (l : list (key * mask)) : option mask :=
  match l with
  | [] => None
  | (k', c) :: r => if key_eqb k k' then Some c else klookup k r
  end.

Fixpoint kupsert (k : key) (c : mask) (l : list (key * mask)) : list (key * mask) :=
  match l with
  | [] => [(k, c)]
  | (k', c') :: r => if key_eqb k k' then (k, c) :: r else (k', c') :: kupsert k c r
  end.

(* Exist() on a non-nil mask *)
Definition live (m : mask) : bool := negb (ft_eqb (m_typ m) FtInvalid).

(* hasChild() *)
Definition has_child (m : mask) : bool :=
  live m && match m_kids m with [] => false | _ :: _ => true end.

(* All() on a non-nil mask *)
Definition all_of (m : mask) : bool :=
  match m_typ m with
  | FtStruct | FtList | FtIntMap | FtStrMap => m_isall m
  | _ => true
  end.

Definition set_isall (m : mask) (a : bool) : mask := Node (m_typ m) a (m_black m) (m_kids m).
Definition set_typ (m : mask) (t : ft) : mask := Node t (m_isall m) (m_black m) (m_kids m).
Definition set_kids (m : mask) (k : list (key * mask)) : mask := Node (m_typ m) (m_isall m) (m_black m) k.

(* FieldMask.reset: typ = 0, isAll = false, the three stores are reset recursively; the
   [all] child is left alone *)
Fixpoint reset (m : mask) : mask :=
  match m with
  | Node _ _ b ks =>
      Node FtInvalid false b
        ((fix go (l : list (key * mask)) : list (key * mask) :=
            match l with
            | [] => []
            | (k, c) :: r => (match k with KAll => (k, c) | _ => (k, reset c) end) :: go r
            end) ks)
  end.

(* fdMask.Reset / intMask.Reset / strMask.Reset: reset the children of one store *)
Definition reset_store (p : key -> bool) (m : mask) : mask :=
  set_kids m (map (fun kc => if p (fst kc) then (fst kc, reset (snd kc)) else kc) (m_kids m)).

Definition is_KF (k : key) : bool := match k with KF _ => true | _ => false end.
Definition is_KI (k : key) : bool := match k with KI _ => true | _ => false end.
Definition is_KS (k : key) : bool := match k with KS _ => true | _ => false end.
Definition is_KIS (k : key) : bool := match k with KI _ | KS _ => true | _ => false end.

Inductive err := EMalformed | ENoField | EKind | EKeyKind | EConflict | EDesc.
Inductive res (A : Type) := Ok (a : A) | Err (e : err) | Fuel.
Arguments Ok {A} a.
Arguments Err {A} e.
Arguments Fuel {A}.

(* newFieldMask / assign / SetIfNotExist / setAll: the slot for key k, created or revived *)
Definition fresh (t : ft) (b : bool) : mask := Node t false b [].
Definition assign (s : mask) (t : ft) (b : bool) : mask := Node t false b (m_kids s).

Definition slot (k : key) (t : ft) (cur : mask) : mask :=
  match klookup k (m_kids cur) with
  | None => fresh t (m_black cur)
  | Some s => if live s then s else assign s t (m_black cur)
  end.

Definition put (k : key) (c : mask) (cur : mask) : mask := set_kids cur (kupsert k c (m_kids cur)).

(* go down into the slot of k (typed t), continue there with g, store the result *)
Definition with_child (k : key) (t : ft) (cur : mask) (g : mask -> res mask) : res mask :=
  match g (slot k t cur) with
  | Ok c => Ok (put k c cur)
  | Err e => Err e
  | Fuel => Fuel
  end.

Fixpoint fold_keys (ks : list key) (t : ft) (g : mask -> res mask) (cur : mask) : res mask :=
  match ks with
  | [] => Ok cur
  | k :: r =>
      match with_child k t cur g with
      | Ok c => fold_keys r t g c
      | Err e => Err e
      | Fuel => Fuel
      end
  end.

(* the loops over the tokens between [ ] and { } of addPath *)
Inductive scan :=
| SErr (e : err)
| SOk (cur : mask) (all : bool) (ids : list Z) (strs : list bytes) (rest : list token).

Fixpoint scan_idx (ts : list token) (cur : mask) (all : bool) (ids : list Z) (empty : bool) : scan :=
  match ts with
  | [] => SOk cur all ids [] []
  | TIndexR :: rest => if empty then SErr EMalformed else SOk cur all ids [] rest
  | TElem :: rest => scan_idx rest cur all ids false
  | TAny :: rest => scan_idx rest (set_isall (reset_store is_KI cur) true) true ids false
  | TLitInt n :: rest => if all then SErr EConflict else scan_idx rest cur all (ids ++ [n]) false
  | _ :: _ => if all then SErr EConflict else SErr EMalformed
  end.

Fixpoint scan_map (ts : list token) (cur : mask) (all isInt isStr : bool)
         (ids : list Z) (strs : list bytes) (empty : bool) : scan :=
  match ts with
  | [] => SOk cur all ids strs []
  | TMapR :: rest => if empty then SErr EMalformed else SOk cur all ids strs rest
  | TElem :: rest => scan_map rest cur all isInt isStr ids strs false
  | TAny :: rest => scan_map rest (set_isall (reset_store is_KIS cur) true) true isInt isStr ids strs false
  | TLitInt n :: rest =>
      if all then SErr EConflict
      else if isInt then scan_map rest cur all isInt isStr (ids ++ [n]) strs false
      else SErr EKeyKind
  | TStr s :: rest =>
      if all then SErr EConflict
      else if isStr then scan_map rest cur all isInt isStr ids (strs ++ [s]) false
      else SErr EKeyKind
  | _ :: _ => if all then SErr EConflict else SErr EMalformed
  end.

(* FieldMask.addPath on the token list of the path (the rest of the path handed to the
   children of an index or key set is the rest of the token list) *)
Fixpoint add_path (fuel : nat) (env : senv) (toks : list token) (d : ty) (cur : mask) : res mask :=
  match fuel with
  | O => Fuel
  | S f =>
    match toks with
    | [] => Ok (set_isall cur true)
    | TRoot :: r => add_path f env r d (set_typ cur (switch_ft env d))
    | TField :: r =>
        match struct_fields env d with
        | None => Err EKind
        | Some fs =>
          if negb (ft_eqb (m_typ cur) FtStruct) then Err EKind else
          match r with
          | [] => Err EMalformed
          | tok :: r' =>
            if all_of cur then Err EConflict else
            let descend (fd : option field) :=
              match fd with
              | None => Err ENoField
              | Some x => with_child (KF (f_id x)) (switch_ft env (f_ty x)) cur
                                     (fun c => add_path f env r' (f_ty x) c)
              end in
            match tok with
            | TLitInt n => if (n <=? max_int32)%Z then descend (field_by_id fs n) else Err EMalformed
            | TLitStr s => descend (field_by_name fs s)
            | TAny =>
                let cur1 := set_isall (reset_store is_KF cur) true in
                match fs with
                | [] => Err EDesc
                | f0 :: _ =>
                    (* NOTICE in mask.go: the shared child is typed by the first field and
                       the descriptor stays the struct's *)
                    with_child KAll (switch_ft env (f_ty f0)) cur1 (fun c => add_path f env r' d c)
                end
            | _ => Err EMalformed
            end
          end
        end
    | TIndexL :: r =>
        match list_elem d with
        | None => Err EKind
        | Some et =>
          if negb (ft_eqb (m_typ cur) FtList) then Err EKind else
          let nft := switch_ft env et in
          if ft_eqb nft FtInvalid then Err EDesc else
          match scan_idx r cur (all_of cur) [] true with
          | SErr e => Err e
          | SOk cur1 all ids _ rest =>
              if all then with_child KAll nft cur1 (fun c => add_path f env rest et c)
              else fold_keys (map KI ids) nft (fun c => add_path f env rest et c) cur1
          end
        end
    | TMapL :: r =>
        match map_kv d with
        | None => Err EKind
        | Some (_, et) =>
          let t := m_typ cur in
          if negb (ft_eqb t FtIntMap || ft_eqb t FtStrMap || ft_eqb t FtScalar) then Err EKind else
          let nft := switch_ft env et in
          if ft_eqb nft FtInvalid then Err EDesc else
          let isInt := ft_eqb t FtIntMap in
          let isStr := ft_eqb t FtStrMap in
          match scan_map r cur (all_of cur) isInt isStr [] [] true with
          | SErr e => Err e
          | SOk cur1 all ids strs rest =>
              if all then with_child KAll nft cur1 (fun c => add_path f env rest et c)
              else if isInt then fold_keys (map KI ids) nft (fun c => add_path f env rest et c) cur1
              else if isStr then fold_keys (map KS strs) nft (fun c => add_path f env rest et c) cur1
              else Err EMalformed
          end
        end
    | _ :: _ => Err EMalformed
    end
  end.

(* one recursive call per segment at most, every segment has a token *)
Definition path_fuel (toks : list token) : nat := S (List.length toks).

(* FieldMask.init on an empty FieldMask{isBlack: black} *)
Definition empty_mask (black : bool) : mask := Node FtInvalid false black [].

Fixpoint add_tok_paths (env : senv) (d : ty) (ps : list (list token)) (cur : mask) : res mask :=
  match ps with
  | [] => Ok cur
  | p :: r =>
      match add_path (path_fuel p) env p d cur with
      | Ok c => add_tok_paths env d r c
      | Err e => Err e
      | Fuel => Fuel
      end
  end.

(* Options{BlackListMode: black}.NewFieldMask(desc, paths...) *)
Definition new_mask (env : senv) (d : ty) (black : bool) (paths : list bytes) : res mask :=
  add_tok_paths env d (map tokenize paths) (empty_mask black).

(* ------------------------------------------------------------------ queries *)

Inductive qkey := QF (id : Z) | QI (i : Z) | QS (s : bytes).

Definition key_of (q : qkey) : key :=
  match q with QF z => KF z | QI z => KI z | QS s => KS s end.

(* fieldMap.Get / intMap.Get / strMap.Get: only a set child counts *)
Definition get (k : key) (m : mask) : option mask :=
  match klookup k (m_kids m) with
  | Some c => if live c then Some c else None
  | None => None
  end.

(* FieldMask.ret *)
Definition ret (self : mask) (fm : option mask) : option mask * bool :=
  if m_black self
  then (fm, match fm with None => true | Some c => has_child c end)
  else (fm, match fm with None => false | Some _ => true end).

(* Field(id) / Int(i) / Str(s) on a possibly nil mask *)
Definition query (self : option mask) (q : qkey) : option mask * bool :=
  match self with
  | None => (None, true)
  | Some m =>
      if negb (live m) then (None, true)
      else if m_isall m then (klookup KAll (m_kids m), negb (m_black m) || has_child m)
      else ret m (get (key_of q) m)
  end.

Definition all_q (m : option mask) : bool := match m with None => true | Some x => all_of x end.
Definition exist_q (m : option mask) : bool := match m with None => false | Some x => live x end.

(* the sub mask reached by a sequence of queries, and whether every step said "pass" *)
Fixpoint walk_to (m : option mask) (q : list qkey) : option mask * bool :=
  match q with
  | [] => (m, true)
  | k :: r => let (c, ok) := query m k in let (c', ok') := walk_to c r in (c', ok && ok')
  end.

Definition walk (m : option mask) (q : list qkey) : bool := snd (walk_to m q).

(* what a caller observes along a query sequence: the flag of every step (going on with
   the returned sub mask whatever the flag), then All() and Exist() of the last sub mask *)
Fixpoint observe (m : option mask) (q : list qkey) : list bool * bool * bool :=
  match q with
  | [] => ([], all_q m, exist_q m)
  | k :: r => let (c, ok) := query m k in
              let '(oks, a, e) := observe c r in (ok :: oks, a, e)
  end.

(* ForEachChild restricted to children for which Exist() holds, as a key list *)
Definition set_children (m : option mask) : list key :=
  match m with
  | None => []
  | Some x =>
      let want (k : key) :=
        match m_typ x, k with
        | FtStruct, KF _ => true
        | FtList, KI _ | FtIntMap, KI _ => true
        | FtStrMap, KS _ => true
        | _, _ => false
        end in
      map fst (filter (fun kc => want (fst kc) && live (snd kc)) (m_kids x))
  end.

(* ------------------------------------------------------------------ GetPath *)

Fixpoint gscan_idx (ts : list token) (c : mask) (all : bool) (next : option mask)
  : option (option mask * list token) :=
  match ts with
  | [] => Some (next, [])
  | TIndexR :: r => Some (next, r)
  | t :: r =>
      if all then gscan_idx r c all next else
      match t with
      | TElem => gscan_idx r c all next
      | TLitInt n => let (nf, ex) := query (Some c) (QI n) in
                     if ex then gscan_idx r c all nf else None
      | _ => None
      end
  end.

Fixpoint gscan_map (ts : list token) (c : mask) (next : option mask)
  : option (option mask * list token) :=
  match ts with
  | [] => Some (next, [])
  | TMapR :: r => Some (next, r)
  | t :: r =>
      if all_of c then gscan_map r c next else
      match t with
      | TElem => gscan_map r c next
      | TLitInt n =>
          if negb (ft_eqb (m_typ c) FtIntMap) then None else
          let (nf, ex) := query (Some c) (QI n) in
          if ex then gscan_map r c nf else None
      | TStr s =>
          if negb (ft_eqb (m_typ c) FtStrMap) then None else
          let (nf, ex) := query (Some c) (QS s) in
          if ex then gscan_map r c nf else None
      | _ => None
      end
  end.

(* FieldMask.GetPath; None = out of fuel *)
Fixpoint get_path (fuel : nat) (env : senv) (toks : list token) (d : ty)
         (cur last : option mask) : option (option mask * bool) :=
  match fuel with
  | O => None
  | S f =>
    match toks with
    | [] => Some (cur, true)
    | stok :: r =>
      match cur with
      | None => Some (last, true)
      | Some c =>
        match stok with
        | TRoot => get_path f env r d cur cur
        | TField =>
            match struct_fields env d with
            | None => Some (None, false)
            | Some fs =>
              if negb (ft_eqb (m_typ c) FtStruct) then Some (None, false) else
              match r with
              | [] => Some (None, false)
              | tok :: r' =>
                let step (fd : option field) :=
                  match fd with
                  | None => Some (None, false)
                  | Some x =>
                      let (nf, ex) := query cur (QF (f_id x)) in
                      if ex then get_path f env r' (f_ty x) nf cur else Some (None, false)
                  end in
                match tok with
                | TLitInt n => if (n <=? max_int32)%Z then step (field_by_id fs n) else Some (None, false)
                | TLitStr s => step (field_by_name fs s)
                | TAny => if all_of c then get_path f env r' d (klookup KAll (m_kids c)) cur
                          else Some (None, false)
                | _ => Some (None, false)
                end
              end
            end
        | TIndexL =>
            match list_elem d with
            | None => Some (None, false)
            | Some et =>
              if negb (ft_eqb (m_typ c) FtList) then Some (None, false) else
              match gscan_idx r c (all_of c) (klookup KAll (m_kids c)) with
              | None => Some (None, false)
              | Some (next, rest) => get_path f env rest et next cur
              end
            end
        | TMapL =>
            match map_kv d with
            | None => Some (None, false)
            | Some (_, et) =>
              let t := m_typ c in
              if negb (ft_eqb t FtIntMap || ft_eqb t FtStrMap || ft_eqb t FtScalar) then Some (None, false) else
              match gscan_map r c (klookup KAll (m_kids c)) with
              | None => Some (None, false)
              | Some (next, rest) => get_path f env rest et next cur
              end
            end
        | _ => Some (None, false)
        end
      end
    end
  end.

(* PathInMask(desc, path) and All() of the mask GetPath returns *)
Definition path_in_mask (env : senv) (d : ty) (m : mask) (path : bytes) : option (bool * bool) :=
  let toks := tokenize path in
  match get_path (path_fuel toks) env toks d (Some m) (Some m) with
  | None => None
  | Some (r, ex) => Some (ex, all_q r)
  end.
