(* Idl/AcceptComplete.v — property C04, the converse direction for the front end:
   on a program inside C05's [resolvable] (every include present, no include cycle,
   global names distinct, every type name denotes, base services exist, identifiers
   have exactly one explanation) that violates none of the rules the CHECKER enforces,
   CircleDetect, CheckAll and ResolveSymbols all succeed: the front end of thriftgo
   rejects nothing that the catalogue does not list. *)
From Coq Require Import List Bool Arith Lia NArith ZArith.
From Coq.Strings Require Import Byte.
From Verif Require Import Base.Bytes Idl.Ast Idl.AstUtil Idl.AstFacts Idl.Resolve Idl.ResolveSpec Idl.ResolveTd
     Idl.ResolveLemmas Idl.ResolveInv Idl.ResolveConst Idl.ResolveProg Idl.ResolvableSpec Idl.ResolvableConst
     Idl.ResolveComplete Idl.ResolveCompleteConst
     Idl.Check Idl.Rules Idl.CheckFacts Idl.Accept Idl.AcceptFacts.
Import ListNotations.
Local Open Scope check_scope.

(* ---------------------------------------------------------------- CircleDetect finds nothing *)

Lemma inc_refs_step p a f h : prog_file p a = Some f -> In h (inc_refs f) -> inc_step p a h.
Proof.
  intros Pf Hh. change (inc_refs f) with (inc_targets f) in Hh. apply in_inc_targets in Hh.
  destruct Hh as (i & Hi & Hr). exists f, i. auto.
Qed.

Lemma search_no_circle p : forall k fn, includes_ok k p fn = true ->
  forall k' path, k <= k' ->
  (forall x, In x path -> exists y, inc_step p x y /\ reaches p y fn) ->
  search_circle k' p path fn = false.
Proof.
  induction k as [|j IH]; intros fn H k' path Hle Hpath; [discriminate|].
  destruct k' as [|j']; [lia|]. pose proof H as H0. cbn [includes_ok] in H. cbn [search_circle].
  destruct (prog_file p fn) as [f|] eqn:Pf; [|discriminate].
  destruct (memb fn path) eqn:M.
  { exfalso. apply memb_true in M. destruct (Hpath fn M) as (y & Hs & Hr).
    exact (includes_ok_acyclic p _ fn H0 y Hs Hr). }
  apply existsb_false. intros h Hh. pose proof (inc_refs_step p fn f h Pf Hh) as Hst.
  apply (IH h (includes_ok_step p j fn h H0 Hst) j' (fn :: path)); [lia|].
  intros x [<-|Hx].
  - exists h. split; [exact Hst | apply r_refl].
  - destruct (Hpath x Hx) as (y & Hs & Hr). exists y. split; [exact Hs|]. eapply reaches_snoc; eauto.
Qed.

(* ---------------------------------------------------------------- DepthFirstSearch: fuel, and only reachable files *)

Lemma dfs_total p : forall k fn, includes_ok k p fn = true -> forall st, exists st', dfs k p st fn = Some st'.
Proof.
  induction k as [|j IH]; intros fn H st; [discriminate|]. pose proof H as H0. cbn [includes_ok] in H. cbn [dfs].
  destruct (prog_file p fn) as [f|] eqn:Pf; [|discriminate].
  destruct (memb fn (fst st)); [eauto|].
  assert (Hgo : forall refs s, (forall h, In h refs -> In h (inc_refs f)) ->
            exists s', (fix go (refs : list bytes) (st : list bytes * list bytes) :=
                          match refs with
                          | [] => Some st
                          | h :: r => match dfs j p st h with Some st' => go r st' | None => None end
                          end) refs s = Some s').
  { induction refs as [|h refs IHr]; intros s Hin; [eauto|].
    destruct (IH h (includes_ok_step p j fn h H0 (inc_refs_step p fn f h Pf (Hin h (or_introl eq_refl)))) s) as (s1 & ->).
    apply IHr. intros x Hx. apply Hin. right. exact Hx. }
  destruct (Hgo (inc_refs f) (fn :: fst st, snd st) (fun h Hh => Hh)) as (s' & ->). eauto.
Qed.

Lemma dfs_sound p : forall fuel st fn st', dfs fuel p st fn = Some st' -> reach p fn ->
  forall g, In g (snd st') -> In g (snd st) \/ (reach p g /\ prog_file p g <> None).
Proof.
  induction fuel as [|k IH]; intros st fn st' H Hr g Hg; [discriminate|]. cbn [dfs] in H.
  destruct (prog_file p fn) as [f|] eqn:Pf; [|injection H as <-; auto].
  destruct (memb fn (fst st)); [injection H as <-; auto|].
  match type of H with match ?go (inc_refs f) ?s0 with _ => _ end = _ => set (GO := go) in H; set (st0 := s0) in H end.
  assert (Hgo : forall refs s s', (forall h, In h refs -> In h (inc_refs f)) -> GO refs s = Some s' ->
            forall g, In g (snd s') -> In g (snd s) \/ (reach p g /\ prog_file p g <> None)).
  { induction refs as [|h refs IHr]; intros s s' Hin Hg0 g0 Hg1; cbn in Hg0.
    - injection Hg0 as <-. auto.
    - destruct (dfs k p s h) as [s1|] eqn:D1; [|discriminate].
      assert (Hrh : reach p h) by (eapply reach_inc; [exact Hr | exact Pf | exact (Hin h (or_introl eq_refl))]).
      destruct (IHr s1 s' (fun x Hx => Hin x (or_intror Hx)) Hg0 g0 Hg1) as [H1|H1]; [|auto].
      exact (IH s h s1 D1 Hrh g0 H1). }
  destruct (GO (inc_refs f) st0) as [s1|] eqn:G; [|discriminate]. injection H as <-. cbn [snd] in Hg.
  destruct Hg as [<-|Hg]; [right; split; [exact Hr | congruence]|].
  exact (Hgo _ _ _ (fun h Hh => Hh) G g Hg).
Qed.

(* within an include tree of height below n+1, reachability needs at most n steps *)
Lemma reaches_reach_b p : forall n a b, includes_ok (S n) p a = true -> reaches p a b -> reach_b n p a b = true.
Proof.
  induction n as [|n IH]; intros a b H Hr.
  - inversion Hr as [|? c ? Hs _]; subst; [cbn; rewrite beqb_refl; reflexivity|].
    pose proof (includes_ok_step p 0 a c H Hs) as Hc. discriminate.
  - inversion Hr as [|? c ? Hs Hcb]; subst; cbn [reach_b]; [rewrite beqb_refl; reflexivity|].
    apply orb_true_iff. right. destruct Hs as (f & i & Pf & Hi & Hri). rewrite Pf.
    apply existsb_exists. exists c. split; [apply in_inc_targets; eauto|].
    apply IH; [|exact Hcb]. apply (includes_ok_step p (S n) a c H). exists f, i. auto.
Qed.

Lemma reach_reaches p m f rest : p = (m, f) :: rest -> forall fn, reach p fn -> reaches p m fn.
Proof.
  intros Ep fn Hr. induction Hr as [m' f' rest' E|a g h Ha IH Pa Hh].
  - rewrite Ep in E. injection E as <- _ _. apply r_refl.
  - eapply reaches_snoc; [exact IH|]. apply in_inc_targets in Hh. destruct Hh as (i & Hi & Hri). exists g, i. auto.
Qed.

Lemma some_file_false_inv p bad : some_file p bad = false ->
  forall fn f, reachable p fn = true -> prog_file p fn = Some f -> bad fn f = false.
Proof.
  intros H fn f Hr Pf. unfold some_file in H.
  assert (Hin : In fn (map fst p)) by (unfold prog_file in Pf; apply lookup_In in Pf; apply (in_map fst) in Pf; exact Pf).
  pose proof (existsb_false_inv _ _ H fn Hin) as Hx. cbv beta in Hx. rewrite Hr, Pf in Hx. exact Hx.
Qed.

(* ---------------------------------------------------------------- each check passes on a clean file *)

Lemma memb_false x l : (forall y, In y l -> beqb x y = false) -> memb x l = false.
Proof. intros H. unfold memb. apply existsb_false. exact H. Qed.

Lemma dupb_cons_false {A} (eqb : A -> A -> bool) x l : dupb eqb (x :: l) = false ->
  existsb (eqb x) l = false /\ dupb eqb l = false.
Proof. cbn [dupb]. apply orb_false_elim. Qed.

Lemma first_dup_complete : forall l seen, dupb beqb l = false ->
  (forall y, In y l -> memb y seen = false) -> first_dup seen l = false.
Proof.
  induction l as [|x r IH]; intros seen Hd Hs; [reflexivity|]. cbn [first_dup].
  rewrite (Hs x (or_introl eq_refl)). destruct (dupb_cons_false _ _ _ Hd) as (Hx & Hr).
  apply IH; [exact Hr|]. intros y Hy. unfold memb. cbn [existsb]. rewrite beqb_sym.
  rewrite (existsb_false_inv _ _ Hx y Hy). exact (Hs y (or_intror Hy)).
Qed.

Lemma dupb_false_NoDup l : dupb beqb l = false -> NoDup l.
Proof.
  induction l as [|x r IH]; intros H; [constructor|]. destruct (dupb_cons_false _ _ _ H) as (Hx & Hr).
  constructor; [|auto]. intros Hin. pose proof (existsb_false_inv _ _ Hx x Hin) as E. rewrite beqb_refl in E. discriminate.
Qed.

Lemma NoDup_app_tail {A} (b c : list A) : NoDup (b ++ c) -> NoDup c.
Proof. induction b as [|x b IH]; cbn [app]; intros H; [exact H|]. inversion H; subst. auto. Qed.

Lemma NoDup_app_mid {A} (a b c : list A) : NoDup (a ++ b ++ c) -> NoDup (a ++ c).
Proof.
  induction a as [|x a IH]; cbn [app]; intros H; [exact (NoDup_app_tail _ _ H)|].
  inversion H as [|? ? Hn Hd]; subst. constructor; [|auto]. intros Hin. apply Hn.
  apply in_app_or in Hin. apply in_or_app. destruct Hin as [Hi|Hi]; [left; exact Hi | right; apply in_or_app; right; exact Hi].
Qed.

Lemma check_globals_complete f : dup_global f = false -> check_globals f = COk.
Proof.
  unfold dup_global, check_globals. intros H. apply dupb_false_NoDup in H.
  assert (E : map fst (file_def_names f) =
              (map td_alias (f_typedefs f) ++ map co_name (f_constants f)) ++ map en_name (f_enums f) ++
              (map sl_name (struct_likes f) ++ map sv_name (f_services f))).
  { unfold file_def_names. rewrite !map_app, !map_map. cbn [fst]. rewrite <- app_assoc. reflexivity. }
  rewrite E in H. apply NoDup_app_mid in H. rewrite <- app_assoc in H.
  change (NoDup (global_names f)) in H. rewrite (first_dup_complete _ [] (NoDup_dupb _ H)); [reflexivity|].
  intros y _. reflexivity.
Qed.

Lemma check_enum_values_complete : forall vs exist v2n,
  dupb beqb (map ev_name vs) = false -> dupb Z.eqb (map ev_value vs) = false ->
  (forall w, In w vs -> memb (ev_name w) exist = false /\ zlookup (ev_value w) v2n = None /\ fits_int32 (ev_value w) = true) ->
  check_enum_values exist v2n vs = COk.
Proof.
  induction vs as [|v r IH]; intros exist v2n Hn Hv Hall; [reflexivity|]. cbn [check_enum_values].
  destruct (Hall v (or_introl eq_refl)) as (M & Z0 & R0). rewrite M, Z0.
  change (in_int32 (ev_value v)) with (fits_int32 (ev_value v)). rewrite R0.
  cbn [map] in Hn, Hv. destruct (dupb_cons_false _ _ _ Hn) as (Hnx & Hnr). destruct (dupb_cons_false _ _ _ Hv) as (Hvx & Hvr).
  apply IH; [exact Hnr | exact Hvr|]. intros w Hw. destruct (Hall w (or_intror Hw)) as (M1 & Z1 & R1). split; [|split; [|exact R1]].
  - unfold memb. cbn [existsb]. rewrite beqb_sym, (existsb_false_inv _ _ Hnx (ev_name w) (in_map ev_name _ _ Hw)). exact M1.
  - cbn [zlookup]. rewrite Z.eqb_sym, (existsb_false_inv _ _ Hvx (ev_value w) (in_map ev_value _ _ Hw)). exact Z1.
Qed.

Lemma call_all_complete {A} (chk : A -> cres) l : (forall x, In x l -> chk x = COk) -> call_all chk l = COk.
Proof.
  induction l as [|y l IH]; intros H; [reflexivity|]. cbn [call_all]. rewrite (H y (or_introl eq_refl)). cbn [cseq].
  apply IH. intros x Hx. apply H. right. exact Hx.
Qed.

Lemma check_enums_complete f : dup_enum_name f = false -> dup_enum_number f = false -> enum_out_of_int32 f = false ->
  check_enums f = COk.
Proof.
  unfold dup_enum_name, dup_enum_number, enum_out_of_int32, check_enums. intros H1 H2 H3.
  apply call_all_complete. intros e He. apply check_enum_values_complete.
  - exact (existsb_false_inv _ _ H1 e He).
  - exact (existsb_false_inv _ _ H2 e He).
  - intros w Hw. split; [reflexivity|]. split; [reflexivity|].
    pose proof (existsb_false_inv _ _ (existsb_false_inv _ _ H3 e He) w Hw) as E. apply negb_false_iff in E. exact E.
Qed.

Lemma check_field_list_complete : forall fs ids names,
  dupb Z.eqb (map fd_id fs) = false -> dupb beqb (map fd_name fs) = false ->
  (forall x, In x fs -> zmem (fd_id x) ids = false /\ memb (fd_name x) names = false) ->
  check_field_list ids names fs = COk.
Proof.
  induction fs as [|x r IH]; intros ids names Hi Hn Hall; [reflexivity|]. cbn [check_field_list].
  destruct (Hall x (or_introl eq_refl)) as (Z0 & M0). rewrite Z0, M0.
  cbn [map] in Hi, Hn. destruct (dupb_cons_false _ _ _ Hi) as (Hix & Hir). destruct (dupb_cons_false _ _ _ Hn) as (Hnx & Hnr).
  apply IH; [exact Hir | exact Hnr|]. intros w Hw. destruct (Hall w (or_intror Hw)) as (Z1 & M1). split.
  - unfold zmem. cbn [existsb]. rewrite Z.eqb_sym, (existsb_false_inv _ _ Hix (fd_id w) (in_map fd_id _ _ Hw)). exact Z1.
  - unfold memb. cbn [existsb]. rewrite beqb_sym, (existsb_false_inv _ _ Hnx (fd_name w) (in_map fd_name _ _ Hw)). exact M1.
Qed.

Lemma check_field_list_nil fs : dupb Z.eqb (map fd_id fs) = false -> dupb beqb (map fd_name fs) = false ->
  check_field_list [] [] fs = COk.
Proof. intros Hi Hn. apply check_field_list_complete; auto. Qed.

Lemma check_union_fields_complete : forall fs (hd : bool),
  List.length (filter has_default fs) + (if hd then 1 else 0) <= 1 -> check_union_fields hd fs = COk.
Proof.
  induction fs as [|x r IH]; intros hd H; [reflexivity|]. cbn [check_union_fields]. cbn [filter] in H. unfold has_default at 1 in H.
  destruct (fd_default x) as [d|].
  - cbn [List.length] in H. destruct hd; [cbn in H; lia|]. apply IH. cbn. cbn in H. lia.
  - apply IH. exact H.
Qed.

Lemma in_field_lists_struct f s : In s (struct_likes f) -> In (sl_fields s) (field_lists f).
Proof. intros H. unfold field_lists. apply in_or_app. left. apply in_map. exact H. Qed.

Lemma in_field_lists_fn f sv fn l : In sv (f_services f) -> In fn (sv_functions sv) ->
  In l [fn_args fn; fn_throws fn] -> In l (field_lists f).
Proof.
  intros Hs Hf Hl. unfold field_lists. apply in_or_app. right. apply in_flat_map'_iff. exists sv. split; [exact Hs|].
  apply in_flat_map'_iff. exists fn. auto.
Qed.

Lemma in_id_lists_fn f sv fn l : In sv (f_services f) -> In fn (sv_functions sv) ->
  In l [map fd_id (fn_args fn); (if fn_void fn then [] else [0%Z]) ++ map fd_id (fn_throws fn)] -> In l (id_lists f).
Proof.
  intros Hs Hf Hl. unfold id_lists. apply in_or_app. right. apply in_flat_map'_iff. exists sv. split; [exact Hs|].
  apply in_flat_map'_iff. exists fn. auto.
Qed.

Lemma check_function_complete fn : function_clean fn -> check_function fn = COk.
Proof.
  intros (H1 & H2 & A1 & A2 & T2 & T1). unfold check_function. rewrite H1.
  assert (E2 : fn_oneway fn && negb (is_nil (fn_throws fn)) = false) by (destruct (fn_throws fn); [apply andb_false_r | exact H2]).
  rewrite E2. rewrite (check_field_list_nil _ A1 A2). cbn [cseq].
  assert (T1' : dupb Z.eqb (map fd_id (fn_throws fn)) = false /\
                (negb (fn_void fn) && existsb (fun a => Z.eqb (fd_id a) 0) (fn_throws fn)) = false).
  { destruct (fn_void fn); cbn [app negb andb] in *; [auto|]. destruct (dupb_cons_false _ _ _ T1) as (Hx & Hr). split; [exact Hr|].
    apply existsb_false. intros a Ha. rewrite Z.eqb_sym. exact (existsb_false_inv _ _ Hx (fd_id a) (in_map fd_id _ _ Ha)). }
  destruct T1' as (Ti & Tz). rewrite (check_field_list_nil _ Ti T2). cbn [cseq]. rewrite Tz. reflexivity.
Qed.

Lemma check_functions_of_complete : forall fns defined, dupb beqb (map fn_name fns) = false ->
  (forall fn, In fn fns -> memb (fn_name fn) defined = false /\ function_clean fn) ->
  check_functions_of defined fns = COk.
Proof.
  induction fns as [|x r IH]; intros defined Hd Hall; [reflexivity|]. cbn [check_functions_of].
  destruct (Hall x (or_introl eq_refl)) as (M0 & C0). rewrite M0, (check_function_complete _ C0). cbn [cseq].
  cbn [map] in Hd. destruct (dupb_cons_false _ _ _ Hd) as (Hx & Hr). apply IH; [exact Hr|].
  intros w Hw. destruct (Hall w (or_intror Hw)) as (M1 & C1). split; [|exact C1].
  unfold memb. cbn [existsb]. rewrite beqb_sym, (existsb_false_inv _ _ Hx (fn_name w) (in_map fn_name _ _ Hw)). exact M1.
Qed.

(* the rules the checker enforces, per file *)
Definition checker_clean (f : file) : Prop :=
  dup_global f = false /\ dup_enum_name f = false /\ dup_enum_number f = false /\ enum_out_of_int32 f = false /\
  dup_field_name f = false /\ dup_field_id f = false /\ second_union_default f = false /\ dup_function f = false /\
  oneway_returns f = false /\ oneway_throws f = false.

Theorem check_file_complete f : checker_clean f -> check_file f = COk.
Proof.
  intros (G & E1 & E2 & E3 & Fn & Fi & U & Df & O1 & O2). unfold check_file.
  rewrite (check_globals_complete f G), (check_enums_complete f E1 E2 E3). cbn [cseq].
  assert (Hs : check_struct_likes f = COk).
  { unfold check_struct_likes. apply call_all_complete. intros s Hs. apply check_field_list_nil.
    - unfold dup_field_id, id_lists in Fi. apply (existsb_false_inv _ _ Fi). apply in_or_app. left.
      apply (in_map (fun s => map fd_id (sl_fields s))). exact Hs.
    - unfold dup_field_name in Fn. exact (existsb_false_inv _ _ Fn _ (in_field_lists_struct f s Hs)). }
  rewrite Hs. cbn [cseq].
  assert (Hu : check_unions f = COk).
  { unfold check_unions. apply call_all_complete. intros u Hu. apply check_union_fields_complete.
    unfold second_union_default in U. pose proof (existsb_false_inv _ _ U u Hu) as L. apply Nat.leb_gt in L. cbn. lia. }
  rewrite Hu. cbn [cseq]. unfold check_functions. apply call_all_complete. intros sv Hsv.
  apply check_functions_of_complete.
  - unfold dup_function in Df. exact (existsb_false_inv _ _ Df sv Hsv).
  - intros fn Hfn. split; [reflexivity|]. unfold function_clean.
    unfold oneway_returns, some_function in O1. unfold oneway_throws, some_function in O2.
    split; [exact (existsb_false_inv _ _ (existsb_false_inv _ _ O1 sv Hsv) fn Hfn)|].
    split; [exact (existsb_false_inv _ _ (existsb_false_inv _ _ O2 sv Hsv) fn Hfn)|].
    unfold dup_field_id in Fi. unfold dup_field_name in Fn.
    split; [exact (existsb_false_inv _ _ Fi _ (in_id_lists_fn f sv fn _ Hsv Hfn (or_introl eq_refl)))|].
    split; [exact (existsb_false_inv _ _ Fn _ (in_field_lists_fn f sv fn _ Hsv Hfn (or_introl eq_refl)))|].
    split; [exact (existsb_false_inv _ _ Fn _ (in_field_lists_fn f sv fn _ Hsv Hfn (or_intror (or_introl eq_refl))))|].
    exact (existsb_false_inv _ _ Fi _ (in_id_lists_fn f sv fn _ Hsv Hfn (or_intror (or_introl eq_refl)))).
Qed.

(* ---------------------------------------------------------------- the front end *)

Definition checker_rules : list rule :=
  [DupGlobal; DupField; DupFieldId; DupFunction; DupEnumName; DupEnumNumber; EnumOutOfInt32;
   OnewayReturns; OnewayThrows; SecondUnionDefault].

Lemma resolvable_includes p m f rest : p = (m, f) :: rest -> resolvable p = true ->
  includes_ok (S (List.length p)) p m = true.
Proof.
  intros Ep H. unfold resolvable in H. apply andb_true_iff in H. destruct H as (_ & H).
  unfold resolvable_with in H. rewrite Ep in H. rewrite <- Ep in H. apply andb_true_iff in H. exact (proj1 H).
Qed.

Theorem front_end_complete p : resolvable p = true ->
  (forall r, In r checker_rules -> violates r p = false) ->
  exists r order, front_end p = FrontOk r order.
Proof.
  intros Hres Hv. destruct (resolve_complete p Hres) as (r & Hr). unfold front_end.
  destruct p as [|[m mf] rest] eqn:Ep.
  { cbn. eauto. }
  rewrite <- Ep in *. pose proof (resolvable_includes p m mf rest Ep Hres) as Hinc.
  assert (Hc : circle_detect p = false).
  { unfold circle_detect. rewrite Ep. rewrite <- Ep. apply (search_no_circle p _ m Hinc); [lia | intros x []]. }
  rewrite Hc. unfold dfs_order. rewrite Ep. rewrite <- Ep.
  destruct (dfs_total p _ m Hinc ([], [])) as (st & D). rewrite D.
  assert (Hck : call_all (check_named p) (rev (snd st)) = COk).
  { apply call_all_complete. intros fn Hfn. apply in_rev in Hfn.
    assert (Rm : reach p m) by (eapply reach_main; exact Ep).
    destruct (dfs_sound p _ _ _ _ D Rm fn Hfn) as [[]|(Rf & Pn)].
    unfold check_named. destruct (prog_file p fn) as [f|] eqn:Pf; [|reflexivity].
    assert (Rb : reachable p fn = true).
    { unfold reachable. rewrite Ep. rewrite <- Ep. apply reaches_reach_b; [exact Hinc|]. exact (reach_reaches p m mf rest Ep fn Rf). }
    apply check_file_complete.
    assert (Hone : forall ru bad, In ru checker_rules -> violates ru p = some_file p (fun _ f => bad f) -> bad f = false).
    { intros ru bad Hin E. pose proof (Hv ru Hin) as V. rewrite E in V.
      exact (some_file_false_inv p _ V fn f Rb Pf). }
    unfold checker_clean, checker_rules in *.
    repeat split; [eapply (Hone DupGlobal) | eapply (Hone DupEnumName) | eapply (Hone DupEnumNumber) | eapply (Hone EnumOutOfInt32)
                   | eapply (Hone DupField) | eapply (Hone DupFieldId) | eapply (Hone SecondUnionDefault) | eapply (Hone DupFunction)
                   | eapply (Hone OnewayReturns) | eapply (Hone OnewayThrows)]; cbn; try reflexivity; tauto. }
  rewrite Hck, Hr. eauto.
Qed.

(* ---------------------------------------------------------------- the whole pipeline, for programs without constant values *)

From Verif Require Import Idl.AcceptBackend.
Local Open Scope resolve_scope.

(* no constant and no default value anywhere: nothing for the Go backend's kind checks *)
Definition no_values (p : program) : bool := forallb (fun e => is_nil (typed_values (snd e))) p.

Lemma flat_map_nil {A B} (h : A -> list B) l : flat_map h l = [] -> forall x, In x l -> h x = [].
Proof.
  induction l as [|y l IH]; intros H x Hx; [destruct Hx|]. cbn [flat_map] in H. apply app_eq_nil in H.
  destruct H as (H1 & H2). destruct Hx as [<-|Hx]; auto.
Qed.

Lemma nil_flat_map {A B} (h : A -> list B) l : (forall x, In x l -> h x = []) -> flat_map h l = [].
Proof.
  induction l as [|y l IH]; intros H; [reflexivity|]. cbn [flat_map]. rewrite (H y (or_introl eq_refl)), IH; [reflexivity|].
  intros x Hx. apply H. right. exact Hx.
Qed.

Lemma typed_values_nil f : typed_values f = [] ->
  f_constants f = [] /\ forall fd, In fd (file_fields f) -> fd_default fd = None.
Proof.
  unfold typed_values. intros H. apply app_eq_nil in H. destruct H as (H1 & H2). split.
  - destruct (f_constants f); [reflexivity | discriminate].
  - intros fd Hfd. pose proof (flat_map_nil _ _ H2 fd Hfd) as E. cbv beta in E. destruct (fd_default fd); [discriminate | reflexivity].
Qed.

Lemma backend_values_nil g : f_constants g = [] -> (forall fd, In fd (file_fields g) -> fd_default fd = None) ->
  backend_values g = [].
Proof.
  intros Hc Hf. unfold backend_values. rewrite Hc. cbn [map]. rewrite app_nil_r. apply nil_flat_map.
  intros fd Hfd. rewrite (Hf fd Hfd). reflexivity.
Qed.

Lemma Forall2_nil_l {A B} (R : A -> B -> Prop) l' : Forall2 R [] l' -> l' = [].
Proof. inversion 1. reflexivity. Qed.

(* resolution adds no value *)
Lemma resolve_file_in_no_values d1 f f' : resolve_file_in d1 f = Ok f' -> typed_values f = [] -> backend_values f' = [].
Proof.
  intros Hres Hnil. destruct (typed_values_nil f Hnil) as (Hc & Hd).
  pose proof Hres as H. unfold resolve_file_in in H. inv_bind H. injection H as <-.
  rename x into n2c, x0 into tds1, x1 into cs1, x2 into ss1, x3 into us1, x4 into es1, x5 into sv1,
         x6 into st, x7 into tds2, x8 into cs2, x9 into ss2, x10 into us2, x11 into es2, x12 into sv2.
  set (f0 := with_name2cat f (Some n2c)) in *. set (f1 := with_typedefs f0 tds1) in *.
  set (fuel := enum_fuel d1 f1) in *.
  pose proof (structs_kept d1 f1 st fuel _ _ _ E2 E9) as Ks.
  pose proof (structs_kept d1 f1 st fuel _ _ _ E3 E10) as Ku.
  pose proof (structs_kept d1 f1 st fuel _ _ _ E4 E11) as Ke.
  assert (Ksl : Forall2 (sl_kept d1 f1 st fuel) (struct_likes f) (ss2 ++ us2 ++ es2))
    by (unfold struct_likes; repeat apply Forall2_app; assumption).
  assert (Ksv : Forall2 (sv_kept d1 f1 st fuel) (f_services f) sv2).
  { eapply Forall2_impl'; [|exact (two_mapM _ _ _ _ _ E5 E12)]. intros sv sv2' (sv1' & A & B). eapply service_kept; eauto. }
  assert (Kf : Forall2 (fd_kept d1 f1 st fuel) (file_fields f)
                       (flat_map' sl_fields (ss2 ++ us2 ++ es2) ++ flat_map' service_fields sv2)).
  { unfold file_fields. apply Forall2_app.
    - clear -Ksl. induction Ksl as [|s s2 l l2 (_ & Hfs) _ IH]; [constructor|].
      unfold flat_map' in *. cbn [map concat]. apply Forall2_app; assumption.
    - clear -Ksv. induction Ksv as [|sv sv2' l l2 Hsv _ IH]; [constructor|].
      unfold flat_map' at 1 2. cbn [map concat]. apply Forall2_app; [|exact IH].
      unfold service_fields. clear -Hsv. unfold sv_kept in Hsv.
      induction Hsv as [|fu fu2 l l2 (Ha & Ht) _ IH]; [constructor|].
      unfold flat_map' in *. cbn [map concat]. apply Forall2_app; [|exact IH].
      unfold function_fields. apply Forall2_app; assumption. }
  apply backend_values_nil.
  - cbn [with_includes f_constants]. rewrite Hc in E1. cbn [mapM] in E1. injection E1 as <-. cbn [mapM] in E8. injection E8 as <-. reflexivity.
  - intros fd2 Hfd2. unfold file_fields, struct_likes in Hfd2.
    cbn [with_includes f_structs f_unions f_exceptions f_services] in Hfd2.
    destruct (Forall2_In_r _ _ _ _ Kf Hfd2) as (fd & Hfd & (_ & _ & Hdef)). rewrite (Hd fd Hfd) in Hdef. exact Hdef.
Qed.

(* completeness of the catalogue on programs without constant values: what violates no
   rule of the checker and is inside [resolvable] is accepted, by every backend *)
Theorem accepts_complete_no_values p b : resolvable p = true -> no_values p = true ->
  (forall r, In r checker_rules -> violates r p = false) -> accepts p b = AOk.
Proof.
  intros Hres Hnv Hv. destruct (front_end_complete p Hres Hv) as (r & order & Hfe).
  unfold accepts. rewrite Hfe.
  assert (Hbk : forall fn, check_scope r fn = None).
  { intros fn. unfold check_scope. destruct (prog_file r fn) as [g|] eqn:Pr; [|reflexivity].
    assert (Hg : backend_values g = []); [|rewrite Hg; reflexivity].
    destruct (front_end_ok p r order Hfe) as (_ & _ & Hrs & _).
    pose proof Hrs as H. unfold resolve_program in H. destruct p as [|[mainfn mf] p'] eqn:Ep.
    { injection H as <-. discriminate. }
    rewrite <- Ep in *. inv_bind H. injection H as <-. rename x into done.
    pose proof (resolve_rec_traced p _ _ _ _ (inv_nil p) (traced_nil p) E) as Htr.
    unfold prog_file in Pr. rewrite lookup_map_done in Pr.
    destruct (lookup fn p) as [f|] eqn:Lp; [|discriminate]. injection Pr as Pr.
    assert (Hnil : typed_values f = []).
    { unfold no_values in Hnv. rewrite forallb_forall in Hnv. pose proof (Hnv (fn, f) (lookup_In _ _ _ Lp)) as E0.
      cbn [snd] in E0. destruct (typed_values f); [reflexivity | discriminate]. }
    destruct (lookup fn done) as [f'|] eqn:Ld.
    - subst g. destruct (Htr fn f' Ld) as (d1 & f0 & Pf0 & _ & _ & _ & R1).
      assert (f0 = f) by (unfold prog_file in Pf0; congruence). subst f0.
      exact (resolve_file_in_no_values d1 f f' R1 Hnil).
    - subst g. destruct (typed_values_nil f Hnil) as (Hc & Hd). exact (backend_values_nil f Hc Hd). }
  unfold backend_stage.
  assert (Hfe0 : forall l, first_err (check_scope r) l = None).
  { induction l as [|x l IH]; [reflexivity|]. cbn [first_err]. rewrite (Hbk x). exact IH. }
  rewrite Hfe0. reflexivity.
Qed.
