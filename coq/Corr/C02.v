(* Corr/C02.v — correspondence record and oracles for property C02.

   A shard file defines  E : env  (the schema program) and a list of cases; every case carries
   the input chosen by the harness and what the generated Go code was observed to do.

   [mismatches] returns (case index, code):
     1  model and implementation disagree                                   (correspondence)
     8  the input is outside what the value-level model follows (EHeader / ill-typed model value):
        the harness must not produce it                                      (correspondence)
     9  out of fuel (never expected: dec_struct always has enough)           (correspondence)
     2  bytes produced by Write do not decode, under the schema, to the value        (oracle)
     3  wire shape: ids / wire types / presence of the emitted fields wrong           (oracle)
     4  Write accepted a union that does not have exactly one member set              (oracle)
     5  Read accepted input in which a required field is absent                       (oracle)
     6  a presentation-only option changed the bytes of Write                         (oracle)
     7  Read of a reference encoding (plus skippable fields) does not show the value  (oracle)
    10  thrift struct tags (name, id, requiredness) differ from the IDL               (oracle)
    11  getters / IsSet of the object Read produced do not show the value             (oracle)   *)
From Coq Require Import List ZArith Bool NArith Lia.
From Verif Require Import Base.Bytes Base.BE Wire.TType Wire.WVal Wire.Codec Wire.Schema Wire.Value Wire.Std.
Import ListNotations.
Open Scope Z_scope.

Inductive obs_err := OOk | OInvalidData | OProtocol | OTransport | OError | OPanic.

(* Go representation kinds reported by the driver *)
Inductive gk := GBool | GI8 | GI16 | GI32 | GI64 | GF64 | GString | GBytes | GStruct
              | GPtr (k : gk) | GSlice (k : gk) | GMap (k v : gk) | GOther.

Fixpoint gk_eqb (a b : gk) : bool :=
  match a, b with
  | GBool, GBool | GI8, GI8 | GI16, GI16 | GI32, GI32 | GI64, GI64 | GF64, GF64
  | GString, GString | GBytes, GBytes | GStruct, GStruct | GOther, GOther => true
  | GPtr x, GPtr y | GSlice x, GSlice y => gk_eqb x y
  | GMap k v, GMap k' v' => gk_eqb k k' && gk_eqb v v'
  | _, _ => false
  end.

(* presentation options that change the Go representation (never the wire) *)
Record popts := mkpopts { enum32 : bool;      (* enum_as_int_32 *)
                          value_sic : bool;   (* value_type_in_container *)
                          reorder : bool }.   (* reorder_fields *)

Fixpoint gk_of (o : popts) (top key : bool) (t : ty) : gk :=
  match t with
  | TBool => GBool | TByte => GI8 | TI16 => GI16 | TI32 => GI32 | TI64 => GI64 | TDouble => GF64
  | TString => GString
  | TBinary => if key then GString else GBytes
  | TEnum _ => if enum32 o then GI32 else GI64
  | TRef _ => if negb top && value_sic o && negb key then GStruct else GPtr GStruct
  | TList e | TSet e => GSlice (gk_of o false false e)
  | TMap k v => GMap (gk_of o false true k) (gk_of o false false v)
  end.
Definition gk_slot (o : popts) (f : field) : gk :=
  if base_ptr f then GPtr (gk_of o true false (f_ty f)) else gk_of o true false (f_ty f).

Record shape_field := mksf { sf_name : bytes; sf_id : Z; sf_req : req; sf_kind : gk;
                             sf_getter : bool; sf_isset : bool }.

Inductive case :=
| CShape (sname : bytes) (o : popts) (fields : list shape_field)
| CWrite (sname : bytes) (o : popts) (v : value) (oerr : obs_err) (obytes : bytes)
| CRead (sname : bytes) (o : popts) (zero_init : bool) (input : bytes) (src : option value)
        (oerr : obs_err) (odump : value) (ogetters : list (Z * value)) (oisset : list (Z * bool))
        (rw_err : obs_err) (rw_bytes : bytes)
| CSame (sname : bytes) (ref_bytes other_bytes : bytes).

(* ---- equality of values modulo the order of map entries ---- *)
Fixpoint veq_mod (a b : value) {struct a} : bool :=
  match a, b with
  | VBool x, VBool y => Bool.eqb x y
  | VInt x, VInt y | VDbl x, VDbl y => x =? y
  | VStr x, VStr y | VBin x, VBin y => beqb x y
  | VNil, VNil => true
  | VSome x, VSome y => veq_mod x y
  | VList la, VList lb =>
      (fix go (la lb : list value) : bool :=
         match la, lb with
         | [], [] => true
         | x :: ra, y :: rb => veq_mod x y && go ra rb
         | _, _ => false end) la lb
  | VStruct la, VStruct lb =>
      (fix go (la lb : list (Z * value)) : bool :=
         match la, lb with
         | [], [] => true
         | (i, x) :: ra, (j, y) :: rb => (i =? j) && veq_mod x y && go ra rb
         | _, _ => false end) la lb
  | VMap la, VMap lb =>
      (fix go (la : list (value*value)) (lb : list (value*value)) : bool :=
         match la with
         | [] => match lb with [] => true | _ => false end
         | (x,y) :: ra =>
           match (fix rm (l : list (value*value)) : option (list (value*value)) :=
                    match l with
                    | [] => None
                    | (x',y') :: r =>
                      if veq_mod x x' && veq_mod y y' then Some r
                      else match rm r with Some r' => Some ((x',y') :: r') | None => None end
                    end) lb with
           | Some lb' => go ra lb'
           | None => false
           end
         end) la lb
  | _, _ => false
  end.

(* map keys stay pairwise different after the trip (enum keys are truncated to i32 on the wire):
   only then is "the value the bytes decode to" independent of Go's map iteration order *)
Fixpoint keys_stable (e : env) (t : ty) (v : value) {struct v} : bool :=
  match v with
  | VList l => match t with TList a | TSet a => forallb (keys_stable e a) l | _ => true end
  | VMap kvs =>
      match t with
      | TMap a b => negb (has_dup go_key_eq (map (fun kv => norm e a (fst kv)) kvs)) &&
                    forallb (fun kv => keys_stable e a (fst kv) && keys_stable e b (snd kv)) kvs
      | _ => true end
  | VStruct fs =>
      match t with
      | TRef n => match find_struct e n with
                  | Some s => forallb (fun p => match find_field (fst p) (s_fields s) with
                                                | Some f => keys_stable e (f_ty f) (snd p) | None => true end) fs
                  | None => true end
      | _ => true end
  | VSome x => keys_stable e t x
  | _ => true
  end.

Definition req_eq (a b : req) : bool := req_eqb a b.

Definition sf_eqb (a b : shape_field) : bool :=
  beqb (sf_name a) (sf_name b) && (sf_id a =? sf_id b) && req_eq (sf_req a) (sf_req b).

Definition model_shape (o : popts) (s : sschema) : list shape_field :=
  map (fun f => mksf (f_name f) (f_id f) (f_req f) (gk_slot o f) true (supports_isset f)) (s_fields s).

(* header view of emitted fields *)
Definition hdrs (wfs : list wfield) : list (ttype * Z) := map (fun f => (fst (fst f), snd (fst f))) wfs.
Definition hdr_eqb (a b : ttype * Z) : bool := ttype_eqb (fst a) (fst b) && (snd a =? snd b).

Fixpoint list_eqb {A} (eq : A -> A -> bool) (a b : list A) : bool :=
  match a, b with [], [] => true | x :: r, y :: s => eq x y && list_eqb eq r s | _, _ => false end.

(* expected headers from the schema and the value alone (Thrift rules; spec_ttype, not the table) *)
Definition expected_hdrs (s : sschema) (fs : list (Z * value)) : list (ttype * Z) :=
  cat_somes (map (fun p => match find_field (fst p) (s_fields s) with
                           | Some f => if present f (snd p) then Some (spec_ttype (f_ty f), f_id f) else None
                           | None => None end) fs).

Definition is_err (o : obs_err) : bool := match o with OOk | OPanic => false | _ => true end.

(* a required field of s that no field of the (decoded) input provides with the right type *)
Definition lacks_required (e : env) (s : sschema) (wfs : list wfield) : bool :=
  existsb (fun f => is_required f &&
                    negb (existsb (fun wf => (snd (fst wf) =? f_id f) && ttype_eqb (fst (fst wf)) (spec_ttype (f_ty f))) wfs))
          (s_fields s).

(* fields the reader of s must skip *)
Definition ignorable (e : env) (s : sschema) (wf : wfield) : bool :=
  match find_field (snd (fst wf)) (s_fields s) with
  | Some f => negb (ttype_eqb (fst (fst wf)) (spec_ttype (f_ty f)))
  | None => true end.

Definition compare_written (e : env) (s : sschema) (o : popts) (v : value) (oerr : obs_err) (obytes : bytes)
  : list N :=
  match to_wire e s v with
  | Ok w =>
      match oerr with
      | OOk => match dec_struct obytes with
               | Some (w', []) => if weq_mod (reorder o) w w' then [] else [1%N]
               | _ => [1%N] end
      | _ => [1%N] end
  | Err (EUnionCount _) | Err ESetDup => if is_err oerr then [] else [1%N]
  | Err ENilUnion => match oerr with OPanic => [] | _ => [1%N] end
  | Err _ => [8%N]
  end.

Definition check (e : env) (c : case) : list N :=
  match c with
  | CShape sname o fields =>
      match find_struct e sname with
      | None => [8%N]
      | Some s =>
          let m := model_shape o s in
          let tags_ok := if reorder o then perm_eqb sf_eqb m fields else list_eqb sf_eqb m fields in
          let kinds_ok := forallb (fun sf => existsb (fun mf => sf_eqb sf mf && gk_eqb (sf_kind sf) (sf_kind mf)
                                                     && Bool.eqb (sf_getter sf) (sf_getter mf)
                                                     && Bool.eqb (sf_isset sf) (sf_isset mf)) m) fields in
          (if tags_ok then [] else [10%N]) ++ (if tags_ok && negb kinds_ok then [1%N] else [])
      end
  | CWrite sname o v oerr obytes =>
      match find_struct e sname with
      | None => [8%N]
      | Some s =>
          compare_written e s o v oerr obytes ++
          (* oracles on the observed bytes *)
          (if wt e s v && keys_stable e (TRef (s_name s)) v then
             match oerr, dec_struct obytes with
             | OOk, Some (WStruct wfs, []) =>
                 (match read_new e s (WStruct wfs) with
                  | Ok v' => if veq_mod v' (norm_struct e s v) then [] else [2%N]
                  | Err _ => [2%N] end) ++
                 (match v with
                  | VStruct fs =>
                      let exp := expected_hdrs s fs in
                      if (if reorder o then perm_eqb hdr_eqb exp (hdrs wfs) else list_eqb hdr_eqb exp (hdrs wfs))
                      then [] else [3%N]
                  | _ => [] end)
             | _, _ => [2%N]
             end
           else []) ++
          (match v with
           | VStruct fs => if is_union s && negb (count_set (s_fields s) fs =? 1)%nat && negb (is_err oerr)
                           then [4%N] else []
           | _ => [] end)
      end
  | CRead sname o zero_init input src oerr odump ogetters oisset rw_err rw_bytes =>
      match find_struct e sname with
      | None => [8%N]
      | Some s =>
          let init := if zero_init then zero_struct e s else new_struct e s in
          (match read_bytes e s init input with
           | Ok v =>
               match oerr with
               | OOk =>
                   (if veq_mod v odump then [] else [1%N]) ++
                   (match v with
                    | VStruct fs =>
                        let mg := cat_somes (map (fun p => match find_field (fst p) (s_fields s) with
                                                           | Some f => Some (fst p, getter f (snd p)) | None => None end) fs) in
                        let mi := cat_somes (map (fun p => match find_field (fst p) (s_fields s) with
                                                           | Some f => if supports_isset f then Some (fst p, isset f (snd p)) else None
                                                           | None => None end) fs) in
                        (if list_eqb (fun a b => (fst a =? fst b) && veq_mod (snd a) (snd b)) mg ogetters then [] else [11%N]) ++
                        (if list_eqb (fun a b => (fst a =? fst b) && Bool.eqb (snd a) (snd b)) mi oisset then [] else [11%N])
                    | _ => [1%N] end) ++
                   compare_written e s o v rw_err rw_bytes
               | _ => [1%N] end
           | Err (ERequiredMissing _) => match oerr with OInvalidData => [] | _ => [1%N] end
           | Err EDecode => if is_err oerr then [] else [1%N]
           | Err _ => [8%N]
           end) ++
          (* oracles on the observed behaviour *)
          (match dec_struct input with
           | Some (WStruct wfs, _) =>
               (if lacks_required e s wfs && negb (is_err oerr) then [5%N] else []) ++
               (match src with
                | Some v0 =>
                    if wt e s v0 && negb zero_init then
                      match to_wire e s v0 with
                      | Ok w0 =>
                          if weqb w0 (WStruct (filter (fun wf => negb (ignorable e s wf)) wfs)) then
                            match oerr with
                            | OOk => if veq_mod odump (norm_struct e s v0) then [] else [7%N]
                            | _ => [7%N] end
                          else []
                      | Err _ => [] end
                    else []
                | None => [] end)
           | _ => [] end)
      end
  | CSame sname a b => if beqb a b then [] else [6%N]
  end.

Fixpoint mismatches_from (e : env) (i : N) (cs : list case) : list (N * N) :=
  match cs with
  | [] => []
  | c :: r => map (fun code => (i, code)) (check e c) ++ mismatches_from e (i + 1)%N r
  end.

(* statistics the runner records: how many cases were inside the domain of the theorems *)
Definition in_domain (e : env) (c : case) : bool :=
  match c with
  | CWrite sname _ v _ _ => match find_struct e sname with Some s => wt e s v | None => false end
  | CRead sname _ _ _ (Some v0) _ _ _ _ _ _ => match find_struct e sname with Some s => wt e s v0 | None => false end
  | _ => true
  end.
