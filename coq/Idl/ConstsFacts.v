(* Idl/ConstsFacts.v — proofs about Idl/Consts.v (property C06).  Statements are collected
   in Props/C06.v. *)
From Coq.Strings Require Import String.
From Coq Require Import List Bool ZArith NArith Lia Arith.
From Coq.Strings Require Import Byte.
From Verif Require Import Base.Bytes Idl.Ast Idl.AstUtil Idl.Consts.
From Verif Require Idl.Resolve Idl.Lex.
Import ListNotations.
Local Open Scope Z_scope.
Local Open Scope consts_scope.

(* ---------------------------------------------------------------- small tools *)

Lemma bind_ok {A B} (r : result A) (k : A -> result B) b :
  bind r k = Ok b -> exists a, r = Ok a /\ k a = Ok b.
Proof. destruct r as [a|e]; cbn; [eauto | discriminate]. Qed.

Lemma mapM_ok {A B} (f : A -> result B) l vs :
  mapM f l = Ok vs <-> Forall2 (fun x y => f x = Ok y) l vs.
Proof.
  revert vs. induction l as [|x l IH]; intros vs; cbn.
  - split; [intros [= <-]; constructor | intros H; inversion H; reflexivity].
  - split.
    + intros H. apply bind_ok in H as (y & Hy & H). apply bind_ok in H as (ys & Hys & H).
      injection H as <-. constructor; [exact Hy | apply IH; exact Hys].
    + intros H. inversion H as [|? y ? ys Hy Hys]; subst. rewrite Hy. cbn.
      apply IH in Hys. rewrite Hys. reflexivity.
Qed.

Lemma mapM_length {A B} (f : A -> result B) l vs : mapM f l = Ok vs -> length vs = length l.
Proof. intros H. apply mapM_ok in H. induction H; cbn; congruence. Qed.

Lemma mapM_ext {A B} (f g : A -> result B) l : (forall x, In x l -> f x = g x) -> mapM f l = mapM g l.
Proof.
  induction l as [|x l IH]; intros H; cbn; [reflexivity|].
  rewrite (H x (or_introl eq_refl)). rewrite IH; [reflexivity | intros; apply H; right; assumption].
Qed.

(* ---------------------------------------------------------------- string literals *)

(* a byte the literal rule copies unchanged: not a backslash, not a control byte other
   than tab; the double quote is allowed: it is re-escaped and read back *)
Definition plain_byte (c : byte) : bool :=
  negb (Byte.eqb c c_bs) && negb ((Z.of_N (Byte.to_N c) <? 32) && negb (Byte.eqb c x09)).

Lemma byte_eqb_refl c : Byte.eqb c c = true.
Proof. apply byte_eqb_eq. reflexivity. Qed.

Lemma go_string_plain s : forallb plain_byte s = true -> go_string s = Ok s.
Proof.
  unfold go_string. induction s as [|c s IH]; intros H; [reflexivity|].
  cbn [forallb] in H. apply andb_true_iff in H as [Hc Hs]. specialize (IH Hs).
  unfold plain_byte in Hc. apply andb_true_iff in Hc as [Hbs Hctl].
  apply negb_true_iff in Hbs. apply negb_true_iff in Hctl.
  cbn [go_escape_dq]. destruct (Byte.eqb c c_dq) eqn:Hq.
  - apply byte_eqb_eq in Hq. subst c.
    cbn [go_unquote]. change (Byte.eqb c_bs c_dq) with false. change (Byte.eqb c_bs c_bs) with true.
    cbn match. change (Byte.eqb c_dq c_bs) with false. change (Byte.eqb c_dq c_dq) with true. cbn match.
    rewrite IH. reflexivity.
  - cbn [go_unquote]. rewrite Hq, Hbs, Hctl. rewrite IH. reflexivity.
Qed.

(* the escapes, one equation each: [bs e] in front of the rest *)
Lemma go_unquote_bs r : go_unquote (c_bs :: c_bs :: r) = (t <- go_unquote r ;; Ok (c_bs :: t)).
Proof. reflexivity. Qed.
Lemma go_unquote_dq r : go_unquote (c_bs :: c_dq :: r) = (t <- go_unquote r ;; Ok (c_dq :: t)).
Proof. reflexivity. Qed.
Lemma go_unquote_n r : go_unquote (c_bs :: x6e :: r) = (t <- go_unquote r ;; Ok (x0a :: t)).
Proof. reflexivity. Qed.
Lemma go_unquote_t r : go_unquote (c_bs :: x74 :: r) = (t <- go_unquote r ;; Ok (x09 :: t)).
Proof. reflexivity. Qed.
Lemma go_unquote_r r : go_unquote (c_bs :: x72 :: r) = (t <- go_unquote r ;; Ok (x0d :: t)).
Proof. reflexivity. Qed.
Lemma go_unquote_x h1 h2 a b r :
  hexv h1 = Some a -> hexv h2 = Some b ->
  go_unquote (c_bs :: x78 :: h1 :: h2 :: r) = (t <- go_unquote r ;; Ok (byte_of_Z (a * 16 + b) :: t)).
Proof. intros H1 H2. cbn [go_unquote]. change (Byte.eqb c_bs c_dq) with false. change (Byte.eqb c_bs c_bs) with true.
  cbn match. change (Byte.eqb x78 c_bs) with false. change (Byte.eqb x78 c_dq) with false.
  change (Byte.eqb x78 x6e) with false. change (Byte.eqb x78 x74) with false. change (Byte.eqb x78 x72) with false.
  change (Byte.eqb x78 x78) with true. cbn match. rewrite H1, H2. reflexivity. Qed.
Lemma go_unquote_u h1 h2 h3 h4 a b c d enc r :
  hexv h1 = Some a -> hexv h2 = Some b -> hexv h3 = Some c -> hexv h4 = Some d ->
  utf8 (((a * 16 + b) * 16 + c) * 16 + d) = Some enc ->
  go_unquote (c_bs :: x75 :: h1 :: h2 :: h3 :: h4 :: r) = (t <- go_unquote r ;; Ok (enc ++ t)).
Proof. intros H1 H2 H3 H4 Hu. cbn [go_unquote]. change (Byte.eqb c_bs c_dq) with false. change (Byte.eqb c_bs c_bs) with true.
  cbn match. change (Byte.eqb x75 c_bs) with false. change (Byte.eqb x75 c_dq) with false.
  change (Byte.eqb x75 x6e) with false. change (Byte.eqb x75 x74) with false. change (Byte.eqb x75 x72) with false.
  change (Byte.eqb x75 x78) with false. change (Byte.eqb x75 x75) with true. cbn match.
  rewrite H1, H2, H3, H4, Hu. reflexivity. Qed.

(* a bare double quote or a newline never occurs inside a Go literal; an escape outside the
   set is refused *)
Lemma go_unquote_bare_quote r : go_unquote (c_dq :: r) = Error ELiteral.
Proof. reflexivity. Qed.
Lemma go_unquote_newline r : go_unquote (x0a :: r) = Error ELiteral.
Proof. reflexivity. Qed.
Definition known_escape (e : byte) : bool :=
  Byte.eqb e c_bs || Byte.eqb e c_dq || Byte.eqb e x6e || Byte.eqb e x74 || Byte.eqb e x72 || Byte.eqb e x78 || Byte.eqb e x75.
Lemma go_unquote_unsupported e r : known_escape e = false -> go_unquote (c_bs :: e :: r) = Error EUnsupportedEscape.
Proof.
  unfold known_escape. intros H. repeat (apply orb_false_iff in H as [H ?]).
  cbn [go_unquote]. change (Byte.eqb c_bs c_dq) with false. change (Byte.eqb c_bs c_bs) with true. cbn match.
  repeat match goal with H : Byte.eqb e _ = false |- _ => rewrite H; clear H end. reflexivity.
Qed.
(* the single quote is such an escape: Go accepts it in rune literals only *)
Lemma go_unquote_single_quote r : go_unquote (c_bs :: x27 :: r) = Error EUnsupportedEscape.
Proof. apply go_unquote_unsupported. reflexivity. Qed.

(* ---------------------------------------------------------------- ways of writing a value *)

Definition int_category (c : category) : bool :=
  match c with CatByte | CatI16 | CatI32 | CatI64 => true | _ => false end.

Lemma int_category_value c : int_category c = true -> value_category c = true.
Proof. destruct c; cbn; congruence. Qed.

Section Literals.
  Context (q : quirks) (n : nat) (p : program) (vf tf : file) (t : ty).

  (* number *)
  Lemma eval_int_literal z :
    int_category (ty_category t) = true -> in_int_range (ty_category t) z = true ->
    eval q (S n) p vf tf t (CInt z) = Ok (VInt z).
  Proof. cbn [eval]. destruct (ty_category t); intros Hc Hr; cbn in Hc; try discriminate; cbn - [in_int_range]; rewrite Hr; reflexivity. Qed.

  Lemma eval_int_out_of_range z :
    int_category (ty_category t) = true -> in_int_range (ty_category t) z = false ->
    eval q (S n) p vf tf t (CInt z) = Error ERange.
  Proof. cbn [eval]. destruct (ty_category t); intros Hc Hr; cbn in Hc; try discriminate; cbn - [in_int_range]; rewrite Hr; reflexivity. Qed.

  (* true / false for an integer *)
  Lemma eval_int_true_false s ex :
    int_category (ty_category t) = true -> is_true s || is_false s = true ->
    eval q (S n) p vf tf t (CIdent s ex) = Ok (VInt (if is_true s then 1 else 0)).
  Proof. cbn [eval]. unfold bool_word. destruct (ty_category t); intros Hc Hs; rewrite Hs; cbn in Hc; try discriminate; reflexivity. Qed.

  (* string: the literal rule *)
  Lemma eval_string_literal s :
    ty_category t = CatString -> eval q (S n) p vf tf t (CLiteral s) = (b <- go_string s ;; Ok (VStr b)).
  Proof. intros Hc. cbn [eval]. rewrite Hc. reflexivity. Qed.
  Lemma eval_binary_literal s :
    ty_category t = CatBinary -> eval q (S n) p vf tf t (CLiteral s) = (b <- go_string s ;; Ok (VBin b)).
  Proof. intros Hc. cbn [eval]. rewrite Hc. reflexivity. Qed.
  Lemma eval_string_plain s :
    ty_category t = CatString -> forallb plain_byte s = true -> eval q (S n) p vf tf t (CLiteral s) = Ok (VStr s).
  Proof. intros Hc Hs. rewrite eval_string_literal by assumption. rewrite go_string_plain by assumption. reflexivity. Qed.

  (* boolean: true / false and 0 / 1 (any integer: positive means true) *)
  Lemma eval_bool_word s ex :
    ty_category t = CatBool -> is_true s || is_false s = true ->
    eval q (S n) p vf tf t (CIdent s ex) = Ok (VBool (is_true s)).
  Proof. intros Hc Hs. cbn [eval]. unfold bool_word. rewrite Hc, Hs. reflexivity. Qed.
  Lemma eval_bool_int z :
    ty_category t = CatBool -> eval q (S n) p vf tf t (CInt z) = Ok (VBool (0 <? z)).
  Proof. intros Hc. cbn [eval]. rewrite Hc. reflexivity. Qed.
  Lemma eval_bool_0 : ty_category t = CatBool -> eval q (S n) p vf tf t (CInt 0) = Ok (VBool false).
  Proof. apply eval_bool_int. Qed.
  Lemma eval_bool_1 : ty_category t = CatBool -> eval q (S n) p vf tf t (CInt 1) = Ok (VBool true).
  Proof. apply eval_bool_int. Qed.

  (* enum member by number: copied *)
  Lemma eval_enum_by_number z :
    ty_category t = CatEnum -> eval q (S n) p vf tf t (CInt z) = Ok (VInt z).
  Proof. intros Hc. cbn [eval]. rewrite Hc. reflexivity. Qed.

  (* enum member by name, local or through an include: its declared number *)
  Lemma eval_enum_by_name s ex g en ev :
    ty_category t = CatEnum -> ex_is_enum ex = true ->
    hop p vf (ex_index ex) = Ok g -> find_enum g (ex_sel ex) = Some en -> find_enum_value en (ex_name ex) = Some ev ->
    eval q (S n) p vf tf t (CIdent s (Some ex)) = Ok (VInt (ev_value ev)).
  Proof.
    intros Hc He Hh Hen Hev. cbn [eval]. rewrite Hc. cbn [value_category is_base_category is_container_category is_struct_like_category negb orb category_code].
    replace (bool_word CatEnum s) with (@None (result cval)) by (unfold bool_word; destruct (is_true s || is_false s); reflexivity).
    unfold denotes. rewrite Hh. cbn [bind]. rewrite He, Hen, Hev. cbn [bind]. unfold expect. rewrite Hc. reflexivity.
  Qed.

  (* int for double *)
  Lemma eval_int_for_double z :
    ty_category t = CatDouble -> eval q (S n) p vf tf t (CInt z) = Ok (VDbl (z_to_double z)).
  Proof. intros Hc. cbn [eval]. rewrite Hc. reflexivity. Qed.

  (* double *)
  Lemma eval_double_literal b :
    ty_category t = CatDouble -> dbl_finite (Z.of_N b) = true ->
    (q_negzero_lost q && dbl_is_zero (Z.of_N b) = false) ->
    eval q (S n) p vf tf t (CDouble b) = Ok (VDbl (Z.of_N b)).
  Proof. intros Hc Hf Hz. cbn [eval]. rewrite Hc. cbn. unfold go_double. rewrite Hf, Hz. reflexivity. Qed.
  Lemma eval_double_true_false s ex :
    ty_category t = CatDouble -> is_true s || is_false s = true ->
    eval q (S n) p vf tf t (CIdent s ex) = Ok (VDbl (if is_true s then z_to_double 1 else z_to_double 0)).
  Proof. intros Hc Hs. cbn [eval]. unfold bool_word. rewrite Hc, Hs. cbn. destruct (is_true s); reflexivity. Qed.
End Literals.

(* the float64 of a small integer is exact: mantissa * 2^(e - 52) = z *)
Lemma z_to_double_exact z :
  0 < z < 2 ^ 53 ->
  let b := z_to_double z in
  let e := b / two52 - 1023 in
  0 <= e <= 52 /\ (two52 + b mod two52) * 2 ^ e = z * two52.
Proof.
  intros [Hpos Hlt]. cbn zeta. unfold z_to_double.
  replace (z =? 0) with false by (symmetry; apply Z.eqb_neq; lia).
  replace (0 <? z) with true by (symmetry; apply Z.ltb_lt; lia).
  unfold Lex.round_binary64.
  assert (Hl := Z.log2_spec z Hpos). set (e0 := Z.log2 z) in *.
  assert (He0 : 0 <= e0) by apply Z.log2_nonneg.
  assert (He52 : e0 <= 52).
  { destruct (Z_le_gt_dec e0 52) as [?|Hg]; [assumption|].
    assert (2 ^ 53 <= 2 ^ e0) by (apply Z.pow_le_mono_r; lia). lia. }
  change (Z.log2 1) with 0. rewrite Z.sub_0_r.
  replace (0 <=? e0) with true by (symmetry; apply Z.leb_le; lia).
  replace (1 * 2 ^ e0 <=? z) with true by (symmetry; apply Z.leb_le; lia).
  replace (0 <=? e0 + 1) with true by (symmetry; apply Z.leb_le; lia).
  replace (1 * 2 ^ (e0 + 1) <=? z) with false.
  2:{ symmetry. apply Z.leb_gt. replace (e0 + 1) with (Z.succ e0) by lia. lia. }
  replace (e0 <? -1022) with false by (symmetry; apply Z.ltb_ge; lia).
  replace (0 <=? 52 - e0) with true by (symmetry; apply Z.leb_le; lia).
  unfold Lex.div_rne. rewrite Z.div_1_r, Z.mod_1_r. cbn [Z.mul Z.compare].
  set (m := z * 2 ^ (52 - e0)).
  assert (Hm1 : 2 ^ 52 <= m).
  { unfold m. replace (2 ^ 52) with (2 ^ e0 * 2 ^ (52 - e0)) by (rewrite <- Z.pow_add_r by lia; f_equal; lia).
    apply Z.mul_le_mono_nonneg_r; [apply Z.pow_nonneg; lia | lia]. }
  assert (Hm2 : m < 2 ^ 53).
  { unfold m. replace (2 ^ 53) with (2 ^ Z.succ e0 * 2 ^ (52 - e0)) by (rewrite <- Z.pow_add_r by lia; f_equal; lia).
    apply Z.mul_lt_mono_pos_r; [apply Z.pow_pos_nonneg; lia | lia]. }
  replace (m =? 2 ^ 53) with false by (symmetry; apply Z.eqb_neq; lia).
  replace (e0 >? 1023) with false by (symmetry; apply Z.gtb_ltb, Z.ltb_ge; lia).
  change (2 ^ 52) with two52 in *. change (2 ^ 53) with (2 * two52) in *.
  assert (Hq : ((e0 + 1023) * two52 + (m - two52)) / two52 = e0 + 1023).
  { rewrite Z.add_comm, Z.div_add by (unfold two52; lia). rewrite Z.div_small by lia. lia. }
  assert (Hr : ((e0 + 1023) * two52 + (m - two52)) mod two52 = m - two52).
  { rewrite Z.add_comm, Z.mod_add by (unfold two52; lia). apply Z.mod_small. lia. }
  rewrite Hq, Hr. split; [lia|].
  replace (e0 + 1023 - 1023) with e0 by lia. replace (two52 + (m - two52)) with m by lia.
  unfold m. rewrite <- Z.mul_assoc, <- Z.pow_add_r by lia. replace (52 - e0 + e0) with 52 by lia. reflexivity.
Qed.

(* ---------------------------------------------------------------- references *)

(* what an identifier denotes, local and across an include *)
Lemma denotes_local_const p vf ex co :
  ex_index ex = -1 -> ex_is_enum ex = false -> find_constant vf (ex_name ex) = Some co ->
  denotes p vf ex = Ok (DConst vf co).
Proof. intros Hi He Hc. unfold denotes, hop. rewrite Hi. cbn. rewrite He, Hc. reflexivity. Qed.

Lemma denotes_included_const p vf ex inc g co :
  ex_index ex <> -1 -> nth_include vf (ex_index ex) = Some inc -> include_target p inc = Some g ->
  ex_is_enum ex = false -> find_constant g (ex_name ex) = Some co ->
  denotes p vf ex = Ok (DConst g co).
Proof.
  intros Hi Hn Ht He Hc. unfold denotes, hop.
  replace (ex_index ex =? -1) with false by (symmetry; apply Z.eqb_neq; assumption).
  rewrite Hn, Ht. cbn. rewrite He, Hc. reflexivity.
Qed.

(* an identifier evaluates to what the constant it denotes evaluates to (in that
   constant's own file, at its own type), provided the value fits the position *)
Lemma eval_ref_transparent q n p vf tf t s ex g co :
  value_category (ty_category t) = true -> bool_word (ty_category t) s = None ->
  denotes p vf ex = Ok (DConst g co) ->
  eval q (S n) p vf tf t (CIdent s (Some ex)) =
  (v <- eval_top q n p g (co_type co) (co_value co) ;; expect n p tf t v).
Proof. intros Hv Hb Hd. cbn [eval]. rewrite Hv, Hb, Hd. reflexivity. Qed.

(* same kind of scalar on both sides: the very same value *)
Lemma expect_scalar_id k p tf t v :
  match ty_category t, v with
  | CatBool, VBool _ | CatDouble, VDbl _ | CatString, VStr _ | CatBinary, VBin _ | CatEnum, VInt _ => True
  | (CatByte | CatI16 | CatI32 | CatI64), VInt z => in_int_range (ty_category t) z = true
  | _, _ => False
  end -> expect k p tf t v = Ok v.
Proof.
  unfold expect. destruct (ty_category t), v; try contradiction; try reflexivity; intros H; rewrite H; reflexivity.
Qed.

(* ---------------------------------------------------------------- containers *)

Lemma eval_list_pointwise q n p vf tf t et l :
  (ty_category t = CatList \/ ty_category t = CatSet) -> ty_value t = Some et -> l <> [] ->
  eval q (S n) p vf tf t (CList l) = (vs <- mapM (eval q n p vf tf et) l ;; Ok (VList vs)).
Proof.
  intros Hc Ht Hl. cbn [eval]. destruct l as [|c l]; [congruence|]. rewrite Ht.
  destruct Hc as [-> | ->]; reflexivity.
Qed.

Lemma eval_list_forall2 q n p vf tf t et l vs :
  (ty_category t = CatList \/ ty_category t = CatSet) -> ty_value t = Some et -> l <> [] ->
  (eval q (S n) p vf tf t (CList l) = Ok (VList vs) <->
   Forall2 (fun c v => eval q n p vf tf et c = Ok v) l vs).
Proof.
  intros Hc Ht Hl. rewrite (eval_list_pointwise q n p vf tf t et l Hc Ht Hl). rewrite <- mapM_ok.
  destruct (mapM (eval q n p vf tf et) l) as [ws|e]; cbn; split; intros H; try discriminate; congruence.
Qed.

Lemma eval_list_empty q n p vf tf t :
  (ty_category t = CatList \/ ty_category t = CatSet) -> eval q (S n) p vf tf t (CList []) = Ok (VList []).
Proof. intros [Hc|Hc]; cbn [eval]; rewrite Hc; reflexivity. Qed.

Lemma eval_map_pointwise q n p vf tf t kt vt l :
  ty_category t = CatMap -> ty_key t = Some kt -> ty_value t = Some vt -> l <> [] ->
  eval q (S n) p vf tf t (CMap l) =
  (kvs <- mapM (fun kv => a <- eval q n p vf tf (bin2str kt) (fst kv) ;;
                          b <- eval q n p vf tf vt (snd kv) ;; Ok (a, b)) l ;;
   Ok (VMap (collapse_empty kvs))).
Proof. intros Hc Hk Hv Hl. cbn [eval]. rewrite Hc. destruct l; [congruence|]. rewrite Hk, Hv. reflexivity. Qed.

Lemma eval_map_forall2 q n p vf tf t kt vt l kvs :
  ty_category t = CatMap -> ty_key t = Some kt -> ty_value t = Some vt -> l <> [] ->
  Forall2 (fun kv ab => eval q n p vf tf (bin2str kt) (fst kv) = Ok (fst ab) /\
                        eval q n p vf tf vt (snd kv) = Ok (snd ab)) l kvs ->
  eval q (S n) p vf tf t (CMap l) = Ok (VMap (collapse_empty kvs)).
Proof.
  intros Hc Hk Hv Hl H. rewrite (eval_map_pointwise q n p vf tf t kt vt l Hc Hk Hv Hl).
  assert (Hm : mapM (fun kv => a <- eval q n p vf tf (bin2str kt) (fst kv) ;;
                               b <- eval q n p vf tf vt (snd kv) ;; Ok (a, b)) l = Ok kvs).
  { apply mapM_ok. clear Hl. induction H as [|kv ab l kvs [Ha Hb] _ IH]; constructor; [|exact IH].
    rewrite Ha, Hb. cbn. destruct ab; reflexivity. }
  rewrite Hm. reflexivity.
Qed.

(* keys that are not pointers to field-less structs are kept as written *)
Lemma collapse_empty_id kvs : forallb (fun kv => negb (is_empty_struct (fst kv))) kvs = true -> collapse_empty kvs = kvs.
Proof.
  induction kvs as [|kv r IH]; intros H; [reflexivity|]. cbn in H. apply andb_true_iff in H as [H1 H2].
  cbn [collapse_empty]. apply negb_true_iff in H1. rewrite H1. cbn. rewrite IH by assumption. reflexivity.
Qed.

(* a container written with a value of another kind: tolerated by the generator, an error by
   the IDL's rules *)
Definition container_kind_ok (cat : category) (c : const_value) : bool :=
  match c with
  | CIdent _ _ => true
  | CList _ => match cat with CatList | CatSet => true | _ => false end
  | CMap _ => true     (* a map literal, or "{}" for an empty list in the C++ tradition *)
  | _ => false
  end.

Lemma container_kind_mismatch q n p vf tf t c :
  is_container_category (ty_category t) = true ->
  match c with CInt _ | CDouble _ | CLiteral _ => True | CList _ => ty_category t = CatMap | _ => False end ->
  eval q (S n) p vf tf t c =
  if q_fault_tolerant q then Ok (empty_container (ty_category t)) else Error EKind.
Proof.
  intros Hc Hk. cbn [eval]. destruct (ty_category t) eqn:E; cbn in Hc; try discriminate;
    destruct c; try contradiction; try discriminate; reflexivity.
Qed.
