// Package schemaevo derives a *newer version* of a schemagen program by a sequence of compatible
// edits (property C09):
//
//	add a field with a fresh id to a struct / exception (optional or default requiredness, with or
//	without a default value) at any position, of any type: base, enum, containers (nested), an
//	existing struct-like, or a struct-like that is itself new;
//	add a member to a union;
//	add a member to an enum;
//	add a new struct-like / enum (so that added fields can name them).
//
// Nesting depth comes for free: edits pick any struct-like of the program, including those that
// occur only deep inside the fields of others (elements, map keys and values, struct fields).
// The old program is never modified. The relation produced is the one Wire/Unknown.v calls
// extendsb; the C09 check evaluates extendsb on every generated pair.
package schemaevo

import (
	"encoding/json"
	"fmt"
	"math"
	"strings"

	"verif/harness/rng"
	"verif/harness/schemagen"
)

type Edit struct {
	Kind   string `json:"kind"`             // add_field add_default_field_contained add_union_member add_enum_member add_struct add_enum
	Target string `json:"target"`           // qualified name of the edited definition
	Detail string `json:"detail,omitempty"` // field text / member
}

type Params struct {
	MinEdits, MaxEdits int
	MaxDepth           int // container nesting of added field types
}

func DefaultParams() Params { return Params{MinEdits: 6, MaxEdits: 12, MaxDepth: 3} }

// Clone deep-copies a program (through its stable JSON form).
func Clone(p *schemagen.Program) *schemagen.Program {
	b, err := json.Marshal(p)
	if err != nil {
		panic(err)
	}
	var q schemagen.Program
	if err := json.Unmarshal(b, &q); err != nil {
		panic(err)
	}
	return &q
}

type evo struct {
	r       *rng.R
	p       *schemagen.Program
	pp      Params
	counter int
	dcount  int
	edits   []Edit
	// struct-likes added by this evolution (qualified name -> true); they may be referenced
	// without restriction because nothing refers back from them
	added map[string]bool
}

// Evolve returns a new program obtained from old by compatible edits, and the edit log.
func Evolve(r *rng.R, old *schemagen.Program, pp Params) (*schemagen.Program, []Edit) {
	e := &evo{r: r, p: Clone(old), pp: pp, added: map[string]bool{}}
	n := r.Range(pp.MinEdits, pp.MaxEdits)
	// make sure the interesting kinds occur: at least one nested struct gets a field when there is one
	for i := 0; i < n; i++ {
		c := r.Intn(100)
		switch {
		case c < 58:
			e.addField(false)
		case c < 70:
			e.addField(true) // union member
		case c < 82:
			e.addEnumMember()
		case c < 92:
			e.addStruct()
		default:
			e.addEnum()
		}
	}
	if len(e.edits) == 0 {
		e.addField(false)
	}
	// bias: fields WITH A DECLARED DEFAULT added to struct-likes that occur as map value / list element /
	// set element / map key / nested field — where a reader that forgets InitDefault() for container
	// elements shows (new code reading old data must give the added field its default there too)
	for i, k := 0, r.Range(2, 4); i < k; i++ {
		e.addDefaultFieldContained()
	}
	return e.p, e.edits
}

// positions lists, per struct-like, where values of it occur inside other definitions.
func (e *evo) positions() map[string][]string {
	out := map[string][]string{}
	add := func(name, pos string) {
		for _, x := range out[name] {
			if x == pos {
				return
			}
		}
		out[name] = append(out[name], pos)
	}
	var walk func(t *schemagen.Type, pos string)
	walk = func(t *schemagen.Type, pos string) {
		switch t.Kind {
		case "struct":
			add(t.Name, pos)
		case "list":
			walk(t.Elem, "list_elem")
		case "set":
			walk(t.Elem, "set_elem")
		case "map":
			walk(t.Key, "map_key")
			walk(t.Elem, "map_value")
		}
	}
	for _, s := range e.p.Structs() {
		for _, f := range s.Fields {
			walk(f.Type, "field")
		}
	}
	return out
}

var defaultKinds = []string{"bool", "byte", "i16", "i32", "i64", "double", "string", "binary", "enum"}

// addDefaultFieldContained adds `N: [optional] T name = literal` to a struct / exception that occurs
// inside containers or as a nested field, preferring map values.
func (e *evo) addDefaultFieldContained() {
	r := e.r
	pos := e.positions()
	var cands, mapVals []*schemagen.Struct
	for _, s := range e.p.Structs() {
		if s.Kind == "union" || e.added[s.QName()] || len(pos[s.QName()]) == 0 {
			continue
		}
		cands = append(cands, s)
		for _, p := range pos[s.QName()] {
			if p == "map_value" {
				mapVals = append(mapVals, s)
			}
		}
	}
	if len(cands) == 0 {
		return
	}
	s := rng.Pick(r, cands)
	if len(mapVals) > 0 && r.Chance(2, 3) {
		s = rng.Pick(r, mapVals)
	}
	f := e.file(s.File)
	e.dcount++
	kind := defaultKinds[(e.dcount+r.Intn(3))%len(defaultKinds)]
	t := &schemagen.Type{Kind: kind}
	if kind == "enum" {
		es := e.visEnums(f)
		if len(es) == 0 {
			t = &schemagen.Type{Kind: "i32"}
		} else {
			t = &schemagen.Type{Kind: "enum", Name: rng.Pick(r, es).QName()}
		}
	}
	lit := e.genLit(t)
	if lit == nil {
		t = &schemagen.Type{Kind: "i32"}
		lit = e.genLit(t)
	}
	// a default that differs from the Go zero value shows a forgotten InitDefault()
	switch lit.Kind {
	case "bool":
		lit.Bool = true
	case "int":
		if lit.Int == 0 && lit.Enum == "" {
			lit.Int = 1
		}
	case "double":
		if lit.Bits == 0 {
			lit.Bits = math.Float64bits(1.5)
		}
	case "string", "binary":
		if lit.Str == "" {
			lit.Str = "pc"
		}
	}
	fl := &schemagen.Field{ID: e.freshID(s), Name: fmt.Sprintf("dflt_%d", len(s.Fields)+1), Type: t, Default: lit}
	for _, g := range s.Fields {
		if g.Name == fl.Name {
			fl.Name = e.fresh(fl.Name + "_")
		}
	}
	if r.Bool() {
		fl.Req, fl.ReqText = "optional", "optional"
	} else {
		fl.Req = "default"
	}
	for _, g := range s.Fields {
		g.Implicit = false
	}
	p := r.Intn(len(s.Fields) + 1)
	s.Fields = append(s.Fields, nil)
	copy(s.Fields[p+1:], s.Fields[p:])
	s.Fields[p] = fl
	e.edits = append(e.edits, Edit{Kind: "add_default_field_contained", Target: s.QName(),
		Detail: fmt.Sprintf("%d: %s %s %s (occurs as %s)", fl.ID, fl.Req, typeText(fl.Type), fl.Name, strings.Join(pos[s.QName()], ","))})
}

func (e *evo) fresh(prefix string) string {
	e.counter++
	return fmt.Sprintf("%sn%d", prefix, e.counter)
}

func (e *evo) file(name string) *schemagen.File {
	for _, f := range e.p.Files {
		if f.Name == name {
			return f
		}
	}
	return nil
}

// visible: files whose definitions file f may name (itself and its direct includes)
func (e *evo) visible(f *schemagen.File) []*schemagen.File {
	out := []*schemagen.File{f}
	for _, inc := range f.Includes {
		if g := e.file(inc); g != nil {
			out = append(out, g)
		}
	}
	return out
}

func (e *evo) visStructs(f *schemagen.File) []*schemagen.Struct {
	var out []*schemagen.Struct
	for _, vf := range e.visible(f) {
		for _, d := range vf.Defs {
			if d.Struct != nil {
				out = append(out, d.Struct)
			}
		}
	}
	return out
}

func (e *evo) visEnums(f *schemagen.File) []*schemagen.Enum {
	var out []*schemagen.Enum
	for _, vf := range e.visible(f) {
		for _, d := range vf.Defs {
			if d.Enum != nil {
				out = append(out, d.Enum)
			}
		}
	}
	return out
}

var baseKinds = []string{"bool", "byte", "i16", "i32", "i64", "double", "string", "binary"}

// genType: a type usable in file f. depth = remaining container nesting; key = map key position
// (base types and enums only: struct keys are pointers in Go and are exercised by the old fields).
func (e *evo) genType(f *schemagen.File, depth int, key bool, allowStruct bool) *schemagen.Type {
	r := e.r
	for tries := 0; tries < 20; tries++ {
		c := r.Intn(100)
		switch {
		case c < 34:
			return &schemagen.Type{Kind: rng.Pick(r, baseKinds)}
		case c < 44:
			if es := e.visEnums(f); len(es) > 0 {
				return &schemagen.Type{Kind: "enum", Name: rng.Pick(r, es).QName()}
			}
		case c < 62:
			if ss := e.visStructs(f); len(ss) > 0 && allowStruct && !key {
				return &schemagen.Type{Kind: "struct", Name: rng.Pick(r, ss).QName()}
			}
		case c < 76:
			if depth > 0 && !key {
				return &schemagen.Type{Kind: "list", Elem: e.genType(f, depth-1, false, allowStruct)}
			}
		case c < 86:
			if depth > 0 && !key {
				return &schemagen.Type{Kind: "set", Elem: e.genType(f, depth-1, false, allowStruct)}
			}
		default:
			if depth > 0 && !key {
				return &schemagen.Type{Kind: "map", Key: e.genType(f, 0, true, false), Elem: e.genType(f, depth-1, false, allowStruct)}
			}
		}
	}
	return &schemagen.Type{Kind: "i32"}
}

var litWords = []string{"", "n", "new", "added field", "Q7"}

func (e *evo) genLit(t *schemagen.Type) *schemagen.Lit {
	r := e.r
	switch t.Kind {
	case "bool":
		return &schemagen.Lit{Kind: "bool", Bool: r.Bool()}
	case "byte":
		return &schemagen.Lit{Kind: "int", Int: int64(rng.Pick(r, []int{0, 7, -1, 127, -128}))}
	case "i16":
		return &schemagen.Lit{Kind: "int", Int: int64(rng.Pick(r, []int{0, 9, -1, 32767, -32768}))}
	case "i32":
		return &schemagen.Lit{Kind: "int", Int: rng.Pick(r, []int64{0, 11, -1, math.MaxInt32, math.MinInt32})}
	case "i64":
		return &schemagen.Lit{Kind: "int", Int: rng.Pick(r, []int64{0, 13, -1, math.MaxInt64, 1 << 41})}
	case "double":
		return &schemagen.Lit{Kind: "double", Bits: math.Float64bits(rng.Pick(r, []float64{0, 2, -1.5, 0.25, 4096}))}
	case "string":
		return &schemagen.Lit{Kind: "string", Str: rng.Pick(r, litWords)}
	case "binary":
		return &schemagen.Lit{Kind: "binary", Str: rng.Pick(r, litWords)}
	case "enum":
		en := e.p.Enum(t.Name)
		if en == nil || len(en.Values) == 0 {
			return nil
		}
		ev := rng.Pick(r, en.Values)
		return &schemagen.Lit{Kind: "int", Int: ev.Value, Enum: en.QName() + "." + ev.Name}
	case "list", "set":
		if !plainLeaf(t.Elem) {
			return nil
		}
		l := &schemagen.Lit{Kind: "list", List: []*schemagen.Lit{}}
		seen := map[string]bool{}
		for i, n := 0, r.Range(0, 3); i < n; i++ {
			x := e.genLit(t.Elem)
			k := fmt.Sprintf("%v/%v/%v/%v", x.Bool, x.Int, x.Bits, x.Str)
			if x.Kind == "double" && math.Float64frombits(x.Bits) == 0 {
				k = "zero"
			}
			if seen[k] {
				continue
			}
			seen[k] = true
			l.List = append(l.List, x)
		}
		return l
	}
	return nil
}

func plainLeaf(t *schemagen.Type) bool {
	switch t.Kind {
	case "bool", "byte", "i16", "i32", "i64", "double", "string", "binary":
		return true
	}
	return false
}

// freshID picks an id no field of s uses (mostly near the existing ones, sometimes far or negative).
func (e *evo) freshID(s *schemagen.Struct) int {
	r := e.r
	used := map[int]bool{0: true}
	max := 0
	for _, f := range s.Fields {
		used[f.ID] = true
		if f.ID > max {
			max = f.ID
		}
	}
	for tries := 0; tries < 200; tries++ {
		var id int
		switch r.Intn(10) {
		case 0:
			id = -r.Range(1, 3000)
		case 1:
			id = r.Range(1, 32767)
		case 2, 3:
			id = r.Range(1, max+2)
		default:
			id = max + r.Range(1, 4)
		}
		if id > 32767 || id < -32768 || used[id] {
			continue
		}
		return id
	}
	for id := 1; id < 32767; id++ {
		if !used[id] {
			return id
		}
	}
	return 32767
}

func (e *evo) structsOfKind(union bool) []*schemagen.Struct {
	var out []*schemagen.Struct
	for _, s := range e.p.Structs() {
		if (s.Kind == "union") == union {
			out = append(out, s)
		}
	}
	return out
}

var fieldWords = []string{"added", "extra", "newer", "more", "vnext"}

// addField adds a field to a struct / exception (union = false) or a member to a union.
func (e *evo) addField(union bool) {
	r := e.r
	cands := e.structsOfKind(union)
	if len(cands) == 0 {
		return
	}
	s := rng.Pick(r, cands)
	f := e.file(s.File)
	fl := &schemagen.Field{ID: e.freshID(s), Name: fmt.Sprintf("%s_%d", rng.Pick(r, fieldWords), len(s.Fields)+1)}
	for _, g := range s.Fields {
		if g.Name == fl.Name {
			fl.Name = e.fresh(fl.Name + "_")
		}
	}
	fl.Type = e.genType(f, e.pp.MaxDepth, false, true)
	switch {
	case union:
		fl.Req = "optional"
		if r.Chance(1, 3) {
			fl.ReqText = "optional"
		}
	case fl.Type.Kind == "struct" && !e.added[fl.Type.Name]:
		// a direct reference to an existing struct-like stays optional: no new non-optional cycle
		fl.Req, fl.ReqText = "optional", "optional"
	case r.Bool():
		fl.Req, fl.ReqText = "optional", "optional"
	default:
		fl.Req = "default"
	}
	hasUnionDefault := false
	for _, g := range s.Fields {
		if g.Default != nil {
			hasUnionDefault = true
		}
	}
	if r.Chance(2, 5) && !(union && hasUnionDefault) && !(union && !r.Chance(1, 5)) {
		fl.Default = e.genLit(fl.Type)
	}
	// the new version spells every id out: inserting a field must not move implicit ids
	for _, g := range s.Fields {
		g.Implicit = false
	}
	pos := r.Intn(len(s.Fields) + 1)
	s.Fields = append(s.Fields, nil)
	copy(s.Fields[pos+1:], s.Fields[pos:])
	s.Fields[pos] = fl
	kind := "add_field"
	if union {
		kind = "add_union_member"
	}
	e.edits = append(e.edits, Edit{Kind: kind, Target: s.QName(), Detail: fmt.Sprintf("%d: %s %s %s", fl.ID, fl.Req, typeText(fl.Type), fl.Name)})
}

func typeText(t *schemagen.Type) string {
	switch t.Kind {
	case "enum", "struct":
		return t.Name
	case "list", "set":
		return t.Kind + "<" + typeText(t.Elem) + ">"
	case "map":
		return "map<" + typeText(t.Key) + "," + typeText(t.Elem) + ">"
	}
	return t.Kind
}

func (e *evo) addEnumMember() {
	r := e.r
	es := e.p.Enums()
	if len(es) == 0 {
		return
	}
	en := rng.Pick(r, es)
	used := map[int64]bool{}
	for _, v := range en.Values {
		used[v.Value] = true
	}
	var v int64
	switch r.Intn(4) {
	case 0:
		v = -int64(r.Range(1, 5000))
	case 1:
		v = math.MaxInt32 - int64(r.Intn(50))
	default:
		v = int64(r.Range(0, 300))
	}
	for used[v] {
		v++
		if v > math.MaxInt32 {
			v = 1
		}
	}
	name := fmt.Sprintf("%s_N%d", strings.ToUpper(en.Name), len(en.Values))
	for _, x := range en.Values {
		if x.Name == name {
			name = e.fresh(name + "_")
		}
	}
	// appended at the end with an explicit value: implicit values of the old members do not move
	en.Values = append(en.Values, schemagen.EnumValue{Name: name, Value: v})
	e.edits = append(e.edits, Edit{Kind: "add_enum_member", Target: en.QName(), Detail: fmt.Sprintf("%s = %d", name, v)})
}

// addStruct defines a new struct-like in front of the first struct-like of a file.
func (e *evo) addStruct() {
	r := e.r
	f := rng.Pick(r, e.p.Files)
	kind := "struct"
	if r.Chance(1, 5) {
		kind = "union"
	}
	s := &schemagen.Struct{File: f.Name, Name: e.fresh(map[string]string{"struct": "St", "union": "Un"}[kind]), Kind: kind}
	id := 1
	for i, n := 0, r.Range(1, 4); i < n; i++ {
		fl := &schemagen.Field{ID: id, Name: fmt.Sprintf("g%d", i+1), Type: e.genType(f, 2, false, false)}
		id += r.Range(1, 3)
		switch {
		case kind == "union":
			fl.Req = "optional"
		case r.Chance(1, 4):
			fl.Req, fl.ReqText = "required", "required"
		case r.Bool():
			fl.Req, fl.ReqText = "optional", "optional"
		default:
			fl.Req = "default"
		}
		if kind != "union" && r.Chance(1, 3) {
			fl.Default = e.genLit(fl.Type)
		}
		s.Fields = append(s.Fields, fl)
	}
	pos := len(f.Defs)
	for i, d := range f.Defs {
		if d.Struct != nil {
			pos = i
			break
		}
	}
	f.Defs = append(f.Defs, nil)
	copy(f.Defs[pos+1:], f.Defs[pos:])
	f.Defs[pos] = &schemagen.Def{Struct: s}
	e.added[s.QName()] = true
	e.edits = append(e.edits, Edit{Kind: "add_struct", Target: s.QName()})
}

func (e *evo) addEnum() {
	r := e.r
	f := rng.Pick(r, e.p.Files)
	en := &schemagen.Enum{File: f.Name, Name: e.fresh("En")}
	v := int64(r.Range(0, 3))
	for i, n := 0, r.Range(1, 4); i < n; i++ {
		en.Values = append(en.Values, schemagen.EnumValue{Name: fmt.Sprintf("%s_V%d", strings.ToUpper(en.Name), i), Value: v})
		v += int64(r.Range(1, 5))
	}
	f.Defs = append([]*schemagen.Def{{Enum: en}}, f.Defs...)
	e.edits = append(e.edits, Edit{Kind: "add_enum", Target: en.QName()})
}

// Extends mirrors Unknown.extendsb (the Go side uses it only for its own statistics; the check
// evaluates the Coq definition on every pair).
func Extends(o, n *schemagen.Program) bool {
	for _, so := range o.Structs() {
		sn := n.Struct(so.QName())
		if sn == nil || sn.Kind != so.Kind {
			return false
		}
		for _, fo := range so.Fields {
			ok := false
			for _, fn := range sn.Fields {
				if fn.ID == fo.ID {
					a, _ := json.Marshal(struct {
						N string
						R string
						T *schemagen.Type
						D *schemagen.Lit
					}{fo.Name, fo.Req, fo.Type, fo.Default})
					b, _ := json.Marshal(struct {
						N string
						R string
						T *schemagen.Type
						D *schemagen.Lit
					}{fn.Name, fn.Req, fn.Type, fn.Default})
					ok = string(a) == string(b)
				}
			}
			if !ok {
				return false
			}
		}
		for _, fn := range sn.Fields {
			found := false
			for _, fo := range so.Fields {
				found = found || fo.ID == fn.ID
			}
			if !found && fn.Req == "required" {
				return false
			}
		}
	}
	for _, eo := range o.Enums() {
		en := n.Enum(eo.QName())
		if en == nil {
			return false
		}
		for _, m := range eo.Values {
			ok := false
			for _, m2 := range en.Values {
				ok = ok || (m.Name == m2.Name && m.Value == m2.Value)
			}
			if !ok {
				return false
			}
		}
	}
	return true
}

// AddedUnder reports, for a struct-like of the new program, the ids of the fields the old version lacks.
func AddedIDs(o, n *schemagen.Program, qname string) map[int]bool {
	out := map[int]bool{}
	sn := n.Struct(qname)
	so := o.Struct(qname)
	if sn == nil {
		return out
	}
	for _, f := range sn.Fields {
		known := false
		if so != nil {
			for _, g := range so.Fields {
				known = known || g.ID == f.ID
			}
		}
		if !known {
			out[f.ID] = true
		}
	}
	return out
}
