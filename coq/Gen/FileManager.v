(* Gen/FileManager.v — executable model of generator/file_manager.go
   (FileManager.Feed, insertionPointReplacer, FileManager.BuildResponse).
   Model only: no proofs here, so it still evaluates when a proof breaks.

   Mirrors the code line by line:
     Feed          -> feed_items / feed / feeds
     the for{} walk over renamed siblings -> probe
     insertReg.FindAllString -> find_markers
     insertionPointReplacer.Add -> add_pair
     strings.NewReplacer(...).Replace (generic replacer) -> replace
     insertionPointReplacer.Replace (keys listed in descending order) -> listed_pairs
     BuildResponse -> build *)
From Coq Require Import List Arith Bool Lia NArith.
From Coq.Strings Require Import Byte String.
From Verif Require Import Base.Bytes.
Import ListNotations.

(* plugin.Generated: Name optional, InsertionPoint ("" = not set), Content *)
Record gen := mkgen { g_name : option bytes; g_ip : bytes; g_content : bytes }.

Record fm := mkfm {
  files  : list (bytes * bytes);        (* name, content — fm.files in order (Name is rewritten on rename) *)
  patch  : list (bytes * list gen);     (* fm.patch: target name -> patches in arrival order *)
  index  : list (bytes * nat);          (* fm.index *)
  count  : list (bytes * nat);          (* fm.count: highest rename suffix consumed for a name *)
  origin : list (bytes * bytes)         (* fm.alias: renamed name -> the name it was renamed from *)
}.
Definition fm0 : fm := mkfm [] [] [] [] [].

Definition get_count (m : fm) (name : bytes) : nat :=
  match lookup name (count m) with Some k => k | None => 0 end.

Definition add_patch (m : fm) (target : bytes) (g : gen) : fm :=
  let old := match lookup target (patch m) with Some l => l | None => [] end in
  mkfm (files m) (update target (old ++ [g]) (patch m)) (index m) (count m) (origin m).

Definition add_file (m : fm) (name content : bytes) : fm :=
  mkfm (files m ++ [(name, content)]) (patch m)
       (update name (List.length (files m)) (index m)) (count m) (origin m).

(* filepath.Ext: suffix beginning at the final dot of the final path element *)
Fixpoint find_ext (rev_name acc : bytes) : option (bytes * bytes) :=
  match rev_name with
  | [] => None
  | c :: r => if Byte.eqb c x2f (* / *) then None
              else if Byte.eqb c x2e (* . *) then Some (rev r, c :: acc)
              else find_ext r (c :: acc)
  end.
Definition split_ext (name : bytes) : bytes * bytes :=
  match find_ext (rev name) [] with Some p => p | None => (name, []) end.

(* fmt.Sprintf("%s_%d%s", pth, cnt, ext) *)
Definition renamed (name : bytes) (cnt : nat) : bytes :=
  let '(stem, ext) := split_ext name in stem ++ [x5f] ++ digits cnt ++ ext.

Definition content_at (m : fm) (idx : nat) : bytes :=
  match nth_error (files m) idx with Some (_, c) => c | None => [] end.

Inductive probe_res := Dup | Fresh (new_name : bytes) (new_count : nat) | ProbeFuel.

(* the for{} loop of Feed. [k] is fm.count[name] as updated by skipped suffixes. *)
Fixpoint probe (fuel : nat) (m : fm) (name content : bytes) (idx cnt k : nat) : probe_res :=
  match fuel with
  | O => ProbeFuel
  | S f =>
    if beqb (content_at m idx) content then Dup
    else
      let rn := renamed name cnt in
      if k <? cnt then
        match lookup rn (index m) with
        | None => Fresh rn (S k)
        | Some _ => probe f m name content idx (S cnt) (S k)   (* name taken by an unrelated file *)
        end
      else
        let idx' := match lookup rn (origin m) with
                    | Some o => if beqb o name
                                then match lookup rn (index m) with Some i => i | None => 0 end
                                else idx
                    | None => idx end in
        probe f m name content idx' (S cnt) k
  end.

Fixpoint drop_unnamed (l : list gen) : list gen :=
  match l with
  | g :: r => match g_name g with None => drop_unnamed r | Some _ => l end
  | [] => []
  end.

Inductive res (A : Type) := Ok (a : A) | Err | Fuel.
Arguments Ok {A}. Arguments Err {A}. Arguments Fuel {A}.

(* one Feed call; [last] is local to the call ([] = ""). Fuel = length of items + 1. *)
Fixpoint feed_items (fuel : nat) (m : fm) (last : bytes) (items : list gen) : res fm :=
  match fuel with
  | O => Fuel
  | S f =>
    match items with
    | [] => Ok m
    | g :: rest =>
      match g_name g with
      | None => if beqb last [] then Err else feed_items f (add_patch m last g) last rest
      | Some name =>
        match lookup name (index m) with
        | None => if negb (beqb (g_ip g) []) then Err   (* named patch without a target *)
                  else feed_items f (add_file m name (g_content g)) name rest
        | Some idx =>
          if negb (beqb (g_ip g) []) then feed_items f (add_patch m name g) name rest
          else
            let k := get_count m name in
            match probe (k + List.length (files m) + 2) m name (g_content g) idx 1 k with
            | ProbeFuel => Fuel
            | Dup => feed_items f m last (drop_unnamed rest)
            | Fresh rn k' =>
                let m1 := add_file m rn (g_content g) in
                let m2 := mkfm (files m1) (patch m1) (index m1)
                               (update name k' (count m1)) (update rn name (origin m1)) in
                feed_items f m2 rn rest
            end
        end
      end
    end
  end.
Definition feed (m : fm) (items : list gen) : res fm :=
  feed_items (S (List.length items)) m [] items.

Fixpoint feeds (m : fm) (h : list (list gen)) : res fm :=
  match h with
  | [] => Ok m
  | x :: r => match feed m x with Ok m' => feeds m' r | Err => Err | Fuel => Fuel end
  end.

(* ---------- BuildResponse ---------- *)

Definition ip_prefix : bytes := B "@@thriftgo_insertion_point(".
Definition marker (ip : bytes) : bytes := ip_prefix ++ ip ++ [x29].   (* plugin.InsertionPoint *)

(* character class [$.0-9a-zA-Z_] *)
Definition ip_char (c : byte) : bool :=
  let n := Byte.to_N c in
  ((48 <=? n) && (n <=? 57) || (97 <=? n) && (n <=? 122) || (65 <=? n) && (n <=? 90)
   || (n =? 36) || (n =? 46) || (n =? 95))%N.

Fixpoint span (p : byte -> bool) (s : bytes) : bytes * bytes :=
  match s with
  | c :: r => if p c then let '(a, b) := span p r in (c :: a, b) else ([], s)
  | [] => ([], [])
  end.

Fixpoint strip_prefix (p s : bytes) : option bytes :=
  match p, s with
  | [], _ => Some s
  | a :: p', b :: s' => if Byte.eqb a b then strip_prefix p' s' else None
  | _ :: _, [] => None
  end.

(* does the regexp match at the head of s?  returns the matched marker *)
Definition marker_at (s : bytes) : option bytes :=
  match strip_prefix ip_prefix s with
  | None => None
  | Some r => let '(nm, r') := span ip_char r in
              match r' with
              | c :: _ => if Byte.eqb c x29 then Some (marker nm) else None
              | [] => None
              end
  end.

(* insertReg.FindAllString(content, -1): leftmost, non-overlapping *)
Fixpoint find_markers_go (skip : nat) (s : bytes) : list bytes :=
  match s with
  | [] => []
  | _ :: r =>
    match skip with
    | S k => find_markers_go k r
    | O => match marker_at s with
           | Some mk => mk :: find_markers_go (List.length mk - 1) r
           | None => find_markers_go 0 r
           end
    end
  end.
Definition find_markers (s : bytes) : list bytes := find_markers_go 0 s.

(* the replacer's map, insertion ordered; Add concatenates *)
Definition add_pair (pairs : list (bytes * bytes)) (k v : bytes) : list (bytes * bytes) :=
  match lookup k pairs with
  | Some old => update k (old ++ v) pairs
  | None => update k v pairs
  end.

Definition init_pairs (content : bytes) : list (bytes * bytes) :=
  fold_left (fun acc k => update k [] acc) (find_markers content) [].

Fixpoint first_match (pairs : list (bytes * bytes)) (s : bytes) : option (bytes * bytes) :=
  match pairs with
  | [] => None
  | (k, v) :: r => if is_prefix k s then Some (k, v) else first_match r s
  end.

(* strings.NewReplacer(pairs...).Replace(s): leftmost, non-overlapping; keys are non-empty *)
Fixpoint replace_go (pairs : list (bytes * bytes)) (skip : nat) (s : bytes) : bytes :=
  match s with
  | [] => []
  | c :: r =>
    match skip with
    | S k => replace_go pairs k r
    | O => match first_match pairs s with
           | Some (k, v) => v ++ replace_go pairs (List.length k - 1) r
           | None => c :: replace_go pairs 0 r
           end
    end
  end.
Definition replace (pairs : list (bytes * bytes)) (s : bytes) : bytes := replace_go pairs 0 s.

(* Go's <= on strings: byte-wise lexicographic *)
Definition bleb (a b : byte) : bool := (Byte.to_N a <=? Byte.to_N b)%N.
Fixpoint lex_leb (x y : bytes) : bool :=
  match x, y with
  | [], _ => true
  | _ :: _, [] => false
  | a :: x', b :: y' => if Byte.eqb a b then lex_leb x' y' else bleb a b
  end.

(* sort.Sort(sort.Reverse(sort.StringSlice(keys))): descending, so of two keys where one is a
   prefix of the other the longer comes first *)
Fixpoint insert_desc (x : bytes) (l : list bytes) : list bytes :=
  match l with
  | [] => [x]
  | y :: r => if lex_leb y x then x :: l else y :: insert_desc x r
  end.
Fixpoint sort_desc (l : list bytes) : list bytes :=
  match l with [] => [] | x :: r => insert_desc x (sort_desc r) end.

(* insertionPointReplacer.Replace: the keys of the table in descending order, each with its text *)
Definition listed_pairs (pairs : list (bytes * bytes)) : list (bytes * bytes) :=
  map (fun k => (k, match lookup k pairs with Some v => v | None => [] end))
      (sort_desc (map fst pairs)).

Definition patches_of (m : fm) (name : bytes) : list gen :=
  match lookup name (patch m) with Some l => l | None => [] end.

Definition build_one (m : fm) (f : bytes * bytes) : bytes * bytes :=
  let '(name, content) := f in
  let pairs := fold_left (fun acc p => add_pair acc (marker (g_ip p)) (g_content p))
                         (patches_of m name) (init_pairs content) in
  (name, replace (listed_pairs pairs) content).

Definition build (m : fm) : list (bytes * bytes) := map (build_one m) (files m).

(* whole history: Feed calls then BuildResponse; None = some Feed returned an error *)
Definition run (h : list (list gen)) : res (list (bytes * bytes)) :=
  match feeds fm0 h with Ok m => Ok (build m) | Err => Err | Fuel => Fuel end.

(* constructors used by cases files and examples *)
Definition Fl (n c : bytes) : gen := mkgen (Some n) [] c.       (* named file *)
Definition Up (ip c : bytes) : gen := mkgen None ip c.          (* unnamed patch *)
Definition Np (n ip c : bytes) : gen := mkgen (Some n) ip c.    (* named patch *)
